#!/bin/bash
# Builds the harness from files on disk only (offline) and warms the build cache.
set -e
cd "$(dirname "$0")"
export GOFLAGS=-mod=mod GOPROXY=off GOSUMDB=off GOTOOLCHAIN=local CGO_ENABLED=1
mkdir -p bin evidence
(cd harness && go build -tags verif -o ../bin/vcheck ./cmd/vcheck)
(cd harness && go build -race -tags verif -o ../bin/vcheck-race ./cmd/vcheck) || echo "race build failed (checks that need it will report BROKEN-CHECK)"
(cd harness && go build -o ../bin/fusermount3 ./cmd/fusermount3) || echo "fusermount3 shim build failed (driver B cases will count kmount_unavailable)"
echo setup ok
