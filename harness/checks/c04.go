package checks

import (
	"bytes"
	"context"
	"fmt"
	"time"

	"github.com/superfly/litefs"
	"verif/cluster"
	"verif/core"
	"verif/drv"
	"verif/mon"
	"verif/pager"
	"verif/ref"
)

func init() {
	register(&core.Check{
		ID:    "C04",
		Level: "exploration",
		Rule: "each case walks one database across the size edges {1,2,255,256,257,511,512,513} (grow, shrink, rewrite) in rollback or WAL mode on a primary with a replica, interleaved with application checkpoints, LiteFS checkpoints, node restarts, imports, drops and recreations; " +
			"after every operation, under LiteFS's own write lock, the reported position checksum of every node is compared with a from-scratch CRC64-ISO checksum over the raw database file overlaid with the committed WAL frames (reference WAL reader, stdlib crc64); " +
			"distinct = (operation kind, page size, mode, size edge before->after, node role) tuples",
		Assumptions: []string{"quiescence is obtained with DB.AcquireWriteLock", "raw files are read directly from the data directory"},
		NumCases: func(tier string) int {
			if tier == "thorough" {
				return 1600
			}
			return 96
		},
		EvalCounter: "c04_raw_checks",
		CaseTimeout: 120 * time.Second,
		Run:         runC04,
		Floors: func(tier string) map[string]int {
			return map[string]int{
				"after_commit_journal": 10, "after_commit_wal": 10, "after_apply": 10, "after_snapshot": 2,
				"after_checkpoint": 5, "after_restart": 5, "after_import": 3, "after_drop": 3,
				"edge_256": 4, "edge_257": 4, "edge_512": 4, "edge_513": 4, "edge_1": 2, "edge_255": 4, "edge_511": 4,
			}
		},
	})
}

// quiescentChecksum compares reported and from-scratch checksums of name on n.
func quiescentChecksum(c *core.Case, n *drv.Node, nodeName, name, after string, detail any) {
	db := n.Store.DB(name)
	if db == nil {
		return
	}
	ctx, cancel := context.WithTimeout(context.Background(), 10*time.Second)
	defer cancel()
	g, err := db.AcquireWriteLock(ctx, nil)
	if err != nil {
		c.Count("quiesce_failed", 1)
		return
	}
	defer g.Unlock()
	pos := mon.PosOf(n, name)
	if pos.TXID == 0 {
		return
	}
	img := mon.RawImage(mon.DBDir(n, name))
	c.Count("c04_raw_checks", 1)
	c.Count("after_"+after, 1)
	if got := img.Checksum(); got != pos.Chk {
		c.Violate("C04/raw-checksum-mismatch", fmt.Sprintf("%s/%s after %s: reported checksum %x != from-scratch checksum %x over raw files (pageN=%d, txid=%d)", nodeName, name, after, pos.Chk, got, img.PageN, pos.TXID), detail)
	}
	if img.PageN == 0 && pos.Chk != ref.ChecksumFlag {
		c.Violate("C04/empty-checksum", fmt.Sprintf("%s/%s after %s: empty/dropped database reports %x, expected %x", nodeName, name, after, pos.Chk, ref.ChecksumFlag), detail)
	}
}

func runC04(c *core.Case) {
	edges := []uint32{1, 2, 255, 256, 257, 511, 512, 513}
	ps := []uint32{512, 1024, 4096, 512}[c.Index%4]
	wal := (c.Index/4)%2 == 1
	if c.Index%16 == 2 {
		// SQLite's largest page size (encoded as 1 in the header), small page
		// counts, both journal modes
		ps, wal = 65536, (c.Index/16)%2 == 1
		c.Count("page_size_65536_cases", 1)
	}
	jmode := []string{"delete", "truncate", "persist"}[(c.Index/8)%3]
	tune := func(s *litefs.Store) { s.Compress = c.Index%3 == 0 }
	cl, err := cluster.New(c.Dir, []cluster.NodeOpts{{Candidate: true, Tune: tune}, {Tune: tune}})
	if err != nil {
		c.Inconclusive(err.Error())
		return
	}
	defer cl.Close()
	if err := cl.Start(0); err != nil || cl.WaitPrimary(0, 10*time.Second) == nil {
		c.Inconclusive("primary start")
		return
	}
	p := cl.Nodes[0]
	r := cl.Nodes[1]
	led := newLedger()
	var hist []string
	start := edges[(c.Index/2)%len(edges)]
	if start < 2 {
		start = 2
	}
	var w *dbWriter
	openWriter := func(img *ref.Image) bool {
		var err error
		w, err = newWriter(p.Node, "db", ps, wal, jmode, img, c.SubRng(fmt.Sprintf("w%d", len(hist))), led, 7)
		if err != nil {
			c.Violate("C04/writer-open", err.Error(), hist)
			return false
		}
		if err := w.ensure(start); err != nil {
			healthViolations(c, p.Node, "create", hist)
			if !c.Violated() {
				c.Violate("C04/create-failed", err.Error(), hist)
			}
			return false
		}
		return true
	}
	if !openWriter(nil) {
		return
	}
	hist = append(hist, fmt.Sprintf("create %d pages ps=%d wal=%v", start, ps, wal))
	mode := "journal"
	if wal {
		mode = "wal"
	}
	quiescentChecksum(c, p.Node, "n0", "db", "commit_"+mode, hist)
	replicaUp := false
	checkReplica := func(after string) {
		if !replicaUp {
			return
		}
		ok, _, timedOut := cl.WaitConverged(p, r, []string{"db"}, 5, 30*time.Second)
		if timedOut {
			c.Inconclusive("replica convergence watchdog")
			return
		}
		if !ok {
			c.Count("replica_not_converged", 1)
			return
		}
		quiescentChecksum(c, r.Node, "n1", "db", after, hist)
	}
	setSize := func(target uint32) bool {
		cur := w.d.M.PageN
		var res pager.TxResult
		if w.d.WALMode {
			spec := pager.WALSpec{NewPageN: target, Outcome: "commit", SplitFrame: true}
			lim := cur
			if target < lim {
				lim = target
			}
			for j := 0; j < 1+c.Rng.IntN(4); j++ {
				spec.Frames = append(spec.Frames, pager.FrameSpec{Pgno: 1 + uint32(c.Rng.IntN(int(lim)))})
			}
			for q := cur + 1; q <= target; q++ {
				spec.Frames = append(spec.Frames, pager.FrameSpec{Pgno: q})
			}
			spec.Frames = append(spec.Frames, pager.FrameSpec{Pgno: 1})
			res = w.conn.RunWALTx(spec)
		} else {
			spec := pager.RollbackSpec{Mode: jmode, Outcome: "commit", NewPageN: target}
			for j := 0; j < 1+c.Rng.IntN(4); j++ {
				spec.Dirty = append(spec.Dirty, 1+uint32(c.Rng.IntN(int(cur))))
			}
			res = w.conn.RunRollbackTx(spec)
		}
		if res.Err != nil {
			healthViolations(c, p.Node, "write", hist)
			if !c.Violated() {
				c.Violate("C04/write-failed", fmt.Sprintf("step %s: %v", res.ErrStep, res.Err), hist)
			}
			return false
		}
		w.record()
		c.Count(fmt.Sprintf("edge_%d", target), 1)
		c.Distinct(fmt.Sprintf("resize/ps%d/%s/%d->%d", ps, mode, cur, target))
		return true
	}

	for step := 0; step < 10; step++ {
		if healthViolations(c, p.Node, "loop", hist) {
			return
		}
		if replicaUp && healthViolations(c, r.Node, "loop(replica)", hist) {
			return
		}
		op := c.Rng.IntN(12)
		if step == 2 && !replicaUp {
			op = 100
		}
		switch {
		case op == 100 || (op == 11 && !replicaUp):
			if err := cl.Start(1); err != nil {
				c.Violate("C04/replica-start", err.Error(), hist)
				return
			}
			replicaUp = true
			hist = append(hist, "replica joins")
			checkReplica("snapshot")
		case op <= 4:
			target := edges[c.Rng.IntN(len(edges))]
			if target < 1 {
				target = 1
			}
			if !setSize(target) {
				return
			}
			hist = append(hist, fmt.Sprintf("resize to %d", target))
			quiescentChecksum(c, p.Node, "n0", "db", "commit_"+mode, hist)
			checkReplica("apply")
		case op == 5 && w.d.WALMode:
			kind := []string{"passive", "full", "restart", "truncate"}[c.Rng.IntN(4)]
			if res := w.conn.RunCheckpoint(pager.CheckpointSpec{Kind: kind}); res.Err != nil {
				c.Violate("C04/checkpoint-failed", fmt.Sprintf("%s: %v", res.ErrStep, res.Err), hist)
				return
			}
			hist = append(hist, "app checkpoint "+kind)
			quiescentChecksum(c, p.Node, "n0", "db", "checkpoint", hist)
			c.Distinct(fmt.Sprintf("ckpt-%s/ps%d/%d", kind, ps, w.d.M.PageN))
		case op == 5 || op == 6:
			if err := p.Store.DB("db").Checkpoint(context.Background()); err != nil {
				c.Violate("C04/litefs-checkpoint-failed", err.Error(), hist)
				return
			}
			if w.d.WALMode {
				w.d.WalEnd, w.d.Backfilled, w.d.WalContent = 0, true, map[uint32][]byte{}
			}
			hist = append(hist, "litefs checkpoint")
			quiescentChecksum(c, p.Node, "n0", "db", "checkpoint", hist)
			c.Distinct(fmt.Sprintf("lckpt/ps%d/%s/%d", ps, mode, w.d.M.PageN))
		case op == 7:
			// restart the primary on the same directory
			img := w.d.M
			posBefore := mon.PosOf(p.Node, "db")
			w.close()
			cl.Stop(0)
			if err := cl.Start(0); err != nil {
				c.Violate("C04/restart-failed", err.Error(), hist)
				return
			}
			if cl.WaitPrimary(0, 10*time.Second) == nil {
				c.Inconclusive("primary did not come back")
				return
			}
			p = cl.Nodes[0]
			hist = append(hist, "restart primary")
			if pa := mon.PosOf(p.Node, "db"); pa != posBefore {
				c.Violate("C04/restart-changed-position", fmt.Sprintf("%s -> %s", posBefore, pa), hist)
			}
			quiescentChecksum(c, p.Node, "n0", "db", "restart", hist)
			if !openWriter(img) {
				return
			}
			c.Distinct(fmt.Sprintf("restart/ps%d/%s/%d", ps, mode, img.PageN))
		case op == 8:
			// import a fresh image (same page size), possibly another mode
			target := edges[c.Rng.IntN(len(edges))]
			imp := ref.NewImage(ps)
			d2 := pager.NewDB(nil, "x", ps, c.SubRng(fmt.Sprintf("imp%d", step)))
			for q := uint32(2); q <= target; q++ {
				imp.Set(q, d2.RandPage())
			}
			imp.Set(1, ref.MakePage1(ps, target, wal, 0, nil))
			binaryZeroCounters(imp)
			imp.PageN = target
			w.close()
			if err := p.Store.DB("db").Import(context.Background(), bytes.NewReader(imp.Bytes())); err != nil {
				healthViolations(c, p.Node, "import", hist)
				if !c.Violated() {
					c.Violate("C04/import-failed", err.Error(), hist)
				}
				return
			}
			led.put("db", mon.PosOf(p.Node, "db"), imp)
			hist = append(hist, fmt.Sprintf("import %d pages", target))
			quiescentChecksum(c, p.Node, "n0", "db", "import", hist)
			checkReplica("apply")
			if !openWriter(imp) {
				return
			}
			c.Count(fmt.Sprintf("edge_%d", target), 1)
			c.Distinct(fmt.Sprintf("import/ps%d/%s/%d", ps, mode, target))
		case op == 9:
			// drop and recreate
			w.close()
			if err := p.Node.Remove("db"); err != nil {
				healthViolations(c, p.Node, "drop", hist)
				if !c.Violated() {
					c.Violate("C04/drop-failed", err.Error(), hist)
				}
				return
			}
			hist = append(hist, "drop")
			pos := mon.PosOf(p.Node, "db")
			c.Count("c04_raw_checks", 1)
			c.Count("after_drop", 1)
			if pos.Chk != ref.ChecksumFlag {
				c.Violate("C04/empty-checksum", fmt.Sprintf("dropped database reports checksum %x, expected %x", pos.Chk, ref.ChecksumFlag), hist)
			}
			led.put("db", pos, ref.NewImage(ps))
			checkReplica("apply")
			if replicaUp {
				if rp := mon.PosOf(r.Node, "db"); rp.Chk != ref.ChecksumFlag && rp.TXID == pos.TXID {
					c.Violate("C04/empty-checksum", fmt.Sprintf("replica reports %x for a dropped database", rp.Chk), hist)
				}
			}
			start = edges[1+c.Rng.IntN(len(edges)-1)]
			if !openWriter(nil) {
				return
			}
			hist = append(hist, fmt.Sprintf("recreate %d pages", start))
			quiescentChecksum(c, p.Node, "n0", "db", "commit_"+mode, hist)
			checkReplica("apply")
			c.Distinct(fmt.Sprintf("drop-recreate/ps%d/%s/%d", ps, mode, start))
		default:
			// rewrite without resize
			if !setSize(w.d.M.PageN) {
				return
			}
			hist = append(hist, "rewrite")
			quiescentChecksum(c, p.Node, "n0", "db", "commit_"+mode, hist)
			checkReplica("apply")
		}
		if c.Violated() {
			return
		}
	}
	if c.Index < 4 {
		c.Sample(map[string]any{"page_size": ps, "wal": wal, "journal_mode": jmode, "history": hist})
	}
}

// binaryZeroCounters zeroes change counter and schema cookie of page 1 the way
// import does, so the expected image equals what LiteFS stores.
func binaryZeroCounters(m *ref.Image) {
	p := append([]byte(nil), m.Page(1)...)
	for i := 24; i < 28; i++ {
		p[i] = 0
	}
	for i := 40; i < 44; i++ {
		p[i] = 0
	}
	m.Set(1, p)
}
