package checks

import (
	"bytes"
	"context"
	"fmt"
	"sync"
	"sync/atomic"
	"time"

	"github.com/superfly/litefs"
	"verif/core"
	"verif/drv"
	"verif/mon"
	"verif/pager"
	"verif/ref"
)

func init() {
	register(&core.Check{
		ID:    "C10",
		Level: "exploration",
		Rule: "steered cases: a snapshot (DB.WriteSnapshotTo) or export (DB.Export) is parked, by the lock-state hook H2 or an OS-layer gate, at its k-th lock transition / file open while an interferer completes inside the gap (k commits, a SQLite checkpoint of each kind + log restart + commit, a LiteFS checkpoint, a rollback), then released; plus free-running cases where a writer/checkpointer goroutine runs against a snapshot/export loop; " +
			"every snapshot/export that returns success is decoded and compared with the writer's ledger image at exactly the position it reports; distinct = (target, mode, gate, interferer, outcome) tuples",
		Assumptions: []string{"the interferer is a simulated SQLite connection following the locking protocol with a bounded busy handler", "a snapshot that fails is not judged"},
		NumCases: func(tier string) int {
			if tier == "thorough" {
				return 2 * 2 * 22 * 6 * 6
			}
			return 2*2*22*6 + 40
		},
		EvalCounter: "snapshots_judged",
		CaseTimeout: 90 * time.Second,
		Run:         runC10,
		Floors: func(tier string) map[string]int {
			return map[string]int{"snapshots_judged": 300, "steered_gate_reached": 200, "interferer_completed_inside_gate": 100, "interferer_blocked_by_snapshot": 20,
				"snapshot_ok": 200, "snapshot_failed": 1, "free_running_snapshots": 100, "position_moved_during_snapshot": 50}
		},
	})
}

type c10Env struct {
	c    *core.Case
	n    *drv.Node
	w    *dbWriter
	led  *ledger
	mu   sync.Mutex
	wal  bool
	name string
}

// takeSnapshot runs target ("snapshot"|"export") and judges a successful result.
func (e *c10Env) takeSnapshot(ctx context.Context, target string, detail map[string]any) (ok bool) {
	db := e.n.Store.DB(e.name)
	var pos mon.PosKey
	var img *ref.Image
	var buf bytes.Buffer
	if target == "export" {
		p, err := db.Export(ctx, &buf)
		if err != nil {
			e.c.Count("snapshot_failed", 1)
			return false
		}
		pos = mon.PosKey{TXID: uint64(p.TXID), Chk: uint64(p.PostApplyChecksum)}
		b := buf.Bytes()
		ps, _, _, hok := ref.HeaderInfo(b)
		if !hok {
			if len(b) == 0 && pos.TXID == 0 {
				return true
			}
			e.c.Violate("C10/export-not-a-database", fmt.Sprintf("export at %s returned %d bytes without a valid header", pos, len(b)), detail)
			return false
		}
		img = ref.ImageFromBytes(ps, b)
	} else {
		hdr, trl, err := db.WriteSnapshotTo(ctx, &buf)
		if err != nil {
			e.c.Count("snapshot_failed", 1)
			return false
		}
		pos = mon.PosKey{TXID: uint64(hdr.MaxTXID), Chk: uint64(trl.PostApplyChecksum)}
		l, err := mon.DecodeLTXReader(bytes.NewReader(buf.Bytes()), "snapshot")
		if err != nil {
			e.c.Violate("C10/snapshot-undecodable", fmt.Sprintf("snapshot at %s: %v", pos, err), detail)
			return false
		}
		img = l.Apply(nil)
	}
	e.c.Count("snapshot_ok", 1)
	e.c.Count("snapshots_judged", 1)
	var want *ref.Image
	found := false
	for i := 0; i < 2000; i++ {
		if want, found = e.led.get(e.name, pos); found {
			break
		}
		time.Sleep(time.Millisecond)
	}
	if !found {
		e.c.Violate("C10/"+target+"-position-never-committed", fmt.Sprintf("%s reports position %s which was never committed", target, pos), detail)
		return false
	}
	if d := img.Diff(want); d != "" {
		// which position does it look like?
		e.c.Violate("C10/"+target+"-mixture", fmt.Sprintf("%s completed successfully and reports position %s but its content is not the image of that position: %s", target, pos, d), detail)
		return false
	}
	return true
}

func runC10(c *core.Case) {
	nSteered := 2 * 2 * 22 * 6
	if c.Tier == "thorough" {
		nSteered = 2 * 2 * 22 * 6 * 5
	}
	wal := c.Index%2 == 1
	target := []string{"snapshot", "export"}[(c.Index/2)%2]
	ps := []uint32{512, 1024, 4096}[c.Rng.IntN(3)]
	n, err := newPrimary(c.Dir+"/data", nil)
	if err != nil {
		c.Inconclusive(err.Error())
		return
	}
	defer n.Close()
	led := newLedger()
	w, err := newWriter(n, "db", ps, wal, "delete", nil, c.SubRng("w"), led, 1)
	if err != nil {
		c.Violate("C10/setup", err.Error(), nil)
		return
	}
	defer w.close()
	w.d.BusyRetries = 40
	if err := w.ensure(uint32(6 + c.Rng.IntN(10))); err != nil {
		c.Violate("C10/setup", err.Error(), nil)
		return
	}
	for i := 0; i < 3; i++ {
		if _, err := w.txn(3); err != nil {
			c.Violate("C10/setup", err.Error(), nil)
			return
		}
	}
	e := &c10Env{c: c, n: n, w: w, led: led, wal: wal, name: "db"}
	if c.Index >= nSteered {
		c10Free(e, target)
		return
	}
	gate := (c.Index / 4) % 22
	interferer := []string{"commit1", "commit3", "ckpt+commit", "litefs-ckpt+commit", "rollback+commit", "ckpt-restart+commit2"}[(c.Index/(4*22))%6]
	detail := map[string]any{"target": target, "wal": wal, "page_size": ps, "gate": gate, "interferer": interferer}

	// The gate: the k-th event (lock transition or relevant file open) that the
	// snapshot goroutine causes after it starts.
	var events atomic.Int64
	var parked atomic.Bool
	var armed atomic.Bool
	parkedCh := make(chan string, 1)
	releaseCh := make(chan struct{})
	hit := func(label string) {
		if !armed.Load() || parked.Load() {
			return
		}
		if int(events.Add(1)) == gate+1 {
			parked.Store(true)
			parkedCh <- label
			<-releaseCh
		}
	}
	db := n.Store.DB("db")
	db.VerifOnLockStateChange(func(lt litefs.LockType, prev, next litefs.RWMutexState) {
		hit(fmt.Sprintf("%s:%s->%s", lt, prev, next))
	})
	n.OS.SetHook(func(op, kind, path string) error {
		if hasPrefix(op, "WRITESNAPSHOT") || hasPrefix(op, "EXPORT") {
			hit(op)
		}
		return nil
	})
	posBefore := mon.PosOf(n, "db")
	done := make(chan bool, 1)
	armed.Store(true)
	defer armed.Store(false)
	go func() {
		ctx, cancel := context.WithTimeout(context.Background(), 20*time.Second)
		defer cancel()
		done <- e.takeSnapshot(ctx, target, detail)
	}()
	gateLabel := ""
	select {
	case gateLabel = <-parkedCh:
		c.Count("steered_gate_reached", 1)
	case <-done:
		// fewer events than the gate index: the snapshot ran to completion unsteered
		c.Count("steered_gate_beyond_end", 1)
		c.Distinct(fmt.Sprintf("%s/wal%v/gate%d/none", target, wal, gate))
		return
	case <-time.After(30 * time.Second):
		c.Inconclusive("snapshot neither parked nor finished")
		return
	}
	detail["gate_label"] = gateLabel
	// interferer runs inside the gap
	blocked := false
	run := func(f func() error) {
		if blocked {
			return
		}
		if err := f(); err != nil {
			blocked = true
			detail["interferer_error"] = err.Error()
		}
	}
	commit := func() error { _, err := w.txn(3); return err }
	switch interferer {
	case "commit1":
		run(commit)
	case "commit3":
		run(commit)
		run(commit)
		run(commit)
	case "ckpt+commit":
		run(commit)
		if wal {
			run(func() error {
				r := w.conn.RunCheckpoint(pager.CheckpointSpec{Kind: []string{"passive", "full"}[c.Rng.IntN(2)]})
				return r.Err
			})
		}
		run(commit)
	case "ckpt-restart+commit2":
		run(commit)
		if wal {
			run(func() error {
				r := w.conn.RunCheckpoint(pager.CheckpointSpec{Kind: []string{"restart", "truncate"}[c.Rng.IntN(2)]})
				return r.Err
			})
		}
		run(commit)
		run(commit)
	case "litefs-ckpt+commit":
		run(commit)
		run(func() error {
			ctx, cancel := context.WithTimeout(context.Background(), 20*time.Millisecond)
			defer cancel()
			err := db.Checkpoint(ctx)
			if err == nil && w.d.WALMode {
				w.d.WalEnd, w.d.Backfilled, w.d.WalContent = 0, true, map[uint32][]byte{}
			}
			return err
		})
		run(commit)
	case "rollback+commit":
		run(func() error {
			if w.d.WALMode {
				r := w.conn.RunWALTx(pager.WALSpec{NewPageN: w.d.M.PageN, Outcome: "rollback", SplitFrame: true, Frames: []pager.FrameSpec{{Pgno: 2}, {Pgno: 3}}})
				return r.Err
			}
			r := w.conn.RunRollbackTx(pager.RollbackSpec{Mode: "delete", Outcome: "rollback", NewPageN: w.d.M.PageN + 1, Dirty: []uint32{2, 3}, SpillAfter: 1})
			if r.Err == nil {
				w.record()
			}
			return r.Err
		})
		run(commit)
	}
	if healthViolations(c, n, "interferer", detail) {
		close(releaseCh)
		<-done
		return
	}
	if blocked {
		c.Count("interferer_blocked_by_snapshot", 1)
		// a refused lock is how exclusion shows; anything else is a defect of the workload
		if msg, _ := detail["interferer_error"].(string); msg != "" && !containsStr(msg, "busy") && !containsStr(msg, "deadline") {
			c.Violate("C10/interferer-error", "interferer failed with something other than a busy lock: "+msg, detail)
		}
		// leave the simulator's locks clean
		w.conn.Close()
		w.conn = nil
	} else {
		c.Count("interferer_completed_inside_gate", 1)
	}
	if mon.PosOf(n, "db") != posBefore {
		c.Count("position_moved_during_snapshot", 1)
	}
	close(releaseCh)
	select {
	case <-done:
	case <-time.After(40 * time.Second):
		c.Inconclusive("snapshot did not finish after release")
		return
	}
	healthViolations(c, n, "end", detail)
	c.Distinct(fmt.Sprintf("%s/wal%v/%s/%s/blocked%v", target, wal, gateLabel, interferer, blocked))
	if c.Index < 16 {
		c.Sample(detail)
	}
}

func containsStr(s, sub string) bool { return lastIndex(s, sub) >= 0 }

// c10Free runs a writer/checkpointer goroutine against a snapshot loop.
func c10Free(e *c10Env, target string) {
	c := e.c
	stop := make(chan struct{})
	var wg sync.WaitGroup
	wg.Add(1)
	e.w.d.BusyRetries = 20000
	var werr atomic.Value
	go func() {
		defer wg.Done()
		for i := 0; ; i++ {
			select {
			case <-stop:
				return
			default:
			}
			if _, err := e.w.txn(3); err != nil {
				werr.Store(err.Error())
				return
			}
			if i%7 == 6 {
				ctx, cancel := context.WithTimeout(context.Background(), 50*time.Millisecond)
				if err := e.n.Store.DB("db").Checkpoint(ctx); err == nil && e.w.d.WALMode {
					e.w.d.WalEnd, e.w.d.Backfilled, e.w.d.WalContent = 0, true, map[uint32][]byte{}
				}
				cancel()
			}
		}
	}()
	detail := map[string]any{"target": target, "wal": e.wal, "free_running": true}
	for i := 0; i < 12 && !c.Violated(); i++ {
		before := mon.PosOf(e.n, "db")
		ctx, cancel := context.WithTimeout(context.Background(), 10*time.Second)
		e.takeSnapshot(ctx, target, detail)
		cancel()
		c.Count("free_running_snapshots", 1)
		if mon.PosOf(e.n, "db") != before {
			c.Count("position_moved_during_snapshot", 1)
		}
	}
	close(stop)
	wg.Wait()
	if v := werr.Load(); v != nil {
		healthViolations(c, e.n, "writer", detail)
		if !c.Violated() {
			c.Violate("C10/writer-failed", v.(string), detail)
		}
	}
	healthViolations(c, e.n, "end", detail)
	c.Distinct(fmt.Sprintf("free/%s/wal%v", target, e.wal))
}
