//go:build verif

package checks

import (
	"errors"
	"fmt"
	"os"
	"path/filepath"
	"strings"
	"sync"
	"time"

	"verif/cluster"
	"verif/core"
	"verif/mon"
	"verif/pager"
	"verif/ref"
)

func init() {
	addFamily("C15", func(tier string) int {
		if tier == "thorough" {
			return 36
		}
		return 6
	}, runC15RoleChangeInRecreate, " (+ a role change inside the first transaction of a recreated database: the database was dropped, an application recreates it and dies (or is cut off) with its pages written and its journal hot, the node leaves the primary role; the recovery of the role change must leave nothing of the unfinished recreation behind - the node is a replica now and the name's next life is the new primary's, counters role_*)")
	chk := Registry["C15"]
	base := chk.Floors
	chk.Floors = func(tier string) map[string]int {
		m := map[string]int{}
		if base != nil {
			for k, v := range base(tier) {
				m[k] = v
			}
		}
		m["role_change_inside_recreate"] = 4
		return m
	}
}

func runC15RoleChangeInRecreate(c *core.Case, k int) {
	ps := []uint32{1024, 4096, 512}[k%3]
	mode := []string{"delete", "persist", "truncate"}[k/2%3]
	var mu sync.Mutex
	blocked := false
	cl, err := cluster.New(c.Dir, []cluster.NodeOpts{{Candidate: true}})
	if err != nil {
		c.Inconclusive(err.Error())
		return
	}
	defer cl.Close()
	cl.Svc.SetInject(func(node, op string) error {
		mu.Lock()
		defer mu.Unlock()
		if blocked && op == "acquire" {
			return errors.New("scripted: acquire unavailable")
		}
		return nil
	})
	if err := cl.Start(0); err != nil || cl.WaitPrimary(0, 10*time.Second) == nil {
		c.Inconclusive("primary start")
		return
	}
	P := cl.Nodes[0]
	var hist []string
	detail := map[string]any{"page_size": ps, "journal_mode": mode, "history": &hist}
	d1 := pager.NewDB(P.Node, "db", ps, c.SubRng("d1"))
	A, err := d1.Open(1)
	if err != nil {
		c.Violate("C15/setup", err.Error(), detail)
		return
	}
	for i := 0; i < 2; i++ {
		if res := A.RunRollbackTx(pager.RollbackSpec{Mode: mode, Outcome: "commit", NewPageN: uint32(4 + i), Dirty: []uint32{2}}); res.Err != nil {
			c.Violate("C15/setup", fmt.Sprintf("%s: %v", res.ErrStep, res.Err), detail)
			return
		}
	}
	A.Close()
	prev := mon.PosOf(P.Node, "db")
	if err := P.Node.Remove("db"); err != nil {
		c.Violate("C15/drop-failed", err.Error(), detail)
		return
	}
	c.Count("drops", 1)
	tomb := mon.PosOf(P.Node, "db")
	if tomb.TXID != prev.TXID+1 || tomb.Chk != ref.ChecksumFlag {
		c.Violate("C15/drop-position", fmt.Sprintf("after the drop the position is %s, expected txid %d with the empty checksum", tomb, prev.TXID+1), detail)
		return
	}
	hist = append(hist, fmt.Sprintf("created, 2 transactions, dropped at %s", tomb))
	// ---- the recreation's first transaction is cut off with its pages written
	d2 := pager.NewDB(P.Node, "db", ps, c.SubRng("d2"))
	B, err := d2.Open(2)
	if err != nil {
		c.Violate("C15/recreate-failed", "open: "+err.Error(), detail)
		return
	}
	writes := 0
	d2.Hook = func(step string) error {
		if strings.HasPrefix(step, "db write page") {
			writes++
		}
		if strings.HasPrefix(step, "journal finalize") {
			return pager.ErrAbort
		}
		return nil
	}
	res := B.RunRollbackTx(pager.RollbackSpec{Mode: mode, Outcome: "commit", NewPageN: uint32(3 + c.Rng.IntN(4))})
	d2.Hook = nil
	if !res.Aborted || writes == 0 {
		c.Inconclusive(fmt.Sprintf("the first transaction was not cut off as planned (aborted %v, %d page writes, %v)", res.Aborted, writes, res.Err))
		return
	}
	B.Close() // the application is gone; its journal is hot, its pages are in the file
	hist = append(hist, fmt.Sprintf("recreation cut off before the journal is finalised (%d pages written)", writes))
	if p := mon.PosOf(P.Node, "db"); p != tomb {
		c.Violate("C15/recreate-sequence", fmt.Sprintf("an unfinished first transaction moved the position %s -> %s", tomb, p), detail)
		return
	}
	// ---- the node leaves the primary role
	mu.Lock()
	blocked = true
	mu.Unlock()
	if k%2 == 0 {
		P.Store.Demote()
	} else {
		cl.Svc.Expire()
	}
	for i := 0; P.Store.IsPrimary(); i++ {
		if i > 10000 {
			c.Inconclusive("the node did not leave the primary role")
			return
		}
		time.Sleep(time.Millisecond)
	}
	c.Count("role_change_inside_recreate", 1)
	// the recovery of the role change runs right after; give it a moment, then look
	dbDir := mon.DBDir(P.Node, "db")
	hot := func() bool {
		b, err := os.ReadFile(filepath.Join(dbDir, "journal"))
		return err == nil && len(b) >= 8 && string(b[:8]) == "\xd9\xd5\x05\xf9\x20\xa1\x63\xd7"
	}
	for i := 0; i < 3000 && hot(); i++ {
		time.Sleep(time.Millisecond)
	}
	if healthViolations(c, P.Node, "role change inside a recreation", detail) {
		return
	}
	img := mon.RawImage(dbDir)
	hist = append(hist, fmt.Sprintf("node is a replica now: journal hot %v, %d pages in its files, position %s", hot(), img.PageN, mon.PosOf(P.Node, "db")))
	if hot() || img.PageN != 0 {
		c.Violate("C15/role-change-left-unfinished-recreation", fmt.Sprintf("the database was dropped (position %s) and an application's recreation was cut off inside its first transaction; the node then left the primary role and its recovery left the unfinished recreation in place (hot journal: %v, %d uncommitted pages in the database file): a later recovery on this node plays that journal over whatever the new primary has replicated under the name", tomb, hot(), img.PageN), detail)
		return
	}
	c.Count("role_recreation_cleaned_up", 1)
	c.Distinct(fmt.Sprintf("role-in-recreate/%s/ps%d/%d", mode, ps, k%2))
}
