package checks

// Extra C11 cases (driver A, two nodes): the journal mode of a database changes
// through transactions LiteFS applies itself. After the switch the internal
// writer must take the lock set of the NEW mode: a rollback-mode reader that
// holds only SHARED on the replica must keep the next replicated transaction
// out until it unlocks, and must read one committed image.

import (
	"fmt"
	"time"

	"verif/cluster"
	"verif/core"
	"verif/mon"
	"verif/pager"
)

func init() {
	chk := Registry["C11"]
	if chk == nil {
		return
	}
	baseN, baseRun := chk.NumCases, chk.Run
	extra := func(tier string) int {
		if tier == "thorough" {
			return 120
		}
		return 12
	}
	chk.NumCases = func(tier string) int { return baseN(tier) + extra(tier) }
	chk.Run = func(c *core.Case) {
		if b := baseN(c.Tier); c.Index >= b {
			runC11Switch(c, c.Index-b)
			return
		}
		baseRun(c)
	}
	baseFloors := chk.Floors
	chk.Floors = func(tier string) map[string]int {
		m := map[string]int{}
		if baseFloors != nil {
			for k, v := range baseFloors(tier) {
				m[k] = v
			}
		}
		m["switch_reader_windows"] = 6
		m["switch_reader_released_then_converged"] = 6
		m["switch_primary_internal_lock_refused_under_reader"] = 6
		m["switch_primary_reader_refused_under_internal_lock"] = 6
		return m
	}
	chk.Rule += "; (+ mode-switch cases: a WAL database is switched to a rollback-journal mode on the primary and the switch is applied on a replica by LiteFS itself; a rollback-mode reader then holds SHARED on the replica while the primary commits: the replica's position must not move and the reader's bytes must not change until it unlocks; counters switch_*)"
}

func runC11Switch(c *core.Case, k int) {
	ps := []uint32{1024, 512, 4096}[k%3]
	mode := []string{"delete", "truncate", "persist"}[(k/3)%3]
	cl, err := cluster.New(c.Dir, []cluster.NodeOpts{{Candidate: true}, {}})
	if err != nil {
		c.Inconclusive(err.Error())
		return
	}
	defer cl.Close()
	if err := cl.Start(0); err != nil || cl.WaitPrimary(0, 10*time.Second) == nil {
		c.Inconclusive("primary start")
		return
	}
	if err := cl.Start(1); err != nil || !cl.WaitConnected(1, 10*time.Second) {
		c.Inconclusive("replica start")
		return
	}
	P, R := cl.Nodes[0], cl.Nodes[1]
	led := newLedger()
	w, err := newWriter(P.Node, "db", ps, true, "delete", nil, c.SubRng("w"), led, 1)
	if err != nil {
		c.Violate("C11/setup", err.Error(), nil)
		return
	}
	defer w.close()
	detail := map[string]any{"page_size": ps, "switch_to": mode}
	if err := w.ensure(uint32(4 + c.Rng.IntN(6))); err != nil {
		c.Violate("C11/setup", err.Error(), detail)
		return
	}
	for i := 0; i < 2+c.Rng.IntN(3); i++ {
		if _, err := w.txn(2); err != nil {
			c.Violate("C11/setup", err.Error(), detail)
			return
		}
	}
	conv := func(ctx string) bool {
		ok, _, timedOut := cl.WaitConverged(P, R, []string{"db"}, 6, 30*time.Second)
		if timedOut {
			c.Inconclusive("convergence watchdog: " + ctx)
			return false
		}
		if healthViolations(c, R.Node, ctx, detail) {
			return false
		}
		if !ok {
			c.Violate("C11/setup", fmt.Sprintf("%s: replica at %s, primary at %s", ctx, mon.PosOf(R.Node, "db"), mon.PosOf(P.Node, "db")), detail)
			return false
		}
		return true
	}
	if !conv("before the switch") {
		return
	}
	// the primary's application switches the journal mode
	res := w.conn.SwitchToRollback(mode)
	if res.Err != nil {
		healthViolations(c, P.Node, "switch", detail)
		if !c.Violated() {
			c.Violate("C11/setup", fmt.Sprintf("switch step %s: %v", res.ErrStep, res.Err), detail)
		}
		return
	}
	w.wal = false
	w.jmode = mode
	w.record()
	if !conv("after the switch") {
		return
	}
	c.Count("switch_applied_on_replica", 1)
	// ---- on the primary itself: after its application switched the mode, LiteFS's
	// own writers (import, halt, checkpoint, recovery all start with this lock set)
	// must take the rollback-mode locks. A reader holding SHARED keeps them out, and
	// while they hold the lock no reader gets in.
	{
		const pOwner = 78
		pf, err := P.Node.Open("db")
		if err != nil {
			c.Violate("C11/setup", "open on primary: "+err.Error(), detail)
			return
		}
		if lockRetry(pf, pOwner, pager.PendingByte, pager.PendingByte, false, 2000) == nil &&
			lockRetry(pf, pOwner, pager.SharedFirst, pager.SharedFirst+pager.SharedSize-1, false, 2000) == nil {
			_ = pf.Unlock(pOwner, pager.PendingByte, pager.PendingByte)
			if gs := P.Store.DB("db").TryAcquireWriteLock(); gs != nil {
				gs.Unlock()
				pf.Close(pOwner)
				c.Violate("C11/internal-lock-granted-under-reader", fmt.Sprintf("on the primary a rollback-mode reader holds SHARED, yet LiteFS's internal write lock was granted; the application had switched the database from WAL to %s", mode), detail)
				return
			}
			c.Count("switch_primary_internal_lock_refused_under_reader", 1)
			_ = pf.Unlock(pOwner, pager.SharedFirst, pager.SharedFirst+pager.SharedSize-1)
			if gs := P.Store.DB("db").TryAcquireWriteLock(); gs != nil {
				e1 := pf.Lock(pOwner, pager.PendingByte, pager.PendingByte, false)
				e2 := pf.Lock(pOwner, pager.SharedFirst, pager.SharedFirst+pager.SharedSize-1, false)
				gs.Unlock()
				if e1 == nil && e2 == nil {
					pf.Close(pOwner)
					c.Violate("C11/reader-admitted-under-internal-lock", fmt.Sprintf("on the primary LiteFS holds its internal write lock, yet a rollback-mode reader obtained PENDING and SHARED; the application had switched the database from WAL to %s", mode), detail)
					return
				}
				c.Count("switch_primary_reader_refused_under_internal_lock", 1)
			}
		}
		pf.Close(pOwner)
	}
	// a rollback-mode reader on the replica: PENDING shared, SHARED shared, PENDING released
	const owner = 77
	f, err := R.Node.Open("db")
	if err != nil {
		c.Violate("C11/setup", "open on replica: "+err.Error(), detail)
		return
	}
	defer f.Close(owner)
	if err := lockRetry(f, owner, pager.PendingByte, pager.PendingByte, false, 2000); err != nil {
		c.Inconclusive("reader PENDING busy")
		return
	}
	if err := lockRetry(f, owner, pager.SharedFirst, pager.SharedFirst+pager.SharedSize-1, false, 2000); err != nil {
		c.Inconclusive("reader SHARED busy")
		return
	}
	_ = f.Unlock(owner, pager.PendingByte, pager.PendingByte)
	rpos := mon.PosOf(R.Node, "db")
	before, err := mon.ReadAll(R.Node, f, owner, true)
	if err != nil {
		c.Violate("C11/setup", "read on replica: "+err.Error(), detail)
		return
	}
	// the primary commits in the new mode while the reader holds SHARED
	commits := 0
	for i := 0; i < 3 && commits < 2; i++ {
		ok, err := w.txn(2)
		if err != nil {
			c.Violate("C11/setup", "primary write after the switch: "+err.Error(), detail)
			return
		}
		if ok {
			commits++
		}
	}
	ppos := mon.PosOf(P.Node, "db")
	detail["replica_pos_when_reader_locked"], detail["primary_pos"] = rpos.String(), ppos.String()
	// give the stream time to deliver: three heartbeats' worth of frames, bounded by a watchdog
	hb0 := R.Client.Heartbeats.Load()
	for dl := time.Now().Add(5 * time.Second); time.Now().Before(dl) && R.Client.Heartbeats.Load() < hb0+2; {
		if mon.PosOf(R.Node, "db") != rpos {
			break
		}
		time.Sleep(2 * time.Millisecond)
	}
	c.Count("switch_reader_windows", 1)
	if now := mon.PosOf(R.Node, "db"); now != rpos {
		c.Violate("C11/apply-under-reader-lock", fmt.Sprintf("a rollback-mode reader holds SHARED on the replica, yet LiteFS applied a replicated transaction (%s -> %s); the database had been switched from WAL to %s by a replicated transaction", rpos, now, mode), detail)
		return
	}
	after, err := mon.ReadAll(R.Node, f, owner, true)
	if err == nil && string(after) != string(before) {
		c.Violate("C11/bytes-changed-under-reader-lock", "the bytes a rollback-mode reader sees through the replica's mount changed while it held SHARED", detail)
		return
	}
	_ = f.Unlock(owner, pager.SharedFirst, pager.SharedFirst+pager.SharedSize-1)
	if !conv("after the reader unlocked") {
		return
	}
	c.Count("switch_reader_released_then_converged", 1)
	c.Distinct(fmt.Sprintf("switch/ps%d/%s", ps, mode))
}
