package checks

import (
	"fmt"
	"os"
	"path/filepath"
	"time"

	"verif/cluster"
	"verif/core"
	"verif/mon"
	"verif/pager"
	"verif/ref"
)

func init() {
	register(&core.Check{
		ID:    "C15",
		Level: "exploration",
		Rule: "each case is a history of create / write / drop / recreate cycles of one database name on a primary (both journal modes, mode and page-size changes across recreations, drops of a database with a pending journal or a non-empty WAL) with replicas that are connected, stalled during the drop, stopped during the drop and restarted afterwards, or joining fresh afterwards; the drop is issued through the real unlink handler; " +
			"after every drop: position = previous + 1 with the empty checksum, tombstone LTX (commit 0, no pages, pre-checksum = previous), all four files gone and the name absent from the directory listing on the primary and, after convergence, on every replica; after recreation the first LTX continues the TXID sequence and replicas read the new image; distinct = (replica situation, mode before/after, page size before/after, cycle) tuples",
		Assumptions: []string{"crash points inside the drop are enumerated by C05"},
		NumCases: func(tier string) int {
			if tier == "thorough" {
				return 1000
			}
			return 80
		},
		EvalCounter: "drops",
		CaseTimeout: 150 * time.Second,
		Run:         runC15,
		Floors: func(tier string) map[string]int {
			return map[string]int{"drops": 100, "recreates": 100, "drop_seen_by_connected": 20, "drop_seen_by_stalled": 8, "drop_seen_by_restarted": 8, "drop_seen_by_fresh": 8, "primary_restarts_after_drop": 8, "empty_recreate_unlinked": 10,
				"recreate_replicated": 50, "page_size_changed_on_recreate": 10, "drop_with_pending_wal": 5, "tombstones_decoded": 100, "primary_restarts_before_drop": 8, "lag_rejoined_across_recreate": 4, "promote_recreated_on_new_primary": 3}
		},
	})
}

func listed(names []string, name string) bool {
	for _, n := range names {
		if n == name {
			return true
		}
	}
	return false
}

// dropGone verifies that database name is gone on node n.
func dropGone(c *core.Case, n *cluster.CNode, name, ctx string, detail any) bool {
	for _, f := range []string{"database", "journal", "wal", "shm"} {
		if _, err := os.Stat(filepath.Join(mon.DBDir(n.Node, name), f)); err == nil {
			c.Violate("C15/file-left-after-drop/"+f, fmt.Sprintf("%s: %s file of the dropped database still exists (%s)", n.Name, f, ctx), detail)
			return false
		}
	}
	names, err := n.Node.ReadDir()
	if err != nil {
		c.Violate("C15/readdir-error", err.Error(), detail)
		return false
	}
	for _, suffix := range []string{"", "-journal", "-wal", "-shm", "-pos"} {
		if listed(names, name+suffix) {
			c.Violate("C15/listed-after-drop", fmt.Sprintf("%s: %q is still in the directory listing after the drop (%s): %v", n.Name, name+suffix, ctx, names), detail)
			return false
		}
	}
	n.Node.Forget(name)
	if _, _, err := n.Node.Stat(name); err == nil {
		c.Violate("C15/stat-after-drop", fmt.Sprintf("%s: stat of the dropped database succeeds (%s)", n.Name, ctx), detail)
		return false
	}
	return true
}

func runC15(c *core.Case) {
	situation := []string{"connected", "stalled", "restarted", "fresh", "primary-restarted"}[c.Index%5]
	cl, err := cluster.New(c.Dir, []cluster.NodeOpts{{Candidate: true}, {}, {}})
	if err != nil {
		c.Inconclusive(err.Error())
		return
	}
	defer cl.Close()
	if err := cl.Start(0); err != nil || cl.WaitPrimary(0, 10*time.Second) == nil {
		c.Inconclusive("primary start")
		return
	}
	P, R, F := cl.Nodes[0], cl.Nodes[1], cl.Nodes[2]
	led := newLedger()
	var hist []string
	if situation != "fresh" {
		if err := cl.Start(1); err != nil {
			c.Inconclusive(err.Error())
			return
		}
	}
	psChoices := []uint32{512, 1024, 4096, 8192}
	ps := psChoices[c.Rng.IntN(len(psChoices))]
	wal := c.Rng.IntN(2) == 0
	owner := uint64(300)
	cycles := 3
	for cycle := 0; cycle < cycles && !c.Violated(); cycle++ {
		jmode := pick(c, []string{"delete", "truncate", "persist"})
		w, err := newWriter(P.Node, "db", ps, wal, jmode, nil, c.SubRng(fmt.Sprintf("w%d", cycle)), led, 1)
		if err != nil {
			c.Violate("C15/writer", err.Error(), hist)
			return
		}
		w.d.BusyRetries = 5000
		posBeforeCreate := mon.PosOf(P.Node, "db")
		if err := w.ensure(uint32(3 + c.Rng.IntN(8))); err != nil {
			healthViolations(c, P.Node, "create", hist)
			if !c.Violated() {
				c.Violate("C15/recreate-failed", fmt.Sprintf("cycle %d: creating the database (page size %d, wal=%v) under the same name failed: %v", cycle, ps, wal, err), map[string]any{"history": hist})
			}
			w.close()
			return
		}
		hist = append(hist, fmt.Sprintf("create ps=%d wal=%v", ps, wal))
		if cycle > 0 {
			c.Count("recreates", 1)
			// the first LTX of the recreated database continues the sequence
			first := posBeforeCreate.TXID + 1
			l, err := mon.DecodeLTX(filepath.Join(mon.DBDir(P.Node, "db"), "ltx", fmt.Sprintf("%016x-%016x.ltx", first, first)))
			if err != nil {
				c.Violate("C15/recreate-ltx-missing", fmt.Sprintf("after recreation no transaction file %d continues the log (position was %s): %v", first, posBeforeCreate, err), map[string]any{"history": hist})
				w.close()
				return
			}
			if uint64(l.Header.PreApplyChecksum) != ref.ChecksumFlag {
				c.Violate("C15/recreate-prechecksum", fmt.Sprintf("first transaction after recreation has pre-apply checksum %x, expected the empty checksum", uint64(l.Header.PreApplyChecksum)), map[string]any{"history": hist})
			}
		}
		for i := 0; i < 2+c.Rng.IntN(3); i++ {
			if _, err := w.txn(3); err != nil {
				healthViolations(c, P.Node, "write", hist)
				if !c.Violated() {
					c.Violate("C15/write-failed", err.Error(), map[string]any{"history": hist})
				}
				w.close()
				return
			}
		}
		hist = append(hist, "writes")
		// replicas that are up must follow the (re)created database
		for _, rn := range []*cluster.CNode{R, F} {
			if !rn.Up {
				continue
			}
			ok, _, timedOut := cl.WaitConverged(P, rn, []string{"db"}, 5, 30*time.Second)
			if timedOut {
				c.Inconclusive("convergence watchdog")
				continue
			}
			if !ok {
				c.Violate("C15/recreated-db-not-replicated", fmt.Sprintf("%s does not follow the database after cycle %d (primary %s, replica %s)", rn.Name, cycle, mon.PosOf(P.Node, "db"), mon.PosOf(rn.Node, "db")), map[string]any{"history": hist})
				w.close()
				return
			}
			owner++
			res, err := mountRead(c, rn.Node, "db", owner)
			if err == nil {
				judgeReplicaRead(c, led, rn.Name, "db", res, fmt.Sprintf("cycle %d", cycle), hist)
				if cycle > 0 {
					c.Count("recreate_replicated", 1)
				}
			}
		}
		if c.Violated() {
			w.close()
			return
		}
		// leave a pending WAL / hot journal behind in some cycles
		pendingWAL := w.d.WALMode && w.d.WalEnd > 32
		if pendingWAL {
			c.Count("drop_with_pending_wal", 1)
		}
		w.close()

		if (c.Index/5+cycle)%3 == 1 {
			// the primary restarts before the drop: at start-up LiteFS replays the newest
			// transaction file and writes the shared-memory file itself, in rollback-journal
			// mode too - the drop has to remove what LiteFS created as well
			cl.Stop(0)
			if err := cl.Start(0); err != nil || cl.WaitPrimary(0, 10*time.Second) == nil {
				healthViolations(c, P.Node, "primary restart before the drop", hist)
				if !c.Violated() {
					c.Violate("C15/primary-restart-failed", fmt.Sprintf("the primary did not come back before the drop: %v", err), map[string]any{"history": hist})
				}
				return
			}
			hist = append(hist, "primary restarted before the drop")
			c.Count("primary_restarts_before_drop", 1)
			for _, rn := range []*cluster.CNode{R, F} {
				if rn.Up {
					_ = cl.WaitConnected(rn.Index, 10*time.Second)
				}
			}
		}

		// arrange the replica situation for this drop
		switch situation {
		case "stalled":
			P.Proxy.SetMode("stall")
		case "restarted":
			cl.Stop(1)
		}
		prev := mon.PosOf(P.Node, "db")
		if err := P.Node.Remove("db"); err != nil {
			healthViolations(c, P.Node, "drop", hist)
			if !c.Violated() {
				c.Violate("C15/drop-failed", fmt.Sprintf("unlink of the database on the primary failed: %v", err), map[string]any{"history": hist})
			}
			return
		}
		c.Count("drops", 1)
		hist = append(hist, "drop")
		pos := mon.PosOf(P.Node, "db")
		detail := map[string]any{"history": hist, "prev": prev.String(), "pos": pos.String()}
		if pos.TXID != prev.TXID+1 || pos.Chk != ref.ChecksumFlag {
			c.Violate("C15/drop-position", fmt.Sprintf("after the drop the position is %s, expected txid %d with the empty checksum", pos, prev.TXID+1), detail)
			return
		}
		led.put("db", pos, ref.NewImage(ps))
		l, err := mon.DecodeLTX(filepath.Join(mon.DBDir(P.Node, "db"), "ltx", fmt.Sprintf("%016x-%016x.ltx", pos.TXID, pos.TXID)))
		if err != nil {
			c.Violate("C15/tombstone-missing", err.Error(), detail)
			return
		}
		c.Count("tombstones_decoded", 1)
		if l.Header.Commit != 0 || len(l.Pages) != 0 || uint64(l.Header.PreApplyChecksum) != prev.Chk || uint64(l.Trailer.PostApplyChecksum) != ref.ChecksumFlag {
			c.Violate("C15/tombstone-malformed", fmt.Sprintf("tombstone: commit=%d pages=%d pre=%x post=%x (previous checksum %x)", l.Header.Commit, len(l.Pages), uint64(l.Header.PreApplyChecksum), uint64(l.Trailer.PostApplyChecksum), prev.Chk), detail)
			return
		}
		if !dropGone(c, P, "db", "primary", detail) {
			return
		}
		if probs := mon.ChainProblems(filepath.Join(mon.DBDir(P.Node, "db"), "ltx"), pos.TXID, pos.Chk); len(probs) > 0 {
			c.Violate("C15/chain-broken-across-drop", probs[0], detail)
			return
		}
		// replicas
		switch situation {
		case "stalled":
			time.Sleep(time.Duration(5+c.Rng.IntN(20)) * time.Millisecond)
			P.Proxy.SetMode("pass")
		case "restarted":
			if err := cl.Start(1); err != nil {
				c.Violate("C15/replica-restart-failed", err.Error(), detail)
				return
			}
		case "fresh":
			if cycle == 0 {
				if err := cl.Start(2); err != nil {
					c.Violate("C15/replica-start-failed", err.Error(), detail)
					return
				}
			}
		case "primary-restarted":
			// the primary restarts with nothing but the tombstone left of the
			// database; then a replica that has never seen the database joins
			cl.Stop(0)
			if err := cl.Start(0); err != nil || cl.WaitPrimary(0, 10*time.Second) == nil {
				healthViolations(c, P.Node, "primary restart after drop", detail)
				if !c.Violated() {
					c.Violate("C15/primary-restart-failed", fmt.Sprintf("the primary did not come back after the drop: %v", err), detail)
				}
				return
			}
			if p2 := mon.PosOf(P.Node, "db"); p2 != pos {
				c.Violate("C15/drop-lost-on-restart", fmt.Sprintf("after a restart the primary is at %s, the drop was %s", p2, pos), detail)
				return
			}
			if !dropGone(c, P, "db", "primary after restart", detail) {
				return
			}
			c.Count("primary_restarts_after_drop", 1)
			if cycle == 0 {
				if err := cl.Start(2); err != nil {
					c.Violate("C15/replica-start-failed", err.Error(), detail)
					return
				}
			}
		}
		for _, rn := range []*cluster.CNode{R, F} {
			if !rn.Up {
				continue
			}
			ok, _, timedOut := cl.WaitConverged(P, rn, []string{"db"}, 5, 30*time.Second)
			if timedOut {
				c.Inconclusive("convergence watchdog after drop")
				continue
			}
			if healthViolations(c, rn.Node, "replica after drop", detail) {
				return
			}
			if !ok {
				c.Violate("C15/drop-not-replicated", fmt.Sprintf("%s (%s) did not reach the drop's position %s (it is at %s)", rn.Name, situation, pos, mon.PosOf(rn.Node, "db")), detail)
				return
			}
			if !dropGone(c, rn, "db", rn.Name+" "+situation, detail) {
				return
			}
			sit := situation
			if rn == F {
				sit = "fresh"
			} else if situation == "fresh" {
				sit = "connected"
			}
			c.Count("drop_seen_by_"+sit, 1)
		}
		// the application creates the name again and deletes it before writing
		// anything (a failed start-up, a temporary file): the file must go away
		// again and nothing of it may linger on the primary or the replicas
		if c.Rng.IntN(3) == 0 {
			before := mon.PosOf(P.Node, "db")
			f, err := P.Node.OpenOrCreate("db")
			if err != nil {
				c.Violate("C15/recreate-failed", "create after drop: "+err.Error(), detail)
				return
			}
			_ = f.Release()
			hist = append(hist, "create (no write) + unlink")
			if err := P.Node.Remove("db"); err != nil {
				healthViolations(c, P.Node, "unlink of an empty recreated database", detail)
				if !c.Violated() {
					c.Violate("C15/drop-of-empty-recreated-failed", fmt.Sprintf("the name was created again after the drop and unlinked before any write: unlink failed with %v (file present: %v)", err, mon.FileExists(P.Node, "db", "database")), detail)
				}
				return
			}
			if after := mon.PosOf(P.Node, "db"); after.TXID < before.TXID || after.Chk != ref.ChecksumFlag {
				c.Violate("C15/drop-position", fmt.Sprintf("after unlinking the empty recreated database the position is %s (was %s)", after, before), detail)
				return
			}
			if !dropGone(c, P, "db", "primary after create+unlink", detail) {
				return
			}
			led.put("db", mon.PosOf(P.Node, "db"), ref.NewImage(ps))
			for _, rn := range []*cluster.CNode{R, F} {
				if !rn.Up {
					continue
				}
				if ok, _, timedOut := cl.WaitConverged(P, rn, []string{"db"}, 5, 30*time.Second); !ok && !timedOut {
					c.Violate("C15/drop-not-replicated", fmt.Sprintf("%s did not follow the unlink of the empty recreated database (primary %s, it is at %s)", rn.Name, mon.PosOf(P.Node, "db"), mon.PosOf(rn.Node, "db")), detail)
					return
				}
				if !dropGone(c, rn, "db", rn.Name+" after create+unlink", detail) {
					return
				}
			}
			c.Count("empty_recreate_unlinked", 1)
		}
		// next cycle: maybe another page size / mode
		oldPS, oldWal := ps, wal
		if c.Rng.IntN(2) == 0 {
			ps = psChoices[c.Rng.IntN(len(psChoices))]
		}
		if c.Rng.IntN(2) == 0 {
			wal = !wal
		}
		if ps != oldPS {
			c.Count("page_size_changed_on_recreate", 1)
		}
		c.Distinct(fmt.Sprintf("%s/cycle%d/ps%d->%d/wal%v->%v/pendingwal%v", situation, cycle, oldPS, ps, oldWal, wal, pendingWAL))
	}
	// one more creation after the last drop must work and replicate (covers the page-size change)
	if !c.Violated() {
		w, err := newWriter(P.Node, "db", ps, wal, "delete", nil, c.SubRng("wlast"), led, 1)
		if err == nil {
			w.d.BusyRetries = 5000
			if err := w.ensure(4); err != nil {
				healthViolations(c, P.Node, "final create", hist)
				if !c.Violated() {
					c.Violate("C15/recreate-failed", fmt.Sprintf("creating the database again (page size %d, wal=%v) failed: %v", ps, wal, err), map[string]any{"history": hist})
				}
			} else {
				c.Count("recreates", 1)
				for _, rn := range []*cluster.CNode{R, F} {
					if rn.Up {
						if ok, _, timedOut := cl.WaitConverged(P, rn, []string{"db"}, 5, 30*time.Second); !ok && !timedOut {
							c.Violate("C15/recreated-db-not-replicated", fmt.Sprintf("%s does not follow the recreated database", rn.Name), map[string]any{"history": hist})
						} else if ok {
							c.Count("recreate_replicated", 1)
						}
					}
				}
			}
			w.close()
		}
	}
	for _, n := range cl.Nodes {
		if n.Up {
			healthViolations(c, n.Node, "end", hist)
		}
	}
	if c.Index < 4 {
		c.Sample(map[string]any{"replica_situation": situation, "history": hist})
	}
	_ = pager.PendingByte
}
