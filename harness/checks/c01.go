package checks

import (
	"context"
	"fmt"
	"sync"
	"time"

	"github.com/superfly/litefs"
	"verif/cluster"
	"verif/core"
	"verif/mon"
	"verif/ref"
)

var c01Classes = []string{"basic", "stall-catchup", "retention-snapshot", "replica-restart", "primary-change", "mid-burst", "filter", "multi-db"}

func init() {
	register(&core.Check{
		ID:    "C01",
		Level: "exploration",
		Rule: "each case is a cluster history: a scripted lease service elects a primary, 1-2 replicas join over real h2c through TCP fault proxies, a simulated SQLite writer commits/rolls back transactions (rollback or WAL mode) while the scenario injects stalls, cuts, restarts, retention sweeps and primary changes; " +
			"replica readers follow SQLite's read-lock protocol and read position, size and every page through a simulated kernel page cache that is emptied only by LiteFS's invalidation callbacks; every read is compared with the primary's ledger image at the position read; " +
			"distinct = (class, mode, page size, compress, events that actually happened) tuples",
		Assumptions: []string{"loopback network", "simulated page cache models keep_cache+explicit invalidation (at least as strict as the kernel)", "convergence bound: 5 idle heartbeats after the last fault"},
		NumCases: func(tier string) int {
			if tier == "thorough" {
				return 640
			}
			return 64
		},
		EvalCounter: "reads",
		MaxWorkers:  16,
		CaseTimeout: 150 * time.Second,
		Run:         runC01,
		Floors: func(tier string) map[string]int {
			return map[string]int{
				"snapshot_join": 1, "incremental_catchup_ge3": 1, "replica_restart": 1, "primary_change": 1,
				"retention_forced_snapshot": 1, "reads_matched": 200, "inv_range": 50, "converged": 20, "filter_checked": 1,
			}
		},
	})
}

type c01Env struct {
	c      *core.Case
	cl     *cluster.Cluster
	led    *ledger
	names  []string
	ps     uint32
	wal    bool
	jmode  string
	owner  uint64
	events map[string]bool
}

func (e *c01Env) readAll(ctx string) {
	for _, r := range e.cl.Nodes {
		if !r.Up || r.Store.IsPrimary() {
			continue
		}
		for _, name := range e.names {
			e.owner++
			res, err := mountRead(e.c, r.Node, name, e.owner)
			if err != nil {
				e.c.Violate("C01/read-error", fmt.Sprintf("%s reading %s: %v (%s)", r.Name, name, err, ctx), nil)
				continue
			}
			judgeReplicaRead(e.c, e.led, r.Name, name, res, ctx, nil)
		}
	}
}

// converge waits for every up replica to reach the primary's positions.
func (e *c01Env) converge(ctx string) {
	p := e.cl.Primary()
	if p == nil {
		e.c.Inconclusive("no primary at convergence point: " + ctx)
		return
	}
	for _, r := range e.cl.Nodes {
		if !r.Up || r == p {
			continue
		}
		names := e.names
		if len(r.Opts.Filter) > 0 {
			names = r.Opts.Filter
		}
		ok, beats, timedOut := e.cl.WaitConverged(p, r, names, 5, 60*time.Second)
		if timedOut {
			e.c.Inconclusive(fmt.Sprintf("convergence watchdog fired for %s (%s)", r.Name, ctx))
			continue
		}
		if !ok {
			var d []string
			for _, nm := range names {
				d = append(d, fmt.Sprintf("%s: primary %s replica %s", nm, mon.PosOf(p.Node, nm), mon.PosOf(r.Node, nm)))
			}
			sess := r.Client.Sessions()
			tail := sess
			if len(tail) > 4 {
				tail = tail[len(tail)-4:]
			}
			e.c.Violate("C01/no-convergence", fmt.Sprintf("%s did not reach the primary's position within %d idle heartbeats after faults stopped: %v (%s)", r.Name, beats, d, ctx), map[string]any{"sessions": tail})
			continue
		}
		e.c.Count("converged", 1)
	}
}

func runC01(c *core.Case) {
	class := c01Classes[c.Index%len(c01Classes)]
	ps := []uint32{512, 1024, 4096, 512, 4096, 8192, 65536}[(c.Index/len(c01Classes))%7]
	wal := (c.Index/len(c01Classes))%2 == 1
	jmode := []string{"delete", "truncate", "persist"}[c.Rng.IntN(3)]
	compress := c.Rng.IntN(2) == 0
	tune := func(s *litefs.Store) {
		s.Compress = compress
		s.Retention = time.Nanosecond
	}
	opts := []cluster.NodeOpts{{Candidate: true, Tune: tune}, {Candidate: class == "primary-change", Tune: tune}}
	names := []string{"db"}
	if class == "multi-db" || class == "filter" {
		names = []string{"a", "b", "c"}
	}
	if class == "filter" {
		opts = append(opts, cluster.NodeOpts{Filter: []string{"a", "c"}, Tune: tune})
	} else if c.Rng.IntN(2) == 0 {
		opts = append(opts, cluster.NodeOpts{Tune: tune})
	}
	for i := range opts {
		// an eager lock-less reader sits behind every invalidation (see drv.PageCache)
		opts[i].RefillCache = true
	}
	cl, err := cluster.New(c.Dir, opts)
	if err != nil {
		c.Inconclusive(err.Error())
		return
	}
	defer cl.Close()
	e := &c01Env{c: c, cl: cl, led: newLedger(), names: names, ps: ps, wal: wal, jmode: jmode, owner: 100, events: map[string]bool{}}
	if err := cl.Start(0); err != nil {
		c.Inconclusive("start n0: " + err.Error())
		return
	}
	if cl.WaitPrimary(0, 10*time.Second) == nil {
		c.Inconclusive("n0 did not become primary")
		return
	}
	prim := cl.Nodes[0]
	writers := map[string]*dbWriter{}
	mkWriters := func(p *cluster.CNode) bool {
		for _, w := range writers {
			w.close()
		}
		writers = map[string]*dbWriter{}
		for i, name := range names {
			var img *ref.Image
			if pos := mon.PosOf(p.Node, name); pos.TXID > 0 {
				img, _ = e.led.get(name, pos)
				if img == nil {
					c.Violate("C01/new-primary-position-unknown", fmt.Sprintf("new primary %s is at %s for %s which no primary committed", p.Name, pos, name), nil)
					return false
				}
			}
			w, err := newWriter(p.Node, name, ps, wal, jmode, img, c.SubRng(fmt.Sprintf("w-%s-%s", p.Name, name)), e.led, uint64(10+i))
			if err != nil {
				c.Violate("C01/writer-open", err.Error(), nil)
				return false
			}
			if err := w.ensure(uint32(3 + c.Rng.IntN(12))); err != nil {
				healthViolations(c, p.Node, "create", nil)
				if !c.Violated() {
					c.Violate("C01/writer-create", err.Error(), nil)
				}
				return false
			}
			writers[name] = w
		}
		return true
	}
	wrng := c.SubRng("write-choice") // write() also runs on a burst goroutine: not the case's main generator
	write := func(k int) bool {
		for i := 0; i < k; i++ {
			name := names[wrng.IntN(len(names))]
			if _, err := writers[name].txn(6); err != nil {
				healthViolations(c, writers[name].n, "write", nil)
				if !c.Violated() {
					c.Violate("C01/primary-write-failed", err.Error(), nil)
				}
				return false
			}
			c.Count("txns", 1)
		}
		return true
	}
	startReplica := func(i int) bool {
		if err := cl.Start(i); err != nil {
			c.Violate("C01/replica-start-failed", fmt.Sprintf("n%d: %v", i, err), nil)
			return false
		}
		return true
	}
	ltxCount := func(n *cluster.CNode) int64 { return n.Client.LTXFrames.Load() }

	if !mkWriters(prim) {
		return
	}
	nrep := len(opts) - 1
	fail := false
	switch class {
	case "basic", "multi-db", "filter":
		if c.Rng.IntN(2) == 0 {
			fail = !write(3)
		}
		for i := 1; i <= nrep && !fail; i++ {
			fail = !startReplica(i)
		}
		for r := 0; r < 4 && !fail; r++ {
			fail = !write(4 + c.Rng.IntN(5))
			e.readAll("during writes")
			if r%2 == 1 {
				e.converge("between bursts")
				e.readAll("between bursts")
			}
		}
	case "stall-catchup":
		for i := 1; i <= nrep; i++ {
			fail = fail || !startReplica(i)
		}
		if !fail {
			fail = !write(3)
			e.converge("before stall")
			prim.Proxy.SetMode("stall")
			before := ltxCount(cl.Nodes[1])
			fail = fail || !write(6+c.Rng.IntN(6))
			e.readAll("while stalled")
			prim.Proxy.SetMode("pass")
			e.converge("after stall healed")
			if ltxCount(cl.Nodes[1])-before >= 3 {
				c.Count("incremental_catchup_ge3", 1)
			}
			e.readAll("after catch-up")
		}
	case "retention-snapshot":
		fail = !startReplica(1)
		if !fail {
			fail = !write(4)
			e.converge("before stop")
			cl.Stop(1)
			fail = fail || !write(8)
			// make every file older than the (1ns) retention and sweep
			time.Sleep(2 * time.Millisecond)
			_ = prim.Store.EnforceRetention(context.Background())
			snapsBefore := 0
			fail = fail || !startReplica(1)
			e.converge("after retention cut")
			for _, f := range cl.Nodes[1].Client.Frames() {
				if f.Type == 1 && f.Snapshot {
					snapsBefore++
				}
			}
			if snapsBefore > 0 {
				c.Count("retention_forced_snapshot", 1)
			}
			e.readAll("after snapshot")
			fail = fail || !write(3)
		}
	case "replica-restart":
		fail = !startReplica(1)
		if !fail {
			fail = !write(5)
			e.readAll("before restart")
			cl.Stop(1)
			fail = fail || !write(4)
			fail = fail || !startReplica(1)
			c.Count("replica_restart", 1)
			fail = fail || !write(3)
			e.readAll("after restart")
		}
	case "primary-change":
		for i := 1; i <= nrep; i++ {
			fail = fail || !startReplica(i)
		}
		if !fail {
			fail = !write(5)
			e.converge("before demotion")
			// an application on the primary has read the databases through its mount
			// (kernel page cache filled with the database file's pages, WAL not
			// checkpointed): what the node's own role-change recovery rewrites must
			// not be served from that cache once the node is a replica
			for _, name := range e.names {
				e.owner++
				if _, err := mountRead(c, prim.Node, name, e.owner); err == nil {
					c.Count("primary_cache_warmed_before_change", 1)
				}
			}
			for _, w := range writers {
				if w.conn != nil && w.d.WALMode && c.Index%2 == 0 {
					// the application ends properly: its last connection checkpoints
					// and deletes the log and the shared-memory file
					if r := w.conn.CloseLast(); r.Err != nil {
						c.Logf("close of the last connection: %s: %v", r.ErrStep, r.Err)
					} else {
						c.Count("last_connection_closed_before_change", 1)
					}
					w.conn = nil
				}
				w.close()
			}
			writers = map[string]*dbWriter{}
			// unreplicated writes on the old primary are allowed to be lost; here
			// everything is replicated first. Now move the lease.
			if c.Rng.IntN(2) == 0 {
				cl.Svc.Expire()
			} else {
				prim.Store.Demote()
				// keep n0 from re-acquiring at once: n1 is the only other candidate
			}
			np := (*cluster.CNode)(nil)
			deadline := time.Now().Add(20 * time.Second)
			for time.Now().Before(deadline) {
				if p := cl.Primary(); p != nil && p.Index != 0 {
					np = p
					break
				}
				if p := cl.Primary(); p != nil && p.Index == 0 && time.Now().After(deadline.Add(-15*time.Second)) {
					// n0 won the race again: demote it again
					prim.Store.Demote()
				}
				time.Sleep(5 * time.Millisecond)
			}
			if np == nil {
				c.Inconclusive("no primary change happened")
			} else {
				c.Count("primary_change", 1)
				prim = np
				if mkWriters(prim) {
					fail = !write(6)
					e.readAll("after primary change")
				} else {
					fail = true
				}
			}
		}
	case "mid-burst":
		var wg sync.WaitGroup
		stop := make(chan struct{})
		wg.Add(1)
		go func() {
			defer wg.Done()
			for i := 0; i < 40; i++ {
				select {
				case <-stop:
					return
				default:
				}
				if !write(1) {
					return
				}
			}
		}()
		time.Sleep(time.Duration(c.Rng.IntN(3)) * time.Millisecond)
		for i := 1; i <= nrep; i++ {
			startReplica(i)
		}
		for k := 0; k < 3; k++ {
			time.Sleep(time.Duration(1+c.Rng.IntN(4)) * time.Millisecond)
			e.readAll("mid burst")
			if c.Rng.IntN(2) == 0 {
				prim.Proxy.Cut()
				c.Count("cuts", 1)
			}
		}
		close(stop)
		wg.Wait()
		fail = c.Violated()
	}
	if fail || c.Violated() {
		for _, n := range cl.Nodes {
			if n.Up {
				healthViolations(c, n.Node, "end", nil)
			}
		}
		return
	}
	// faults have stopped: bounded convergence, then a final read everywhere
	for _, n := range cl.Nodes {
		n.Proxy.SetMode("pass")
	}
	e.converge("final")
	e.readAll("final")
	// every node's reported checksum equals the raw-file checksum
	for _, n := range cl.Nodes {
		if !n.Up {
			continue
		}
		healthViolations(c, n.Node, "end", nil)
		for _, name := range names {
			if n.Store.DB(name) != nil {
				if g, err := n.Store.DB(name).AcquireWriteLock(context.Background(), nil); err == nil {
					judgeRawChecksum(c, n.Node, name, n.Name+" final", nil)
					g.Unlock()
				}
			}
		}
		st := n.Cache.Stats()
		c.Count("inv_range", st["inv_range"])
		c.Count("inv_db", st["inv_db"])
		c.Count("inv_pos", st["inv_pos"])
		c.Count("cache_hits", st["hits"])
		if n != cl.Primary() {
			for _, f := range n.Client.Frames() {
				if f.Type == 1 && f.Snapshot {
					c.Count("snapshot_join", 1)
				} else if f.Type == 1 {
					c.Count("incremental_frames", 1)
				}
			}
		}
	}
	if class == "filter" {
		r := cl.Nodes[2]
		if db := r.Store.DB("b"); db != nil && db.Pos().TXID != 0 {
			c.Violate("C01/filter-ignored", fmt.Sprintf("replica with filter [a c] holds database b at %s", mon.PosOf(r.Node, "b")), nil)
		}
		c.Count("filter_checked", 1)
	}
	c.Distinct(fmt.Sprintf("%s/ps%d/wal%v/%s/lz4%v/nodes%d", class, ps, wal, jmode, compress, len(opts)))
	if c.Index < 8 {
		c.Sample(map[string]any{"class": class, "page_size": ps, "wal": wal, "journal_mode": jmode, "compress": compress, "nodes": len(opts), "txns": c.Counter("txns"), "reads": c.Counter("reads")})
	}
}
