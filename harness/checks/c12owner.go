//go:build verif

package checks

import (
	"context"
	"fmt"
	"sync"

	"github.com/superfly/litefs"

	"verif/core"
	"verif/drv"
	"verif/mon"
)

func init() {
	addFamily("C12", func(tier string) int {
		if tier == "thorough" {
			return 32
		}
		return 4
	}, runC12Owner, " (+ one owner, concurrent first requests: the FUSE server runs every lock request on its own goroutine, so two first requests of one lock owner (database file and -shm, two threads of one process) can run at the same time; afterwards the owner must count as ONE holder: it may upgrade where it is the sole holder, and after its unlock every lock is free, counters owner_*)")
	chk := Registry["C12"]
	base := chk.Floors
	chk.Floors = func(tier string) map[string]int {
		m := map[string]int{}
		if base != nil {
			for k, v := range base(tier) {
				m[k] = v
			}
		}
		m["owner_rounds"] = 1500
		return m
	}
}

// runC12Owner drives the per-owner layer above the RWMutexes (DB.TryLocks /
// TryRLocks / Unlock, what the FUSE lock handlers call) with concurrent first
// requests of one owner on different locks of one database.
func runC12Owner(c *core.Case, k int) {
	n, err := drv.NewNode(drv.Config{Dir: c.Dir + "/n", Candidate: true, Leaser: litefs.NewStaticLeaser(true, "localhost", "http://127.0.0.1:1")})
	if err != nil {
		c.Inconclusive(err.Error())
		return
	}
	defer n.Close()
	if !n.WaitReady(10e9) {
		c.Inconclusive("node not ready")
		return
	}
	db, err := n.Store.CreateDBIfNotExists("db")
	if err != nil {
		c.Inconclusive(err.Error())
		return
	}
	ctx := context.Background()
	pairs := [][2]litefs.LockType{
		{litefs.LockTypeShared, litefs.LockTypeDMS},
		{litefs.LockTypeShared, litefs.LockTypeShared},
		{litefs.LockTypeRead0, litefs.LockTypeDMS},
		{litefs.LockTypePending, litefs.LockTypeShared},
	}
	rounds := 1000
	for r := 0; r < rounds; r++ {
		owner := uint64(1_000_000*(k+1) + r + 1) // never used before on this database
		pair := pairs[(k+r)%len(pairs)]
		var wg sync.WaitGroup
		var ok [2]bool
		start := make(chan struct{})
		for g := 0; g < 2; g++ {
			wg.Add(1)
			go func(g int) {
				defer wg.Done()
				<-start
				ok[g] = db.TryRLocks(ctx, owner, []litefs.LockType{pair[g]})
			}(g)
		}
		close(start)
		wg.Wait()
		c.Count("owner_rounds", 1)
		c.Count("ops_checked", 2)
		detail := map[string]any{"owner": owner, "locks": fmt.Sprint(pair), "round": r}
		if !ok[0] || !ok[1] {
			c.Violate("C12/owner/shared-refused", fmt.Sprintf("two concurrent first shared requests of one owner on free locks %v returned %v", pair, ok), detail)
			return
		}
		// the owner is the only holder of both locks: POSIX lets it upgrade
		for _, lt := range []litefs.LockType{pair[0], pair[1]} {
			got, err := db.TryLocks(ctx, owner, []litefs.LockType{lt})
			if err != nil || !got {
				c.Violate("C12/owner/upgrade-refused", fmt.Sprintf("an owner that is the sole (shared) holder of %s was refused the upgrade to exclusive (%v): after two concurrent first requests it is counted as more than one holder", lt, err), detail)
				return
			}
		}
		if err := db.Unlock(ctx, owner, []litefs.LockType{pair[0], pair[1]}); err != nil {
			c.Violate("C12/owner/unlock-error", err.Error(), detail)
			return
		}
		if free, held := mon.AllUnlocked(db); !free {
			c.Violate("C12/owner/lock-left-after-unlock", fmt.Sprintf("after the owner released everything it had taken, locks are still held: %s", held), detail)
			return
		}
	}
	c.Distinct(fmt.Sprintf("owner-concurrent-first-requests/k%d", k%4))
}
