//go:build verif

package checks

import (
	"bytes"
	"context"
	"fmt"
	"io"
	"net/http"
	"strings"
	"time"

	lhttp "github.com/superfly/litefs/http"

	"verif/cluster"
	"verif/core"
	"verif/mon"
	"verif/pager"
	"verif/ref"
)

func init() {
	addFamily("C10", func(tier string) int {
		if tier == "thorough" {
			return 96
		}
		return 12
	}, runC10HotJournal, " (+ export over a dead writer's hot journal: a rollback-mode application wrote pages of an unfinished transaction into the database file (cache spill, or all of them just before the journal is finalised) and died; its locks are gone, its journal is hot. An export - DB.Export and GET /export - that completes successfully must be the committed image of the position it reports, counters hot_*)")
	chk := Registry["C10"]
	base := chk.Floors
	chk.Floors = func(tier string) map[string]int {
		m := map[string]int{}
		if base != nil {
			for k, v := range base(tier) {
				m[k] = v
			}
		}
		m["hot_exports_judged"] = 12
		return m
	}
}

func runC10HotJournal(c *core.Case, k int) {
	ps := []uint32{1024, 4096, 512}[k%3]
	mode := []string{"delete", "truncate", "persist"}[(k/3)%3]
	cl, err := cluster.New(c.Dir, []cluster.NodeOpts{{Candidate: true}})
	if err != nil {
		c.Inconclusive(err.Error())
		return
	}
	defer cl.Close()
	if err := cl.Start(0); err != nil || cl.WaitPrimary(0, 10*time.Second) == nil {
		c.Inconclusive("primary start")
		return
	}
	P := cl.Nodes[0]
	led := newLedger()
	detail := map[string]any{"page_size": ps, "journal_mode": mode}
	w, err := newWriter(P.Node, "db", ps, false, mode, nil, c.SubRng("w"), led, 1)
	if err != nil {
		c.Violate("C10/setup", err.Error(), detail)
		return
	}
	if err := w.ensure(uint32(10 + c.Rng.IntN(10))); err != nil {
		c.Violate("C10/setup", err.Error(), detail)
		return
	}
	for i := 0; i < 2; i++ {
		if _, err := w.txn(2); err != nil {
			c.Violate("C10/setup", err.Error(), detail)
			return
		}
	}
	imgA := w.d.M.Clone()
	posA := mon.PosOf(P.Node, "db")
	cur := imgA.PageN
	// ---- the application writes a transaction and dies inside it
	spec := pager.RollbackSpec{Mode: mode, Outcome: "commit", NewPageN: cur + uint32(c.Rng.IntN(3))}
	for i := 0; i < 4+c.Rng.IntN(4); i++ {
		spec.Dirty = append(spec.Dirty, 2+uint32(c.Rng.IntN(int(cur-1))))
	}
	dieAt := "journal finalize"
	if k%2 == 1 {
		spec.SpillAfter = 2 // pages reach the file while the transaction still runs
		dieAt = "spill"
	}
	dbWrites, dieAfter := 0, 1+c.Rng.IntN(2)
	lastStep := ""
	w.d.Hook = func(step string) error {
		lastStep = step
		if strings.HasPrefix(step, "db write page") {
			dbWrites++
		}
		if dieAt == "spill" && dbWrites > dieAfter && strings.HasPrefix(step, "journal") {
			return pager.ErrAbort
		}
		if strings.HasPrefix(step, "journal finalize") {
			return pager.ErrAbort
		}
		return nil
	}
	res := w.conn.RunRollbackTx(spec)
	w.d.Hook = nil
	if !res.Aborted {
		c.Inconclusive(fmt.Sprintf("the transaction was not aborted (err %v)", res.Err))
		return
	}
	w.close() // descriptors closed: locks released, hot journal and uncommitted pages stay
	detail["died_at"], detail["pages_written_before_death"] = dieAt, dbWrites
	detail["spec"], detail["died_before_step"] = spec, lastStep
	if p := mon.PosOf(P.Node, "db"); p != posA {
		c.Violate("C10/setup", fmt.Sprintf("an unfinished transaction moved the position %s -> %s", posA, p), detail)
		return
	}
	if dbWrites == 0 {
		c.Inconclusive("no page reached the database file before the death")
		return
	}
	c.Count("hot_journals_left", 1)
	judge := func(how string, data []byte, pos mon.PosKey, err error) bool {
		c.Count("hot_exports_judged", 1)
		if err != nil {
			c.Count("hot_export_refused", 1)
			return true
		}
		c.Count("hot_export_completed", 1)
		want, ok := led.get("db", pos)
		if how == "GET /export" {
			want, ok = imgA, true // (the endpoint reports no position; nothing was committed since)
		}
		if !ok {
			c.Violate("C10/export-position-unknown", fmt.Sprintf("%s reports position %s which nobody committed", how, pos), detail)
			return false
		}
		if got := ref.ImageFromBytes(ps, data); !bytes.Equal(data, want.Bytes()) {
			c.Violate("C10/export-uncommitted-page", fmt.Sprintf("hot-journal: an application died inside a rollback-journal transaction after %d of its pages had reached the database file (%s); %s completed successfully and differs from the committed image at %s: %s", dbWrites, dieAt, how, posA, got.Diff(want)), detail)
			return false
		}
		return true
	}
	var buf bytes.Buffer
	epos, eerr := P.Store.DB("db").Export(context.Background(), &buf)
	if !judge("DB.Export", buf.Bytes(), mon.PosKey{TXID: uint64(epos.TXID), Chk: uint64(epos.PostApplyChecksum)}, eerr) {
		return
	}
	rc, herr := lhttp.NewClient().Export(context.Background(), P.URL(), "db")
	var hdata []byte
	if herr == nil {
		hdata, herr = io.ReadAll(rc)
		_ = rc.Close()
	}
	if !judge("GET /export", hdata, posA, herr) {
		return
	}
	// the same request from a plain HTTP/1.1 client (curl, a proxy): however the
	// response is framed, an export that failed must not look complete
	if resp, perr := (&http.Client{Transport: &http.Transport{DisableKeepAlives: true}}).Get(P.URL() + "/export?name=db"); perr == nil {
		pdata, rerr := io.ReadAll(resp.Body)
		_ = resp.Body.Close()
		if resp.StatusCode != 200 && rerr == nil {
			rerr = fmt.Errorf("status %d", resp.StatusCode)
		}
		c.Count("hot_exports_http1", 1)
		if !judge("GET /export", pdata, posA, rerr) {
			return
		}
	}
	if healthViolations(c, P.Node, "export over a hot journal", detail) {
		return
	}
	// ---- the next application to open the database rolls the journal back; then
	// the export is the committed image again
	w2, err := newWriter(P.Node, "db", ps, false, mode, imgA, c.SubRng("w2"), led, 2)
	if err == nil {
		w2.d.BusyRetries = 2000
		if !sqlitePlaybackRestores(mon.DBDir(P.Node, "db"), ps, imgA) {
			// (SQLite's own playback would not get the committed image back from this
			// journal either: a stale later segment right behind a header whose
			// first record was never written, see C17)
			c.Count("hot_sqlite_rules_would_not_restore_either", 1)
			w2.close()
			c.Distinct(fmt.Sprintf("hot/%s/%s/ps%d/unrestorable", mode, dieAt, ps))
			return
		}
		_ = P.Store.DB("db").Recover(context.Background())
		buf.Reset()
		epos, eerr = P.Store.DB("db").Export(context.Background(), &buf)
		w2.close()
		if eerr != nil {
			raw := mon.RawImage(mon.DBDir(P.Node, "db"))
			detail["raw_vs_committed"] = raw.Diff(imgA)
			c.Violate("C10/export-failed", fmt.Sprintf("after the hot journal was rolled back: %v; database files vs committed image: %s (transaction %+v died before %q, %d pages before it)", eerr, raw.Diff(imgA), spec, lastStep, cur), detail)
			return
		}
		if !bytes.Equal(buf.Bytes(), imgA.Bytes()) {
			c.Violate("C10/export-mixture", fmt.Sprintf("after the hot journal was rolled back the export at %s differs from the committed image", epos), detail)
			return
		}
		c.Count("hot_export_after_rollback_ok", 1)
	}
	c.Distinct(fmt.Sprintf("hot/%s/%s/ps%d", mode, dieAt, ps))
}
