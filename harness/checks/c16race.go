//go:build verif

package checks

import (
	"bytes"
	"context"
	"fmt"
	"path/filepath"
	"strings"
	"sync"
	"sync/atomic"
	"time"

	"verif/cluster"
	"verif/core"
	"verif/mon"
	"verif/ref"
)

func init() {
	addFamily("C16", func(tier string) int {
		if tier == "thorough" {
			return 96
		}
		return 12
	}, runC16DropRace, " (+ an import while the database is being deleted through the mount: the import's publication is held at an OS-layer gate, `rm` runs, the import goes on; whatever the order, both are transactions of their own - the log stays one chain ending at the reported position, the database is either the imported image or gone, a replica follows and a restart succeeds, counters race_*)")
	chk := Registry["C16"]
	base := chk.Floors
	chk.Floors = func(tier string) map[string]int {
		m := map[string]int{}
		if base != nil {
			for k, v := range base(tier) {
				m[k] = v
			}
		}
		m["race_import_vs_drop_judged"] = 6
		return m
	}
}

// runC16DropRace: POST /import (or DB.Import) and an unlink of the same
// database overlap. The import holds the database's write lock; a deletion is
// a transaction as well (C15) and both take the next transaction ID.
func runC16DropRace(c *core.Case, k int) {
	ps := []uint32{1024, 4096, 512}[k%3]
	gateOp := []string{"IMPORTTOLTX", "APPLYLTX:LTX", "APPLYLTX:DB"}[(k/3)%3]
	cl, err := cluster.New(c.Dir, []cluster.NodeOpts{{Candidate: true}, {}})
	if err != nil {
		c.Inconclusive(err.Error())
		return
	}
	defer cl.Close()
	if err := cl.Start(0); err != nil || cl.WaitPrimary(0, 10*time.Second) == nil {
		c.Inconclusive("primary start")
		return
	}
	if err := cl.Start(1); err != nil || !cl.WaitConnected(1, 10*time.Second) {
		c.Inconclusive("replica start")
		return
	}
	P, R := cl.Nodes[0], cl.Nodes[1]
	led := newLedger()
	w, err := newWriter(P.Node, "db", ps, k%2 == 1, "delete", nil, c.SubRng("w"), led, 1)
	if err != nil {
		c.Violate("C16/setup", err.Error(), nil)
		return
	}
	w.d.BusyRetries = 5000
	if err := w.ensure(uint32(4 + c.Rng.IntN(6))); err != nil {
		c.Violate("C16/setup", err.Error(), nil)
		return
	}
	if _, err := w.txn(2); err != nil {
		c.Violate("C16/setup", err.Error(), nil)
		return
	}
	w.close()
	posA := mon.PosOf(P.Node, "db")
	imgIn := genImage(c, ps, pick(c, []uint32{3, 7, 12}), c.Rng.IntN(2) == 0)
	imgB := ref.ImageFromBytes(ps, maskImportBytes(imgIn.Bytes()))

	entered := make(chan struct{}, 1)
	release := make(chan struct{})
	var fired atomic.Bool
	P.Node.OS.SetHook(func(op, kind, path string) error {
		if strings.HasPrefix(op, gateOp) && strings.Contains(path, "/dbs/db/") && fired.CompareAndSwap(false, true) {
			entered <- struct{}{}
			select {
			case <-release:
			case <-time.After(20 * time.Second):
			}
		}
		return nil
	})
	defer P.Node.OS.SetHook(nil)
	var wg sync.WaitGroup
	var ierr, derr error
	wg.Add(1)
	go func() {
		defer wg.Done()
		ierr = P.Store.DB("db").Import(context.Background(), bytes.NewReader(imgIn.Bytes()))
	}()
	select {
	case <-entered:
	case <-time.After(15 * time.Second):
		close(release)
		wg.Wait()
		c.Inconclusive("the gate operation " + gateOp + " was not reached")
		return
	}
	dropDone := make(chan struct{})
	go func() { derr = P.Node.Remove("db"); close(dropDone) }()
	// the deletion either waits for the import or runs now
	select {
	case <-dropDone:
	case <-time.After(50 * time.Millisecond):
	}
	close(release)
	wg.Wait()
	select {
	case <-dropDone:
	case <-time.After(30 * time.Second):
		c.Inconclusive("watchdog: the deletion did not return")
		return
	}
	P.Node.OS.SetHook(nil)
	pos := mon.PosOf(P.Node, "db")
	detail := map[string]any{"page_size": ps, "gate": gateOp, "import_error": fmt.Sprint(ierr), "delete_error": fmt.Sprint(derr), "before": posA.String(), "after": pos.String()}
	if healthViolations(c, P.Node, "import racing a deletion", detail) {
		return
	}
	// each of the two either took effect as one transaction or was refused
	n := uint64(0)
	if ierr == nil {
		n++
	}
	if derr == nil {
		n++
	}
	if pos.TXID != posA.TXID+n {
		c.Violate("C16/import-drop-race/position", fmt.Sprintf("an import (error: %v) and a deletion (error: %v) of one database overlapped: %d of them succeeded but the position went from %s to %s", ierr, derr, n, posA, pos), detail)
		return
	}
	dbDir := mon.DBDir(P.Node, "db")
	if probs := mon.ChainProblems(filepath.Join(dbDir, "ltx"), pos.TXID, pos.Chk); len(probs) > 0 {
		c.Violate("C16/import-drop-race/chain", fmt.Sprintf("after an import and a deletion overlapped the transaction log is not one chain ending at %s: %v", pos, probs), detail)
		return
	}
	raw := mon.RawImage(dbDir)
	switch {
	case pos.Chk == ref.ChecksumFlag:
		if raw.PageN != 0 {
			c.Violate("C16/import-drop-race/image", fmt.Sprintf("the position says the database is deleted (%s) but its file holds %d pages", pos, raw.PageN), detail)
			return
		}
		led.put("db", pos, ref.NewImage(ps))
	case pos.Chk == imgB.Checksum():
		if d := raw.Diff(imgB); d != "" {
			c.Violate("C16/import-drop-race/image", fmt.Sprintf("the position says the imported image (%s) but the files differ: %s", pos, d), detail)
			return
		}
		led.put("db", pos, imgB)
	case pos == posA:
	default:
		c.Violate("C16/import-drop-race/position", fmt.Sprintf("after an import and a deletion overlapped the node reports %s: neither deleted, nor the imported image, nor unchanged", pos), detail)
		return
	}
	ok, _, timedOut := cl.WaitConverged(P, R, []string{"db"}, 8, 30*time.Second)
	if healthViolations(c, R.Node, "replica after import racing a deletion", detail) {
		return
	}
	if timedOut {
		c.Inconclusive("convergence watchdog")
		return
	}
	if !ok {
		c.Violate("C16/import-drop-race/not-replicated", fmt.Sprintf("the replica is at %s, the primary at %s", mon.PosOf(R.Node, "db"), pos), detail)
		return
	}
	if rr := mon.RawImage(mon.DBDir(R.Node, "db")); rr.Diff(raw) != "" {
		c.Violate("C16/import-drop-race/replica-differs", "replica and primary are at the same position with different images: "+rr.Diff(raw), detail)
		return
	}
	c.Count("race_import_vs_drop_judged", 1)
	c.Distinct(fmt.Sprintf("race/%s/import=%v/drop=%v/end=%s", gateOp, ierr == nil, derr == nil, map[bool]string{true: "deleted", false: "present"}[pos.Chk == ref.ChecksumFlag]))
}
