package checks

import (
	"context"
	"fmt"
	"io"
	"net"
	"net/http"
	"strings"
	"sync"
	"sync/atomic"
	"time"

	"github.com/superfly/litefs"
	lhttp "github.com/superfly/litefs/http"
	"github.com/superfly/ltx"
	"verif/cluster"
	"verif/core"
	"verif/mon"
)

func init() {
	register(&core.Check{
		ID:    "C19",
		Level: "exploration",
		Rule: "each case builds a primary and replicas, each with LiteFS's application proxy in front of a stub application that records, for every request that reaches it, the node's role and the tracked database's position at arrival (and, for writes on the primary, performs a commit and records its TXID); requests: method x path class (passthrough / always-forward / neither) x cookie (absent, malformed, behind, equal, ahead, ahead-forever) x node (primary, connected replica, replica lacking the tracked database, node with no primary) x replication timing (stream stalled before the request and released while it is pending); " +
			"rules: a forwarded non-passthrough read with a valid cookie arrived at position >= cookie; no non-passthrough write reaches a replica's application (answer: fly-replay to the primary, or 503 without a primary); cookie issued on the primary >= the TXID the stub committed in that request; distinct = (node, method, path class, cookie class, outcome) tuples",
		Assumptions: []string{"PollTXIDTimeout 150 ms so that 'ahead forever' ends in 504", "the stub samples the position when the request arrives at it"},
		NumCases: func(tier string) int {
			if tier == "thorough" {
				return 600
			}
			return 30
		},
		EvalCounter: "requests",
		CaseTimeout: 120 * time.Second,
		Run:         runC19,
		Floors: func(tier string) map[string]int {
			return map[string]int{"requests": 1500, "reads_with_cookie_forwarded": 60, "reads_timed_out_504": 15, "replica_writes_redirected": 100, "no_primary_503": 20,
				"primary_write_cookies": 60, "parked_then_released": 10, "passthrough_forwarded": 60, "absent_db_requests": 20, "requests_with_query": 200}
		},
	})
}

type stubHit struct {
	Node      string
	Method    string
	Path      string
	Pos       uint64
	IsPrimary bool
	Committed uint64 // TXID of the commit performed during this request (primary writes)
	ReqID     string
}

type stubApp struct {
	node *cluster.CNode
	ln   net.Listener
	mu   sync.Mutex
	hits map[string]stubHit
	// writer for commits on the primary
	w  *dbWriter
	wm *sync.Mutex
}

func newStub(n *cluster.CNode, w *dbWriter, wm *sync.Mutex) (*stubApp, error) {
	ln, err := net.Listen("tcp", "127.0.0.1:0")
	if err != nil {
		return nil, err
	}
	s := &stubApp{node: n, ln: ln, hits: map[string]stubHit{}, w: w, wm: wm}
	go func() { _ = http.Serve(ln, http.HandlerFunc(s.serve)) }()
	return s, nil
}

func (s *stubApp) serve(rw http.ResponseWriter, r *http.Request) {
	h := stubHit{Node: s.node.Name, Method: r.Method, Path: r.URL.Path, ReqID: r.Header.Get("X-Req-Id"), IsPrimary: s.node.Store.IsPrimary()}
	if db := s.node.Store.DB("db"); db != nil {
		h.Pos = uint64(db.Pos().TXID)
	}
	isWrite := r.Method != "GET" && r.Method != "HEAD"
	if isWrite && h.IsPrimary && s.w != nil && !strings.HasPrefix(r.URL.Path, "/static/") {
		s.wm.Lock()
		for i := 0; i < 10; i++ {
			if committed, err := s.w.txn(2); err == nil && committed {
				break
			}
		}
		h.Committed = uint64(s.node.Store.DB("db").Pos().TXID)
		s.wm.Unlock()
	}
	s.mu.Lock()
	s.hits[h.ReqID] = h
	s.mu.Unlock()
	rw.Header().Set("X-Stub-Node", s.node.Name)
	// like a real application it sets cookies of its own on some answers
	// (session, flash message): the proxy's position cookie must survive them
	switch len(h.ReqID) % 3 {
	case 1:
		rw.Header().Add("Set-Cookie", "session=abc; Path=/; HttpOnly")
	case 2:
		rw.Header().Add("Set-Cookie", "session=abc; Path=/; HttpOnly")
		rw.Header().Add("Set-Cookie", "flash=saved; Path=/")
	}
	rw.WriteHeader(200)
	_, _ = io.WriteString(rw, "ok")
}

func (s *stubApp) hit(id string) (stubHit, bool) {
	s.mu.Lock()
	defer s.mu.Unlock()
	h, ok := s.hits[id]
	return h, ok
}

func startProxy(n *cluster.CNode, target string) (*lhttp.ProxyServer, error) {
	p := lhttp.NewProxyServer(n.Store)
	p.Target = target
	p.DBName = "db"
	p.Addr = "127.0.0.1:0"
	for _, e := range []string{"/static/*", "*.png"} {
		pt, _ := lhttp.CompileMatch(e)
		p.Passthroughs = append(p.Passthroughs, pt)
	}
	for _, e := range []string{"/forward/*", "*.fwd"} {
		af, _ := lhttp.CompileMatch(e)
		p.AlwaysForward = append(p.AlwaysForward, af)
	}
	p.PollTXIDTimeout = 150 * time.Millisecond
	p.PrimaryRedirectTimeout = 100 * time.Millisecond
	if err := p.Listen(); err != nil {
		return nil, err
	}
	p.Serve()
	return p, nil
}

func runC19(c *core.Case) {
	wal := c.Index%2 == 1
	cl, err := cluster.New(c.Dir, []cluster.NodeOpts{{Candidate: true}, {}, {Filter: []string{"other"}}})
	if err != nil {
		c.Inconclusive(err.Error())
		return
	}
	defer cl.Close()
	if err := cl.Start(0); err != nil || cl.WaitPrimary(0, 10*time.Second) == nil {
		c.Inconclusive("primary start")
		return
	}
	P := cl.Nodes[0]
	led := newLedger()
	w, err := newWriter(P.Node, "db", 1024, wal, "delete", nil, c.SubRng("w"), led, 1)
	if err != nil {
		c.Violate("C19/setup", err.Error(), nil)
		return
	}
	defer w.close()
	w.d.BusyRetries = 5000
	if err := w.ensure(4); err != nil {
		c.Violate("C19/setup", err.Error(), nil)
		return
	}
	for i := 0; i < 3; i++ {
		_, _ = w.txn(2)
	}
	for i := 1; i <= 2; i++ {
		if err := cl.Start(i); err != nil {
			c.Inconclusive(err.Error())
			return
		}
	}
	R, A := cl.Nodes[1], cl.Nodes[2] // A lacks the tracked database (filter)
	if ok, _, _ := cl.WaitConverged(P, R, []string{"db"}, 5, 30*time.Second); !ok {
		c.Inconclusive("replica did not converge")
		return
	}
	cl.WaitConnected(2, 10*time.Second)
	// a node that knows no primary: separate single-node cluster, non-candidate
	cl2, err := cluster.New(c.Dir+"/solo", []cluster.NodeOpts{{Candidate: false}})
	if err != nil {
		c.Inconclusive(err.Error())
		return
	}
	defer cl2.Close()
	if err := cl2.Start(0); err != nil {
		c.Inconclusive(err.Error())
		return
	}
	N := cl2.Nodes[0]

	var wm sync.Mutex
	type front struct {
		name  string
		node  *cluster.CNode
		stub  *stubApp
		proxy *lhttp.ProxyServer
	}
	var fronts []front
	for _, x := range []struct {
		name string
		n    *cluster.CNode
	}{{"primary", P}, {"replica", R}, {"absent-db", A}, {"no-primary", N}} {
		var sw *dbWriter
		if x.n == P {
			sw = w
		}
		st, err := newStub(x.n, sw, &wm)
		if err != nil {
			c.Inconclusive(err.Error())
			return
		}
		defer st.ln.Close()
		px, err := startProxy(x.n, st.ln.Addr().String())
		if err != nil {
			c.Inconclusive(err.Error())
			return
		}
		defer px.Close()
		fronts = append(fronts, front{x.name, x.n, st, px})
	}
	client := &http.Client{Timeout: 10 * time.Second, CheckRedirect: func(*http.Request, []*http.Request) error { return http.ErrUseLastResponse }}
	var reqSeq atomic.Int64
	primaryHost := P.Name

	type result struct {
		status  int
		replay  string
		cookie  uint64
		hasCk   bool
		reached bool
		hit     stubHit
	}
	do := func(f front, method, path, cookie string) (result, string, error) {
		id := fmt.Sprintf("r%d", reqSeq.Add(1))
		req, _ := http.NewRequest(method, f.proxy.URL()+path, nil)
		req.Header.Set("X-Req-Id", id)
		if cookie != "" {
			req.AddCookie(&http.Cookie{Name: lhttp.TXIDCookieName, Value: cookie})
		}
		resp, err := client.Do(req)
		if err != nil {
			return result{}, id, err
		}
		_, _ = io.Copy(io.Discard, resp.Body)
		resp.Body.Close()
		res := result{status: resp.StatusCode, replay: resp.Header.Get("fly-replay")}
		for _, ck := range resp.Cookies() {
			if ck.Name == lhttp.TXIDCookieName {
				if t, err := ltx.ParseTXID(ck.Value); err == nil {
					res.cookie, res.hasCk = uint64(t), true
				}
			}
		}
		res.hit, res.reached = f.stub.hit(id)
		return res, id, nil
	}
	judge := func(f front, method, pathCls, path, ckCls, cookie string, ckTXID uint64, res result) {
		c.Count("requests", 1)
		detail := map[string]any{"node": f.name, "method": method, "path": path, "cookie_class": ckCls, "cookie": cookie, "status": res.status, "fly_replay": res.replay, "reached_app": res.reached, "app_saw": res.hit}
		isWrite := method != "GET" && method != "HEAD"
		if pathCls == "forward" {
			isWrite = true
		}
		outcome := fmt.Sprint(res.status)
		switch {
		case pathCls == "passthrough":
			if !res.reached {
				c.Violate("C19/passthrough-not-forwarded", fmt.Sprintf("%s %s on %s matches a passthrough pattern but did not reach the application (status %d)", method, path, f.name, res.status), detail)
			}
			c.Count("passthrough_forwarded", 1)
		case !isWrite:
			validCookie := ckCls == "behind" || ckCls == "equal" || ckCls == "ahead" || ckCls == "ahead-forever"
			if f.name == "absent-db" {
				c.Count("absent_db_requests", 1)
			}
			if res.reached && validCookie && res.hit.Pos < ckTXID {
				c.Violate("C19/stale-read-forwarded", fmt.Sprintf("%s %s on %s carried cookie txid %d but reached the application while the tracked database was at %d", method, path, f.name, ckTXID, res.hit.Pos), detail)
				return
			}
			if res.reached && validCookie {
				c.Count("reads_with_cookie_forwarded", 1)
			}
			if ckCls == "ahead-forever" && f.name != "primary" {
				if res.status == http.StatusGatewayTimeout && !res.reached {
					c.Count("reads_timed_out_504", 1)
				} else if !res.reached && res.status != http.StatusGatewayTimeout {
					c.Violate("C19/unreachable-txid-wrong-status", fmt.Sprintf("read with an unreachable cookie ended with status %d, expected a gateway time-out", res.status), detail)
				}
			}
			if !validCookie && !res.reached {
				c.Violate("C19/read-not-forwarded", fmt.Sprintf("%s %s on %s without a usable cookie did not reach the application (status %d)", method, path, f.name, res.status), detail)
			}
		default: // write
			if f.name == "primary" {
				if !res.reached {
					c.Violate("C19/primary-write-not-forwarded", fmt.Sprintf("write on the primary did not reach the application (status %d)", res.status), detail)
					return
				}
				if res.hit.Committed != 0 {
					if !res.hasCk {
						c.Violate("C19/no-cookie-after-write", fmt.Sprintf("write on the primary (commit txid %d) was answered without a %s cookie", res.hit.Committed, lhttp.TXIDCookieName), detail)
						return
					}
					if res.cookie < res.hit.Committed {
						c.Violate("C19/cookie-before-write", fmt.Sprintf("cookie after a write on the primary names txid %d, the write committed txid %d", res.cookie, res.hit.Committed), detail)
						return
					}
					c.Count("primary_write_cookies", 1)
				}
			} else {
				if res.reached {
					c.Violate("C19/write-ran-on-replica", fmt.Sprintf("%s %s reached the application on %s (isPrimary=%v)", method, path, f.name, res.hit.IsPrimary), detail)
					return
				}
				if f.name == "no-primary" {
					if res.status != http.StatusServiceUnavailable {
						c.Violate("C19/no-primary-wrong-answer", fmt.Sprintf("write on a node that knows no primary was answered %d (fly-replay=%q), expected 503", res.status, res.replay), detail)
						return
					}
					c.Count("no_primary_503", 1)
				} else {
					if res.replay != "instance="+primaryHost {
						c.Violate("C19/replica-write-not-redirected", fmt.Sprintf("write on %s was answered %d with fly-replay=%q, expected a redirect to instance=%s", f.name, res.status, res.replay, primaryHost), detail)
						return
					}
					c.Count("replica_writes_redirected", 1)
				}
			}
		}
		c.Distinct(fmt.Sprintf("%s/%s/%s/%s/%s/reached%v", f.name, method, pathCls, ckCls, outcome, res.reached))
	}

	methods := []string{"GET", "HEAD", "POST", "PUT", "DELETE", "PATCH"}
	pathClasses := []string{"plain", "plain", "passthrough", "forward"}
	cookieClasses := []string{"absent", "malformed", "behind", "equal", "ahead", "ahead-forever"}
	for i := 0; i < 60; i++ {
		f := fronts[c.Rng.IntN(len(fronts))]
		method := methods[c.Rng.IntN(len(methods))]
		pc := pathClasses[c.Rng.IntN(len(pathClasses))]
		if i >= 56 {
			// dedicated waiting-path requests: a plain GET on the connected replica
			f, method, pc = fronts[1], "GET", "plain"
		} else if c.Rng.IntN(3) == 0 {
			method = "GET"
		}
		// the class of a request is decided by its path alone; a query string that
		// happens to look like a configured pattern changes nothing
		path := map[string][]string{
			"plain": {"/items/" + fmt.Sprint(i), "/items/" + fmt.Sprint(i) + "?thumb=a.png", "/items/" + fmt.Sprint(i) + "?next=x.fwd", "/items/" + fmt.Sprint(i) + "?u=/static/x&v=/forward/y",
				// paths that only END like something a start-anchored pattern matches
				"/api/static/" + fmt.Sprint(i), "/v2/forward/" + fmt.Sprint(i), "/x/static/app.js"},
			"passthrough": {"/static/app.js", "/img/" + fmt.Sprint(i) + ".png", "/static/app.js?v=3"},
			"forward":     {"/forward/" + fmt.Sprint(i), "/api/" + fmt.Sprint(i) + ".fwd", "/forward/" + fmt.Sprint(i) + "?q=1"},
		}[pc][c.Rng.IntN(3+map[string]int{"plain": 4}[pc])]
		if strings.Contains(path, "?") {
			c.Count("requests_with_query", 1)
		}
		cc := cookieClasses[c.Rng.IntN(len(cookieClasses))]
		if i >= 56 {
			cc = "ahead"
		}
		cur := uint64(P.Store.DB("db").Pos().TXID)
		var ck string
		var ckT uint64
		switch cc {
		case "malformed":
			ck = pick(c, []string{"zz", "12", "-1", "0000000000000000", strings.Repeat("f", 17), "1e3"})
		case "behind":
			ckT = 1 + uint64(c.Rng.IntN(int(cur)))
			if ckT >= cur {
				ckT = cur - 1
			}
			if ckT == 0 {
				ckT = 1
			}
		case "equal":
			ckT = cur
		case "ahead":
			ckT = cur + 1
		case "ahead-forever":
			ckT = cur + 1000
		}
		if ckT != 0 {
			ck = ltx.TXID(ckT).String()
		}
		if cc == "ahead" && f.name != "primary" && f.name != "no-primary" {
			// replication timing: hold the stream, commit on the primary, send the
			// read, release the stream while the request is pending
			P.Proxy.SetMode("stall")
			wm.Lock()
			for k := 0; k < 10; k++ {
				if committed, err := w.txn(2); err == nil && committed {
					break
				}
			}
			ckT = uint64(P.Store.DB("db").Pos().TXID)
			wm.Unlock()
			ck = ltx.TXID(ckT).String()
			type out struct {
				res result
				err error
			}
			ch := make(chan out, 1)
			sent := time.Now()
			go func() { r, _, err := do(f, method, path, ck); ch <- out{r, err} }()
			time.Sleep(time.Duration(10+c.Rng.IntN(40)) * time.Millisecond)
			released := time.Now()
			P.Proxy.SetMode("pass")
			o := <-ch
			if o.err != nil {
				c.Violate("C19/proxy-no-response", o.err.Error(), nil)
				return
			}
			if o.res.status == 200 && o.res.reached && method == "GET" && pc == "plain" && f.name == "replica" && time.Since(sent) > released.Sub(sent) {
				c.Count("parked_then_released", 1)
			}
			judge(f, method, pc, path, cc, ck, ckT, o.res)
		} else {
			// now and then the replica holds the tracked database's halt lock while
			// the request arrives (litefs run -with-halt-lock-on): it may write to
			// the database itself but the proxy's rules are about the node's role
			if f.name == "replica" && i%4 == 1 {
				hctx, cancel := context.WithTimeout(context.Background(), 10*time.Second)
				hl, herr := R.Store.DB("db").AcquireRemoteHaltLock(hctx, int64(700000+i))
				cancel()
				if herr == nil && hl != nil {
					c.Count("requests_while_replica_holds_halt_lock", 1)
					defer func(id int64) {
						if db := R.Store.DB("db"); db != nil && db.HasRemoteHaltLock() {
							_ = db.ReleaseRemoteHaltLock(context.Background(), id)
						}
					}(hl.ID)
				}
			}
			res, _, err := do(f, method, path, ck)
			if db := R.Store.DB("db"); db != nil && db.HasRemoteHaltLock() {
				_ = db.ReleaseRemoteHaltLock(context.Background(), int64(700000+i))
			}
			if err != nil {
				c.Violate("C19/proxy-no-response", fmt.Sprintf("%s %s on %s: %v", method, path, f.name, err), nil)
				return
			}
			judge(f, method, pc, path, cc, ck, ckT, res)
		}
		if c.Violated() {
			return
		}
		if i == 0 && c.Index < 4 {
			c.Sample(map[string]any{"node": f.name, "method": method, "path": path, "cookie_class": cc, "cookie": ck})
		}
	}
	for _, n := range []*cluster.CNode{P, R, A, N} {
		healthViolations(c, n.Node, "end", nil)
	}
	_ = litefs.ErrNoPrimary
	_ = mon.PosKey{}
}
