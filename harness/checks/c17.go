package checks

import (
	"bytes"
	"context"
	"encoding/binary"
	"fmt"
	"io"
	"os"
	"path/filepath"
	"sync"
	"time"

	"github.com/superfly/litefs"
	"verif/core"
	"verif/drv"
	"verif/mon"
	"verif/pager"
	"verif/ref"
)

func init() {
	register(&core.Check{
		ID:    "C17",
		Level: "exploration",
		Rule: "three input families: (A) journals the pager simulator leaves behind when the SQLite process dies at a PRNG-chosen step (all modes, multi-segment, synced/unsynced counts, no-sync), optionally with the unsynced tail torn/zeroed, followed by LiteFS's rollback (role-change Recover or reopen) and compared with the pre-transaction image and size; " +
			"(B) hostile journals next to a valid database (bit flips, truncations, zeroed regions, patched counts/nonces/sizes, checksum-correct hostile page numbers, random bytes) judged on panic, hang and writes outside the database's pages (page-write hook); " +
			"(C) WAL byte strings (valid, mutated, random) read with LiteFS's WALReader and checkpointed by LiteFS, compared with an independent reference reader; distinct = (family, mutation operator, page size, sector size, outcome class)",
		Assumptions: []string{"'outside the database's pages' = page 0, the lock page, or a page beyond max(size before, original size named by the journal header / last commit frame)", "process death keeps the page cache (tail tearing only on the reopen path)"},
		NumCases: func(tier string) int {
			if tier == "thorough" {
				return 120000
			}
			return 12000
		},
		CaseTimeout:     60 * time.Second,
		HangIsViolation: true,
		Run:             runC17,
		Floors: func(tier string) map[string]int {
			return map[string]int{
				"A_aborted_mid_tx": 200, "A_restored_exactly": 200, "A_recover_path": 50, "A_reopen_path": 50, "A_tail_torn": 30, "A_multi_segment": 30,
				"B_inputs": 500, "B_op_bitflip": 50, "B_op_truncate": 50, "B_op_zero": 50, "B_op_hostile_pgno": 50, "B_op_random": 50, "B_op_patch_header": 50,
				"C_inputs": 500, "C_reader_agree": 400, "C_checkpoint_agree": 200, "C_nonempty_valid_prefix": 100,
			}
		},
	})
}

func runC17(c *core.Case) {
	switch os.Getenv("VERIF_C17_FAMILY") { // diagnosis aid only
	case "A":
		c17A(c)
		return
	case "B":
		c17B(c)
		return
	case "C":
		c17C(c)
		return
	}
	switch c.Index % 4 {
	case 0, 1:
		c17A(c)
	case 2:
		c17B(c)
	default:
		c17C(c)
	}
}

// pageWriteWatch records internal page writes outside the database's pages.
type pageWriteWatch struct {
	mu      sync.Mutex
	limit   uint32 // pages above this are "outside"
	ps      uint32
	outside []uint32
	writes  int
}

func (w *pageWriteWatch) install(n *drv.Node) {
	n.OnPageWrite(func(db *litefs.DB, pgno uint32, data []byte, invalidate bool) {
		w.mu.Lock()
		defer w.mu.Unlock()
		w.writes++
		if pgno == 0 || pgno > w.limit || (w.ps != 0 && pgno == ref.LockPgno(w.ps)) {
			w.outside = append(w.outside, pgno)
		}
	})
}

// ---- family A: SQLite-producible journals --------------------------------------

func c17A(c *core.Case) {
	ps := []uint32{512, 1024, 4096, 512, 8192, 65536, 32768}[(c.Index/4)%7]
	sector := []uint32{512, 4096}[(c.Index/28)%2]
	mode := []string{"delete", "truncate", "persist"}[(c.Index/40)%3]
	dir := c.Dir + "/data"
	n, err := newPrimary(dir, nil)
	if err != nil {
		c.Inconclusive("node: " + err.Error())
		return
	}
	closed := false
	defer func() {
		if !closed {
			n.Close()
		}
	}()
	d := pager.NewDB(n, "db", ps, c.Rng)
	d.Sector = sector
	conn, err := d.Open(1)
	if err != nil {
		c.Violate("C17/open", err.Error(), nil)
		return
	}
	first := uint32(4 + c.Rng.IntN(40))
	// every eighth input: the interrupted transaction is the FIRST one of the
	// database (its journal records an original size of zero pages)
	firstTx := c.Rng.IntN(8) == 0
	if !firstTx {
		if res := conn.RunRollbackTx(pager.RollbackSpec{Mode: mode, Outcome: "commit", NewPageN: first}); res.Err != nil {
			healthViolations(c, n, "create", nil)
			return
		}
		for i := 0; i < c.Rng.IntN(3); i++ {
			conn.RunRollbackTx(pager.RollbackSpec{Mode: mode, Outcome: "commit", NewPageN: d.M.PageN + uint32(c.Rng.IntN(3)), Dirty: []uint32{2, 3}})
		}
		if mode == "persist" && c.Rng.IntN(2) == 0 {
			// an earlier, committed transaction with several journal segments: a
			// persistent journal keeps its later segments behind the zeroed header
			sp := pager.RollbackSpec{Mode: mode, Outcome: "commit", NewPageN: d.M.PageN, SpillAfter: 2, MultiSpill: true}
			for j := 0; j < 7 && d.M.PageN > 1; j++ {
				sp.Dirty = append(sp.Dirty, 1+uint32(c.Rng.IntN(int(d.M.PageN))))
			}
			conn.RunRollbackTx(sp)
			c.Count("A_persist_journal_with_stale_segments", 1)
		}
	} else {
		c.Count("A_first_transaction", 1)
	}
	old := d.M
	prevPos := mon.PosOf(n, "db")
	cur := old.PageN

	spec := pager.RollbackSpec{Mode: mode, Outcome: "commit", NewPageN: cur}
	if firstTx {
		spec.NewPageN = first
	}
	switch c.Rng.IntN(4) {
	case 0:
		spec.NewPageN = cur + uint32(1+c.Rng.IntN(8))
	case 1:
		if cur > 3 {
			spec.NewPageN = cur - uint32(1+c.Rng.IntN(int(cur-2)))
			spec.DirtyCut = uint32(c.Rng.IntN(3)) // tail pages modified and spilled before they are cut off
		}
	}
	for j := 0; j < 2+c.Rng.IntN(12) && cur > 0; j++ {
		spec.Dirty = append(spec.Dirty, 1+uint32(c.Rng.IntN(int(cur))))
	}
	if c.Rng.IntN(2) == 0 {
		spec.SpillAfter = 2 + c.Rng.IntN(4)
		spec.MultiSpill = c.Rng.IntN(2) == 0
	}
	if c.Rng.IntN(6) == 0 {
		spec.NRec = "nosync"
		spec.SpillAfter = 0
	}
	if c.Rng.IntN(5) == 0 {
		spec.Outcome = "rollback"
	}
	abortAt := 1 + c.Rng.IntN(70)
	if firstTx {
		abortAt = 4 + c.Rng.IntN(4+int(first)) // (few steps: aim at the page writes)
	}
	steps := 0
	syncedLen := int64(0)
	lastStep := ""
	jpath := filepath.Join(mon.DBDir(n, "db"), "journal")
	d.Hook = func(step string) error {
		steps++
		if step == "journal fsync" {
			// the fsync about to happen covers what is in the file now
		}
		if steps == abortAt {
			lastStep = step
			return pager.ErrAbort
		}
		if hasPrefix(step, "journal next header") || hasPrefix(step, "db write") || step == "fsync db" {
			if st, err := os.Stat(jpath); err == nil && syncedLen == 0 {
				_ = st
			}
		}
		return nil
	}
	// track the journal length at each completed fsync
	origHook := d.Hook
	pendingSync := false
	d.Hook = func(step string) error {
		if pendingSync {
			if st, err := os.Stat(jpath); err == nil {
				syncedLen = st.Size()
			}
			pendingSync = false
		}
		if err := origHook(step); err != nil {
			return err
		}
		if step == "journal fsync" {
			pendingSync = true
		}
		return nil
	}
	res := conn.RunRollbackTx(spec)
	d.Hook = nil
	detail := map[string]any{"page_size": ps, "sector": sector, "mode": mode, "spec": spec, "abort_at": abortAt, "aborted_before": lastStep, "synced_len": syncedLen}
	if res.Err != nil {
		healthViolations(c, n, "tx", detail)
		if !c.Violated() {
			c.Violate("C17/tx-error", fmt.Sprintf("step %s: %v", res.ErrStep, res.Err), detail)
		}
		return
	}
	want := old
	if !res.Aborted {
		want = d.M
		c.Count("A_completed", 1)
	} else if res.Finalized {
		// aborted after the finalisation step (during late truncate/unlock): committed
		want = res.NewImage
		if want == nil {
			want = d.M
		}
		c.Count("A_aborted_after_finalize", 1)
	} else {
		c.Count("A_aborted_mid_tx", 1)
	}
	// The dying process' descriptors are closed: locks are released.
	conn.Close()
	watch := &pageWriteWatch{limit: maxU32(old.PageN, spec.NewPageN), ps: ps}
	sqliteUndetectable := false
	path := "recover"
	if c.Rng.IntN(2) == 0 {
		path = "reopen"
	}
	if spec.SpillAfter > 0 {
		c.Count("A_multi_segment", 1)
	}
	if path == "recover" {
		if res.Aborted && !res.Finalized && !sqlitePlaybackRestores(mon.DBDir(n, "db"), ps, want) {
			sqliteUndetectable = true
			c.Count("A_sqlite_rules_would_not_restore_either", 1)
		}
		if keep := os.Getenv("VERIF_DEBUG_C17_KEEP"); keep != "" {
			_ = copyTree(dir, keep) // (debugging aid: the files the recovery starts from)
		}
		watch.install(n)
		ctx, cancel := context.WithTimeout(context.Background(), 20*time.Second)
		err := n.Store.DB("db").Recover(ctx)
		cancel()
		if err != nil {
			c.Violate("C17/recover-failed", fmt.Sprintf("Recover: %v", err), detail)
			return
		}
		c.Count("A_recover_path", 1)
	} else {
		// The LiteFS process dies too: take a copy of the data directory as it is
		// now (a clean Close would itself run the rollback) and reopen the copy.
		dir2 := c.Dir + "/crash"
		if err := copyTree(dir, dir2); err != nil {
			c.Inconclusive("copy: " + err.Error())
			return
		}
		n.Close()
		closed = true
		dir = dir2
		jpath = filepath.Join(dir2, "dbs", "db", "journal")
		// power-loss flavour: tear the unsynced tail of the journal
		if res.Aborted && !res.Finalized && c.Rng.IntN(2) == 0 {
			if b, err := os.ReadFile(jpath); err == nil && int64(len(b)) > syncedLen {
				tail := len(b) - int(syncedLen)
				// bytes of a torn *record* may be garbage; headers (one atomic sector)
				// are only ever zeroed or cut off. Find where records of the last
				// segment begin.
				recStart := int(syncedLen)
				for o := (int(syncedLen) + int(sector) - 1) / int(sector) * int(sector); o+8 <= len(b); o += int(sector) {
					if bytes.Equal(b[o:o+8], ref.JournalMagic) {
						recStart = o + int(sector)
					}
				}
				kind := c.Rng.IntN(3)
				if kind == 2 && recStart >= len(b) {
					kind = 0
				}
				switch kind {
				case 0:
					b = b[:int(syncedLen)+c.Rng.IntN(tail)]
				case 1:
					off := int(syncedLen) + c.Rng.IntN(tail)
					for i := off; i < len(b); i++ {
						b[i] = 0
					}
				case 2:
					off := recStart + c.Rng.IntN(len(b)-recStart)
					for i := off; i < len(b) && i < off+64; i++ {
						b[i] ^= byte(1 + c.Rng.IntN(255))
					}
				}
				detail["tear_kind"] = []string{"truncate", "zero-to-end", "garble-record"}[kind]
				_ = os.WriteFile(jpath, b, 0o644)
				c.Count("A_tail_torn", 1)
				detail["tail_torn"] = true
				// What would SQLite's own hot-journal playback make of this? A tear
				// that SQLite's rules cannot detect (its record checksum samples only
				// every 200th byte) is outside what the property can promise.
				if dbCrash, err := os.ReadFile(filepath.Join(dir2, "dbs", "db", "database")); err == nil {
					pb := ref.PlayJournal(b, ps)
					exp := append([]byte(nil), dbCrash...)
					if pb.Valid {
						need := int(pb.OrigPages) * int(ps)
						for len(exp) < need {
							exp = append(exp, make([]byte, need-len(exp))...)
						}
						for pg, data := range pb.Pages {
							copy(exp[int(pg-1)*int(ps):], data)
						}
						exp = exp[:need]
					}
					if ref.ImageFromBytes(ps, exp).Diff(want) != "" {
						sqliteUndetectable = true
						c.Count("A_tear_undetectable_by_sqlite_rules", 1)
					}
				}
			}
		}
		if res.Aborted && !res.Finalized && !sqliteUndetectable && !sqlitePlaybackRestores(filepath.Join(dir2, "dbs", "db"), ps, want) {
			sqliteUndetectable = true
			c.Count("A_sqlite_rules_would_not_restore_either", 1)
		}
		if keep := os.Getenv("VERIF_DEBUG_C17_KEEP"); keep != "" {
			_ = copyTree(dir2, keep) // (debugging aid: the crash image the recovery starts from)
		}
		n2, err := drv.NewNode(drv.Config{Dir: dir, Candidate: true, Leaser: litefs.NewStaticLeaser(true, "localhost", "http://127.0.0.1:1"), PreOpen: func(nn *drv.Node) { watch.install(nn) }})
		if err != nil {
			if pe, ok := err.(*drv.PanicError); ok {
				c.Violate("C17/panic/"+siteOf(pe.Stack), fmt.Sprintf("panic while reopening after a SQLite-producible journal: %v", pe.Value), detail)
			} else if sqliteUndetectable {
				// LiteFS noticed (checksum) what SQLite's rules could not: acceptable
				c.Count("A_undetectable_tear_refused", 1)
			} else {
				c.Violate("C17/reopen-failed", fmt.Sprintf("Store.Open failed on a SQLite-producible journal state: %v", err), detail)
			}
			return
		}
		n = n2
		closed = false
		n.WaitReady(10 * time.Second)
		c.Count("A_reopen_path", 1)
	}
	if healthViolations(c, n, "after "+path, detail) {
		return
	}
	if sqliteUndetectable {
		return // only panic / hang / exit were judged for this input
	}
	// Oracle: exact pre-transaction (or committed) bytes and size.
	dbb, _ := os.ReadFile(filepath.Join(mon.DBDir(n, "db"), "database"))
	midTx := res.Aborted && !res.Finalized
	if !midTx && int64(len(dbb)) > int64(want.PageN)*int64(ps) {
		// committed, but SQLite died before its own post-commit truncate: the
		// logical size is the header's; nothing was rolled back
		dbb = dbb[:int64(want.PageN)*int64(ps)]
		c.Count("A_committed_not_yet_truncated", 1)
	}
	if int64(len(dbb)) != int64(want.PageN)*int64(ps) {
		c.Violate("C17/size-not-restored", fmt.Sprintf("database file is %d bytes after %s, expected %d pages (%d bytes); aborted before %q", len(dbb), path, want.PageN, int64(want.PageN)*int64(ps), lastStep), detail)
		return
	}
	got := ref.ImageFromBytes(ps, dbb)
	if dd := got.Diff(want); dd != "" {
		c.Violate("C17/bytes-not-restored", fmt.Sprintf("database differs from the expected image after %s: %s; aborted before %q", path, dd, lastStep), detail)
		return
	}
	c.Count("A_restored_exactly", 1)
	if jb, err := os.ReadFile(jpath); err == nil && len(jb) >= 8 && bytes.Equal(jb[:8], ref.JournalMagic) {
		c.Violate("C17/hot-journal-left", fmt.Sprintf("a journal with a valid header is still present after %s", path), detail)
	}
	if len(watch.outside) > 0 {
		c.Violate("C17/write-outside-pages", fmt.Sprintf("rollback wrote pages %v outside the database (limit %d)", watch.outside, watch.limit), detail)
	}
	// Only a transaction that died before its finalisation step must leave the
	// position alone (a completed ROLLBACK may consume a TXID, see C02).
	if p := mon.PosOf(n, "db"); midTx && p != prevPos {
		c.Violate("C17/position-changed", fmt.Sprintf("position %s -> %s although the transaction was rolled back", prevPos, p), detail)
	}
	judgeRawChecksum(c, n, "db", "after "+path, detail)
	c.Distinct(fmt.Sprintf("A/ps%d/sec%d/%s/%s/spill%v/%s/%s/abort:%s", ps, sector, mode, spec.NRec, spec.SpillAfter > 0, path, spec.Outcome, stepClass(lastStep)))
	if c.Index < 8 {
		c.Sample(detail)
	}
}

// sqlitePlaybackRestores reports whether SQLite's own hot-journal playback rules,
// applied to the journal and database bytes as they are on disk, restore want.
// Where they do not (a state in which SQLite itself would not get the
// pre-transaction image back, e.g. a stale later segment of a persistent journal
// right behind a header whose first record was never written) the property has
// nothing to promise about bytes; panics, hangs and exits are still judged.
func sqlitePlaybackRestores(dbDir string, ps uint32, want *ref.Image) bool {
	jb, err := os.ReadFile(filepath.Join(dbDir, "journal"))
	if err != nil {
		return true
	}
	dbb, _ := os.ReadFile(filepath.Join(dbDir, "database"))
	pb := ref.PlayJournal(jb, ps)
	exp := append([]byte(nil), dbb...)
	if pb.Valid {
		need := int(pb.OrigPages) * int(ps)
		for len(exp) < need {
			exp = append(exp, make([]byte, need-len(exp))...)
		}
		for pg, data := range pb.Pages {
			if int(pg)*int(ps) <= len(exp) {
				copy(exp[int(pg-1)*int(ps):], data)
			}
		}
		exp = exp[:need]
	}
	return ref.ImageFromBytes(ps, exp).Diff(want) == ""
}

// copyTree copies a directory tree (regular files and directories).
func copyTree(src, dst string) error {
	return filepath.Walk(src, func(p string, info os.FileInfo, err error) error {
		if err != nil {
			return err
		}
		rel, _ := filepath.Rel(src, p)
		t := filepath.Join(dst, rel)
		if info.IsDir() {
			return os.MkdirAll(t, 0o755)
		}
		if !info.Mode().IsRegular() {
			return nil
		}
		in, err := os.Open(p)
		if err != nil {
			return err
		}
		defer in.Close()
		out, err := os.Create(t)
		if err != nil {
			return err
		}
		defer out.Close()
		_, err = io.Copy(out, in)
		return err
	})
}

func stepClass(s string) string {
	for i := 0; i < len(s); i++ {
		if s[i] >= '0' && s[i] <= '9' {
			return s[:i]
		}
	}
	return s
}

func maxU32(a, b uint32) uint32 {
	if a > b {
		return a
	}
	return b
}

// ---- family B: hostile journals -------------------------------------------------

// buildJournal makes a well-formed journal for image img (orig size) with k records.
func buildJournal(c *core.Case, img *ref.Image, sector uint32, recs []uint32, nrec uint32) []byte {
	nonce := c.Rng.Uint32()
	var b bytes.Buffer
	b.Write(ref.JournalHeader(nrec, nonce, img.PageN, sector, img.PageSize))
	for _, p := range recs {
		pg := img.Page(p)
		if p > img.PageN || p == 0 {
			pg = make([]byte, img.PageSize)
			for i := range pg {
				pg[i] = byte(c.Rng.Uint32())
			}
		}
		b.Write(ref.JournalRecord(p, pg, nonce))
	}
	return b.Bytes()
}

func c17B(c *core.Case) {
	ps := []uint32{512, 1024, 4096, 65536, 16384}[(c.Index/4)%5]
	sector := []uint32{512, 4096}[(c.Index/20)%2]
	dir := c.Dir + "/data"
	dbdir := filepath.Join(dir, "dbs", "db")
	_ = os.MkdirAll(filepath.Join(dbdir, "ltx"), 0o755)
	// a valid database image of N pages, or an empty file (page size not yet known)
	npages := uint32(2 + c.Rng.IntN(20))
	img := ref.NewImage(ps)
	pd := pager.NewDB(nil, "x", ps, c.Rng)
	for p := uint32(2); p <= npages; p++ {
		img.Set(p, pd.RandPage())
	}
	img.Set(1, ref.MakePage1(ps, npages, false, 1, nil))
	img.PageN = npages
	emptyDB := c.Rng.IntN(8) == 0
	if emptyDB {
		_ = os.WriteFile(filepath.Join(dbdir, "database"), nil, 0o644)
	} else {
		_ = os.WriteFile(filepath.Join(dbdir, "database"), img.Bytes(), 0o644)
	}
	// base journal
	var recs []uint32
	for i := 0; i < 1+c.Rng.IntN(6); i++ {
		recs = append(recs, 1+uint32(c.Rng.IntN(int(npages))))
	}
	j := buildJournal(c, img, sector, recs, uint32(len(recs)))
	op := []string{"bitflip", "truncate", "zero", "hostile_pgno", "random", "patch_header"}[c.Rng.IntN(6)]
	limit := npages
	switch op {
	case "bitflip":
		for k := 0; k < 1+c.Rng.IntN(4); k++ {
			i := c.Rng.IntN(len(j))
			j[i] ^= 1 << uint(c.Rng.IntN(8))
		}
		if c.Rng.IntN(2) == 0 { // aim at the header
			i := c.Rng.IntN(28)
			j[i] ^= 1 << uint(c.Rng.IntN(8))
		}
		limit = 0xFFFFFFFF // header fields may have changed: only page 0 / panic / hang judged
	case "truncate":
		j = j[:c.Rng.IntN(len(j)+1)]
	case "zero":
		a := c.Rng.IntN(len(j))
		b := a + c.Rng.IntN(len(j)-a+1)
		for i := a; i < b; i++ {
			j[i] = 0
		}
		if a < 28 {
			limit = 0xFFFFFFFF
		}
	case "hostile_pgno":
		hp := []uint32{0, npages + 1, npages + 1000, 5000, 0xFFFFFFFF, ref.LockPgno(ps)}[c.Rng.IntN(6)]
		recs2 := append(append([]uint32{}, recs...), hp)
		c.Rng.Shuffle(len(recs2), func(a, b int) { recs2[a], recs2[b] = recs2[b], recs2[a] })
		j = buildJournal(c, img, sector, recs2, uint32(len(recs2)))
	case "random":
		j = make([]byte, c.Rng.IntN(3*int(ps)+100))
		for i := range j {
			j[i] = byte(c.Rng.Uint32())
		}
		if c.Rng.IntN(2) == 0 && len(j) >= 8 {
			copy(j, ref.JournalMagic)
		}
		limit = 0xFFFFFFFF
	case "patch_header":
		switch c.Rng.IntN(5) {
		case 0: // record count
			binary.BigEndian.PutUint32(j[8:], []uint32{0, 0xFFFFFFFF, 0x7FFFFFFF, uint32(len(recs)) + 5}[c.Rng.IntN(4)])
		case 1: // original size
			v := []uint32{0, 1, npages + 7, 0xFFFFFFFF}[c.Rng.IntN(4)]
			binary.BigEndian.PutUint32(j[16:], v)
			if v > limit {
				limit = v
			}
		case 2: // sector size
			binary.BigEndian.PutUint32(j[20:], []uint32{0, 1, 7, 0xFFFFFFFF, 1 << 31}[c.Rng.IntN(5)])
		case 3: // page size
			binary.BigEndian.PutUint32(j[24:], []uint32{0, 1, 12, ps * 2, 0xFFFFFFFF}[c.Rng.IntN(5)])
		case 4: // nonce
			binary.BigEndian.PutUint32(j[12:], c.Rng.Uint32())
		}
	}
	_ = os.WriteFile(filepath.Join(dbdir, "journal"), j, 0o644)
	c.Count("B_inputs", 1)
	c.Count("B_op_"+op, 1)
	detail := map[string]any{"page_size": ps, "sector": sector, "op": op, "db_pages": npages, "empty_db": emptyDB, "journal_len": len(j), "journal_head": fmt.Sprintf("%x", j[:minInt(len(j), 64)])}
	watch := &pageWriteWatch{limit: limit, ps: ps}
	c.Logf("input: %v", detail)
	n, err := drv.NewNode(drv.Config{Dir: dir, Candidate: true, Leaser: litefs.NewStaticLeaser(true, "localhost", "http://127.0.0.1:1"), PreOpen: func(nn *drv.Node) { watch.install(nn) }})
	outcome := "opened"
	if err != nil {
		outcome = "open-error"
		if pe, ok := err.(*drv.PanicError); ok {
			c.Violate("C17/panic/"+siteOf(pe.Stack), fmt.Sprintf("panic while opening a store with a hostile journal (%s): %v", op, pe.Value), detail)
			return
		}
	} else {
		defer n.Close()
		n.WaitReady(5 * time.Second)
		// the role-change path runs the same rollback on a background goroutine
		_ = n.Store.DB("db")
		if healthViolations(c, n, "hostile journal "+op, detail) {
			return
		}
	}
	if len(watch.outside) > 0 {
		c.Violate("C17/write-outside-pages", fmt.Sprintf("rollback of a hostile journal (%s) wrote pages %v outside the database's pages (database has %d pages)", op, watch.outside, npages), detail)
		return
	}
	// other files untouched: the directory holds nothing unexpected
	ents, _ := os.ReadDir(dbdir)
	for _, e := range ents {
		switch e.Name() {
		case "database", "journal", "ltx", "shm", "wal":
		default:
			c.Violate("C17/unexpected-file", "file "+e.Name()+" appeared", detail)
		}
	}
	c.Distinct(fmt.Sprintf("B/%s/ps%d/sec%d/%s/empty%v", op, ps, sector, outcome, emptyDB))
	if c.Index < 12 {
		c.Sample(detail)
	}
}

func minInt(a, b int) int {
	if a < b {
		return a
	}
	return b
}

// ---- family C: WAL scanning --------------------------------------------------------

func c17C(c *core.Case) {
	ps := []uint32{512, 1024, 4096, 65536, 2048, 8192, 32768, 16384}[(c.Index/4)%8]
	be := (c.Index/32)%2 == 0
	// base: a valid WAL with several transactions
	npages := uint32(3 + c.Rng.IntN(12))
	img := ref.NewImage(ps)
	pd := pager.NewDB(nil, "x", ps, c.Rng)
	for p := uint32(2); p <= npages; p++ {
		img.Set(p, pd.RandPage())
	}
	img.Set(1, ref.MakePage1(ps, npages, true, 1, nil))
	img.PageN = npages
	w := &ref.WALWriter{BigEndian: be, PageSize: ps, Seq: 0, Salt1: c.Rng.Uint32(), Salt2: c.Rng.Uint32()}
	var wal bytes.Buffer
	wal.Write(w.Header())
	size := npages
	ntx := 1 + c.Rng.IntN(4)
	for t := 0; t < ntx; t++ {
		nf := 1 + c.Rng.IntN(4)
		if c.Rng.IntN(3) == 0 {
			size += uint32(c.Rng.IntN(3))
		} else if c.Rng.IntN(5) == 0 && size > 3 {
			size--
		}
		for f := 0; f < nf; f++ {
			pg := 1 + uint32(c.Rng.IntN(int(size)))
			commit := uint32(0)
			if f == nf-1 {
				commit = size
				pg = 1
			}
			var page []byte
			if pg == 1 {
				page = ref.MakePage1(ps, size, true, uint32(t+2), nil)
			} else {
				page = pd.RandPage()
			}
			wal.Write(w.Frame(pg, commit, page))
			wal.Write(page)
		}
	}
	// trailing uncommitted frames sometimes
	if c.Rng.IntN(3) == 0 {
		for f := 0; f < 1+c.Rng.IntN(3); f++ {
			page := pd.RandPage()
			wal.Write(w.Frame(1+uint32(c.Rng.IntN(int(size))), 0, page))
			wal.Write(page)
		}
	}
	wb := wal.Bytes()
	op := []string{"valid", "bitflip", "truncate", "zero", "swap_salt", "random", "patch_header", "old_generation", "hostile_frame", "other_page_size"}[c.Rng.IntN(10)]
	// page0: a checksum-correct frame for page number 0. SQLite ends the valid
	// prefix there; the property defines validity by salts and checksums alone, so
	// LiteFS may go either way about the transaction that holds the frame - but
	// page 0 is none of the database's pages and must not be written anywhere.
	page0 := false
	switch op {
	case "hostile_frame":
		// one more committed transaction holding a checksum-correct frame for a
		// page far outside the database
		hp := []uint32{size + 1, 5000, 0xFFFFFFFF, ref.LockPgno(ps), 0, 0}[c.Rng.IntN(6)]
		page0 = hp == 0
		page := pd.RandPage()
		wb = append(wb, w.Frame(hp, 0, page)...)
		wb = append(wb, page...)
		p1 := ref.MakePage1(ps, size, true, 99, nil)
		wb = append(wb, w.Frame(1, size, p1)...)
		wb = append(wb, p1...)
	case "other_page_size":
		// a well-formed log for a different (valid) page size
		ps2 := ps * 2
		if c.Rng.IntN(2) == 0 {
			ps2 = ps / 2
			if ps2 < 512 {
				ps2 = 1024
			}
		}
		w3 := &ref.WALWriter{BigEndian: be, PageSize: ps2, Salt1: c.Rng.Uint32(), Salt2: c.Rng.Uint32()}
		wb = append([]byte{}, w3.Header()...)
		pd3 := pager.NewDB(nil, "y", ps2, c.Rng)
		for f := 0; f < 3; f++ {
			page := pd3.RandPage()
			cm := uint32(0)
			if f == 2 {
				cm = 3
			}
			wb = append(wb, w3.Frame(uint32(f+1), cm, page)...)
			wb = append(wb, page...)
		}
	case "bitflip":
		for k := 0; k < 1+c.Rng.IntN(3); k++ {
			i := c.Rng.IntN(len(wb))
			wb[i] ^= 1 << uint(c.Rng.IntN(8))
		}
	case "truncate":
		wb = wb[:c.Rng.IntN(len(wb)+1)]
	case "zero":
		a := c.Rng.IntN(len(wb))
		b := a + c.Rng.IntN(len(wb)-a+1)
		for i := a; i < b; i++ {
			wb[i] = 0
		}
	case "swap_salt":
		// change the salts of one frame in the middle
		fs := int(ref.WALFrameHeaderSize + ps)
		nfr := (len(wb) - 32) / fs
		if nfr > 0 {
			k := c.Rng.IntN(nfr)
			binary.BigEndian.PutUint32(wb[32+k*fs+8:], c.Rng.Uint32())
		}
	case "random":
		wb = make([]byte, c.Rng.IntN(4*int(ps)+64))
		for i := range wb {
			wb[i] = byte(c.Rng.Uint32())
		}
		if len(wb) >= 4 && c.Rng.IntN(2) == 0 {
			binary.BigEndian.PutUint32(wb, ref.WALMagicLE)
		}
	case "patch_header":
		// keep the header checksum valid but make a field hostile
		if len(wb) >= 32 {
			switch c.Rng.IntN(3) {
			case 0:
				binary.BigEndian.PutUint32(wb[8:], []uint32{0, 12, 100, 1 << 20, 0x10000 * 2, 8}[c.Rng.IntN(6)])
			case 1:
				binary.BigEndian.PutUint32(wb[4:], []uint32{0, 3007001, 0xFFFFFFFF}[c.Rng.IntN(3)])
			case 2:
				binary.BigEndian.PutUint32(wb[0:], []uint32{0x377f0684, 0, ref.WALMagicBE, ref.WALMagicLE}[c.Rng.IntN(4)])
			}
			bigE := binary.BigEndian.Uint32(wb[0:]) == ref.WALMagicBE
			c0, c1 := ref.WALChecksum(bigE, 0, 0, wb[:24])
			binary.BigEndian.PutUint32(wb[24:], c0)
			binary.BigEndian.PutUint32(wb[28:], c1)
		}
	case "old_generation":
		// append frames of an earlier generation (different salts) after the valid log
		w2 := &ref.WALWriter{BigEndian: be, PageSize: ps, Salt1: w.Salt1 - 1, Salt2: c.Rng.Uint32()}
		w2.Header()
		for f := 0; f < 2; f++ {
			page := pd.RandPage()
			wb = append(wb, w2.Frame(2, uint32(size), page)...)
			wb = append(wb, page...)
		}
	}
	c.Count("C_inputs", 1)
	c.Count("C_op_"+op, 1)
	detail := map[string]any{"page_size": ps, "big_endian": be, "op": op, "wal_len": len(wb), "wal_head": fmt.Sprintf("%x", wb[:minInt(len(wb), 48)])}
	scan := ref.ScanWAL(wb)
	if page0 {
		c.Count("C_page0_frames", 1)
		scan = ref.ScanWALChecksumsOnly(wb)
	}

	// (1) LiteFS's WALReader frame sequence == reference valid prefix
	type fr struct{ pgno, commit uint32 }
	var got []fr
	readerErr := ""
	func() {
		defer func() {
			if r := recover(); r != nil {
				c.Violate("C17/panic/WALReader", fmt.Sprintf("WALReader panicked on a %s WAL: %v", op, r), detail)
				readerErr = "panic"
			}
		}()
		r := litefs.NewWALReader(bytes.NewReader(wb))
		if err := r.ReadHeader(); err != nil {
			readerErr = err.Error()
			return
		}
		if r.PageSize() > 1<<20 || r.PageSize() == 0 {
			readerErr = "absurd page size accepted"
			return
		}
		buf := make([]byte, r.PageSize())
		for {
			pgno, commit, err := r.ReadFrame(buf)
			if err == io.EOF {
				return
			} else if err != nil {
				readerErr = err.Error()
				return
			}
			got = append(got, fr{pgno, commit})
		}
	}()
	if c.Violated() {
		return
	}
	if scan.HeaderOK {
		// the reference accepts the header: LiteFS must produce exactly the valid prefix
		if readerErr != "" {
			c.Violate("C17/wal-reader-error-on-valid-header", fmt.Sprintf("reference reader accepts the header (%d valid frames) but WALReader failed: %s (%s)", len(scan.Frames), readerErr, op), detail)
			return
		}
		ok := len(got) == len(scan.Frames)
		if page0 && !ok {
			scan = ref.ScanWAL(wb) // SQLite's stricter rule is as good
			ok = len(got) == len(scan.Frames)
		}
		for i := 0; ok && i < len(got); i++ {
			ok = got[i].pgno == scan.Frames[i].Pgno && got[i].commit == scan.Frames[i].Commit
		}
		if !ok {
			c.Violate("C17/wal-valid-prefix-differs", fmt.Sprintf("WALReader returned %d frames, the longest valid prefix has %d (%s)", len(got), len(scan.Frames), op), detail)
			return
		}
		if len(got) > 0 {
			c.Count("C_nonempty_valid_prefix", 1)
		}
	} else if len(got) > 0 {
		c.Violate("C17/wal-frames-from-invalid-header", fmt.Sprintf("WALReader returned %d frames from a WAL whose header is invalid (%s)", len(got), op), detail)
		return
	}
	c.Count("C_reader_agree", 1)

	// (2) checkpoint by LiteFS == reference overlay (only frames up to the last commit)
	dir := c.Dir + "/data"
	dbdir := filepath.Join(dir, "dbs", "db")
	_ = os.MkdirAll(filepath.Join(dbdir, "ltx"), 0o755)
	_ = os.WriteFile(filepath.Join(dbdir, "database"), img.Bytes(), 0o644)
	_ = os.WriteFile(filepath.Join(dbdir, "wal"), wb, 0o644)
	want := ref.LogicalImage(img.Bytes(), wb)
	lim := maxU32(npages, want.PageN)
	watch := &pageWriteWatch{limit: lim, ps: ps}
	n, err := drv.NewNode(drv.Config{Dir: dir, Candidate: true, Leaser: litefs.NewStaticLeaser(true, "localhost", "http://127.0.0.1:1"), PreOpen: func(nn *drv.Node) { watch.install(nn) }})
	if err != nil {
		if pe, ok := err.(*drv.PanicError); ok {
			c.Violate("C17/panic/"+siteOf(pe.Stack), fmt.Sprintf("panic while opening a store with a %s WAL: %v", op, pe.Value), detail)
			return
		}
		// refusing to open is allowed for WALs the reference also considers invalid
		if scan.HeaderOK && scan.PageSize == ps && !page0 {
			c.Violate("C17/open-failed-on-valid-wal", fmt.Sprintf("Store.Open failed although the WAL header is valid: %v (%s)", err, op), detail)
		}
		c.Distinct(fmt.Sprintf("C/%s/ps%d/be%v/open-error", op, ps, be))
		return
	}
	defer n.Close()
	if healthViolations(c, n, "wal "+op, detail) {
		return
	}
	if len(watch.outside) > 0 {
		c.Violate("C17/write-outside-pages", fmt.Sprintf("checkpoint of a %s WAL wrote pages %v outside the database's pages (limit %d)", op, watch.outside, lim), detail)
		return
	}
	if fi, err := os.Stat(filepath.Join(dbdir, "database")); err == nil && fi.Size() > int64(lim+1)*int64(ps) {
		c.Violate("C17/write-outside-pages", fmt.Sprintf("after the checkpoint of a %s WAL the database file has %d bytes: more than %d pages of %d bytes", op, fi.Size(), lim, ps), detail)
		return
	}
	if scan.HeaderOK && scan.PageSize == ps {
		dbb, _ := os.ReadFile(filepath.Join(dbdir, "database"))
		gotImg := ref.ImageFromBytes(ps, dbb)
		if page0 {
			// (either reading of the hostile transaction is acceptable: not compared)
			c.Distinct(fmt.Sprintf("C/page0/ps%d/be%v/opened", ps, be))
			return
		}
		if _, n2, _, ok := ref.HeaderInfo(dbb); ok && n2 != 0 && n2 <= gotImg.PageN {
			gotImg.Truncate(n2)
		}
		if dd := gotImg.Diff(want); dd != "" {
			c.Violate("C17/checkpoint-result-differs", fmt.Sprintf("database after LiteFS's checkpoint differs from database+committed frames: %s (%s, %d valid frames, last commit index %d)", dd, op, len(scan.Frames), scan.LastCommit), detail)
			return
		}
		c.Count("C_checkpoint_agree", 1)
	}
	c.Distinct(fmt.Sprintf("C/%s/ps%d/be%v/valid%d/commit%v", op, ps, be, minInt(len(scan.Frames), 3), scan.LastCommit > 0))
	if c.Index < 12 {
		c.Sample(detail)
	}
}
