package checks

import (
	"bytes"
	"context"
	"crypto/sha256"
	"fmt"
	"io"
	"net"
	"net/http"
	"net/url"
	"os"
	"path/filepath"
	"sort"
	"strconv"
	"strings"
	"sync/atomic"
	"syscall"
	"time"
	"verif/drv"

	"github.com/superfly/litefs"
	lhttp "github.com/superfly/litefs/http"
	"github.com/superfly/ltx"
	"verif/cluster"
	"verif/core"
	"verif/mon"
	"verif/pager"
	"verif/ref"
)

func init() {
	register(&core.Check{
		ID:    "C20",
		Level: "exploration",
		Rule: "each case sends ~60 generated requests to the HTTP API of a primary, a replica or a node without a primary: endpoint (9 API endpoints, debug endpoints, unknown paths) x method x parameters (missing / empty / unknown / malformed / valid) x node-id header (own, foreign, absent, garbage) x protocol (HTTP/1.1, h2c) x body (empty, truncated, garbage, oversized, valid); every request must get an HTTP status (no transport error, no 'panic serving'); around every request classified invalid by a table written from the property statement (wrong method, bad parameter, disallowed for the role, missing database/lock, own node id, unusable body) a digest of databases, positions, transaction logs and the lock table must be unchanged; health probes (GET /info, a commit, convergence) follow; " +
			"distinct = (role, endpoint, method, parameter class, body class, protocol, status) tuples",
		Assumptions: []string{"servers run in the worker process; a handler panic is recovered by net/http and shows as a dropped connection", "streaming endpoints count as answered when response headers arrive"},
		NumCases: func(tier string) int {
			if tier == "thorough" {
				return 1800
			}
			return 60
		},
		EvalCounter:     "requests",
		CaseTimeout:     120 * time.Second,
		HangIsViolation: true,
		Run:             runC20,
		Floors: func(tier string) map[string]int {
			m := map[string]int{"requests": 2500, "invalid_requests_digest_checked": 1200, "health_probes": 100, "proto_h1": 500, "proto_h2c": 500,
				"role_primary": 10, "role_replica": 10, "role_noprimary": 10, "final_commit_ok": 10, "holder_hostile_tx": 90, "refused_streams_left_no_subscriber": 20}
			for _, e := range c20Endpoints {
				m["ep_"+strings.TrimPrefix(e, "/")] = 60
			}
			return m
		},
	})
}

var c20Endpoints = []string{"/stream", "/tx", "/halt", "/handoff", "/promote", "/import", "/export", "/info", "/events"}

// stateDigest summarises databases, positions, logs and locks of a node.
func stateDigest(n *cluster.CNode) string {
	var sb strings.Builder
	pm := n.Store.PosMap()
	names := make([]string, 0, len(pm))
	for k := range pm {
		names = append(names, k)
	}
	sort.Strings(names)
	for _, name := range names {
		p := pm[name]
		fmt.Fprintf(&sb, "db %q pos %s/%s\n", name, p.TXID.String(), p.PostApplyChecksum.String())
		db := n.Store.DB(name)
		if db != nil {
			// The only lock an API request can leave behind is the halt lock. The
			// twelve SQLite locks are taken and released by the node's own background
			// sections (stream apply, recovery) at any time; a leaked one is caught
			// by the commit + convergence probe at the end of the case.
			fmt.Fprintf(&sb, " halt=%d remote=%v\n", db.VerifHaltLockID(), db.HasRemoteHaltLock())
		}
		dir := filepath.Join(n.Dir, "dbs", name)
		// the database's logical content (file overlaid with committed WAL
		// frames): an internal checkpoint or journal rollback moves bytes between
		// files without changing the database
		img := mon.RawImage(dir)
		fmt.Fprintf(&sb, " image pages=%d sum=%x\n", img.PageN, sha256.Sum256(img.Bytes()))
		files, others, _ := mon.ListLTXDir(filepath.Join(dir, "ltx"))
		for _, f := range files {
			fmt.Fprintf(&sb, " ltx %s\n", f.Name)
		}
		for _, o := range others {
			if !strings.HasSuffix(o, ".tmp") {
				fmt.Fprintf(&sb, " other %s\n", o)
			}
		}
	}
	// directories on disk that the store does not list
	ents, _ := os.ReadDir(filepath.Join(n.Dir, "dbs"))
	for _, e := range ents {
		fmt.Fprintf(&sb, "dir %s\n", e.Name())
	}
	return sb.String()
}

type c20Req struct {
	Method   string
	Path     string
	Query    string
	NodeID   string // header value ("" = absent)
	BodyKind string
	Body     []byte
	H2       bool
	Invalid  string // reason it is classified invalid ("" = not judged)
	ParamCls string
}

func (r c20Req) String() string {
	return fmt.Sprintf("%s %s?%s id=%q body=%s(%d) h2=%v", r.Method, r.Path, r.Query, r.NodeID, r.BodyKind, len(r.Body), r.H2)
}

func runC20(c *core.Case) {
	role := []string{"primary", "replica", "noprimary"}[c.Index%3]
	c.Count("role_"+role, 1)
	tune := func(s *litefs.Store) { s.HaltLockTTL = time.Hour; s.HaltAcquireTimeout = 300 * time.Millisecond }
	var cl *cluster.Cluster
	var err error
	if role == "noprimary" {
		cl, err = cluster.New(c.Dir, []cluster.NodeOpts{{Candidate: false, Tune: tune}})
	} else {
		cl, err = cluster.New(c.Dir, []cluster.NodeOpts{{Candidate: true, Tune: tune}, {Candidate: false, Tune: tune}})
	}
	if err != nil {
		c.Inconclusive(err.Error())
		return
	}
	defer cl.Close()
	led := newLedger()
	var w *dbWriter
	var target *cluster.CNode
	ps := uint32(1024)
	if role == "noprimary" {
		if err := cl.Start(0); err != nil {
			c.Inconclusive(err.Error())
			return
		}
		target = cl.Nodes[0]
		time.Sleep(30 * time.Millisecond)
	} else {
		if err := cl.Start(0); err != nil || cl.WaitPrimary(0, 10*time.Second) == nil {
			c.Inconclusive("primary start")
			return
		}
		w, err = newWriter(cl.Nodes[0].Node, "db", ps, c.Index%2 == 1, "delete", nil, c.SubRng("w"), led, 1)
		if err != nil {
			c.Violate("C20/setup", err.Error(), nil)
			return
		}
		defer func() {
			if w != nil {
				w.close()
			}
		}()
		w.d.BusyRetries = 5000
		if err := w.ensure(5); err != nil {
			c.Violate("C20/setup", err.Error(), nil)
			return
		}
		for i := 0; i < 3; i++ {
			if _, err := w.txn(2); err != nil {
				c.Violate("C20/setup", err.Error(), nil)
				return
			}
		}
		// the application's connection is closed during the request storm (a WAL
		// connection's standing SHARED lock would make a mode-changing import wait)
		w.close()
		if err := cl.Start(1); err != nil {
			c.Inconclusive(err.Error())
			return
		}
		if ok, _, _ := cl.WaitConverged(cl.Nodes[0], cl.Nodes[1], []string{"db"}, 5, 30*time.Second); !ok {
			c.Inconclusive("replica did not converge")
			return
		}
		target = cl.Nodes[0]
		if role == "replica" {
			target = cl.Nodes[1]
		}
	}
	isPrimary := role == "primary"
	ownID := litefs.FormatNodeID(target.Store.ID())
	h1 := &http.Client{Transport: &http.Transport{DisableKeepAlives: c.Rng.IntN(2) == 0}, Timeout: 0}
	h2 := lhttp.NewClient().HTTPClient

	// valid artefacts
	curImg := func() *ref.Image {
		img, _ := led.get("db", mon.PosOf(cl.Nodes[0].Node, "db"))
		return img
	}
	validImport := func() []byte {
		img := ref.NewImage(ps)
		d2 := pager.NewDB(nil, "x", ps, c.Rng)
		n := uint32(2 + c.Rng.IntN(5))
		for q := uint32(2); q <= n; q++ {
			img.Set(q, d2.RandPage())
		}
		img.Set(1, ref.MakePage1(ps, n, false, 0, nil))
		img.PageN = n
		return img.Bytes()
	}
	heldHalts := map[string]string{} // database name -> id of the halt lock a valid request took

	gen := func() c20Req {
		r := c20Req{Method: pick(c, []string{"GET", "POST", "DELETE", "PUT", "HEAD", "PATCH", "OPTIONS"}), H2: c.Rng.IntN(2) == 0}
		paths := append(append([]string{}, c20Endpoints...), c20Endpoints...)
		paths = append(paths, "/", "/nope", "/debug/vars", "/metrics", "/tx/extra", "/export/", "/debug/pprof/", "/debug/pprof/cmdline", "/INFO")
		r.Path = pick(c, paths)
		// bias the method towards the endpoint's own half of the time
		own := map[string][]string{"/stream": {"POST"}, "/tx": {"POST"}, "/halt": {"POST", "DELETE"}, "/handoff": {"POST"}, "/promote": {"POST"}, "/import": {"POST"}, "/export": {"GET"}, "/info": {"GET"}, "/events": {"GET"}}
		if ms, ok := own[r.Path]; ok && c.Rng.IntN(3) != 0 {
			r.Method = pick(c, ms)
		}
		r.NodeID = pick(c, []string{"", ownID, "00000000DEADBEEF", "zzzz", litefs.FormatNodeID(c.Rng.Uint64()), strings.Repeat("F", 40)})
		// parameters
		q := url.Values{}
		nameCls := pick(c, []string{"db", "db", "absent", "empty", "missing", "weird"})
		switch nameCls {
		case "db":
			q.Set("name", "db")
		case "absent":
			q.Set("name", "nosuchdb")
		case "empty":
			q.Set("name", "")
		case "weird":
			q.Set("name", pick(c, []string{"../x", "a/b", strings.Repeat("n", 300), "db-journal", ".", "\x00"}))
		}
		idCls := pick(c, []string{"num", "num", "missing", "garbage", "zero", "huge", "held"})
		switch idCls {
		case "num":
			q.Set("id", fmt.Sprint(1+c.Rng.IntN(1<<30)))
			q.Set("lockID", q.Get("id"))
		case "garbage":
			q.Set("id", "12x")
			q.Set("lockID", "--")
		case "zero":
			q.Set("id", "0")
			q.Set("lockID", "0")
		case "huge":
			q.Set("id", "99999999999999999999999")
			q.Set("lockID", "99999999999999999999999")
		}
		if r.Path == "/tx" && heldHalts[q.Get("name")] != "" && c.Rng.IntN(3) != 0 {
			idCls = "held"
		}
		switch idCls {
		case "held":
			if id := heldHalts[q.Get("name")]; id != "" {
				q.Set("id", id)
				q.Set("lockID", id)
			} else {
				idCls = "missing"
				q.Del("id")
				q.Del("lockID")
			}
		}
		nodeCls := pick(c, []string{"missing", "garbage", "unknown", "own"})
		switch nodeCls {
		case "garbage":
			q.Set("nodeID", "xyz")
		case "unknown":
			q.Set("nodeID", litefs.FormatNodeID(c.Rng.Uint64()))
		case "own":
			q.Set("nodeID", ownID)
		}
		if c.Rng.IntN(4) == 0 {
			q.Set("filter", pick(c, []string{"db", "", "a,b,,c", strings.Repeat("x,", 500)}))
		}
		if c.Rng.IntN(6) == 0 {
			q.Set("bogus", "1")
		}
		r.Query = q.Encode()
		if c.Rng.IntN(12) == 0 {
			r.Query = pick(c, []string{"name=%zz", "&&&", "name=db&name=other", "id=1;name=db"})
			// classify by what a conforming parser extracts
			pq, perr := url.ParseQuery(r.Query)
			nameCls, idCls = "rawgarbage", "rawgarbage"
			if perr == nil || len(pq) > 0 {
				switch pq.Get("name") {
				case "db":
					nameCls = "db"
				case "":
					nameCls = "missing"
				default:
					nameCls = "absent"
				}
				if pq.Get("id") == "1" {
					idCls = "num"
				} else {
					idCls = "missing"
				}
			}
		}
		r.ParamCls = nameCls + "/" + idCls + "/" + nodeCls
		// body
		r.BodyKind = pick(c, []string{"empty", "empty", "garbage", "truncated", "oversized", "valid"})
		switch r.BodyKind {
		case "garbage":
			r.Body = make([]byte, 1+c.Rng.IntN(300))
			for i := range r.Body {
				r.Body[i] = byte(c.Rng.Uint32())
			}
		case "oversized":
			r.Body = bytes.Repeat([]byte{0xAB}, 3<<20)
		case "valid", "truncated":
			switch r.Path {
			case "/import":
				r.Body = validImport()
			case "/tx":
				if img := curImg(); img != nil && isPrimary {
					r.Body = forgeLTX(cl.Nodes[0], img, 0x7777)
					if r.BodyKind == "truncated" && c.Rng.IntN(2) == 0 {
						// a file whose header says "snapshot" (min TXID 1) but whose
						// body is cut or corrupt: must be rejected without side effects
						r.Body = forgeSnapshotLTX(img, uint64(cl.Nodes[0].Store.DB("db").Pos().TXID))
						if c.Rng.IntN(2) == 0 && len(r.Body) > 120 {
							r.Body[110] ^= 0xFF
							r.BodyKind = "corrupt-snapshot"
							break
						}
					}
				}
			case "/stream":
				var b bytes.Buffer
				_ = lhttp.WritePosMapTo(&b, map[string]ltx.Pos{"db": {}})
				r.Body = b.Bytes()
			default:
				r.BodyKind = "empty"
			}
			if r.BodyKind == "truncated" && len(r.Body) > 2 {
				r.Body = r.Body[:1+c.Rng.IntN(len(r.Body)-1)]
			} else if r.BodyKind == "truncated" {
				r.BodyKind = "empty"
			}
		}
		// ---- classification (from the property statement, not from the handlers) ----
		allowed := own[r.Path]
		methodOK := false
		for _, m := range allowed {
			if m == r.Method {
				methodOK = true
			}
		}
		_, isAPI := own[r.Path]
		switch {
		case isAPI && !methodOK:
			r.Invalid = "method not allowed for the endpoint"
		case !isAPI:
			// unknown and debug paths never change replicated state
			r.Invalid = "not an API endpoint that can change state"
		case r.Path == "/info" || r.Path == "/export" || r.Path == "/events":
			r.Invalid = "read-only endpoint"
		case r.Path == "/stream":
			r.Invalid = "read-only endpoint (subscription only)"
		case r.Path == "/promote":
			// the targets used here are never able to be promoted (primary itself or non-candidates)
			r.Invalid = "promotion impossible for this node"
		case r.Path == "/handoff":
			r.Invalid = "handoff target is never a connected replica here"
		case !isPrimary && (r.Path == "/import" || r.Path == "/halt" || r.Path == "/tx"):
			r.Invalid = "not allowed for the node's role (not primary)"
		case nameCls != "db" && r.Path == "/halt" && r.Method == "DELETE" && c20HoldsThatLock(target, q.Get("name"), q.Get("id")):
			// (an earlier valid POST /halt created this database and took exactly
			// this lock: the request is a legitimate release)
		case nameCls != "db" && (r.Path == "/tx" || (r.Path == "/halt" && r.Method == "DELETE")):
			r.Invalid = "refers to a database/lock that must already exist"
		case nameCls == "weird" && q.Get("name") != "db-journal" && (r.Path == "/import" || r.Path == "/halt"):
			// a database is a file in the mount's flat directory: a name with a path
			// separator, "." or a NUL, or longer than a file name may be, names none
			r.Invalid = "database name is not a file name"
		case (nameCls == "empty" || nameCls == "missing" || nameCls == "rawgarbage") && (r.Path == "/import" || r.Path == "/halt"):
			r.Invalid = "database name missing or malformed"
		case (idCls == "garbage" || idCls == "missing" || idCls == "huge" || idCls == "rawgarbage" || idCls == "zero") && (r.Path == "/halt" || r.Path == "/tx"):
			r.Invalid = "lock id missing or malformed"
		case r.NodeID == ownID && (r.Path == "/halt" || r.Path == "/tx"):
			r.Invalid = "own node id"
		case r.Path == "/tx" && (idCls != "held" || r.BodyKind != "valid"):
			r.Invalid = "not the holder of the halt lock / unusable body"
		case r.Path == "/halt" && r.Method == "DELETE" && idCls != "held":
			r.Invalid = "refers to a lock that is not held"
		case r.Path == "/import" && r.BodyKind != "valid":
			if nameCls == "db" {
				r.Invalid = "unusable import body"
			}
			// (a new name + bad body: whether the empty database that appears counts is left unjudged)
		}
		return r
	}

	send := func(r c20Req) (status int, terr error) {
		u := target.URL() + r.Path
		if r.Query != "" {
			u += "?" + r.Query
		}
		ctx, cancel := context.WithTimeout(context.Background(), 8*time.Second)
		defer cancel()
		var body io.Reader
		if len(r.Body) > 0 {
			body = bytes.NewReader(r.Body)
		}
		req, err := http.NewRequestWithContext(ctx, r.Method, u, body)
		if err != nil {
			return -1, nil // not sendable: skip
		}
		if r.NodeID != "" {
			req.Header.Set(lhttp.HeaderNodeID, r.NodeID)
		}
		cli := h1
		if r.H2 {
			cli = h2
		}
		resp, err := cli.Do(req)
		if err != nil {
			return 0, err
		}
		// streaming endpoints: headers are the answer; read a little, then hang up
		buf := make([]byte, 512)
		done := make(chan struct{})
		go func() { _, _ = io.ReadFull(resp.Body, buf); close(done) }()
		select {
		case <-done:
		case <-time.After(150 * time.Millisecond):
		}
		cancel()
		_ = resp.Body.Close()
		<-done
		return resp.StatusCode, nil
	}

	var recent []string
	// Nobody holds the database's halt lock: a usable, position-extending file
	// sent with lock ids that no holder can have (0, -1, 1) must be refused.
	if isPrimary && target.Store.DB("db") != nil && target.Store.DB("db").VerifHaltLockID() == 0 {
		body := forgeLTX(cl.Nodes[0], curImg(), 0x7777)
		for _, lid := range []string{"0", "-1", "1", "00", "+0"} {
			before := stateDigest(target)
			st, err := send(c20Req{Method: "POST", Path: "/tx", Query: "name=db&lockID=" + lid, NodeID: "00000000DEADBEEF", Body: body, BodyKind: "valid", H2: c.Rng.IntN(2) == 0})
			c.Count("requests", 1)
			c.Count("ep_tx", 1)
			c.Count("tx_without_any_halt_lock", 1)
			detail := map[string]any{"role": role, "request": "POST /tx?lockID=" + lid + " with a usable body while nobody holds the halt lock"}
			if err != nil {
				c.Violate("C20/no-http-response/POST /tx", fmt.Sprintf("/tx with lock id %q got no response: %v", lid, err), detail)
				return
			}
			if healthViolations(c, target.Node, "tx without a halt lock", detail) {
				return
			}
			if after := stateDigest(target); after != before || st == 200 {
				c.Violate("C20/invalid-request-changed-state/POST /tx", fmt.Sprintf("POST /tx?lockID=%s with a usable body while nobody holds the database's halt lock was answered %d and changed databases/positions/logs", lid, st), map[string]any{"digest_before": before, "digest_after": after})
				return
			}
			c.Count("invalid_requests_digest_checked", 1)
		}
	}
	// A legitimate halt-lock holder sending unusable transaction files: each must
	// be rejected without any side effect (the files pass the holder check).
	if isPrimary {
		hid := fmt.Sprint(1000 + c.Rng.IntN(1<<20))
		foreign := "00000000DEADBEEF"
		if st, err := send(c20Req{Method: "POST", Path: "/halt", Query: "name=db&id=" + hid, NodeID: foreign}); err == nil && st == 200 {
			img := curImg()
			good := forgeLTX(cl.Nodes[0], img, 0x7777)
			snap := forgeSnapshotLTX(img, uint64(cl.Nodes[0].Store.DB("db").Pos().TXID))
			corrupt := append([]byte(nil), snap...)
			corrupt[len(corrupt)/2] ^= 0xFF
			badTrailer := append([]byte(nil), snap...)
			badTrailer[len(badTrailer)-3] ^= 0xFF
			goodCorrupt := append([]byte(nil), good...)
			goodCorrupt[len(goodCorrupt)-20] ^= 0xFF
			// well-formed in every respect (file checksum included) except that
			// the database it claims to produce is not the one its pages produce
			wrongPost := forgeLTXPost(cl.Nodes[0], img, 0x7777, 0x0123456789abcdef)
			// well-formed, extends the position, announces the checksum its one page
			// produces - in another page size than the database's
			otherPS := map[uint32]uint32{512: 1024, 1024: 4096, 4096: 1024}[img.PageSize]
			var otherPage bytes.Buffer
			{
				pos := cl.Nodes[0].Store.DB("db").Pos()
				np := bytes.Repeat([]byte{0xA7}, int(otherPS))
				enc := ltx.NewEncoder(&otherPage)
				_ = enc.EncodeHeader(ltx.Header{Version: 1, PageSize: otherPS, Commit: img.PageN + 1, MinTXID: pos.TXID + 1, MaxTXID: pos.TXID + 1,
					Timestamp: time.Now().UnixMilli(), PreApplyChecksum: pos.PostApplyChecksum, NodeID: 0x7777})
				_ = enc.EncodePage(ltx.PageHeader{Pgno: img.PageN + 1}, np)
				enc.SetPostApplyChecksum(ltx.ChecksumFlag | (pos.PostApplyChecksum ^ ltx.ChecksumPage(img.PageN+1, np)))
				_ = enc.Close()
			}
			// a correct file in every respect that spans two transaction IDs: the
			// log holds one file per transaction
			var twoTx bytes.Buffer
			{
				pos := cl.Nodes[0].Store.DB("db").Pos()
				np := bytes.Repeat([]byte{0xB3}, int(img.PageSize))
				ni := img.Clone()
				ni.Set(2, np)
				enc := ltx.NewEncoder(&twoTx)
				_ = enc.EncodeHeader(ltx.Header{Version: 1, PageSize: img.PageSize, Commit: img.PageN, MinTXID: pos.TXID + 1, MaxTXID: pos.TXID + 2,
					Timestamp: time.Now().UnixMilli(), PreApplyChecksum: pos.PostApplyChecksum, NodeID: 0x7777})
				_ = enc.EncodePage(ltx.PageHeader{Pgno: 2}, np)
				enc.SetPostApplyChecksum(ltx.ChecksumFlag | ltx.Checksum(ni.Checksum()))
				_ = enc.Close()
			}
			// a file that SHRINKS the database and announces a wrong checksum
			var shrinkWrong bytes.Buffer
			if img.PageN >= 3 {
				pos := cl.Nodes[0].Store.DB("db").Pos()
				np := bytes.Repeat([]byte{0xC9}, int(img.PageSize))
				enc := ltx.NewEncoder(&shrinkWrong)
				_ = enc.EncodeHeader(ltx.Header{Version: 1, PageSize: img.PageSize, Commit: img.PageN - 1, MinTXID: pos.TXID + 1, MaxTXID: pos.TXID + 1,
					Timestamp: time.Now().UnixMilli(), PreApplyChecksum: pos.PostApplyChecksum, NodeID: 0x7777})
				_ = enc.EncodePage(ltx.PageHeader{Pgno: 2}, np)
				enc.SetPostApplyChecksum(ltx.ChecksumFlag | 0x0fedcba987654321)
				_ = enc.Close()
			}
			hostile := map[string][]byte{
				"next-two-transactions-in-one-file": twoTx.Bytes(),
				"next-tx-wrong-postapply-checksum":  wrongPost,
				"next-tx-other-page-size":           otherPage.Bytes(),
				"snapshot-truncated-after-header":   snap[:100],
				"snapshot-truncated-mid-page":       snap[:100+int(ps)/2],
				"snapshot-truncated-mid-trailer":    snap[:len(snap)-5],
				"snapshot-corrupt-page":             corrupt,
				"snapshot-bad-file-checksum":        badTrailer,
				"next-tx-corrupt-body":              goodCorrupt,
				"next-tx-truncated":                 good[:len(good)-9],
				"empty":                             {},
				"garbage":                           bytes.Repeat([]byte{0x5C}, 333),
			}
			if shrinkWrong.Len() > 0 {
				hostile["next-tx-shrinks-with-wrong-postapply-checksum"] = shrinkWrong.Bytes()
			}
			for kind, body := range hostile {
				before := stateDigest(target)
				st, err := send(c20Req{Method: "POST", Path: "/tx", Query: "name=db&lockID=" + hid, NodeID: foreign, Body: body, BodyKind: kind, H2: c.Rng.IntN(2) == 0})
				c.Count("requests", 1)
				c.Count("holder_hostile_tx", 1)
				c.Count("ep_tx", 1)
				detail := map[string]any{"role": role, "request": "POST /tx from the halt-lock holder, body " + kind}
				if err != nil {
					c.Violate("C20/no-http-response/POST /tx", fmt.Sprintf("holder's /tx with a %s body got no response: %v", kind, err), detail)
					return
				}
				if healthViolations(c, target.Node, "holder /tx "+kind, detail) {
					return
				}
				after := stateDigest(target)
				if after != before || st == 200 {
					c.Violate("C20/invalid-request-changed-state/POST /tx", fmt.Sprintf("POST /tx from the halt-lock holder with an unusable body (%s) was answered %d and changed databases/positions/logs", kind, st), map[string]any{"digest_before": before, "digest_after": after, "body_kind": kind})
					return
				}
				c.Count("invalid_requests_digest_checked", 1)
				c.Distinct("primary|POST /tx|holder|" + kind)
			}
			// a usable file whose apply step fails before the database is touched
			// (the database file cannot be opened: too many open files). The holder
			// is told that the transaction failed, so nothing of it may stay behind.
			{
				var injected atomic.Bool
				target.Node.OS.SetHook(func(op, kind, path string) error {
					if strings.HasPrefix(op, "APPLYLTX:DB") && injected.CompareAndSwap(false, true) {
						return syscall.EMFILE
					}
					return nil
				})
				before := stateDigest(target)
				st, err := send(c20Req{Method: "POST", Path: "/tx", Query: "name=db&lockID=" + hid, NodeID: foreign, Body: good, BodyKind: "valid-but-apply-fails-early", H2: c.Rng.IntN(2) == 0})
				target.Node.OS.SetHook(nil)
				c.Count("requests", 1)
				c.Count("ep_tx", 1)
				detail := map[string]any{"role": role, "request": "POST /tx from the halt-lock holder, usable body, EMFILE when the database file is opened for the apply step"}
				if err != nil {
					c.Violate("C20/no-http-response/POST /tx", fmt.Sprintf("holder's /tx got no response: %v", err), detail)
					return
				}
				if healthViolations(c, target.Node, "holder /tx with a failing apply step", detail) {
					return
				}
				if injected.Load() && st != 200 {
					c.Count("holder_tx_apply_failed_early", 1)
					if after := stateDigest(target); after != before {
						c.Violate("C20/refused-request-changed-state/POST /tx", fmt.Sprintf("POST /tx from the halt-lock holder failed before the database was touched (answered %d) and still changed databases/positions/logs: the next start would apply the refused transaction", st), map[string]any{"digest_before": before, "digest_after": after})
						return
					}
				}
			}
			_, _ = send(c20Req{Method: "DELETE", Path: "/halt", Query: "name=db&id=" + hid, NodeID: foreign})
		}
	}
	nreq := 60
	for i := 0; i < nreq; i++ {
		r := gen()
		var before string
		if r.Invalid != "" {
			// let sections started by earlier (valid, possibly streaming) requests
			// finish: the baseline is the first digest that repeats
			before = stateDigest(target)
			for k := 0; k < 50; k++ {
				time.Sleep(2 * time.Millisecond)
				again := stateDigest(target)
				if again == before {
					break
				}
				before = again
			}
		}
		recent = append(recent, r.String())
		if len(recent) > 12 {
			recent = recent[1:]
		}
		// is the node id of the request registered as a connected replica already?
		var reqNode uint64
		subBefore := false
		if id, perr := litefs.ParseNodeID(r.NodeID); perr == nil && id != 0 {
			reqNode = id
			subBefore = target.Store.SubscriberByNodeID(id) != nil
		}
		status, terr := send(r)
		if status == -1 {
			continue
		}
		c.Count("requests", 1)
		if r.H2 {
			c.Count("proto_h2c", 1)
		} else {
			c.Count("proto_h1", 1)
		}
		if strings.HasPrefix(r.Path, "/") {
			for _, e := range c20Endpoints {
				if r.Path == e {
					c.Count("ep_"+strings.TrimPrefix(e, "/"), 1)
				}
			}
		}
		detail := map[string]any{"role": role, "request": r.String(), "classified_invalid": r.Invalid, "recent_requests": append([]string(nil), recent...)}
		if terr != nil {
			// An oversized body that the server refuses mid-upload can reset the
			// connection on HTTP/1.1 (the server answered, the client was still
			// writing): only judged when nothing was being uploaded.
			blockedByHalt := heldHalts[mustQuery(r.Query).Get("name")] != "" && isTimeout(terr) && (r.Path == "/import" || r.Path == "/halt" || r.Path == "/export")
			if !blockedByHalt && isTimeout(terr) && (r.Path == "/import" || r.Path == "/halt" || r.Path == "/export") {
				// These endpoints wait for the database's write/read locks. Waiting is
				// not a missing response (a handler that never returns or leaks a lock
				// makes the commit + convergence probe at the end of the case fail).
				c.Count("lock_wait_timeouts_not_judged", 1)
			} else if blockedByHalt {
				// the harness itself holds a halt lock on this database through an
				// earlier valid request: waiting for it is the exclusion at work
				c.Count("blocked_by_held_halt_lock", 1)
			} else if r.BodyKind == "oversized" || isTimeout(terr) && (r.Path == "/events" || r.Path == "/stream" || strings.HasPrefix(r.Path, "/debug")) {
				c.Count("transport_errors_not_judged", 1)
			} else {
				c.Violate("C20/no-http-response/"+r.Method+" "+r.Path, fmt.Sprintf("%s node: %s got no HTTP response: %v", role, r.String(), terr), detail)
				return
			}
		}
		if healthViolations(c, target.Node, r.String(), detail) {
			return
		}
		if r.Invalid != "" {
			// internal sections triggered by an earlier valid request may still be
			// finishing: give the digest a moment to settle before comparing
			after := stateDigest(target)
			for k := 0; k < 20 && after != before; k++ {
				time.Sleep(2 * time.Millisecond)
				after = stateDigest(target)
			}
			c.Count("invalid_requests_digest_checked", 1)
			if reqNode != 0 && !subBefore && r.Path == "/stream" {
				// a refused stream request leaves no replica registered under its id
				// (handoff and promotion look targets up there)
				still := target.Store.SubscriberByNodeID(reqNode) != nil
				for k := 0; k < 100 && still; k++ {
					time.Sleep(2 * time.Millisecond)
					still = target.Store.SubscriberByNodeID(reqNode) != nil
				}
				if still {
					c.Violate("C20/invalid-request-changed-state/"+r.Method+" "+r.Path+"/subscriber", fmt.Sprintf("%s node: %s (invalid: %s) was answered %d and left node %s registered as a connected replica", role, r.String(), r.Invalid, status, r.NodeID), map[string]any{"role": role, "request": r.String(), "invalid_because": r.Invalid})
					return
				}
				c.Count("refused_streams_left_no_subscriber", 1)
			}
			if after != before {
				c.Violate("C20/invalid-request-changed-state/"+r.Method+" "+r.Path, fmt.Sprintf("%s node: %s (invalid: %s) was answered %d and changed databases/positions/logs/locks", role, r.String(), r.Invalid, status), map[string]any{"role": role, "request": r.String(), "invalid_because": r.Invalid, "digest_before": before, "digest_after": after})
				return
			}
		} else if r.Path == "/halt" && r.Method == "POST" && status == 200 {
			heldHalts[mustQuery(r.Query).Get("name")] = mustQuery(r.Query).Get("id")
		} else if r.Path == "/halt" && r.Method == "DELETE" && status == 200 && r.Invalid == "" {
			delete(heldHalts, mustQuery(r.Query).Get("name"))
		} else if r.Path == "/tx" && status == 200 && isPrimary && r.Invalid == "" {
			// a forwarded transaction from the (harness-held) halt lock: keep the ledger in step
			if l, err := mon.DecodeLTXReader(bytes.NewReader(r.Body), "tx"); err == nil {
				if prevImg, ok := led.get("db", mon.PosKey{TXID: uint64(l.Header.MinTXID) - 1, Chk: uint64(l.Header.PreApplyChecksum)}); ok {
					led.put("db", mon.PosOf(cl.Nodes[0].Node, "db"), l.Apply(prevImg))
				}
			}
		} else if r.Path == "/import" && status == 200 && isPrimary {
			// a valid import: keep the ledger in step
			if name := mustQuery(r.Query).Get("name"); name == "db" {
				img := ref.ImageFromBytes(ps, r.Body)
				binaryZeroCounters(img)
				led.put("db", mon.PosOf(cl.Nodes[0].Node, "db"), img)
			}
		}
		c.Distinct(fmt.Sprintf("%s|%s %s|%s|%s|h2=%v|%d", role, r.Method, r.Path, r.ParamCls, r.BodyKind, r.H2, status))
		if i%15 == 14 {
			st, err := send(c20Req{Method: "GET", Path: "/info", H2: i%2 == 0})
			c.Count("health_probes", 1)
			if err != nil || st != 200 {
				c.Violate("C20/health-probe-failed", fmt.Sprintf("%s node: GET /info after %s returned %d %v", role, r.String(), st, err), detail)
				return
			}
		}
		if i == 0 && c.Index < 6 {
			c.Sample(map[string]any{"role": role, "request": r.String(), "invalid_because": r.Invalid, "status": status})
		}
	}
	// release the halt locks that valid requests took, then the node must still work
	for name, id := range heldHalts {
		_, _ = send(c20Req{Method: "DELETE", Path: "/halt", Query: url.Values{"name": {name}, "id": {id}}.Encode(), NodeID: "00000000DEADBEEF"})
	}
	if role != "noprimary" {
		p := cl.Nodes[0]
		// any database other than "db" that valid halts/imports created is fine; "db" must be writable
		for _, name := range []string{"db"} {
			db := p.Store.DB(name)
			if db == nil {
				continue
			}
			if id := db.VerifHaltLockID(); id != 0 {
				db.ReleaseHaltLock(context.Background(), id)
			}
		}
		img, ok := led.get("db", mon.PosOf(p.Node, "db"))
		if !ok {
			c.Violate("C20/primary-position-unknown", "primary is at a position no valid request produced: "+mon.PosOf(p.Node, "db").String(), map[string]any{"recent_requests": recent})
			return
		}
		if w != nil {
			w.close()
		}
		w2, err := newWriter(p.Node, "db", ps, false, "delete", img, c.SubRng("w2"), led, 9)
		if err != nil {
			c.Violate("C20/final-writer", err.Error(), nil)
			return
		}
		w = w2
		w2.d.BusyRetries = 5000
		if err := w2.ensure(3); err != nil {
			c.Violate("C20/final-commit-failed", err.Error(), map[string]any{"recent_requests": recent})
			return
		}
		if _, err := w2.txn(2); err != nil {
			healthViolations(c, p.Node, "final commit", nil)
			if !c.Violated() {
				c.Violate("C20/final-commit-failed", fmt.Sprintf("after the request storm a legitimate commit fails: %v", err), map[string]any{"recent_requests": recent})
			}
			return
		}
		c.Count("final_commit_ok", 1)
		ok2, _, timedOut := cl.WaitConverged(p, cl.Nodes[1], []string{"db"}, 5, 30*time.Second)
		if !ok2 && !timedOut {
			c.Violate("C20/replica-wedged", fmt.Sprintf("after the request storm the replica no longer follows the primary (primary %s replica %s)", mon.PosOf(p.Node, "db"), mon.PosOf(cl.Nodes[1].Node, "db")), map[string]any{"recent_requests": recent, "lock_table": stateDigest(cl.Nodes[1])})
			return
		}
		// epilogue: the database is deleted (position N > 0, no pages); a halt-lock
		// holder then posts a file in snapshot form (first transaction 1). It does
		// not extend the position: it must be refused and leave the log alone.
		if isPrimary && c.Index%2 == 0 && !c.Violated() {
			w.close()
			w = nil
			// (a deletion does not wait for the lock: while a section started by an
			// earlier request - a snapshot being streamed, an export - still holds
			// it the answer is EBUSY, and the application tries again)
			var derr error
			for try := 0; try < 400; try++ {
				if derr = p.Node.Remove("db"); derr == nil || drv.Errno(derr) != syscall.EBUSY {
					break
				}
				time.Sleep(5 * time.Millisecond)
			}
			if derr != nil && drv.Errno(derr) == syscall.EBUSY {
				c.Count("final_drop_stayed_busy", 1)
				return
			}
			if derr != nil {
				c.Violate("C20/final-drop-failed", derr.Error(), map[string]any{"recent_requests": recent})
				return
			}
			hid := fmt.Sprint(3000000 + c.Rng.IntN(1<<20))
			foreign := "00000000DEADBEEF"
			if st, err := send(c20Req{Method: "POST", Path: "/halt", Query: "name=db&id=" + hid, NodeID: foreign}); err == nil && st == 200 {
				pos := p.Store.DB("db").Pos()
				for kind, body := range map[string][]byte{
					"snapshot-1-1-after-drop":    forgeSnapshotLTX(img, 0),
					"snapshot-1-next-after-drop": forgeSnapshotLTX(img, uint64(pos.TXID)),
				} {
					before := stateDigest(target)
					st, err := send(c20Req{Method: "POST", Path: "/tx", Query: "name=db&lockID=" + hid, NodeID: foreign, Body: body, BodyKind: kind, H2: c.Rng.IntN(2) == 0})
					c.Count("requests", 1)
					c.Count("holder_hostile_tx", 1)
					c.Count("holder_snapshot_tx_after_drop", 1)
					detail := map[string]any{"role": role, "request": "POST /tx from the halt-lock holder, body " + kind, "position": pos.String()}
					if err != nil {
						c.Violate("C20/no-http-response/POST /tx", fmt.Sprintf("holder's /tx with a %s body got no response: %v", kind, err), detail)
						return
					}
					if healthViolations(c, target.Node, "holder /tx "+kind, detail) {
						return
					}
					if after := stateDigest(target); after != before || st == 200 {
						c.Violate("C20/invalid-request-changed-state/POST /tx", fmt.Sprintf("POST /tx from the halt-lock holder with a snapshot-form file (%s) for a deleted database at %s was answered %d and changed databases/positions/logs", kind, pos, st), map[string]any{"digest_before": before, "digest_after": after, "body_kind": kind})
						return
					}
					c.Count("invalid_requests_digest_checked", 1)
					c.Distinct("primary|POST /tx|holder|" + kind)
				}
				_, _ = send(c20Req{Method: "DELETE", Path: "/halt", Query: "name=db&id=" + hid, NodeID: foreign})
			}
		}
	}
	for _, n := range cl.Nodes {
		if n.Up {
			healthViolations(c, n.Node, "end", nil)
		}
	}
}

// forgeSnapshotLTX builds a well-formed snapshot file (min TXID 1) of img.
// c20HoldsThatLock: the node has a database of that name whose halt lock is held
// under exactly that id.
func c20HoldsThatLock(n *cluster.CNode, name, id string) bool {
	db := n.Store.DB(name)
	if db == nil {
		return false
	}
	v, err := strconv.ParseInt(id, 10, 64)
	return err == nil && v != 0 && db.VerifHaltLockID() == v
}

func forgeSnapshotLTX(img *ref.Image, maxTXID uint64) []byte {
	var buf bytes.Buffer
	enc := ltx.NewEncoder(&buf)
	_ = enc.EncodeHeader(ltx.Header{Version: 1, PageSize: img.PageSize, Commit: img.PageN, MinTXID: 1, MaxTXID: ltx.TXID(maxTXID + 1), Timestamp: time.Now().UnixMilli(), NodeID: 0x7777})
	for p := uint32(1); p <= img.PageN; p++ {
		_ = enc.EncodePage(ltx.PageHeader{Pgno: p}, img.Page(p))
	}
	enc.SetPostApplyChecksum(ltx.Checksum(img.Checksum()))
	_ = enc.Close()
	return buf.Bytes()
}

func mustQuery(q string) url.Values {
	v, _ := url.ParseQuery(q)
	if v == nil {
		v = url.Values{}
	}
	return v
}

func isTimeout(err error) bool {
	if err == nil {
		return false
	}
	if ne, ok := err.(net.Error); ok && ne.Timeout() {
		return true
	}
	s := err.Error()
	return strings.Contains(s, "context canceled") || strings.Contains(s, "deadline exceeded") || strings.Contains(s, "Client.Timeout")
}
