//go:build verif

package checks

import (
	"errors"
	"fmt"
	"sync"
	"sync/atomic"
	"time"

	"github.com/superfly/litefs"

	"verif/cluster"
	"verif/core"
	"verif/drv"
	"verif/pager"
)

func init() {
	addFamily("C11", func(tier string) int {
		if tier == "thorough" {
			return 48
		}
		return 6
	}, runC11BeginDuringRecovery, " (+ an application that BEGINS while LiteFS recovers: the node changes role with committed frames in the write-ahead log (or a hot journal); LiteFS's checkpoint / rollback is held at its first page write and a connection asks for the locks of a writer and of a checkpointer (WAL_WRITE_LOCK, WAL_CKPT_LOCK - the database is in WAL mode, where no SQLite connection takes RESERVED and readers may run next to a checkpoint); neither may be granted until the recovery has finished, counters begin_*)")
	chk := Registry["C11"]
	base := chk.Floors
	chk.Floors = func(tier string) map[string]int {
		m := map[string]int{}
		if base != nil {
			for k, v := range base(tier) {
				m[k] = v
			}
		}
		m["begin_lock_requests_during_recovery"] = 6
		return m
	}
}

// runC11BeginDuringRecovery: "... and no application can begin reading or
// writing until it finishes". The role-change recovery is parked inside its
// first page write (hook H1); lock requests of a new connection arrive then.
func runC11BeginDuringRecovery(c *core.Case, k int) {
	ps := []uint32{1024, 4096, 512}[k%3]
	var mu sync.Mutex
	blocked := false
	cl, err := cluster.New(c.Dir, []cluster.NodeOpts{{Candidate: true}})
	if err != nil {
		c.Inconclusive(err.Error())
		return
	}
	defer cl.Close()
	cl.Svc.SetInject(func(node, op string) error {
		mu.Lock()
		defer mu.Unlock()
		if blocked && op == "acquire" {
			return errors.New("scripted: acquire unavailable")
		}
		return nil
	})
	if err := cl.Start(0); err != nil || cl.WaitPrimary(0, 10*time.Second) == nil {
		c.Inconclusive("primary start")
		return
	}
	P := cl.Nodes[0]
	led := newLedger()
	detail := map[string]any{"page_size": ps}
	w, err := newWriter(P.Node, "db", ps, true, "delete", nil, c.SubRng("w"), led, 1)
	if err != nil {
		c.Violate("C11/setup", err.Error(), detail)
		return
	}
	if err := w.ensure(uint32(8 + c.Rng.IntN(6))); err != nil {
		w.close()
		c.Violate("C11/setup", err.Error(), detail)
		return
	}
	for i := 0; i < 12 && (i < 3 || w.d.WalEnd == 0 || w.d.Backfilled); i++ {
		_, _ = w.txn(3) // (now and then the writer checkpoints: go on until frames are pending)
	}
	w.close() // (the log keeps its committed frames: nobody checkpointed)
	// ---- park LiteFS's own first page write
	parked := make(chan struct{}, 1)
	resume := make(chan struct{})
	var once atomic.Bool
	var inRecovery atomic.Bool
	P.Node.OnPageWrite(func(db *litefs.DB, pgno uint32, data []byte, invalidate bool) {
		if once.CompareAndSwap(false, true) {
			inRecovery.Store(true)
			parked <- struct{}{}
			select {
			case <-resume:
			case <-time.After(20 * time.Second):
			}
			inRecovery.Store(false)
		}
	})
	defer P.Node.OnPageWrite(nil)
	mu.Lock()
	blocked = true
	mu.Unlock()
	if k%2 == 0 {
		P.Store.Demote()
	} else {
		cl.Svc.Expire()
	}
	select {
	case <-parked:
	case <-time.After(6 * time.Second):
		close(resume)
		c.Inconclusive(fmt.Sprintf("the role change did not lead to a page write by LiteFS (k=%d, primary now %v)", k, P.Store.IsPrimary()))
		return
	}
	// ---- a new connection asks for a writer's and a checkpointer's locks (WAL
	// mode: readers may legitimately run next to a checkpoint and nobody takes RESERVED)
	const owner = 8811
	type req struct {
		file       string
		start, end uint64
		excl       bool
		what       string
	}
	reqs := []req{
		{"db-shm", pager.WalWrite, pager.WalWrite, true, "WAL_WRITE_LOCK exclusive (a writer begins)"},
		{"db-shm", pager.WalCkpt, pager.WalCkpt, true, "WAL_CKPT_LOCK exclusive (a checkpointer begins)"},
	}
	var granted []string
	for _, r := range reqs {
		f, err := P.Node.Open(r.file)
		if err != nil {
			continue
		}
		lerr := f.Lock(owner, r.start, r.end, r.excl)
		c.Count("begin_lock_requests_during_recovery", 1)
		stillIn := inRecovery.Load()
		if lerr == nil && stillIn {
			granted = append(granted, r.what)
		}
		if lerr == nil {
			_ = f.Unlock(owner, r.start, r.end)
		} else if lerr != drv.ErrBusy {
			detail["lock_error_"+r.what] = lerr.Error()
		}
		f.Close(owner)
	}
	close(resume)
	if len(granted) > 0 {
		c.Violate("C11/client-lock-granted-during-internal-write", fmt.Sprintf("role-change recovery: LiteFS was inside its own page write (checkpoint of committed frames after the node left the primary role) when a new connection was granted %v", granted), detail)
		return
	}
	time.Sleep(50 * time.Millisecond)
	if healthViolations(c, P.Node, "begin during recovery", detail) {
		return
	}
	judgeRawChecksum(c, P.Node, "db", "after the recovery", detail)
	c.Count("begin_recoveries_parked", 1)
	c.Distinct(fmt.Sprintf("begin-during-recovery/ps%d/%d", ps, k%2))
}
