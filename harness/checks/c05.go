package checks

import (
	"bytes"
	"context"
	"fmt"
	"os"
	"path/filepath"
	"strings"
	"sync"
	"time"

	"github.com/superfly/litefs"
	"verif/cluster"
	"verif/core"
	"verif/drv"
	"verif/mon"
	"verif/pager"
	"verif/ref"
)

var c05Shapes = []string{"first-tx", "grow", "shrink", "multi-segment", "sqlite-rollback", "wal-commit", "wal-restart", "app-checkpoint", "litefs-checkpoint", "drop", "import", "replica-apply", "replica-snapshot", "role-change-recover", "snapshot-over-fork", "recreate-first-tx", "wal-to-rollback"}

func init() {
	register(&core.Check{
		ID:    "C05",
		Level: "fault_enumeration",
		Rule: "each case executes one operation shape once on the real code while a recorder copies the data directory (= the post-crash disk for process death) before every mutating OS-layer call (create, open-with-create, rename, remove, truncate, write-file), before every internal page write and file truncate (hook H1), before every application-level I/O or lock step, and after completion; every image is reopened with a fresh Store and judged: open succeeds, position == newest LTX file, image in {before, after} and == ledger[recovered position], no hot journal left, a commit that had already returned is not lost, and one more transaction commits; " +
			"distinct = (shape, mode, page size, crash-point label, recovered side) tuples",
		Assumptions: []string{"process death (page cache survives), not power loss", "direct *os.File writes LiteFS makes outside the OS layer go to .tmp files or are bracketed by hooked calls"},
		NumCases: func(tier string) int {
			if tier == "thorough" {
				return len(c05Shapes) * 60
			}
			return len(c05Shapes) * 6
		},
		EvalCounter: "images_judged",
		CaseTimeout: 150 * time.Second,
		Run:         runC05,
		Floors: func(tier string) map[string]int {
			m := map[string]int{"images_judged": 600, "recovered_before": 20, "recovered_after": 20, "post_recovery_commits": 200, "wal_single_frame_tx": 1}
			for _, s := range c05Shapes {
				m["shape_"+s] = 1
				m["points_"+s] = 5
			}
			return m
		},
	})
}

type crashImage struct {
	Dir       string
	Label     string
	Finalized bool // the operation's finalising call had returned success
}

type crashRecorder struct {
	mu        sync.Mutex
	src       string
	base      string
	imgs      []crashImage
	enabled   bool
	finalized bool
}

func (r *crashRecorder) snap(label string) {
	r.mu.Lock()
	defer r.mu.Unlock()
	if !r.enabled {
		return
	}
	dst := filepath.Join(r.base, fmt.Sprintf("img%03d", len(r.imgs)))
	if err := copyTree(r.src, dst); err != nil {
		return
	}
	r.imgs = append(r.imgs, crashImage{Dir: dst, Label: label, Finalized: r.finalized})
}

func (r *crashRecorder) setEnabled(v bool) { r.mu.Lock(); r.enabled = v; r.mu.Unlock() }
func (r *crashRecorder) setFinalized()     { r.mu.Lock(); r.finalized = true; r.mu.Unlock() }

// attach installs the OS-layer and H1 hooks on a node.
func (r *crashRecorder) attach(n *drv.Node) {
	n.OS.SetHook(func(op, kind, path string) error {
		switch kind {
		case "create", "openfile-create", "rename", "remove", "removeall", "truncate", "writefile", "mkdir":
			r.snap(op + ":" + kind + ":" + shortPath(path))
		}
		return nil
	})
	n.OnPageWrite(func(db *litefs.DB, pgno uint32, data []byte, invalidate bool) {
		r.snap(fmt.Sprintf("pagewrite:%d", pgno))
	})
	n.OnTruncate(func(db *litefs.DB, pageN uint32) { r.snap(fmt.Sprintf("dbtruncate:%d", pageN)) })
}

func shortPath(p string) string {
	b := filepath.Base(p)
	if strings.HasSuffix(b, ".ltx") || strings.Contains(b, ".ltx.") {
		if strings.HasSuffix(b, ".tmp") {
			return "ltx.tmp"
		}
		return "ltx"
	}
	return b
}

func labelClass(l string) string {
	// strip numbers
	out := make([]byte, 0, len(l))
	for i := 0; i < len(l); i++ {
		if l[i] >= '0' && l[i] <= '9' {
			continue
		}
		out = append(out, l[i])
	}
	return string(out)
}

// newestLTXPos returns the position named by the newest LTX file in a db dir.
func newestLTXPos(dbDir string) (mon.PosKey, error) {
	files, _, err := mon.ListLTXDir(filepath.Join(dbDir, "ltx"))
	if err != nil || len(files) == 0 {
		return mon.PosKey{}, err
	}
	var best mon.LTXEntry
	for _, f := range files {
		if f.Max >= best.Max {
			best = f
		}
	}
	l, err := mon.DecodeLTX(filepath.Join(dbDir, "ltx", best.Name))
	if err != nil {
		return mon.PosKey{}, fmt.Errorf("newest ltx %s: %w", best.Name, err)
	}
	return mon.PosKey{TXID: uint64(l.Header.MaxTXID), Chk: uint64(l.Trailer.PostApplyChecksum)}, nil
}

// judgeCrashImage reopens one crash image and applies the C05 rules.
func judgeCrashImage(c *core.Case, img crashImage, name string, before, after mon.PosKey, led *ledger, ps uint32, role string, detail map[string]any) string {
	d := map[string]any{"crash_point": img.Label, "finalized": img.Finalized}
	for k, v := range detail {
		d[k] = v
	}
	fpfx := "C05/" + labelClass(img.Label) + "/"
	// What would SQLite's own hot-journal playback make of this crash image? (Only
	// consulted if LiteFS's result differs: a state in which SQLite's rules restore
	// neither the image before nor the one after - a stale later segment of a
	// persistent journal right behind an unsynced header, see C17 - is not judged
	// for bytes.)
	sqliteRestores := true
	{
		dbDir := filepath.Join(img.Dir, "dbs", name)
		if wb, ok := led.get(name, before); ok && wb != nil {
			sqliteRestores = sqlitePlaybackRestores(dbDir, ps, wb)
		}
		if wa, ok := led.get(name, after); ok && wa != nil && !sqliteRestores {
			sqliteRestores = sqlitePlaybackRestores(dbDir, ps, wa)
		}
	}
	n, err := drv.NewNode(drv.Config{Dir: img.Dir, Candidate: true, Leaser: litefs.NewStaticLeaser(true, "localhost", "http://127.0.0.1:1")})
	c.Count("images_judged", 1)
	if err != nil {
		if pe, ok := err.(*drv.PanicError); ok {
			c.Violate(fpfx+"reopen-panic/"+siteOf(pe.Stack), fmt.Sprintf("restart after a crash before %q panicked: %v", img.Label, pe.Value), d)
		} else {
			c.Violate(fpfx+"reopen-failed", fmt.Sprintf("restart after a crash before %q failed: %v", img.Label, err), d)
		}
		return ""
	}
	defer n.Close()
	if !n.WaitReady(10 * time.Second) {
		c.Inconclusive("recovered node not ready")
		return ""
	}
	if healthViolations(c, n, "reopen after crash before "+img.Label, d) {
		return ""
	}
	pos := mon.PosOf(n, name)
	newest, err := newestLTXPos(mon.DBDir(n, name))
	if err != nil {
		c.Violate(fpfx+"newest-ltx-unreadable", err.Error(), d)
		return ""
	}
	if pos != newest {
		c.Violate(fpfx+"position-not-newest-ltx", fmt.Sprintf("after a crash before %q: recovered position %s but the newest LTX file names %s", img.Label, pos, newest), d)
		return ""
	}
	side := ""
	switch pos {
	case before:
		side = "before"
	case after:
		side = "after"
	default:
		c.Violate(fpfx+"position-neither-before-nor-after", fmt.Sprintf("after a crash before %q: recovered position %s is neither %s nor %s", img.Label, pos, before, after), d)
		return ""
	}
	if before == after {
		side = "same"
	}
	if img.Finalized && pos != after {
		c.Violate(fpfx+"acknowledged-commit-lost", fmt.Sprintf("the commit had already returned success, but after a crash before %q the node recovered to %s instead of %s", img.Label, pos, after), d)
		return ""
	}
	want, ok := led.get(name, pos)
	if !ok && pos.TXID != 0 {
		c.Violate(fpfx+"position-unknown", fmt.Sprintf("recovered position %s is not in the ledger", pos), d)
		return ""
	}
	if want == nil {
		want = ref.NewImage(ps)
	}
	if want.PageN > 0 {
		// the journal mode LiteFS works with is the one of the recovered database
		// (it selects the lock set of LiteFS's own writers and the read path of
		// exports and snapshots)
		if _, _, isWAL, ok := ref.HeaderInfo(want.Page(1)); ok {
			if m := n.Store.DB(name).Mode().String(); (m == "WAL_MODE") != isWAL {
				c.Violate(fpfx+"mode-after-recovery", fmt.Sprintf("after a crash before %q the database recovered to %s whose header says WAL=%v, but LiteFS runs it in %s", img.Label, pos, isWAL, m), d)
				return ""
			}
			c.Count("mode_after_recovery_checked", 1)
		}
	}
	got := mon.RawImage(mon.DBDir(n, name))
	if dd := got.Diff(want); dd != "" && !sqliteRestores {
		c.Count("crash_images_sqlite_rules_would_not_restore_either", 1)
		return ""
	} else if dd != "" {
		c.Violate(fpfx+"image-mismatch", fmt.Sprintf("after a crash before %q the database recovered to position %s (%s) but its image differs: %s", img.Label, pos, side, dd), d)
		return ""
	}
	if pos.TXID != 0 && got.Checksum() != pos.Chk {
		c.Violate(fpfx+"checksum-mismatch", fmt.Sprintf("recovered checksum %x != from-scratch %x", pos.Chk, got.Checksum()), d)
		return ""
	}
	// nothing left for SQLite to replay differently
	if jb, err := os.ReadFile(filepath.Join(mon.DBDir(n, name), "journal")); err == nil && len(jb) >= 8 && bytes.Equal(jb[:8], ref.JournalMagic) {
		c.Violate(fpfx+"hot-journal-left", fmt.Sprintf("after recovery from a crash before %q a journal with a valid header is still present", img.Label), d)
		return ""
	}
	// the bytes an application reads through the mount equal the image too
	if seen, err := mon.SeenImage(n, name, 77, true); err != nil {
		c.Violate(fpfx+"read-after-recovery", err.Error(), d)
		return ""
	} else if dd := seen.Diff(want); dd != "" {
		c.Violate(fpfx+"seen-image-mismatch", fmt.Sprintf("after recovery from a crash before %q the mount shows a different image: %s", img.Label, dd), d)
		return ""
	}
	if role == "skip-commit" {
		return side
	}
	// the restarted node can commit again
	isWal := false
	if want.PageN > 0 {
		_, _, isWal, _ = ref.HeaderInfo(want.Page(1))
	}
	w, err := newWriter(n, name, ps, isWal, "delete", want, c.SubRng("post-"+img.Label), led, 55)
	if err != nil {
		c.Violate(fpfx+"post-recovery-open", err.Error(), d)
		return side
	}
	defer w.close()
	if err := w.ensure(3); err != nil {
		healthViolations(c, n, "post-recovery create", d)
		if !c.Violated() {
			c.Violate(fpfx+"post-recovery-commit-failed", err.Error(), d)
		}
		return side
	}
	prev := mon.PosOf(n, name)
	oldImg := w.d.M
	committed, err := w.txn(3)
	if err != nil {
		healthViolations(c, n, "post-recovery txn", d)
		if !c.Violated() {
			c.Violate(fpfx+"post-recovery-commit-failed", fmt.Sprintf("after recovery from a crash before %q: %v", img.Label, err), d)
		}
		return side
	}
	judgeLocalTx(c, n, name, prev, oldImg, w.d.M, committed, "post-recovery txn after crash before "+img.Label, d)
	c.Count("post_recovery_commits", 1)
	return side
}

func runC05(c *core.Case) {
	shape := c05Shapes[c.Index%len(c05Shapes)]
	variant := c.Index / len(c05Shapes)
	ps := []uint32{512, 4096, 1024, 65536, 8192, 4096}[variant%6]
	jmode := []string{"delete", "truncate", "persist"}[variant%3]
	c.Count("shape_"+shape, 1)
	if shape == "replica-apply" || shape == "replica-snapshot" {
		c05Replica(c, shape, ps, jmode, variant)
		return
	}
	if shape == "snapshot-over-fork" {
		c05Fork(c, shape, ps, jmode, variant)
		return
	}
	dir := c.Dir + "/data"
	n, err := newPrimary(dir, nil)
	if err != nil {
		c.Inconclusive(err.Error())
		return
	}
	defer n.Close()
	led := newLedger()
	rec := &crashRecorder{src: dir, base: c.Dir + "/imgs"}
	rec.attach(n)
	wal := shape == "wal-commit" || shape == "wal-restart" || shape == "app-checkpoint" || shape == "wal-to-rollback" || (shape == "litefs-checkpoint" && variant%2 == 0) || ((shape == "drop" || shape == "import") && variant%2 == 1)
	w, err := newWriter(n, "db", ps, wal, jmode, nil, c.SubRng("w"), led, 1)
	if err != nil {
		c.Violate("C05/setup", err.Error(), nil)
		return
	}
	defer func() { w.close() }()
	w.d.BusyRetries = 0
	detail := map[string]any{"shape": shape, "page_size": ps, "journal_mode": jmode, "wal": wal}
	var before, after mon.PosKey

	stepHook := func(step string) error { rec.snap("step:" + step); return nil }
	setup := func(pages uint32, extra int) bool {
		if err := w.ensure(pages); err != nil {
			healthViolations(c, n, "setup", detail)
			if !c.Violated() {
				c.Violate("C05/setup", err.Error(), detail)
			}
			return false
		}
		for i := 0; i < extra; i++ {
			if _, err := w.txn(3); err != nil {
				c.Violate("C05/setup", err.Error(), detail)
				return false
			}
		}
		return true
	}
	runTx := func(f func() pager.TxResult) bool {
		before = mon.PosOf(n, "db")
		oldM := w.d.M
		led.put("db", before, oldM)
		w.d.Hook = stepHook
		rec.setEnabled(true)
		res := f()
		if res.Finalized {
			rec.setFinalized()
		}
		rec.snap("done")
		rec.setEnabled(false)
		w.d.Hook = nil
		if res.Err != nil {
			healthViolations(c, n, "operation", detail)
			if !c.Violated() {
				c.Violate("C05/operation-failed", fmt.Sprintf("%s: %v", res.ErrStep, res.Err), detail)
			}
			return false
		}
		after = mon.PosOf(n, "db")
		led.put("db", after, w.d.M)
		return true
	}
	// The pager's finalisation step is the point where SQLite learns the commit
	// succeeded: mark images taken after it.
	markFinalize := func() {
		orig := stepHook
		seenFinalize := false
		stepHook = func(step string) error {
			if seenFinalize {
				rec.setFinalized()
				seenFinalize = false
			}
			if step == "journal finalize" || (step == "unlock WRITE" && shape != "wal-to-rollback") { // (the switch begins with a checkpoint: its WRITE unlock commits nothing)
				seenFinalize = true
			}
			return orig(step)
		}
	}
	markFinalize()

	ok := true
	switch shape {
	case "first-tx":
		before = mon.PosKey{}
		led.put("db", before, ref.NewImage(ps))
		w.d.Hook = stepHook
		rec.setEnabled(true)
		err := w.ensure(uint32(3 + variant%5))
		rec.snap("done")
		rec.setEnabled(false)
		w.d.Hook = nil
		if err != nil {
			healthViolations(c, n, "first tx", detail)
			if !c.Violated() {
				c.Violate("C05/operation-failed", err.Error(), detail)
			}
			return
		}
		after = mon.PosOf(n, "db")
		led.put("db", after, w.d.M)
	case "grow", "shrink", "multi-segment", "sqlite-rollback":
		if !setup(uint32(12+variant%9), 1) {
			return
		}
		cur := w.d.M.PageN
		spec := pager.RollbackSpec{Mode: jmode, Outcome: "commit", NewPageN: cur, Dirty: []uint32{2, 3, cur}}
		switch shape {
		case "grow":
			spec.NewPageN = cur + 3
		case "shrink":
			spec.NewPageN = cur - 4
			if variant%2 == 1 {
				spec.DirtyCut, spec.SpillAfter = 2, 2 // tail pages modified and spilled before they are cut off
			}
		case "multi-segment":
			spec.Dirty = []uint32{2, 3, 4, 5, 6, 7, 8}
			spec.SpillAfter = 3
			spec.MultiSpill = variant%2 == 0
			spec.NewPageN = cur + uint32(variant%3)
		case "sqlite-rollback":
			spec.Dirty = []uint32{2, 3, 4, 5, 6}
			spec.SpillAfter = 2
			spec.Outcome = "rollback"
			spec.NewPageN = cur + 2
		}
		ok = runTx(func() pager.TxResult { return w.conn.RunRollbackTx(spec) })
		if shape == "sqlite-rollback" && ok {
			// a rolled-back transaction may consume a TXID with the same image
			led.put("db", after, w.d.M)
		}
	case "wal-commit", "wal-restart":
		// (every third wal-commit case: the interrupted transaction is the FIRST one
		// in the log - the newest transaction file is the rollback-journal one that
		// switched the database to WAL mode and names no position in the log)
		extra := 2
		if shape == "wal-commit" && variant%3 == 0 {
			extra = 0
			c.Count("first_wal_tx_interrupted", 1)
		}
		if !setup(uint32(8+variant%5), extra) {
			return
		}
		if extra == 0 {
			// back to a rollback mode and to WAL again: the newest transaction file
			// is the journal transaction that rewrote page 1 alone
			if r := w.conn.SwitchToRollback(jmode); r.Err != nil {
				c.Violate("C05/setup", "switch to rollback: "+r.Err.Error(), detail)
				return
			}
			w.record()
			if r := w.conn.RunRollbackTx(pager.RollbackSpec{Mode: jmode, Outcome: "commit", NewPageN: w.d.M.PageN, WALHeader: true}); r.Err != nil {
				c.Violate("C05/setup", "switch to wal: "+r.Err.Error(), detail)
				return
			}
			w.record()
			if err := w.conn.OpenWAL(); err != nil {
				c.Violate("C05/setup", "open wal: "+err.Error(), detail)
				return
			}
		}
		if shape == "wal-restart" {
			if r := w.conn.RunCheckpoint(pager.CheckpointSpec{Kind: []string{"full", "restart", "truncate"}[variant%3]}); r.Err != nil {
				c.Violate("C05/setup", "checkpoint: "+r.Err.Error(), detail)
				return
			}
		}
		cur := w.d.M.PageN
		spec := pager.WALSpec{NewPageN: cur + uint32(variant%3), Outcome: "commit", SplitFrame: true, Frames: []pager.FrameSpec{{Pgno: 2}, {Pgno: 3}, {Pgno: 2}}}
		if variant%4 == 3 && cur > 4 {
			spec.NewPageN = cur - 2
		}
		for p := cur + 1; p <= spec.NewPageN; p++ {
			spec.Frames = append(spec.Frames, pager.FrameSpec{Pgno: p})
		}
		spec.Frames = append(spec.Frames, pager.FrameSpec{Pgno: 1})
		if shape == "wal-commit" && variant%3 == 2 {
			// a transaction of exactly one frame, on a page the newest transaction
			// file does not hold (WAL commits need not touch page 1)
			if r := w.conn.RunWALTx(pager.WALSpec{NewPageN: cur, Outcome: "commit", SplitFrame: true, Frames: []pager.FrameSpec{{Pgno: 2}}}); r.Err != nil {
				c.Violate("C05/setup", "single-frame predecessor: "+r.Err.Error(), detail)
				return
			}
			w.record()
			spec = pager.WALSpec{NewPageN: cur, Outcome: "commit", SplitFrame: true, Frames: []pager.FrameSpec{{Pgno: 3}}}
			c.Count("wal_single_frame_tx", 1)
		}
		ok = runTx(func() pager.TxResult { return w.conn.RunWALTx(spec) })
	case "app-checkpoint":
		if !setup(uint32(8+variant%5), 3) {
			return
		}
		kind := []string{"passive", "full", "restart", "truncate"}[variant%4]
		ok = runTx(func() pager.TxResult {
			r := w.conn.RunCheckpoint(pager.CheckpointSpec{Kind: kind})
			r.Finalized = false
			return r
		})
	case "wal-to-rollback":
		// the application switches the journal mode back (PRAGMA journal_mode=
		// delete/truncate/persist on a WAL database): checkpoint, the log and the
		// index are deleted, page 1 is rewritten through a rollback journal
		if !setup(uint32(8+variant%5), 2) {
			return
		}
		if variant%2 == 0 {
			// the newest transaction file does not hold page 1 (a WAL commit need not
			// touch it): nothing re-applied at start-up will carry the header
			prev := mon.PosOf(n, "db")
			r := w.conn.RunWALTx(pager.WALSpec{NewPageN: w.d.M.PageN, Outcome: "commit", SplitFrame: true, Frames: []pager.FrameSpec{{Pgno: 2}, {Pgno: 3}}})
			if r.Err != nil || mon.PosOf(n, "db").TXID != prev.TXID+1 {
				c.Inconclusive(fmt.Sprintf("setup transaction without page 1: %v", r.Err))
				return
			}
			w.record()
		}
		ok = runTx(func() pager.TxResult { return w.conn.SwitchToRollback(jmode) })
	case "litefs-checkpoint":
		if !setup(uint32(8+variant%5), 3) {
			return
		}
		ok = runTx(func() pager.TxResult {
			err := n.Store.DB("db").Checkpoint(context.Background())
			if w.d.WALMode {
				w.d.WalEnd, w.d.Backfilled, w.d.WalContent = 0, true, map[uint32][]byte{}
			}
			return pager.TxResult{Err: err, ErrStep: "litefs-checkpoint"}
		})
	case "role-change-recover":
		// SQLite dies mid-transaction leaving a hot journal; LiteFS's Recover
		// (role change) rolls it back; crash inside that rollback.
		if !setup(uint32(12+variant%9), 1) {
			return
		}
		cur := w.d.M.PageN
		spec := pager.RollbackSpec{Mode: jmode, Outcome: "commit", NewPageN: cur + uint32(variant%3), Dirty: []uint32{2, 3, 4, 5, 6}, SpillAfter: 2, MultiSpill: true}
		steps := 0
		abortAt := 14 + variant%17
		w.d.Hook = func(step string) error {
			steps++
			if steps == abortAt {
				return pager.ErrAbort
			}
			return nil
		}
		res := w.conn.RunRollbackTx(spec)
		w.d.Hook = nil
		if res.Err != nil {
			c.Violate("C05/setup", res.Err.Error(), detail)
			return
		}
		if res.Finalized || !res.Aborted {
			// the transaction got through; still a valid scenario with nothing to roll back
		}
		w.close()
		w.conn = nil
		oldM := w.d.M
		before = mon.PosOf(n, "db")
		led.put("db", before, oldM)
		rec.setEnabled(true)
		err := n.Store.DB("db").Recover(context.Background())
		rec.snap("done")
		rec.setEnabled(false)
		if err != nil {
			c.Violate("C05/operation-failed", "Recover: "+err.Error(), detail)
			return
		}
		after = mon.PosOf(n, "db")
		led.put("db", after, oldM)
	case "drop":
		if !setup(uint32(8+variant%5), 2) {
			return
		}
		w.close()
		w.conn = nil
		before = mon.PosOf(n, "db")
		led.put("db", before, w.d.M)
		rec.setEnabled(true)
		err := n.Remove("db")
		if err == nil {
			rec.setFinalized()
		}
		rec.snap("done")
		rec.setEnabled(false)
		if err != nil {
			healthViolations(c, n, "drop", detail)
			if !c.Violated() {
				c.Violate("C05/operation-failed", "drop: "+err.Error(), detail)
			}
			return
		}
		after = mon.PosOf(n, "db")
		led.put("db", after, ref.NewImage(ps))
	case "recreate-first-tx":
		// the database was deleted; a database is created under the same name and
		// its first transaction is interrupted: "before" is the deletion's position
		// (nothing there), "after" the next one - the sequence continues (C15)
		if !setup(uint32(8+variant%5), 1) {
			return
		}
		w.close()
		w.conn = nil
		if err := n.Remove("db"); err != nil {
			c.Violate("C05/setup", "drop: "+err.Error(), detail)
			return
		}
		before = mon.PosOf(n, "db")
		led.put("db", before, ref.NewImage(ps))
		ps2 := ps
		if variant%2 == 1 {
			ps2 = map[uint32]uint32{512: 1024, 1024: 4096, 4096: 512, 8192: 4096, 65536: 1024}[ps]
		}
		detail["recreated_page_size"] = ps2
		w2, err := newWriter(n, "db", ps2, false, jmode, nil, c.SubRng("w2"), led, 1)
		if err != nil {
			c.Violate("C05/setup", err.Error(), detail)
			return
		}
		w = w2
		w.d.BusyRetries = 0
		w.d.Hook = stepHook
		rec.setEnabled(true)
		err = w.ensure(uint32(3 + variant%5))
		rec.snap("done")
		rec.setEnabled(false)
		w.d.Hook = nil
		if err != nil {
			healthViolations(c, n, "first tx of the recreated database", detail)
			if !c.Violated() {
				c.Violate("C05/operation-failed", err.Error(), detail)
			}
			return
		}
		after = mon.PosOf(n, "db")
		led.put("db", after, w.d.M)
		ps = ps2
	case "import":
		if !setup(uint32(8+variant%5), 2) {
			return
		}
		w.close()
		w.conn = nil
		before = mon.PosOf(n, "db")
		led.put("db", before, w.d.M)
		target := uint32(5 + variant%9)
		imp := ref.NewImage(ps)
		d2 := pager.NewDB(nil, "x", ps, c.SubRng("imp"))
		for q := uint32(2); q <= target; q++ {
			imp.Set(q, d2.RandPage())
		}
		imp.Set(1, ref.MakePage1(ps, target, variant%2 == 0, 0, nil))
		binaryZeroCounters(imp)
		imp.PageN = target
		rec.setEnabled(true)
		err := n.Store.DB("db").Import(context.Background(), bytes.NewReader(imp.Bytes()))
		if err == nil {
			rec.setFinalized()
		}
		rec.snap("done")
		rec.setEnabled(false)
		if err != nil {
			healthViolations(c, n, "import", detail)
			if !c.Violated() {
				c.Violate("C05/operation-failed", "import: "+err.Error(), detail)
			}
			return
		}
		after = mon.PosOf(n, "db")
		led.put("db", after, imp)
	}
	if !ok || c.Violated() {
		return
	}
	if healthViolations(c, n, shape, detail) {
		return
	}
	detail["before"], detail["after"] = before.String(), after.String()
	judgeAll(c, rec, "db", before, after, led, ps, shape, jmode, detail, "")
}

func judgeAll(c *core.Case, rec *crashRecorder, name string, before, after mon.PosKey, led *ledger, ps uint32, shape, jmode string, detail map[string]any, role string) {
	c.Count("points_"+shape, len(rec.imgs))
	var labels []string
	for _, img := range rec.imgs {
		side := judgeCrashImage(c, img, name, before, after, led, ps, role, detail)
		if side != "" {
			c.Count("recovered_"+side, 1)
		}
		c.Distinct(fmt.Sprintf("%s/%s/ps%d/%s/%s", shape, jmode, ps, labelClass(img.Label), side))
		labels = append(labels, img.Label+"→"+side)
		_ = os.RemoveAll(img.Dir)
		if c.Violated() {
			return
		}
	}
	if c.Index < len(c05Shapes) {
		c.Sample(map[string]any{"shape": shape, "page_size": ps, "journal_mode": jmode, "crash_points_and_recovered_side": labels})
	}
}

// c05Replica enumerates crash points inside a replica's apply.
func c05Replica(c *core.Case, shape string, ps uint32, jmode string, variant int) {
	cl, err := cluster.New(c.Dir, []cluster.NodeOpts{{Candidate: true}, {}})
	if err != nil {
		c.Inconclusive(err.Error())
		return
	}
	defer cl.Close()
	if err := cl.Start(0); err != nil || cl.WaitPrimary(0, 10*time.Second) == nil {
		c.Inconclusive("primary start")
		return
	}
	p := cl.Nodes[0]
	led := newLedger()
	wal := variant%2 == 1
	w, err := newWriter(p.Node, "db", ps, wal, jmode, nil, c.SubRng("w"), led, 1)
	if err != nil {
		c.Violate("C05/setup", err.Error(), nil)
		return
	}
	defer w.close()
	detail := map[string]any{"shape": shape, "page_size": ps, "journal_mode": jmode, "wal": wal}
	if err := w.ensure(uint32(8 + variant%7)); err != nil {
		c.Violate("C05/setup", err.Error(), detail)
		return
	}
	for i := 0; i < 2; i++ {
		if _, err := w.txn(3); err != nil {
			c.Violate("C05/setup", err.Error(), detail)
			return
		}
	}
	r := cl.Nodes[1]
	rec := &crashRecorder{src: r.Dir, base: c.Dir + "/imgs"}
	var before, after mon.PosKey
	if shape == "replica-snapshot" {
		// crash points inside the apply of the initial snapshot (and, in some
		// variants, of a snapshot replacing an older, larger/smaller copy)
		if variant%3 == 2 {
			// let the replica have an older copy first, then cut it off by retention
			if err := cl.Start(1); err != nil {
				c.Violate("C05/setup", err.Error(), detail)
				return
			}
			cl.WaitConverged(p, r, []string{"db"}, 5, 20*time.Second)
			cl.Stop(1)
			for i := 0; i < 3; i++ {
				_, _ = w.txn(4)
			}
			p.Store.Retention = time.Nanosecond
			time.Sleep(2 * time.Millisecond)
			_ = p.Store.EnforceRetention(context.Background())
		}
		before = mon.PosKey{}
		if variant%3 == 2 {
			// position of the stopped replica's copy
			if np, err := newestLTXPos(filepath.Join(r.Dir, "dbs", "db")); err == nil {
				before = np
			}
		} else {
			led.put("db", before, ref.NewImage(ps))
		}
		after = mon.PosOf(p.Node, "db")
		led.put("db", after, w.d.M)
		rec.setEnabled(true)
		cn := cl.Nodes[1]
		cn.Opts.Tune = nil
		// hooks must be in place before the node opens
		startWithHooks(cl, 1, rec)
		ok, _, _ := cl.WaitConverged(p, r, []string{"db"}, 5, 30*time.Second)
		rec.snap("done")
		rec.setEnabled(false)
		if !ok {
			healthViolations(c, r.Node, "snapshot apply", detail)
			if !c.Violated() {
				c.Violate("C05/operation-failed", "replica did not receive the snapshot", detail)
			}
			return
		}
	} else {
		startWithHooks(cl, 1, rec)
		ok, _, _ := cl.WaitConverged(p, r, []string{"db"}, 5, 30*time.Second)
		if !ok {
			c.Violate("C05/setup", "replica did not converge", detail)
			return
		}
		before = mon.PosOf(r.Node, "db")
		led.put("db", before, w.d.M)
		rec.setEnabled(true)
		var err error
		for i := 0; i < 50; i++ {
			var committed bool
			if committed, err = w.txn(4); err != nil || committed {
				break
			}
			// a rolled-back journal transaction also produces a (no-op) LTX: fine
			if mon.PosOf(p.Node, "db") != before {
				break
			}
		}
		if err != nil {
			c.Violate("C05/setup", err.Error(), detail)
			return
		}
		after = mon.PosOf(p.Node, "db")
		led.put("db", after, w.d.M)
		ok, _, _ = cl.WaitConverged(p, r, []string{"db"}, 5, 30*time.Second)
		rec.snap("done")
		rec.setEnabled(false)
		if !ok {
			healthViolations(c, r.Node, "apply", detail)
			if !c.Violated() {
				c.Violate("C05/operation-failed", "replica did not apply the transaction", detail)
			}
			return
		}
	}
	detail["before"], detail["after"] = before.String(), after.String()
	// stop the live cluster before judging images
	w.close()
	cl.Close()
	judgeAll(c, rec, "db", before, after, led, ps, shape, jmode, detail, "")
}

// startWithHooks starts cluster node i with the crash recorder attached before
// the store opens.
func startWithHooks(cl *cluster.Cluster, i int, rec *crashRecorder) {
	cn := cl.Nodes[i]
	cn.PreOpen = func(n *drv.Node) { rec.attach(n) }
	_ = cl.Start(i)
	cn.PreOpen = nil
}

// c05Fork enumerates crash points while a former primary, which is ahead of
// the new primary on a fork of its own (several incremental transaction files
// nobody else has), receives the new primary's snapshot. Every crash image must
// reopen to exactly its own fork tip or exactly the primary's state.
func c05Fork(c *core.Case, shape string, ps uint32, jmode string, variant int) {
	var mu sync.Mutex
	blocked := map[string]bool{"n1": true}
	cl, err := cluster.New(c.Dir, []cluster.NodeOpts{{Candidate: true}, {Candidate: true}})
	if err != nil {
		c.Inconclusive(err.Error())
		return
	}
	defer cl.Close()
	cl.Svc.Inject = func(node, op string) error {
		mu.Lock()
		defer mu.Unlock()
		if op == "acquire" && blocked[node] {
			return fmt.Errorf("scripted: acquire unavailable")
		}
		return nil
	}
	setBlocked := func(n string, v bool) { mu.Lock(); blocked[n] = v; mu.Unlock() }
	A, B := cl.Nodes[0], cl.Nodes[1]
	rec := &crashRecorder{src: A.Dir, base: c.Dir + "/imgs"}
	startWithHooks(cl, 0, rec)
	if cl.WaitPrimary(0, 10*time.Second) == nil {
		c.Inconclusive("primary start")
		return
	}
	led := newLedger()
	wal := variant%2 == 1
	detail := map[string]any{"shape": shape, "page_size": ps, "journal_mode": jmode, "wal": wal}
	wA, err := newWriter(A.Node, "db", ps, wal, jmode, nil, c.SubRng("wa"), led, 1)
	if err != nil {
		c.Violate("C05/setup", err.Error(), detail)
		return
	}
	defer func() { wA.close() }()
	wA.d.BusyRetries = 5000
	if err := wA.ensure(uint32(6 + variant%7)); err != nil {
		c.Violate("C05/setup", err.Error(), detail)
		return
	}
	_, _ = wA.txn(3)
	if err := cl.Start(1); err != nil {
		c.Inconclusive(err.Error())
		return
	}
	if ok, _, _ := cl.WaitConverged(A, B, []string{"db"}, 5, 30*time.Second); !ok {
		c.Inconclusive("replica did not converge before the fork")
		return
	}
	// A is isolated and commits on its own; B must not be reachable for A yet
	A.Proxy.SetMode("refuse")
	A.Proxy.Cut()
	B.Proxy.SetMode("refuse")
	for i, n := 0, 3+variant%3; i < n; i++ {
		for try := 0; try < 20; try++ {
			if ok, err := wA.txn(3); err != nil {
				c.Violate("C05/setup", err.Error(), detail)
				return
			} else if ok {
				break
			}
		}
	}
	before := mon.PosOf(A.Node, "db")
	led.put("db", before, wA.d.M)
	wA.close()
	setBlocked("n0", true)
	setBlocked("n1", false)
	cl.Svc.Expire()
	if cl.WaitPrimary(1, 20*time.Second) == nil {
		c.Inconclusive("B did not become primary")
		return
	}
	img, ok := led.get("db", mon.PosOf(B.Node, "db"))
	if !ok {
		c.Violate("C05/setup", "B is at a position nobody committed", detail)
		return
	}
	wB, err := newWriter(B.Node, "db", ps, wal, jmode, img, c.SubRng("wb"), led, 1)
	if err != nil {
		c.Violate("C05/setup", err.Error(), detail)
		return
	}
	defer wB.close()
	wB.d.BusyRetries = 5000
	if err := wB.ensure(0); err != nil {
		c.Violate("C05/setup", err.Error(), detail)
		return
	}
	for i, n := 0, 1+variant%2; i < n; i++ {
		for try := 0; try < 20; try++ {
			if ok, err := wB.txn(3); err != nil {
				c.Violate("C05/setup", err.Error(), detail)
				return
			} else if ok {
				break
			}
		}
	}
	after := mon.PosOf(B.Node, "db")
	led.put("db", after, wB.d.M)
	if after.TXID >= before.TXID {
		c.Inconclusive("fork is not ahead")
		return
	}
	// now let A reach B: every OS call and page write of the snapshot apply is a crash point
	rec.setEnabled(true)
	B.Proxy.SetMode("pass")
	ok2, _, _ := cl.WaitConverged(B, A, []string{"db"}, 8, 30*time.Second)
	rec.snap("done")
	rec.setEnabled(false)
	if !ok2 {
		healthViolations(c, A.Node, "snapshot over fork", detail)
		if !c.Violated() {
			c.Violate("C05/operation-failed", fmt.Sprintf("the former primary did not adopt the new primary's state (it is at %s, the primary at %s)", mon.PosOf(A.Node, "db"), after), detail)
		}
		return
	}
	detail["before"], detail["after"] = before.String(), after.String()
	wB.close()
	cl.Close()
	judgeAll(c, rec, "db", before, after, led, ps, shape, jmode, detail, "")
}
