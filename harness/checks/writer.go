package checks

import (
	"fmt"
	"math/rand/v2"

	"verif/drv"
	"verif/mon"
	"verif/pager"
	"verif/ref"
)

// dbWriter is a simulated SQLite application writing one database on one node.
type dbWriter struct {
	n     *drv.Node
	name  string
	d     *pager.DB
	conn  *pager.Conn
	wal   bool
	jmode string
	rng   *rand.Rand
	led   *ledger
	owner uint64
	// stats
	commits, rollbacks int
	lastErr            error
	lastStep           string
}

// newWriter attaches a writer to node n for database name. img is the image
// the database currently has on that node (nil/empty if it does not exist).
func newWriter(n *drv.Node, name string, pageSize uint32, wal bool, jmode string, img *ref.Image, rng *rand.Rand, led *ledger, owner uint64) (*dbWriter, error) {
	d := pager.NewDB(n, name, pageSize, rng)
	d.JournalMode = jmode
	d.BusyRetries = 25000
	if img != nil && img.PageN > 0 {
		d.M = img
		d.PageSize = img.PageSize
		_, _, isWal, _ := ref.HeaderInfo(img.Page(1))
		d.WALMode = isWal
	}
	w := &dbWriter{n: n, name: name, d: d, wal: wal, jmode: jmode, rng: rng, led: led, owner: owner}
	// Record the intended image under the position it will get, before the commit
	// step runs: a commit whose acknowledgement is lost may still take effect.
	d.OnIntent = func(im *ref.Image) {
		p := mon.PosOf(n, name)
		led.put(name, mon.PosKey{TXID: p.TXID + 1, Chk: im.Checksum()}, im)
	}
	conn, err := d.Open(owner)
	if err != nil {
		return nil, err
	}
	w.conn = conn
	return w, nil
}

func (w *dbWriter) close() {
	if w.conn != nil {
		w.conn.Close()
		w.conn = nil
	}
}

// record stores the current image under the node's reported position.
func (w *dbWriter) record() mon.PosKey {
	p := mon.PosOf(w.n, w.name)
	if p.TXID != 0 {
		w.led.put(w.name, p, w.d.M)
	}
	return p
}

// ensure creates the database (and switches to WAL mode if wanted).
func (w *dbWriter) ensure(pages uint32) error {
	if w.d.M.PageN == 0 {
		res := w.conn.RunRollbackTx(pager.RollbackSpec{Mode: w.jmode, Outcome: "commit", NewPageN: pages, WALHeader: w.wal})
		if res.Err != nil {
			return fmt.Errorf("create: step %s: %w", res.ErrStep, res.Err)
		}
		w.commits++
		w.record()
	}
	if w.d.WALMode && w.conn.WALFile() == nil {
		if err := w.conn.OpenWAL(); err != nil {
			return err
		}
	}
	return nil
}

// txn performs one random transaction; returns whether it committed.
// grow/shrink bias: delta in pages chosen from the rng within [-maxShrink, +maxGrow].
func (w *dbWriter) txn(maxDelta int) (committed bool, err error) {
	cur := w.d.M.PageN
	newN := cur
	if maxDelta > 0 {
		switch w.rng.IntN(4) {
		case 0:
			newN = cur + uint32(1+w.rng.IntN(maxDelta))
		case 1:
			if cur > 2 {
				k := uint32(1 + w.rng.IntN(maxDelta))
				if k >= cur-1 {
					k = cur - 2
				}
				newN = cur - k
			}
		}
	}
	rollback := w.rng.IntN(8) == 0
	if w.d.WALMode {
		spec := pager.WALSpec{NewPageN: newN, Outcome: "commit", SplitFrame: true}
		if rollback {
			spec.Outcome = "rollback"
			spec.NewPageN = cur
			newN = cur
		}
		k := 1 + w.rng.IntN(4)
		lim := newN
		if cur < lim {
			lim = cur
		}
		for j := 0; j < k && lim > 0; j++ {
			spec.Frames = append(spec.Frames, pager.FrameSpec{Pgno: 1 + uint32(w.rng.IntN(int(lim)))})
		}
		for p := cur + 1; p <= newN; p++ {
			spec.Frames = append(spec.Frames, pager.FrameSpec{Pgno: p})
		}
		spec.Frames = append(spec.Frames, pager.FrameSpec{Pgno: 1})
		res := w.conn.RunWALTx(spec)
		if res.Err != nil {
			w.lastErr, w.lastStep = res.Err, res.ErrStep
			return false, fmt.Errorf("wal tx step %s: %w", res.ErrStep, res.Err)
		}
		if !rollback {
			w.commits++
			w.record()
			// occasional application checkpoint
			if w.rng.IntN(6) == 0 {
				kind := []string{"passive", "full", "restart", "truncate"}[w.rng.IntN(4)]
				if r := w.conn.RunCheckpoint(pager.CheckpointSpec{Kind: kind}); r.Err != nil && r.Err != drv.ErrBusy {
					return true, fmt.Errorf("checkpoint step %s: %w", r.ErrStep, r.Err)
				}
			}
			return true, nil
		}
		w.rollbacks++
		return false, nil
	}
	spec := pager.RollbackSpec{Mode: w.jmode, Outcome: "commit", NewPageN: newN}
	if rollback {
		spec.Outcome = "rollback"
	}
	for j := 0; j < 1+w.rng.IntN(5) && cur > 0; j++ {
		spec.Dirty = append(spec.Dirty, 1+uint32(w.rng.IntN(int(cur))))
	}
	if w.rng.IntN(4) == 0 {
		spec.SpillAfter = 2
	}
	if newN > cur+1 && cur > 0 && w.rng.IntN(3) == 0 {
		// pages allocated and freed again are never written by SQLite
		spec.UnwrittenNew = 1 + uint32(w.rng.IntN(int(newN-cur-1)))
	}
	res := w.conn.RunRollbackTx(spec)
	if res.Err != nil {
		w.lastErr, w.lastStep = res.Err, res.ErrStep
		return false, fmt.Errorf("journal tx step %s: %w", res.ErrStep, res.Err)
	}
	// a rolled-back journal transaction may consume a TXID with the same image
	w.record()
	if rollback {
		w.rollbacks++
		return false, nil
	}
	w.commits++
	return true, nil
}
