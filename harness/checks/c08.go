package checks

import (
	"context"
	"errors"
	"fmt"
	"os"
	"path/filepath"
	"strings"
	"sync"
	"sync/atomic"
	"time"

	"github.com/superfly/litefs"
	"github.com/superfly/litefs/consul"
	lhttp "github.com/superfly/litefs/http"
	"github.com/superfly/ltx"
	"verif/cluster"
	"verif/core"
	"verif/fakeconsul"
	"verif/mon"
)

var c08Scripts = []string{"expire", "renew-errors", "demote", "handoff-connected", "handoff-chain", "handoff-unknown", "handoff-disconnected", "handoff-fails-then-loss", "contend", "non-candidate", "cluster-id-mismatch", "cluster-id-adopt", "acquire-error", "primary-info-stale", "static", "renew-hangs"}

func init() {
	register(&core.Check{
		ID:    "C08",
		Level: "exploration",
		Rule: "each case runs one lease-service script (expiry, renewal errors for a TTL, manual demotion, handoff to a connected / unknown / disconnected node, non-candidate alone, cluster-ID mismatch / adoption, acquire errors, stale primary info, static leaser) against 1-3 real nodes wired to a scriptable lease service that keeps the ground truth and one global sequence counter; the node is probed from inside every lease-service call it makes (IsPrimary, a primary-scoped context created while primary) and from outside (stream requests, local commits); " +
			"ordering rules over that sequence decide the verdict; distinct = (script, variant, observed call pattern) tuples",
		Assumptions: []string{"lease TTL 0.3-3 s of real time (the code's 1 s retry constants are fixed); lateness can only shorten primacy, which no rule counts against the node", "LiteFS's Consul leaser is exercised against a fake Consul endpoint backed by the same lease service (every fourth variant and half of the refused-take-over family); no real Consul agent is available in this sandbox"},
		NumCases: func(tier string) int {
			if tier == "thorough" {
				return len(c08Scripts) * 40
			}
			return len(c08Scripts) * 4
		},
		EvalCounter: "probes",
		CaseTimeout: 120 * time.Second,
		Run:         runC08,
		Floors: func(tier string) map[string]int {
			m := map[string]int{"probes": 500, "loss_by_expiry": 2, "loss_by_renew_errors": 2, "loss_by_demote": 2, "loss_by_handoff": 2, "foreign_cluster_refused": 2,
				"next_call_after_loss_checked": 8, "stream_after_loss_refused": 4, "write_after_loss_refused": 4, "lease_closed_after_loss": 6, "handoff_failed_still_primary": 2, "acquire_on_held_lease_refused": 4, "handoff_refused": 2, "noncandidate_never_acquired": 2, "handoff_target_dropped_mid_handoff": 1}
			for _, s := range c08Scripts {
				m["script_"+s] = 1
			}
			return m
		},
	})
}

// c08Obs watches the lease-service boundary.
type c08Obs struct {
	c  *core.Case
	cl *cluster.Cluster
	mu sync.Mutex
	// per node
	held          map[string]string // node -> lease id currently granted (service view, "" if none)
	everHeld      map[string]bool
	lossDelivered map[string]bool            // loss reported to the node, not yet re-acquired
	handedOff     map[string]bool            // the node's lease was handed off (must not be closed)
	pctx          map[string]context.Context // primary-scoped context created while primary
	renewFails    map[string]int
	closed        map[string]int
	events        []string
}

func newC08Obs(c *core.Case, cl *cluster.Cluster) *c08Obs {
	o := &c08Obs{c: c, cl: cl, held: map[string]string{}, everHeld: map[string]bool{}, lossDelivered: map[string]bool{}, handedOff: map[string]bool{},
		pctx: map[string]context.Context{}, renewFails: map[string]int{}, closed: map[string]int{}}
	cl.Svc.Probe = o.probe
	cl.Svc.After = o.after
	return o
}

// c08Live is what an observer callback may touch of a node.
type c08Live struct {
	Store *litefs.Store
	Opts  cluster.NodeOpts
}

func (o *c08Obs) node(name string) *c08Live {
	n, cn := o.cl.Live(name)
	if n == nil {
		return nil
	}
	return &c08Live{Store: n.Store, Opts: cn.Opts}
}

func (o *c08Obs) probe(seq uint64, node, op string) {
	n := o.node(node)
	if n == nil {
		return
	}
	isPrimary := n.Store.IsPrimary()
	o.c.Count("probes", 1)
	o.mu.Lock()
	defer o.mu.Unlock()
	o.events = append(o.events, fmt.Sprintf("%d %s %s primary=%v", seq, node, op, isPrimary))
	if isPrimary && !o.everHeld[node] {
		o.c.Violate("C08/primary-without-lease", fmt.Sprintf("seq %d: %s reports primary at entry of %s but was never granted a lease", seq, node, op), o.tail())
	}
	if isPrimary && o.pctx[node] == nil {
		o.pctx[node] = n.Store.PrimaryCtx(context.Background())
	}
	if !n.Opts.Candidate && op == "acquire" {
		o.c.Violate("C08/non-candidate-acquire", fmt.Sprintf("seq %d: non-candidate %s called Acquire", seq, node), o.tail())
	}
	if op == "acquire" || op == "acquire-existing" {
		if svc, loc := o.cl.Svc.ClusterIDDirect(), n.Store.ClusterID(); svc != "" && loc != "" && svc != loc {
			o.c.Violate("C08/acquire-for-foreign-cluster", fmt.Sprintf("seq %d: %s (cluster %s) called %s on a lease service of cluster %s", seq, node, loc, op, svc), o.tail())
		}
	}
	if o.lossDelivered[node] && op == "renew" {
		// a renewal was answered "lease gone": the node must stop being primary at
		// once, not go on renewing
		o.c.Count("renewals_after_loss_seen", 1)
		if isPrimary {
			o.c.Violate("C08/still-primary-after-loss", fmt.Sprintf("seq %d: %s renews again and still reports primary although an earlier renewal was answered that the lease is gone", seq, node), o.tail())
		}
	}
	if o.lossDelivered[node] && op != "renew" && op != "handoff" {
		// the node's next call into the service after the loss was delivered
		o.c.Count("next_call_after_loss_checked", 1)
		if isPrimary {
			o.c.Violate("C08/still-primary-after-loss", fmt.Sprintf("seq %d: %s still reports primary at entry of %s although the loss of its lease had been delivered", seq, node, op), o.tail())
		}
		if p := o.pctx[node]; p != nil && p.Err() == nil {
			o.c.Violate("C08/primary-context-not-cancelled", fmt.Sprintf("seq %d: a primary-scoped context of %s is still live at entry of %s after the lease was lost", seq, node, op), o.tail())
		}
	}
}

func (o *c08Obs) tail() any {
	ev := o.events
	if len(ev) > 40 {
		ev = ev[len(ev)-40:]
	}
	return map[string]any{"last_events": append([]string(nil), ev...)}
}

func (o *c08Obs) after(seq uint64, node, op, arg, result string) {
	o.mu.Lock()
	defer o.mu.Unlock()
	o.events = append(o.events, fmt.Sprintf("%d %s %s(%s) => %s", seq, node, op, arg, result))
	switch op {
	case "acquire", "acquire-existing":
		if strings.HasPrefix(result, "ok") {
			id := strings.TrimPrefix(result, "ok:")
			if op == "acquire-existing" {
				id = arg
				// the previous holder handed it off
				for k, v := range o.held {
					if v == id && k != node {
						o.held[k] = ""
					}
				}
			}
			o.held[node] = id
			o.everHeld[node] = true
			o.lossDelivered[node] = false
			o.renewFails[node] = 0
			o.pctx[node] = nil
		}
	case "renew":
		if result == "expired" {
			o.lossDelivered[node] = true
		} else if strings.HasPrefix(result, "injected") {
			o.renewFails[node]++
		} else if result == "ok" {
			o.renewFails[node] = 0
		}
	case "foreign-key-delete":
		o.c.Violate("C08/foreign-lease-destroyed", fmt.Sprintf("seq %d: %s deleted the primary key of lease %s while the lease service records %s as its holder: a node destroys its own lease, never another node's", seq, node, arg, strings.TrimPrefix(result, "holder:")), o.tail())
	case "lease-close":
		o.closed[node]++
		if o.handedOff[node] {
			o.c.Violate("C08/lease-destroyed-on-handoff", fmt.Sprintf("seq %d: %s destroyed lease %s although it was handed off", seq, node, arg), o.tail())
		}
		o.held[node] = ""
	}
}

func (o *c08Obs) waitFor(d time.Duration, cond func() bool) bool {
	deadline := time.Now().Add(d)
	for time.Now().Before(deadline) {
		o.mu.Lock()
		ok := cond()
		o.mu.Unlock()
		if ok {
			return true
		}
		time.Sleep(2 * time.Millisecond)
	}
	return false
}

// afterLossChecks: the node must refuse new stream sessions and local commits
// for as long as it holds no lease. Re-acquisition is blocked by the script.
func c08AfterLoss(c *core.Case, o *c08Obs, n *cluster.CNode, w *dbWriter, ctxs string) {
	// new stream session must not be served
	cli := lhttp.NewClient()
	ctx, cancel := context.WithTimeout(context.Background(), 3*time.Second)
	st, err := cli.Stream(ctx, n.URL(), 12345, map[string]ltx.Pos{}, nil)
	if err == nil {
		// a 200: the node serves the replication stream without a lease
		_ = st.Close()
		if !n.Store.IsPrimary() {
			c.Violate("C08/stream-served-without-lease", fmt.Sprintf("%s answered a new /stream request with 200 after its lease was lost and destroyed (%s)", n.Name, ctxs), o.tail())
		}
	} else {
		c.Count("stream_after_loss_refused", 1)
	}
	cancel()
	if w != nil {
		before := mon.PosOf(n.Node, w.name)
		_, err := w.txn(0)
		after := mon.PosOf(n.Node, w.name)
		if !n.Store.IsPrimary() {
			if err == nil && w.commits > 0 && after != before {
				c.Violate("C08/write-accepted-without-lease", fmt.Sprintf("%s committed a local transaction (%s -> %s) after its lease was lost (%s)", n.Name, before, after, ctxs), o.tail())
			} else if after != before {
				c.Violate("C08/position-advanced-without-lease", fmt.Sprintf("%s advanced %s -> %s after its lease was lost (%s)", n.Name, before, after, ctxs), o.tail())
			} else {
				c.Count("write_after_loss_refused", 1)
			}
		}
		// the failed transaction leaves the simulator mid-protocol: drop the connection
		w.close()
	}
}

func runC08(c *core.Case) {
	script := c08Scripts[c.Index%len(c08Scripts)]
	variant := c.Index / len(c08Scripts)
	c.Count("script_"+script, 1)
	if script == "static" {
		c08Static(c, variant)
		return
	}
	opts := []cluster.NodeOpts{{Candidate: true}, {Candidate: true}, {Candidate: false}}
	switch script {
	case "non-candidate":
		opts = []cluster.NodeOpts{{Candidate: false}}
	case "expire", "renew-errors", "demote", "acquire-error", "renew-hangs":
		opts = opts[:1+variant%2]
	}
	cl, err := cluster.New(c.Dir, opts)
	if err != nil {
		c.Inconclusive(err.Error())
		return
	}
	defer cl.Close()
	ttl := []time.Duration{300 * time.Millisecond, 2500 * time.Millisecond, 600 * time.Millisecond}[variant%3]
	if script != "renew-errors" && script != "expire" && script != "renew-hangs" {
		ttl = 300 * time.Millisecond
	}
	if script == "handoff-fails-then-loss" || (script == "handoff-disconnected" && variant%2 == 1) {
		ttl = 3 * time.Second
	}
	if script == "renew-errors" && variant%4 == 3 {
		// the Consul leaser keeps its own renewal clock: give it a TTL above the
		// store's fixed 1 s retry constant, where that clock decides
		ttl = 2500 * time.Millisecond
	}
	cl.Svc.TTL = ttl
	// every fourth variant runs the same script with LiteFS's Consul leaser talking
	// to a fake Consul endpoint that is backed by the same lease service
	if variant%4 == 3 {
		fc := fakeconsul.New(cl.Svc)
		defer fc.Close()
		defer func() {
			n := 0
			for k, v := range fc.Counts() {
				if !strings.HasPrefix(k, "other") {
					n += v
				} else {
					c.Count("consul_unsupported_requests", v)
				}
			}
			c.Count("consul_requests", n)
		}()
		for _, cn := range cl.Nodes {
			cn.Opts.Leaser = func(name, host, adv string) (litefs.Leaser, error) {
				u, err := fc.URLFor(name, host, adv)
				if err != nil {
					return nil, err
				}
				l := consul.NewLeaser(u, "primary", host, adv)
				l.TTL = ttl
				l.LockDelay = time.Millisecond
				if err := l.Open(); err != nil {
					return nil, err
				}
				return l, nil
			}
		}
		c.Count("consul_cases", 1)
	}
	o := newC08Obs(c, cl)
	// blockAcquire keeps listed nodes from (re)acquiring while the script inspects them
	var blockMu sync.Mutex
	block := map[string]map[string]error{}
	cl.Svc.Inject = func(node, op string) error {
		blockMu.Lock()
		defer blockMu.Unlock()
		if m := block[node]; m != nil {
			return m[op]
		}
		return nil
	}
	setBlock := func(node, op string, err error) {
		blockMu.Lock()
		if block[node] == nil {
			block[node] = map[string]error{}
		}
		if err == nil {
			delete(block[node], op)
		} else {
			block[node][op] = err
		}
		blockMu.Unlock()
	}
	led := newLedger()
	startPrimary := func() (*cluster.CNode, *dbWriter, bool) {
		if err := cl.Start(0); err != nil {
			c.Inconclusive("start n0: " + err.Error())
			return nil, nil, false
		}
		if cl.WaitPrimary(0, 10*time.Second) == nil {
			c.Violate("C08/candidate-never-primary", "the only candidate did not become primary on a free lease", o.tail())
			return nil, nil, false
		}
		n := cl.Nodes[0]
		w, err := newWriter(n.Node, "db", 1024, variant%2 == 1, "delete", nil, c.SubRng("w"), led, 1)
		if err != nil {
			c.Violate("C08/setup", err.Error(), nil)
			return nil, nil, false
		}
		if err := w.ensure(4); err != nil {
			c.Violate("C08/primary-cannot-write", err.Error(), o.tail())
			return nil, nil, false
		}
		if _, err := w.txn(2); err != nil {
			c.Violate("C08/primary-cannot-write", err.Error(), o.tail())
			return nil, nil, false
		}
		return n, w, true
	}
	detail := func() any { o.mu.Lock(); defer o.mu.Unlock(); return o.tail() }

	switch script {
	case "expire":
		n, w, ok := startPrimary()
		if !ok {
			return
		}
		defer w.close()
		if len(opts) > 1 {
			_ = cl.Start(1)
			setBlock("n1", "acquire", errors.New("scripted: acquire unavailable"))
		}
		setBlock("n0", "acquire", errors.New("scripted: acquire unavailable"))
		cl.Svc.Expire()
		if !o.waitFor(ttl+5*time.Second, func() bool { return o.lossDelivered["n0"] }) {
			c.Inconclusive("renew did not happen")
			return
		}
		if !o.waitFor(5*time.Second, func() bool { return o.closed["n0"] > 0 }) {
			c.Violate("C08/lease-not-destroyed-after-loss", "n0 did not destroy its lease after a renewal reported it gone", detail())
			return
		}
		c.Count("loss_by_expiry", 1)
		c.Count("lease_closed_after_loss", 1)
		c08AfterLoss(c, o, n, w, "after expiry")
		setBlock("n0", "acquire", nil)
		// it may become primary again on a fresh lease
		if cl.WaitPrimary(-1, 10*time.Second) == nil {
			c.Violate("C08/no-primary-after-recovery", "no node became primary again after the lease service recovered", detail())
		}
	case "renew-errors":
		n, w, ok := startPrimary()
		if !ok {
			return
		}
		defer w.close()
		setBlock("n0", "acquire", errors.New("scripted: acquire unavailable"))
		setBlock("n0", "renew", errors.New("scripted: lease service unreachable"))
		// k_max: renewals that can fail before the next one would exceed the TTL
		kmax, e := 0, ttl/2
		for {
			kmax++
			if e+time.Second > ttl {
				break
			}
			e += time.Second
		}
		if !o.waitFor(ttl+time.Duration(kmax+3)*time.Second, func() bool { return o.closed["n0"] > 0 }) {
			c.Violate("C08/primary-survives-renew-errors", fmt.Sprintf("n0 still holds on to primary status although renewals have failed for more than a full TTL (%s)", ttl), detail())
			return
		}
		o.mu.Lock()
		fails := o.renewFails["n0"]
		o.mu.Unlock()
		if fails > kmax {
			c.Violate("C08/too-many-failed-renewals", fmt.Sprintf("n0 stayed primary through %d failed renewals; with TTL %s at most %d fit", fails, ttl, kmax), detail())
		}
		if n.Store.IsPrimary() {
			c.Violate("C08/still-primary-after-loss", "n0 reports primary after destroying its lease", detail())
		}
		c.Count("loss_by_renew_errors", 1)
		c.Count("lease_closed_after_loss", 1)
		c08AfterLoss(c, o, n, w, "after renew errors")
		setBlock("n0", "renew", nil)
		setBlock("n0", "acquire", nil)
	case "renew-hangs":
		// The lease service accepts n0's renewals and never answers them (a
		// black-holed connection). It hears nothing from n0 for more than a TTL, so
		// the lease lapses there. A node is primary only while it holds a live
		// lease: n0 has to give up on its own clock.
		n, w, ok := startPrimary()
		if !ok {
			return
		}
		defer w.close()
		setBlock("n0", "acquire", errors.New("scripted: acquire unavailable"))
		cl.Svc.SetHang("n0", "renew")
		defer cl.Svc.ClearHang("n0", "renew")
		time.Sleep(ttl + ttl/2)
		cl.Svc.Expire()
		if !o.waitFor(2*ttl+6*time.Second, func() bool { return !n.Store.IsPrimary() }) {
			c.Violate("C08/primary-survives-unanswered-renewal", fmt.Sprintf("n0's renewals have been left unanswered by the lease service for more than %s (TTL %s) and the lease has lapsed there; n0 still is primary", 3*ttl+6*time.Second, ttl), detail())
			return
		}
		c.Count("loss_by_unanswered_renewal", 1)
		c08AfterLoss(c, o, n, w, "after unanswered renewals")
		cl.Svc.ClearHang("n0", "renew")
		setBlock("n0", "acquire", nil)
	case "demote":
		n, w, ok := startPrimary()
		if !ok {
			return
		}
		defer w.close()
		setBlock("n0", "acquire", errors.New("scripted: acquire unavailable"))
		n.Store.Demote()
		if !o.waitFor(5*time.Second, func() bool { return o.closed["n0"] > 0 }) {
			c.Violate("C08/lease-not-destroyed-after-demote", "n0 did not destroy its lease after a manual demotion", detail())
			return
		}
		if n.Store.IsPrimary() {
			c.Violate("C08/still-primary-after-loss", "n0 reports primary after demotion destroyed its lease", detail())
		}
		if h, _ := cl.Svc.Holder(); h == "n0" {
			c.Violate("C08/lease-not-destroyed-after-demote", "the service still records n0 as holder after demotion", detail())
		}
		c.Count("loss_by_demote", 1)
		c.Count("lease_closed_after_loss", 1)
		c08AfterLoss(c, o, n, w, "after demotion")
		setBlock("n0", "acquire", nil)
	case "handoff-connected", "handoff-unknown", "handoff-disconnected":
		n, w, ok := startPrimary()
		if !ok {
			return
		}
		defer w.close()
		for i := 1; i < len(opts); i++ {
			setBlock(fmt.Sprintf("n%d", i), "acquire", errors.New("scripted: acquire unavailable"))
			if err := cl.Start(i); err != nil {
				c.Inconclusive(err.Error())
				return
			}
			if !cl.WaitConnected(i, 10*time.Second) {
				c.Inconclusive("replica did not connect")
				return
			}
		}
		time.Sleep(20 * time.Millisecond)
		target := cl.Nodes[1]
		switch script {
		case "handoff-connected":
			o.mu.Lock()
			o.handedOff["n0"] = true
			o.mu.Unlock()
			// the non-candidate n2 as target in some variants: handoff is by node id,
			// the lease goes to whoever was asked for
			if variant%2 == 1 {
				target = cl.Nodes[2]
			}
			setBlock("n0", "acquire", errors.New("scripted: acquire unavailable"))
			err := n.Store.Handoff(context.Background(), target.Store.ID())
			if err != nil {
				c.Violate("C08/handoff-to-connected-failed", err.Error(), detail())
				return
			}
			if !o.waitFor(10*time.Second, func() bool { return o.held[target.Name] != "" }) {
				c.Violate("C08/handoff-not-completed", fmt.Sprintf("%s never acquired the handed-off lease", target.Name), detail())
				return
			}
			// only the requested node may have used acquire-existing
			for _, call := range cl.Svc.Calls() {
				if call.Op == "acquire-existing" && call.Node != target.Name {
					c.Violate("C08/handoff-to-wrong-node", fmt.Sprintf("%s used the handed-off lease, the request named %s", call.Node, target.Name), detail())
				}
			}
			if cl.WaitPrimary(target.Index, 10*time.Second) == nil {
				c.Violate("C08/handoff-not-completed", "target did not become primary", detail())
			}
			if !o.waitFor(5*time.Second, func() bool { return !n.Store.IsPrimary() }) {
				c.Violate("C08/still-primary-after-loss", "n0 still primary after handing its lease off", detail())
			}
			c.Count("loss_by_handoff", 1)
			c08AfterLoss(c, o, n, w, "after handoff")
		case "handoff-unknown":
			err := n.Store.Handoff(context.Background(), 0xDEADBEEF0000+uint64(variant))
			if err == nil {
				c.Violate("C08/handoff-to-unknown-accepted", "Handoff to a node id that is not connected returned success", detail())
			}
			c.Count("handoff_refused", 1)
			// Node id 0 is nobody's: the primary's own backup loop subscribes to the
			// change set under it, and so does a /stream request without an id header.
			// A handoff "to node 0" would park the lease with no one to take it.
			sub := n.Store.SubscribeChangeSet(0)
			err = n.Store.Handoff(context.Background(), 0)
			time.Sleep(50 * time.Millisecond)
			stillPrimary := n.Store.IsPrimary()
			_ = sub.Close()
			if err == nil || !stillPrimary {
				c.Violate("C08/handoff-to-unknown-accepted", fmt.Sprintf("node-zero: Handoff to node id 0 (an anonymous change-set subscriber, such as the backup loop, is registered under it) returned %v; n0 primary afterwards: %v", err, stillPrimary), detail())
				return
			}
			c.Count("handoff_to_node_zero_refused", 1)
		case "handoff-disconnected":
			id := target.Store.ID()
			if variant%2 == 1 {
				// The target is connected when the handoff is requested and drops while
				// n0 renews the lease one last time (inside the handoff). Nobody is
				// there to take the lease: n0 must notice and stay primary (or give the
				// lease up properly) - never leave the role with the lease parked.
				var armed, cutDone, cbDone atomic.Bool
				armed.Store(true)
				prevInject := cl.Svc.Inject
				cl.Svc.SetInject(func(node, op string) error {
					if node == "n0" && op == "renew" && armed.CompareAndSwap(true, false) {
						cl.Nodes[0].Proxy.SetMode("refuse")
						cl.Nodes[0].Proxy.Cut()
						for i := 0; i < 2000 && n.Store.SubscriberByNodeID(id) != nil; i++ {
							time.Sleep(time.Millisecond)
						}
						cutDone.Store(n.Store.SubscriberByNodeID(id) == nil)
						c.Logf("handoff drop: cut during n0's renewal, target subscriber gone=%v", cutDone.Load())
						cbDone.Store(true)
					}
					return prevInject(node, op)
				})
				hctx, hcancel := context.WithTimeout(context.Background(), 20*time.Second)
				herr := n.Store.Handoff(hctx, id)
				hcancel()
				// (Handoff only queues the request: the renewal happens in the lease loop)
				for i := 0; i < 8000 && !cbDone.Load(); i++ {
					time.Sleep(time.Millisecond)
				}
				cl.Svc.SetInject(prevInject)
				cl.Nodes[0].Proxy.SetMode("pass")
				c.Logf("handoff drop: Handoff returned %v armed=%v cutDone=%v", herr, armed.Load(), cutDone.Load())
				if armed.Load() || !cutDone.Load() {
					c.Count("handoff_drop_not_steered", 1)
					return
				}
				settled := o.waitFor(4*time.Second, func() bool {
					return n.Store.IsPrimary() || o.held[target.Name] != "" || o.closed["n0"] > 0
				})
				if !settled {
					c.Violate("C08/lease-neither-destroyed-nor-handed-off", fmt.Sprintf("the handoff target dropped its connection during the handoff (Handoff returned %v): n0 is no longer primary, its lease is neither destroyed nor taken over by %s", herr, target.Name), detail())
					return
				}
				c.Count("handoff_target_dropped_mid_handoff", 1)
				return
			}
			cl.Stop(1)
			time.Sleep(50 * time.Millisecond)
			err := n.Store.Handoff(context.Background(), id)
			if err == nil {
				c.Violate("C08/handoff-to-disconnected-accepted", "Handoff to a replica that has disconnected returned success", detail())
			}
			c.Count("handoff_refused", 1)
		}
		if script != "handoff-connected" {
			time.Sleep(100 * time.Millisecond)
			for _, call := range cl.Svc.Calls() {
				if call.Op == "acquire-existing" {
					c.Violate("C08/handoff-to-wrong-node", fmt.Sprintf("%s used acquire-existing although the handoff was refused", call.Node), detail())
				}
			}
			if !n.Store.IsPrimary() {
				c.Violate("C08/primary-lost-on-refused-handoff", "n0 stopped being primary after a refused handoff", detail())
			}
		}
	case "contend":
		// A second candidate does not see the primary's info (it read the key just
		// before the primary took it) and tries to acquire a lease that is held: it
		// must be told so, stay a non-primary and become a replica once it sees the info.
		n, w, ok := startPrimary()
		if !ok {
			return
		}
		defer w.close()
		// (n1 first joins as a replica so that it knows the cluster ID; a node
		// without it does not contend at all)
		setBlock("n1", "acquire", errors.New("scripted: acquire unavailable"))
		if err := cl.Start(1); err != nil || !cl.WaitConnected(1, 10*time.Second) {
			c.Inconclusive("n1 did not join")
			return
		}
		cl.Stop(1)
		setBlock("n1", "acquire", nil)
		setBlock("n1", "primary-info", litefs.ErrNoPrimary)
		if err := cl.Start(1); err != nil {
			c.Inconclusive(err.Error())
			return
		}
		refused := func() int {
			k := 0
			for _, call := range cl.Svc.Calls() {
				if call.Node == "n1" && call.Op == "acquire" && call.Result == "primary-exists" {
					k++
				}
			}
			return k
		}
		if !o.waitFor(10*time.Second, func() bool { return refused() >= 1 }) {
			c.Inconclusive("n1 never tried to acquire the held lease")
			return
		}
		// give n1 time to act on the answer (a second attempt, or - wrongly - a primary term)
		o.waitFor(1500*time.Millisecond, func() bool { return refused() >= 2 || cl.Nodes[1].Store.IsPrimary() })
		c.Count("acquire_on_held_lease_refused", refused())
		if cl.Nodes[1].Store.IsPrimary() {
			c.Violate("C08/primary-without-lease", "n1 reports primary although the lease service refused its acquire (the lease is held by n0)", detail())
			return
		}
		if !n.Store.IsPrimary() {
			c.Violate("C08/primary-lost-by-contention", "n0 stopped being primary because another candidate tried to acquire", detail())
			return
		}
		setBlock("n1", "primary-info", nil)
		if !cl.WaitConnected(1, 10*time.Second) {
			c.Violate("C08/contender-never-replica", "n1 did not connect to the primary after it could see the primary's info", detail())
			return
		}
		if _, err := w.txn(2); err != nil {
			c.Violate("C08/primary-cannot-write", err.Error(), detail())
		}
	case "handoff-fails-then-loss":
		// A handoff is requested and reaches the primary's lease loop, but cannot
		// be carried out (the renewal just before the hand-over fails). The node
		// stays primary; when that term ends later the lease was NOT handed off
		// and must be destroyed like any other.
		n, w, ok := startPrimary()
		if !ok {
			return
		}
		defer w.close()
		setBlock("n1", "acquire", errors.New("scripted: acquire unavailable"))
		if err := cl.Start(1); err != nil || !cl.WaitConnected(1, 10*time.Second) {
			c.Inconclusive("replica did not connect")
			return
		}
		target := cl.Nodes[1]
		o.mu.Lock()
		failsBefore := o.renewFails["n0"]
		o.mu.Unlock()
		setBlock("n0", "renew", errors.New("scripted: renew unavailable"))
		herr := n.Store.Handoff(context.Background(), target.Store.ID())
		// the hand-over attempt is over once a renewal has failed after the request
		if !o.waitFor(2*time.Second, func() bool { return o.renewFails["n0"] > failsBefore }) {
			setBlock("n0", "renew", nil)
			c.Inconclusive("no renewal was attempted during the hand-over window")
			return
		}
		time.Sleep(30 * time.Millisecond)
		setBlock("n0", "renew", nil)
		for _, call := range cl.Svc.Calls() {
			if call.Op == "acquire-existing" {
				// the hand-over went through before the renewal failed: not this script's case
				c.Count("handoff_completed_anyway", 1)
				return
			}
		}
		if !n.Store.IsPrimary() {
			c.Count("handoff_window_lost_lease", 1)
			return
		}
		c.Count("handoff_failed_still_primary", 1)
		_ = herr
		// the term ends
		setBlock("n0", "acquire", errors.New("scripted: acquire unavailable"))
		if variant%2 == 0 {
			n.Store.Demote()
		} else {
			cl.Svc.Expire()
		}
		if !o.waitFor(8*time.Second, func() bool { return o.closed["n0"] > 0 }) {
			c.Violate("C08/lease-not-destroyed-after-failed-handoff", "a handoff was requested but could not be carried out; when n0 later lost primary status it never destroyed its lease (it was not handed off)", detail())
			return
		}
		if n.Store.IsPrimary() {
			c.Violate("C08/still-primary-after-loss", "n0 reports primary after its term ended", detail())
		}
		if h, _ := cl.Svc.Holder(); h == "n0" && variant%2 == 0 {
			c.Violate("C08/lease-not-destroyed-after-failed-handoff", "the service still records n0 as holder after the demotion that followed a failed handoff", detail())
		}
		c.Count("lease_closed_after_loss", 1)
		c08AfterLoss(c, o, n, w, "after failed handoff and loss")
		setBlock("n0", "acquire", nil)
	case "handoff-chain":
		// n0 -> n1 -> n0 (-> n1 ...): every handoff goes to the requested node only
		n, w, ok := startPrimary()
		if !ok {
			return
		}
		w.close()
		_ = n
		for i := 0; i < len(opts); i++ {
			setBlock(fmt.Sprintf("n%d", i), "acquire", errors.New("scripted: acquire unavailable"))
		}
		for i := 1; i < len(opts); i++ {
			if err := cl.Start(i); err != nil {
				c.Inconclusive(err.Error())
				return
			}
			if !cl.WaitConnected(i, 10*time.Second) {
				c.Inconclusive("replica did not connect")
				return
			}
		}
		cur, next := 0, 1
		var wantSeq []string
		hops := 2 + variant%2
		for h := 0; h < hops; h++ {
			from, to := cl.Nodes[cur], cl.Nodes[next]
			// the target must be connected to the current primary
			deadline := time.Now().Add(10 * time.Second)
			for from.Store.SubscriberByNodeID(to.Store.ID()) == nil && time.Now().Before(deadline) {
				time.Sleep(2 * time.Millisecond)
			}
			o.mu.Lock()
			o.handedOff[from.Name] = true
			o.handedOff[to.Name] = false
			o.mu.Unlock()
			if err := from.Store.Handoff(context.Background(), to.Store.ID()); err != nil {
				c.Violate("C08/handoff-to-connected-failed", fmt.Sprintf("hop %d %s->%s: %v", h, from.Name, to.Name, err), detail())
				return
			}
			wantSeq = append(wantSeq, to.Name)
			if cl.WaitPrimary(to.Index, 10*time.Second) == nil {
				c.Violate("C08/handoff-not-completed", fmt.Sprintf("hop %d: %s did not become primary", h, to.Name), detail())
				return
			}
			if !o.waitFor(5*time.Second, func() bool { return !from.Store.IsPrimary() }) {
				c.Violate("C08/still-primary-after-loss", fmt.Sprintf("hop %d: %s still primary after handing its lease off", h, from.Name), detail())
				return
			}
			c.Count("loss_by_handoff", 1)
			cur, next = next, cur
		}
		// let everything settle, then compare the acquire-existing sequence
		time.Sleep(150 * time.Millisecond)
		var gotSeq []string
		for _, call := range cl.Svc.Calls() {
			if call.Op == "acquire-existing" {
				gotSeq = append(gotSeq, call.Node)
			}
		}
		if strings.Join(gotSeq, ",") != strings.Join(wantSeq, ",") {
			c.Violate("C08/handoff-to-wrong-node", fmt.Sprintf("handoffs were requested to %v but AcquireExisting was called by %v", wantSeq, gotSeq), detail())
			return
		}
		holder, _ := cl.Svc.Holder()
		prim := 0
		for _, nn := range cl.Nodes {
			if nn.Up && nn.Store.IsPrimary() {
				prim++
				if nn.Name != holder {
					c.Violate("C08/primary-without-lease", fmt.Sprintf("%s is primary but the service records %q as holder", nn.Name, holder), detail())
				}
			}
		}
		if prim != 1 {
			c.Violate("C08/two-primaries-after-handoff-chain", fmt.Sprintf("%d nodes report primary after the handoff chain settled (holder %s)", prim, holder), detail())
		}
	case "non-candidate":
		if err := cl.Start(0); err != nil {
			c.Inconclusive(err.Error())
			return
		}
		time.Sleep(time.Duration(150+c.Rng.IntN(200)) * time.Millisecond)
		if cl.Nodes[0].Store.IsPrimary() {
			c.Violate("C08/non-candidate-primary", "a non-candidate node became primary", detail())
		}
		for _, call := range cl.Svc.Calls() {
			if call.Op == "acquire" {
				c.Violate("C08/non-candidate-acquire", "non-candidate called Acquire", detail())
			}
		}
		c.Count("noncandidate_never_acquired", 1)
	case "cluster-id-mismatch":
		cl.Svc.SetClusterIDDirect("LFSC00000000000000AA")
		// the node's stored id differs
		_ = os.MkdirAll(cl.Nodes[0].Dir, 0o755)
		_ = os.WriteFile(filepath.Join(cl.Nodes[0].Dir, "clusterid"), []byte("LFSC00000000000000BB\n"), 0o644)
		if variant%2 == 1 {
			// another node of the right cluster is primary: must not replicate from it
			_ = os.MkdirAll(cl.Nodes[1].Dir, 0o755)
			_ = os.WriteFile(filepath.Join(cl.Nodes[1].Dir, "clusterid"), []byte("LFSC00000000000000AA\n"), 0o644)
			if err := cl.Start(1); err != nil || cl.WaitPrimary(1, 10*time.Second) == nil {
				c.Inconclusive("n1 start")
				return
			}
		}
		if err := cl.Start(0); err != nil {
			c.Inconclusive(err.Error())
			return
		}
		time.Sleep(time.Duration(150+c.Rng.IntN(150)) * time.Millisecond)
		n := cl.Nodes[0]
		if n.Store.IsPrimary() {
			c.Violate("C08/primary-for-foreign-cluster", "node with cluster id BB became primary on a lease service of cluster AA", detail())
		}
		for _, call := range cl.Svc.Calls() {
			if call.Node == "n0" && (call.Op == "acquire" || call.Op == "acquire-existing") {
				c.Violate("C08/acquire-for-foreign-cluster", "n0 called "+call.Op, detail())
			}
		}
		if len(n.Client.Sessions()) > 0 {
			c.Violate("C08/stream-from-foreign-cluster", "n0 opened a replication stream to a primary of another cluster", detail())
		}
		if n.Store.ClusterID() != "LFSC00000000000000BB" {
			c.Violate("C08/cluster-id-overwritten", "stored cluster id changed to "+n.Store.ClusterID(), detail())
		}
		c.Count("foreign_cluster_refused", 1)
	case "cluster-id-adopt":
		// node without an id joins an initialised cluster: becomes replica, adopts the id
		_, w, ok := startPrimary()
		if !ok {
			return
		}
		defer w.close()
		want := cl.Svc.ClusterIDDirect()
		if want == "" {
			c.Violate("C08/cluster-id-not-set", "primary did not initialise the service's cluster id", detail())
			return
		}
		if err := cl.Start(1); err != nil {
			c.Inconclusive(err.Error())
			return
		}
		if !cl.WaitConnected(1, 10*time.Second) {
			c.Violate("C08/replica-never-connected", "a fresh node did not join as replica", detail())
			return
		}
		if got := cl.Nodes[1].Store.ClusterID(); got != want {
			c.Violate("C08/cluster-id-not-adopted", fmt.Sprintf("replica has cluster id %q, primary's is %q", got, want), detail())
		}
		for _, call := range cl.Svc.Calls() {
			if call.Node == "n1" && call.Op == "acquire" {
				c.Violate("C08/acquire-without-cluster-id", "a node without a cluster id called Acquire on an initialised lease service", detail())
			}
		}
		// a stream whose primary reports another cluster id must be rejected: covered by mismatch script
	case "acquire-error":
		setBlock("n0", "acquire", errors.New("scripted: consul down"))
		if err := cl.Start(0); err != nil {
			c.Inconclusive(err.Error())
			return
		}
		time.Sleep(time.Duration(100+c.Rng.IntN(200)) * time.Millisecond)
		if cl.Nodes[0].Store.IsPrimary() {
			c.Violate("C08/primary-without-lease", "node is primary although every Acquire failed", detail())
		}
		setBlock("n0", "acquire", nil)
		if cl.WaitPrimary(0, 10*time.Second) == nil {
			c.Violate("C08/candidate-never-primary", "candidate did not become primary once Acquire succeeded", detail())
		}
	case "primary-info-stale":
		// n1 holds a live lease per the service, but its advertised URL is dead
		if err := cl.Start(1); err != nil || cl.WaitPrimary(1, 10*time.Second) == nil {
			c.Inconclusive("n1 start")
			return
		}
		cl.Nodes[1].Proxy.SetMode("refuse")
		cl.Nodes[1].Proxy.Cut()
		if err := cl.Start(0); err != nil {
			c.Inconclusive(err.Error())
			return
		}
		time.Sleep(time.Duration(150+c.Rng.IntN(150)) * time.Millisecond)
		if cl.Nodes[0].Store.IsPrimary() {
			c.Violate("C08/primary-while-lease-held-by-other", "n0 became primary while the service records a live lease of n1", detail())
		}
		for _, call := range cl.Svc.Calls() {
			if call.Node == "n0" && call.Op == "acquire" && strings.HasPrefix(call.Result, "ok") {
				c.Violate("C08/primary-while-lease-held-by-other", "n0 acquired while n1 held the lease", detail())
			}
		}
	}
	// summary
	var pattern []string
	for _, call := range cl.Svc.Calls() {
		pattern = append(pattern, call.Node+":"+call.Op+"="+strings.SplitN(call.Result, ":", 2)[0])
	}
	pattern = dedupRuns(pattern)
	c.Distinct(fmt.Sprintf("%s/v%d/ttl%s/%s", script, variant%4, ttl, strings.Join(pattern, ",")))
	if c.Index < len(c08Scripts) {
		if len(pattern) > 40 {
			pattern = pattern[:40]
		}
		c.Sample(map[string]any{"script": script, "ttl": ttl.String(), "lease_service_calls": pattern})
	}
	for _, n := range cl.Nodes {
		if n.Up {
			healthViolations(c, n.Node, "end", nil)
		}
	}
}

func dedupRuns(a []string) []string {
	var out []string
	for i, s := range a {
		if i > 0 && a[i-1] == s {
			continue
		}
		out = append(out, s)
	}
	return out
}

// c08Static: the static leaser as the degenerate script.
func c08Static(c *core.Case, variant int) {
	cl, err := cluster.New(c.Dir, []cluster.NodeOpts{{Candidate: true}})
	if err != nil {
		c.Inconclusive(err.Error())
		return
	}
	defer cl.Close()
	if variant%2 == 0 {
		n, err := newPrimary(c.Dir+"/static-primary", nil)
		if err != nil {
			c.Inconclusive(err.Error())
			return
		}
		defer n.Close()
		if !n.Store.IsPrimary() {
			c.Violate("C08/static-primary-not-primary", "static primary is not primary", nil)
		}
		time.Sleep(50 * time.Millisecond)
		if !n.Store.IsPrimary() {
			c.Violate("C08/static-primary-lost", "static primary lost primary status", nil)
		}
		c.Count("probes", 2)
		c.Distinct("static/primary")
		return
	}
	// a static replica never becomes primary and never acquires
	n, err := drvNewStaticReplica(c.Dir + "/static-replica")
	if err != nil {
		c.Inconclusive(err.Error())
		return
	}
	defer n.Close()
	time.Sleep(80 * time.Millisecond)
	if n.Store.IsPrimary() {
		c.Violate("C08/static-replica-primary", "static replica became primary", nil)
	}
	c.Count("probes", 1)
	c.Distinct("static/replica")
}
