//go:build verif

package checks

import (
	"context"
	"fmt"
	"io"
	"net/http"
	"path/filepath"
	"strings"
	"time"

	"github.com/superfly/litefs"
	lhttp "github.com/superfly/litefs/http"

	"verif/cluster"
	"verif/core"
	"verif/mon"
)

func init() {
	addFamily("C13", func(tier string) int {
		if tier == "thorough" {
			return 48
		}
		return 8
	}, runC13SlowBody, " (+ a forwarded transaction whose body arrives slowly: the holder sends the header and part of the file, its lock is released or expires, then either a local writer takes the primary's write lock or another holder commits the same transaction ID; the rest of the body arrives: the late file must be refused, change nothing and damage nothing, counters slow_*)")
	chk := Registry["C13"]
	base := chk.Floors
	chk.Floors = func(tier string) map[string]int {
		m := map[string]int{}
		if base != nil {
			for k, v := range base(tier) {
				m[k] = v
			}
		}
		m["slow_body_finished_after_lock_ended"] = 6
		return m
	}
}

// runC13SlowBody: "when the lock is released or expires the primary can write
// again and the former holder can no longer publish". A holder that has begun
// to send a transaction is still a former holder once its lock has ended, no
// matter how much of the body was already on the wire.
func runC13SlowBody(c *core.Case, k int) {
	expire := k%2 == 1
	second := k/2%2 == 1 // another holder commits the same transaction ID meanwhile
	tune := func(s *litefs.Store) {
		s.HaltLockTTL = time.Hour
		if expire {
			s.HaltLockTTL = 300 * time.Millisecond
			s.HaltLockMonitorInterval = 20 * time.Millisecond
		}
	}
	cl, err := cluster.New(c.Dir, []cluster.NodeOpts{{Candidate: true, Tune: tune}})
	if err != nil {
		c.Inconclusive(err.Error())
		return
	}
	defer cl.Close()
	if err := cl.Start(0); err != nil || cl.WaitPrimary(0, 10*time.Second) == nil {
		c.Inconclusive("primary start")
		return
	}
	P := cl.Nodes[0]
	led := newLedger()
	ps := []uint32{1024, 4096, 512}[k%3]
	w, err := newWriter(P.Node, "db", ps, false, "delete", nil, c.SubRng("w"), led, 1)
	if err != nil {
		c.Violate("C13/setup", err.Error(), nil)
		return
	}
	w.d.BusyRetries = 5000
	if err := w.ensure(uint32(4 + c.Rng.IntN(4))); err != nil {
		c.Violate("C13/setup", err.Error(), nil)
		return
	}
	if _, err := w.txn(2); err != nil {
		c.Violate("C13/setup", err.Error(), nil)
		return
	}
	img := w.d.M.Clone()
	w.close()
	var hist []string
	detail := map[string]any{"page_size": ps, "lock_ends_by": map[bool]string{true: "expiry", false: "release"}[expire], "second_holder": second, "history": &hist}
	const nodeA, nodeB = 0xA11CE, 0xB0B
	idA := int64(300000 + c.Rng.IntN(900000))
	if _, err := lhttp.NewClient().AcquireHaltLock(context.Background(), P.URL(), nodeA, "db", idA); err != nil {
		c.Inconclusive("halt acquire: " + err.Error())
		return
	}
	before := mon.PosOf(P.Node, "db")
	body := forgeLTX(P, img, nodeA)
	cut := 100 + c.Rng.IntN(len(body)-100-20)
	pr, pw := io.Pipe()
	type res struct {
		st  int
		err error
	}
	out := make(chan res, 1)
	go func() {
		req, _ := http.NewRequest("POST", fmt.Sprintf("%s/tx?name=db&lockID=%d", P.URL(), idA), pr)
		req.Header.Set(lhttp.HeaderNodeID, litefs.FormatNodeID(nodeA))
		resp, err := http.DefaultClient.Do(req)
		if err != nil {
			out <- res{0, err}
			return
		}
		_, _ = io.Copy(io.Discard, resp.Body)
		resp.Body.Close()
		out <- res{resp.StatusCode, nil}
	}()
	if _, err := pw.Write(body[:cut]); err != nil {
		c.Inconclusive("first part of the body: " + err.Error())
		return
	}
	hist = append(hist, fmt.Sprintf("holder A (lock %d) sends %d of %d bytes of transaction %d and stalls", idA, cut, len(body), before.TXID+1))
	// wait until the primary has the first part (its temporary file exists)
	tmp := filepath.Join(mon.DBDir(P.Node, "db"), "ltx")
	for i := 0; ; i++ {
		_, others, _ := mon.ListLTXDir(tmp)
		found := false
		for _, o := range others {
			if strings.HasSuffix(o, ".tmp") {
				found = true
			}
		}
		if found {
			break
		}
		if i > 3000 {
			_ = pw.Close()
			c.Inconclusive("the primary did not start to receive the body")
			return
		}
		time.Sleep(time.Millisecond)
	}
	// the lock ends
	if expire {
		for i := 0; P.Store.DB("db").HoldsHaltLock(idA); i++ {
			if i > 10000 {
				_ = pw.Close()
				c.Inconclusive("the lock did not expire")
				return
			}
			time.Sleep(time.Millisecond)
		}
	} else if err := lhttp.NewClient().ReleaseHaltLock(context.Background(), P.URL(), nodeA, "db", idA); err != nil {
		_ = pw.Close()
		c.Inconclusive("release: " + err.Error())
		return
	}
	hist = append(hist, "A's lock has ended")
	var expect mon.PosKey
	var unlockLocal func()
	if second {
		idB := idA + 1
		if _, err := lhttp.NewClient().AcquireHaltLock(context.Background(), P.URL(), nodeB, "db", idB); err != nil {
			_ = pw.Close()
			c.Inconclusive("second halt acquire: " + err.Error())
			return
		}
		bodyB := forgeLTXPost(P, img, nodeB, 0)
		st, err := postTx(P.URL(), nodeB, fmt.Sprint(idB), bodyB)
		if err != nil || st != 200 {
			_ = pw.Close()
			healthViolations(c, P.Node, "second holder's commit", detail)
			if !c.Violated() {
				c.Violate("C13/forward-refused", fmt.Sprintf("holder B (lock %d) posted transaction %d after A's lock had ended: status %d %v", idB, before.TXID+1, st, err), detail)
			}
			return
		}
		_ = lhttp.NewClient().ReleaseHaltLock(context.Background(), P.URL(), nodeB, "db", idB)
		expect = mon.PosOf(P.Node, "db")
		hist = append(hist, fmt.Sprintf("holder B (lock %d) commits transaction %d: primary at %s; B releases", idB, before.TXID+1, expect))
		c.Count("slow_second_holder_committed_same_txid", 1)
	} else {
		ctx, cancel := context.WithTimeout(context.Background(), 10*time.Second)
		g, err := P.Store.DB("db").AcquireWriteLock(ctx, nil)
		cancel()
		if err != nil {
			_ = pw.Close()
			c.Violate("C13/primary-cannot-write-after-lock-ended", fmt.Sprintf("A's halt lock has ended but the primary's write lock cannot be taken: %v", err), detail)
			return
		}
		unlockLocal = g.Unlock
		expect = before
		hist = append(hist, "a local writer holds the primary's write lock")
		c.Count("slow_local_writer_held_lock", 1)
	}
	// the rest of A's body arrives
	_, _ = pw.Write(body[cut:])
	_ = pw.Close()
	var r res
	select {
	case r = <-out:
	case <-time.After(30 * time.Second):
		if unlockLocal != nil {
			unlockLocal()
		}
		c.Inconclusive("watchdog: the late request was not answered")
		return
	}
	after := mon.PosOf(P.Node, "db")
	if unlockLocal != nil {
		unlockLocal()
	}
	hist = append(hist, fmt.Sprintf("the rest of A's body arrives: answered %d %v, primary at %s", r.st, r.err, after))
	c.Count("slow_body_finished_after_lock_ended", 1)
	if healthViolations(c, P.Node, "late body", detail) {
		return
	}
	if r.err == nil && r.st == 200 || after != expect {
		c.Violate("C13/forwarded-after-lock-ended", fmt.Sprintf("holder A's transaction arrived in two parts with the end of its halt lock in between; the late file was answered %d and the primary went from %s to %s (expected %s)", r.st, before, after, expect), detail)
		return
	}
	if probs := mon.ChainProblems(filepath.Join(mon.DBDir(P.Node, "db"), "ltx"), after.TXID, after.Chk); len(probs) > 0 {
		c.Violate("C13/log-damaged-by-late-body", fmt.Sprintf("after the refused late body the primary's transaction log no longer verifies: %s", strings.Join(probs, "; ")), detail)
		return
	}
	judgeRawChecksum(c, P.Node, "db", "after a refused late body", detail)
	// the node restarts on what it has
	cl.Stop(0)
	if err := cl.Start(0); err != nil {
		healthViolations(c, P.Node, "restart", detail)
		if !c.Violated() {
			c.Violate("C13/restart-failed-after-late-body", fmt.Sprintf("the primary does not start again after the refused late body: %v", err), detail)
		}
		return
	}
	if p := mon.PosOf(cl.Nodes[0].Node, "db"); p != after {
		c.Violate("C13/restart-moved-position", fmt.Sprintf("after a restart the primary is at %s, it was at %s (a refused transaction was applied by the recovery)", p, after), detail)
		return
	}
	c.Count("slow_restarts_ok", 1)
	c.Distinct(fmt.Sprintf("slow-body/%v/second%v/ps%d", detail["lock_ends_by"], second, ps))
}
