package checks

import (
	"fmt"

	"verif/core"
	"verif/mon"
	"verif/pager"
	"verif/ref"
)

var c02Shapes = []string{"modify", "grow", "shrink", "spill", "multispill", "rollback", "rollback-spill", "lockonly", "create-big", "block-edge", "nosync", "spill-beyond", "grow-holes", "mixed"}

func init() {
	register(&core.Check{
		ID:    "C02",
		Level: "exploration",
		Rule: "each case is a history of ~10 rollback-journal pager programs on a fresh primary (shape class × finalisation mode × page size × sector size, details from the PRNG); " +
			"after every program the new LTX file is decoded and applied to the previous reference image and compared with the image the simulated SQLite holds and with the bytes readable through the handlers; " +
			"distinct = (shape, mode, page size, sector, outcome, size-class transition, segments) tuples of executed programs",
		Assumptions: []string{"the ltx module's decoder is trusted", "handlers are driven in-process (bazil dispatch bypassed)", "pager programs follow SQLite's documented I/O protocol (Appendix A)"},
		NumCases: func(tier string) int {
			if tier == "thorough" {
				return 6300
			}
			return 420
		},
		EvalCounter: "programs",
		Run:         runC02,
		Floors: func(tier string) map[string]int {
			return map[string]int{
				"commit_delete": 20, "commit_truncate": 20, "commit_persist": 20,
				"multi_segment": 5, "rollback_after_spill": 5, "late_truncate": 3, "block_cross": 3,
				"create_from_nothing": 3, "mode_roundtrip_truncate": 10, "mode_roundtrip_persist": 10, "spilled_beyond_commit": 5, "grow_with_unwritten_pages": 10, "ltx_decoded": 100, "lockonly": 3, "tx_events_seen": 50,
			}
		},
	})
}

func sizeClass(n uint32) string {
	switch {
	case n == 0:
		return "0"
	case n <= 2:
		return "s"
	case n < 256:
		return "<256"
	case n == 256:
		return "256"
	case n <= 512:
		return "<=512"
	default:
		return ">512"
	}
}

func runC02(c *core.Case) {
	shape := c02Shapes[c.Index%len(c02Shapes)]
	mode := []string{"delete", "truncate", "persist"}[(c.Index/len(c02Shapes))%3]
	pageSizes := []uint32{512, 1024, 4096, 512, 1024, 4096, 8192, 2048, 65536}
	ps := pageSizes[(c.Index/(len(c02Shapes)*3))%len(pageSizes)]
	if ps == 65536 && c.Tier == "quick" && (shape == "create-big" || shape == "block-edge") {
		ps = 512
	}
	sector := []uint32{512, 4096}[c.Rng.IntN(2)]

	n, err := newPrimary(c.Dir+"/data", nil)
	if err != nil {
		c.Inconclusive("node start: " + err.Error())
		return
	}
	defer n.Close()
	sub := n.Store.SubscribeEvents()
	defer sub.Stop()

	d := pager.NewDB(n, "db", ps, c.Rng)
	d.Sector = sector
	d.JournalMode = mode
	if c.Rng.IntN(3) == 0 {
		d.Split = "split4k"
	}
	conn, err := d.Open(1)
	if err != nil {
		c.Violate("C02/open-failed", err.Error(), nil)
		return
	}
	defer conn.Close()

	// first transaction: create from nothing
	first := uint32(2 + c.Rng.IntN(6))
	switch shape {
	case "create-big":
		first = pick(c, []uint32{255, 256, 257, 300, 513})
	case "block-edge":
		first = pick(c, []uint32{254, 255, 256, 257, 511, 512, 513})
	case "shrink":
		first = uint32(20 + c.Rng.IntN(60))
	case "spill", "multispill", "rollback-spill":
		first = uint32(12 + c.Rng.IntN(30))
	}
	steps := 9
	if ps >= 8192 {
		steps = 5
	}
	var programs []any
	if c.Index%5 == 3 {
		// the very first transaction of the database is rolled back by the
		// application (BEGIN; CREATE TABLE ...; ROLLBACK on a new file), sometimes
		// after its cache spilled pages into the file: nothing exists afterwards
		spec := pager.RollbackSpec{Mode: mode, Outcome: "rollback", NewPageN: first}
		if c.Index%10 == 8 {
			spec.SpillAfter, spec.UnwrittenNew = 1, 0
		}
		prev := mon.PosOf(n, "db")
		res := conn.RunRollbackTx(spec)
		programs = append(programs, spec)
		c.Count("programs", 1)
		detail := map[string]any{"page_size": ps, "sector": sector, "mode": mode, "spec": spec}
		ctx := fmt.Sprintf("first transaction of a new database rolled back (%s, %d pages)", mode, first)
		if healthViolations(c, n, ctx, detail) {
			return
		}
		if res.Err != nil {
			c.Violate("C02/op-refused/"+res.ErrStep, fmt.Sprintf("LiteFS failed a legal SQLite step %q on a healthy primary: %v (%s)", res.ErrStep, res.Err, ctx), detail)
			return
		}
		if p := mon.PosOf(n, "db"); p != prev {
			c.Violate("C02/rolledback-tx-changed-checksum", fmt.Sprintf("position %s -> %s (%s)", prev, p, ctx), detail)
			return
		}
		if raw := mon.RawImage(mon.DBDir(n, "db")); raw.PageN != 0 {
			c.Violate("C02/rolledback-tx-changed-image", fmt.Sprintf("%d pages exist after the rollback (%s)", raw.PageN, ctx), detail)
			return
		}
		c.Count("first_tx_rolled_back", 1)
	}
	for i := 0; i <= steps; i++ {
		cur := d.M.PageN
		spec := pager.RollbackSpec{Mode: mode, Outcome: "commit", NewPageN: cur}
		sh := shape
		if i == 0 {
			sh = "create"
			spec.NewPageN = first
		} else if shape == "mixed" {
			sh = c02Shapes[c.Rng.IntN(len(c02Shapes)-1)]
		}
		randDirty := func(k int) {
			for j := 0; j < k && cur > 0; j++ {
				spec.Dirty = append(spec.Dirty, 1+uint32(c.Rng.IntN(int(cur))))
			}
		}
		switch sh {
		case "create":
		case "modify", "create-big":
			randDirty(1 + c.Rng.IntN(6))
		case "grow":
			randDirty(c.Rng.IntN(4))
			spec.NewPageN = cur + uint32(1+c.Rng.IntN(12))
		case "shrink":
			randDirty(c.Rng.IntN(4))
			if cur > 2 {
				spec.NewPageN = cur - uint32(1+c.Rng.IntN(int(cur-2)))
				if c.Rng.IntN(2) == 0 {
					spec.DirtyCut = uint32(1 + c.Rng.IntN(2))
					spec.SpillAfter = 1 + c.Rng.IntN(3)
				}
			}
		case "spill":
			randDirty(6 + c.Rng.IntN(10))
			spec.SpillAfter = 2 + c.Rng.IntN(4)
			if c.Rng.IntN(2) == 0 {
				spec.NewPageN = cur + uint32(c.Rng.IntN(8))
			}
		case "multispill":
			randDirty(10 + c.Rng.IntN(10))
			spec.SpillAfter = 2 + c.Rng.IntN(3)
			spec.MultiSpill = true
			spec.NewPageN = cur + uint32(c.Rng.IntN(6))
		case "rollback":
			randDirty(1 + c.Rng.IntN(6))
			spec.Outcome = "rollback"
			if c.Rng.IntN(2) == 0 {
				spec.NewPageN = cur + uint32(c.Rng.IntN(5))
			}
		case "rollback-spill":
			randDirty(6 + c.Rng.IntN(8))
			spec.SpillAfter = 2 + c.Rng.IntN(3)
			spec.MultiSpill = c.Rng.IntN(2) == 0
			spec.Outcome = "rollback"
			switch c.Rng.IntN(3) {
			case 0:
				spec.NewPageN = cur + uint32(1+c.Rng.IntN(8))
			case 1:
				if cur > 3 {
					spec.NewPageN = cur - 1
				}
			}
		case "lockonly":
			if c.Rng.IntN(2) == 0 {
				spec.Outcome = "lockonly"
			} else {
				randDirty(2)
			}
		case "block-edge":
			targets := []uint32{255, 256, 257, 258, 511, 512, 513, 200, 300}
			spec.NewPageN = pick(c, targets)
			randDirty(c.Rng.IntN(5))
			if c.Rng.IntN(3) == 0 {
				spec.SpillAfter = 3
			}
		case "spill-beyond":
			// the transaction grows the file through a spill and frees the new
			// pages again: the commit size is below the highest page written
			randDirty(4 + c.Rng.IntN(8))
			spec.SpillAfter = 2 + c.Rng.IntN(3)
			spec.MultiSpill = c.Rng.IntN(2) == 0
			spec.SpillBeyond = uint32(1 + c.Rng.IntN(6))
			switch c.Rng.IntN(3) {
			case 0:
				spec.NewPageN = cur + uint32(c.Rng.IntN(3))
			case 1:
				if cur > 3 {
					spec.NewPageN = cur - uint32(1+c.Rng.IntN(2))
				}
			}
			if c.Rng.IntN(4) == 0 {
				spec.Outcome = "rollback"
			}
		case "grow-holes":
			// the transaction allocates pages and frees some again: SQLite never
			// writes those, only the last page (to extend the file)
			randDirty(1 + c.Rng.IntN(5))
			g := uint32(2 + c.Rng.IntN(12))
			if c.Rng.IntN(4) == 0 && cur < 250 {
				g = 258 - cur + uint32(c.Rng.IntN(4)) // across the first checksum block
			}
			spec.NewPageN = cur + g
			spec.UnwrittenNew = 1 + uint32(c.Rng.IntN(int(g-1)))
			if c.Rng.IntN(3) == 0 {
				spec.SpillAfter = 2 + c.Rng.IntN(3)
			}
			if c.Rng.IntN(6) == 0 {
				spec.Outcome = "rollback"
			}
		case "nosync":
			randDirty(1 + c.Rng.IntN(5))
			spec.NRec = "nosync"
			if c.Rng.IntN(2) == 0 {
				spec.NewPageN = cur + uint32(c.Rng.IntN(4))
			}
		}
		if spec.NewPageN == 0 {
			spec.NewPageN = 1
		}
		if mode == "persist" && spec.Outcome == "commit" && (c.Index/3)%4 == 1 {
			// PRAGMA journal_size_limit: the finalised journal is cut down to the limit
			spec.JournalSizeLimit = int64([]uint32{sector, 4096, 1}[i%3])
			c.Count("persist_commits_with_journal_size_limit", 1)
		}

		prev := mon.PosOf(n, "db")
		oldImg := d.M
		res := conn.RunRollbackTx(spec)
		c.Count("programs", 1)
		c.Count("stale_journal_headers_zapped", res.StaleHdrZaps)
		detail := map[string]any{"page_size": ps, "sector": sector, "mode": mode, "split": d.Split, "step": i, "spec": spec, "history": programs}
		programs = append(programs, spec)
		ctx := fmt.Sprintf("step %d %s %s ps=%d %d->%d pages", i, sh, spec.Outcome, ps, cur, spec.NewPageN)
		c.Logf("%s: err=%v finalized=%v pos=%s", ctx, res.Err, res.Finalized, mon.PosOf(n, "db"))
		if healthViolations(c, n, ctx, detail) {
			return
		}
		if res.Err != nil {
			c.Violate("C02/op-refused/"+res.ErrStep, fmt.Sprintf("LiteFS failed a legal SQLite step %q on a healthy primary: %v (%s)", res.ErrStep, res.Err, ctx), detail)
			return
		}
		committed := spec.Outcome == "commit"
		want := d.M
		out := judgeLocalTx(c, n, "db", prev, oldImg, want, committed, ctx, detail)
		judgeSeen(c, n, "db", 1, want, ctx, detail)
		judgeRawChecksum(c, n, "db", ctx, detail)
		if tmp := mon.TmpFiles(n, "db"); len(tmp) > 0 {
			c.Violate("C02/tmp-left", fmt.Sprintf("temporary files left in ltx dir: %v (%s)", tmp, ctx), detail)
		}
		if ok, held := mon.AllUnlocked(n.Store.DB("db")); !ok {
			c.Violate("C02/locks-left", fmt.Sprintf("locks still held after the transaction: %s (%s)", held, ctx), detail)
		}
		evs := drainEvents(sub)
		if out.Advanced {
			if hasTxEvent(evs, "db", out.Pos) {
				c.Count("tx_events_seen", 1)
			} else {
				c.Violate("C02/no-tx-event", fmt.Sprintf("no tx event for position %s (%s)", out.Pos, ctx), detail)
			}
		}
		if c.Violated() {
			return
		}
		// observations
		if out.LTX != nil {
			c.Count("ltx_decoded", 1)
		}
		segs := 1
		if spec.SpillAfter > 0 {
			segs = 2
			if spec.MultiSpill {
				segs = 3
			}
		}
		if committed {
			c.Count("commit_"+mode, 1)
			if spec.SpillAfter > 0 && len(spec.Dirty) >= spec.SpillAfter {
				c.Count("multi_segment", 1)
			}
			if spec.NewPageN < cur {
				c.Count("late_truncate", 1)
			}
			if spec.SpillBeyond > 0 {
				c.Count("spilled_beyond_commit", 1)
			}
			if spec.UnwrittenNew > 0 {
				c.Count("grow_with_unwritten_pages", 1)
			}
			if (cur <= 256) != (spec.NewPageN <= 256) || (cur <= 512) != (spec.NewPageN <= 512) {
				c.Count("block_cross", 1)
			}
			if i == 0 {
				c.Count("create_from_nothing", 1)
			}
		} else if spec.Outcome == "rollback" {
			c.Count("rollback", 1)
			if spec.SpillAfter > 0 && len(spec.Dirty) >= spec.SpillAfter {
				c.Count("rollback_after_spill", 1)
			}
			if out.Advanced {
				c.Count("rollback_consumed_txid", 1)
			}
		} else {
			c.Count("lockonly", 1)
		}
		c.Distinct(fmt.Sprintf("%s/%s/ps%d/sec%d/%s/%s->%s/seg%d/%s/b%v", sh, mode, ps, sector, spec.Outcome, sizeClass(cur), sizeClass(spec.NewPageN), segs, spec.NRec, spec.SpillBeyond > 0))
		if i == 1 {
			c.Sample(map[string]any{"page_size": ps, "sector": sector, "mode": mode, "program": spec, "pos_after": out.Pos.String()})
		}
	}
	_ = ref.ChecksumFlag
	// epilogue of every fourth history: the application takes the database to WAL
	// mode and back (`PRAGMA journal_mode=wal; ...; PRAGMA journal_mode=<mode>`).
	// SQLite keeps a TRUNCATE/PERSIST journal file when it goes to WAL, so the
	// transaction that returns to the rollback mode OPENS the journal (no create)
	// on a database LiteFS has marked as WAL; it is a rollback-journal commit like
	// any other and must be captured as one, and so must those after it.
	if c.Index%4 != 1 || ps >= 8192 || c.Violated() {
		return
	}
	judge := func(ctx string, prev mon.PosKey, oldImg *ref.Image, res pager.TxResult) bool {
		detail := map[string]any{"page_size": ps, "sector": sector, "mode": mode, "history": programs, "epilogue": ctx}
		c.Count("programs", 1)
		if healthViolations(c, n, ctx, detail) {
			return false
		}
		if res.Err != nil {
			c.Violate("C02/op-refused/"+res.ErrStep, fmt.Sprintf("LiteFS failed a legal SQLite step %q on a healthy primary: %v (%s)", res.ErrStep, res.Err, ctx), detail)
			return false
		}
		out := judgeLocalTx(c, n, "db", prev, oldImg, d.M, true, ctx, detail)
		if !out.Advanced && !c.Violated() {
			c.Violate("C02/commit-not-captured", fmt.Sprintf("position stayed %s although the transaction committed (%s)", prev, ctx), detail)
		}
		judgeSeen(c, n, "db", 1, d.M, ctx, detail)
		judgeRawChecksum(c, n, "db", ctx, detail)
		return !c.Violated()
	}
	prev, oldImg := mon.PosOf(n, "db"), d.M
	res := conn.RunRollbackTx(pager.RollbackSpec{Mode: mode, Outcome: "commit", NewPageN: d.M.PageN, WALHeader: true})
	if !judge(fmt.Sprintf("epilogue: %s->wal (page 1 rewritten through the journal)", mode), prev, oldImg, res) {
		return
	}
	if err := conn.OpenWAL(); err != nil {
		c.Violate("C02/op-refused/open-wal", err.Error(), nil)
		return
	}
	for j := 0; j < 1+c.Rng.IntN(2); j++ {
		prev, oldImg = mon.PosOf(n, "db"), d.M
		cur := d.M.PageN
		ws := pager.WALSpec{NewPageN: cur + uint32(c.Rng.IntN(2)), Outcome: "commit", SplitFrame: true, Frames: []pager.FrameSpec{{Pgno: 1 + uint32(c.Rng.IntN(int(cur)))}}}
		if ws.NewPageN > cur {
			ws.Frames = append(ws.Frames, pager.FrameSpec{Pgno: ws.NewPageN}) // a new page is in the log
		}
		ws.Frames = append(ws.Frames, pager.FrameSpec{Pgno: 1})
		res = conn.RunWALTx(ws)
		if !judge(fmt.Sprintf("epilogue: wal transaction %d", j), prev, oldImg, res) {
			return
		}
	}
	prev, oldImg = mon.PosOf(n, "db"), d.M
	if (c.Index/4)%2 == 0 {
		res = conn.SwitchToRollbackExclusive(mode)
		c.Count("mode_roundtrip_exclusive_from_shared", 1)
	} else {
		res = conn.SwitchToRollback(mode)
	}
	if !judge(fmt.Sprintf("epilogue: wal->%s over the journal file the mode left behind (page 1 rewritten through the journal)", mode), prev, oldImg, res) {
		return
	}
	c.Count("mode_roundtrip_"+mode, 1)
	for j := 0; j < 2; j++ {
		prev, oldImg = mon.PosOf(n, "db"), d.M
		cur := d.M.PageN
		res = conn.RunRollbackTx(pager.RollbackSpec{Mode: mode, Outcome: "commit", NewPageN: cur + uint32(c.Rng.IntN(3)), Dirty: []uint32{1 + uint32(c.Rng.IntN(int(cur)))}})
		if !judge(fmt.Sprintf("epilogue: journal transaction %d after the round trip", j), prev, oldImg, res) {
			return
		}
	}
	c.Distinct(fmt.Sprintf("roundtrip/%s/ps%d", mode, ps))
}
