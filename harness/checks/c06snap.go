//go:build verif

package checks

import (
	"context"
	"fmt"
	"strings"
	"sync/atomic"
	"time"

	"verif/cluster"
	"verif/core"
	"verif/mon"
)

func init() {
	addFamily("C06", func(tier string) int {
		if tier == "thorough" {
			return 48
		}
		return 4
	}, runC06Snap, " (+ a commit inside a snapshot: the primary commits (WAL mode) while it streams a snapshot to a node that needs one; what the primary records as that node's position must be the snapshot's, so the node receives the commit next and ends identical, counters snap_*)")
	chk := Registry["C06"]
	base := chk.Floors
	chk.Floors = func(tier string) map[string]int {
		m := map[string]int{}
		if base != nil {
			for k, v := range base(tier) {
				m[k] = v
			}
		}
		m["snap_commit_inside_snapshot"] = 2
		return m
	}
}

// runC06Snap: a node that needs a snapshot (fresh, or off the primary's history)
// is being sent one; the snapshot writer is parked by an OS-layer gate right
// after it fixed the snapshot's position, a WAL-mode transaction commits on the
// primary, the writer goes on. The primary is idle afterwards: the node must
// still reach the primary's position within a few heartbeats and be identical.
func runC06Snap(c *core.Case, k int) {
	ps := []uint32{1024, 4096, 512}[k%3]
	cl, err := cluster.New(c.Dir, []cluster.NodeOpts{{Candidate: true}, {}})
	if err != nil {
		c.Inconclusive(err.Error())
		return
	}
	defer cl.Close()
	if err := cl.Start(0); err != nil || cl.WaitPrimary(0, 10*time.Second) == nil {
		c.Inconclusive("primary start")
		return
	}
	P, R := cl.Nodes[0], cl.Nodes[1]
	led := newLedger()
	w, err := newWriter(P.Node, "db", ps, true, "delete", nil, c.SubRng("w"), led, 1)
	if err != nil {
		c.Violate("C06/setup", err.Error(), nil)
		return
	}
	defer w.close()
	w.d.BusyRetries = 5000
	if err := w.ensure(uint32(6 + c.Rng.IntN(10))); err != nil {
		c.Violate("C06/setup", err.Error(), nil)
		return
	}
	for i := 0; i < 2+c.Rng.IntN(3); i++ {
		if _, err := w.txn(3); err != nil {
			c.Violate("C06/setup", err.Error(), nil)
			return
		}
	}
	if k%2 == 1 {
		// (a checkpointed log: the snapshot reads the database file only)
		_ = P.Store.DB("db").Checkpoint(context.Background())
		w.d.WalEnd, w.d.Backfilled, w.d.WalContent = 0, true, map[uint32][]byte{}
	}
	entered := make(chan struct{}, 1)
	release := make(chan struct{})
	var fired atomic.Bool
	P.Node.OS.SetHook(func(op, kind, path string) error {
		if strings.HasPrefix(op, "WRITESNAPSHOT:DB") && fired.CompareAndSwap(false, true) {
			entered <- struct{}{}
			select {
			case <-release:
			case <-time.After(20 * time.Second):
			}
		}
		return nil
	})
	defer P.Node.OS.SetHook(nil)
	if err := cl.Start(1); err != nil {
		c.Inconclusive(err.Error())
		return
	}
	select {
	case <-entered:
	case <-time.After(15 * time.Second):
		close(release)
		c.Inconclusive("no snapshot was started for the joining node")
		return
	}
	before := mon.PosOf(P.Node, "db")
	committed := false
	for try := 0; try < 20 && !committed; try++ {
		ok, err := w.txn(2)
		if err != nil {
			close(release)
			healthViolations(c, P.Node, "commit inside the snapshot", nil)
			if !c.Violated() {
				c.Violate("C06/setup", "commit inside the snapshot: "+err.Error(), nil)
			}
			return
		}
		committed = ok
	}
	after := mon.PosOf(P.Node, "db")
	close(release)
	detail := map[string]any{"page_size": ps, "primary_before": before.String(), "primary_after": after.String()}
	if !committed || after == before {
		c.Count("snap_commit_blocked_by_snapshot", 1)
	} else {
		c.Count("snap_commit_inside_snapshot", 1)
	}
	ok, _, timedOut := cl.WaitConverged(P, R, []string{"db"}, 8, 30*time.Second)
	if healthViolations(c, R.Node, "after the snapshot", detail) || healthViolations(c, P.Node, "after the snapshot", detail) {
		return
	}
	if timedOut {
		c.Inconclusive("convergence watchdog")
		return
	}
	detail["replica"] = mon.PosOf(R.Node, "db").String()
	if !ok {
		c.Violate("C06/not-identical-after-reconnect", fmt.Sprintf("snapshot-vs-commit: a transaction committed on the primary while it streamed a snapshot to n1; the primary is idle at %s and n1 stays at %s", mon.PosOf(P.Node, "db"), mon.PosOf(R.Node, "db")), detail)
		return
	}
	res, err := mountRead(c, R.Node, "db", 4242)
	if err != nil {
		c.Violate("C06/read-error", err.Error(), detail)
		return
	}
	judgeReplicaRead(c, led, R.Name, "db", res, "after a snapshot that raced with a commit", detail)
	c.Count("frames_judged", 1)
	c.Distinct(fmt.Sprintf("snap-vs-commit/ps%d/ckpt%v/inside%v", ps, k%2 == 1, committed && after != before))
}
