//go:build verif

package checks

import (
	"fmt"
	"io"
	"net"
	"net/http"
	"os"
	"path/filepath"
	"strings"
	"sync"
	"time"

	"verif/core"
)

func init() {
	addKMountCounter("C19", func(tier string) int {
		if tier == "thorough" {
			return 24
		}
		return 3
	}, runDrvC19, "drvc_cases")
}

type drvc19App struct {
	name string
	ln   net.Listener
	mu   sync.Mutex
	hits map[string]string // request id -> "METHOD path"
}

func newDrvc19App(name string) (*drvc19App, error) {
	ln, err := net.Listen("tcp", "127.0.0.1:0")
	if err != nil {
		return nil, err
	}
	a := &drvc19App{name: name, ln: ln, hits: map[string]string{}}
	go func() {
		_ = http.Serve(ln, http.HandlerFunc(func(w http.ResponseWriter, r *http.Request) {
			a.mu.Lock()
			a.hits[r.Header.Get("X-Req-Id")] = r.Method + " " + r.URL.Path
			a.mu.Unlock()
			w.Header().Set("X-Stub-Node", name)
			_, _ = io.WriteString(w, "ok")
		}))
	}()
	return a, nil
}

func (a *drvc19App) hit(id string) bool {
	a.mu.Lock()
	defer a.mu.Unlock()
	_, ok := a.hits[id]
	return ok
}

// runDrvC19: the proxy as the real binary builds it from litefs.yml (driver C):
// `proxy.passthrough` and `proxy.always-forward` lists, target, database name.
// Two litefs processes (primary, replica), a stub application behind each
// proxy. On the replica: writes and always-forward paths never reach the local
// application (answer: fly-replay to the primary); passthrough paths and plain
// reads do. On the primary everything reaches the application.
func runDrvC19(c *core.Case, k int) {
	if ok, why := kmountAvailable(); !ok || os.Getenv("VERIF_LITEFS_BIN") == "" {
		c.Count("drvc_unavailable", 1)
		if k == 0 {
			c.Sample(map[string]any{"drvc": "unavailable", "why": why})
		}
		return
	}
	appP, err := newDrvc19App("n0")
	if err != nil {
		c.Inconclusive(err.Error())
		return
	}
	defer appP.ln.Close()
	appR, err := newDrvc19App("n1")
	if err != nil {
		c.Inconclusive(err.Error())
		return
	}
	defer appR.ln.Close()
	proxyYAML := func(app *drvc19App) (string, string, error) {
		port, err := freePort()
		if err != nil {
			return "", "", err
		}
		addr := fmt.Sprintf("127.0.0.1:%d", port)
		// the two lists in the order and spelling of the documentation
		y := fmt.Sprintf("proxy:\n  addr: %q\n  target: %q\n  db: \"db\"\n  primary-redirect-timeout: \"200ms\"\n  passthrough:\n    - \"/static/*\"\n    - \"*.png\"\n  always-forward:\n    - \"/forward/*\"\n    - \"*.fwd\"\n", addr, app.ln.Addr().String())
		return y, addr, nil
	}
	pdir, rdir := filepath.Join(c.Dir, "p"), filepath.Join(c.Dir, "r")
	_ = os.MkdirAll(pdir, 0o755)
	_ = os.MkdirAll(rdir, 0o755)
	py, paddr, err := proxyYAML(appP)
	if err != nil {
		c.Inconclusive(err.Error())
		return
	}
	P, err := startLitefs(pdir, py)
	if err != nil {
		c.Count("drvc_unavailable", 1)
		c.Sample(map[string]any{"drvc": "start failed", "why": err.Error()})
		return
	}
	defer P.stop()
	ry, raddr, err := proxyYAML(appR)
	if err != nil {
		c.Inconclusive(err.Error())
		return
	}
	replicaLease := fmt.Sprintf("  type: \"static\"\n  candidate: false\n  hostname: \"n0\"\n  advertise-url: \"http://%s\"\n  reconnect-delay: \"20ms\"\n", P.addr)
	R, err := startLitefsLease(rdir, replicaLease, ry)
	if err != nil {
		c.Count("drvc_unavailable", 1)
		c.Sample(map[string]any{"drvc": "replica start failed", "why": err.Error()})
		return
	}
	defer R.stop()
	c.Count("drvc_cases", 1)
	// the tracked database exists and is replicated
	proc, err := startSQLProc()
	if err != nil {
		c.Inconclusive("SQL child: " + err.Error())
		return
	}
	defer proc.stop()
	w, err := proc.open(filepath.Join(P.mnt, "db"), false)
	if err != nil {
		c.Violate("C19/drvc/open", err.Error(), nil)
		return
	}
	for _, q := range []string{"CREATE TABLE t0(id INTEGER PRIMARY KEY, v BLOB)", "INSERT INTO t0 VALUES(1,randomblob(100))"} {
		if _, err := w.queryStringOrExec(q); err != nil {
			c.Violate("C19/drvc/setup", fmt.Sprintf("%q: %v", q, err), nil)
			return
		}
	}
	w.close()
	for dl := time.Now().Add(20 * time.Second); time.Now().Before(dl); time.Sleep(10 * time.Millisecond) {
		if p, _ := newestLTXPos(filepath.Join(R.data, "dbs", "db")); p.TXID >= 2 {
			break
		}
	}
	// wait for the proxies
	for _, a := range []string{paddr, raddr} {
		ok := false
		for i := 0; i < 500 && !ok; i++ {
			if cn, err := net.DialTimeout("tcp", a, time.Second); err == nil {
				cn.Close()
				ok = true
			} else {
				time.Sleep(10 * time.Millisecond)
			}
		}
		if !ok {
			c.Inconclusive("proxy " + a + " does not listen")
			return
		}
	}
	hc := &http.Client{Timeout: 10 * time.Second, CheckRedirect: func(*http.Request, []*http.Request) error { return http.ErrUseLastResponse }}
	type tc struct {
		node, method, path string
		local              bool // must reach the application of the node asked
	}
	cases := []tc{
		{"replica", "GET", "/items/1", true},
		{"replica", "GET", "/static/app.js", true},
		{"replica", "POST", "/static/upload", true},
		{"replica", "GET", "/img/a.png", true},
		{"replica", "POST", "/items/1", false},
		{"replica", "DELETE", "/items/2", false},
		{"replica", "GET", "/forward/report", false},
		{"replica", "GET", "/api/run.fwd", false},
		{"replica", "POST", "/forward/x", false},
		{"replica", "PUT", "/api/static/7", false}, // only ends like a passthrough pattern
		{"primary", "GET", "/forward/report", true},
		{"primary", "POST", "/items/1", true},
		{"primary", "GET", "/items/1", true},
	}
	for i, t := range cases {
		addr, app := raddr, appR
		if t.node == "primary" {
			addr, app = paddr, appP
		}
		id := fmt.Sprintf("k%d-r%d", k, i)
		req, _ := http.NewRequest(t.method, "http://"+addr+t.path, strings.NewReader(""))
		req.Header.Set("X-Req-Id", id)
		resp, err := hc.Do(req)
		c.Count("requests", 1)
		c.Count("drvc_proxy_requests", 1)
		detail := map[string]any{"driver": "C (real litefs binaries configured through litefs.yml)", "node": t.node, "method": t.method, "path": t.path}
		if err != nil {
			c.Violate("C19/drvc/no-answer", fmt.Sprintf("%s %s on the %s's proxy: %v", t.method, t.path, t.node, err), detail)
			return
		}
		_, _ = io.Copy(io.Discard, resp.Body)
		resp.Body.Close()
		detail["status"], detail["fly_replay"] = resp.StatusCode, resp.Header.Get("fly-replay")
		reached := app.hit(id)
		other := appP
		if app == appP {
			other = appR
		}
		if other.hit(id) {
			c.Violate("C19/drvc/wrong-application", fmt.Sprintf("%s %s sent to the %s's proxy reached the other node's application", t.method, t.path, t.node), detail)
			return
		}
		switch {
		case t.local && !reached:
			c.Violate("C19/drvc/not-forwarded-to-application", fmt.Sprintf("%s %s on the %s must be served by its own application (passthrough or plain read) but did not reach it (status %d, fly-replay %q)", t.method, t.path, t.node, resp.StatusCode, resp.Header.Get("fly-replay")), detail)
			return
		case !t.local && reached:
			c.Violate("C19/write-ran-on-replica", fmt.Sprintf("%s %s on the replica (a write, or a path of the always-forward list in litefs.yml) was run by the replica's own application", t.method, t.path), detail)
			return
		case !t.local && !strings.Contains(resp.Header.Get("fly-replay"), "instance="):
			c.Violate("C19/drvc/no-redirect", fmt.Sprintf("%s %s on the replica was not run locally but carries no fly-replay redirect to the primary (status %d)", t.method, t.path, resp.StatusCode), detail)
			return
		}
		c.Distinct(fmt.Sprintf("drvc/%s/%s/%s/local%v", t.node, t.method, t.path, t.local))
	}
	c.Count("drvc_proxy_cases", 1)
}
