//go:build verif

package checks

import (
	"context"
	"fmt"
	"sync"
	"sync/atomic"

	"github.com/superfly/litefs"

	"verif/core"
	"verif/drv"
	"verif/ref"
)

func init() {
	addFamily("C12", func(tier string) int {
		if tier == "thorough" {
			return 64
		}
		return 8
	}, runC12Range, " (+ range requests: one lock call of an owner that names several lock bytes of the -shm file or of the database file (SQLite: READ1..4, CKPT..READ4, PENDING..SHARED) is ONE attempt - it is granted exactly when POSIX rules between distinct owners allow every byte of it, and when it is refused no lock, neither its public state nor the requester's own holding, has changed; counters range_*)")
	chk := Registry["C12"]
	base := chk.Floors
	chk.Floors = func(tier string) map[string]int {
		m := map[string]int{}
		if base != nil {
			for k, v := range base(tier) {
				m[k] = v
			}
		}
		m["range_requests_refused_after_partial_progress"] = 200
		m["range_requests_granted"] = 200
		return m
	}
}

type c12Byte struct {
	name string
	off  uint64
	lt   litefs.LockType
}

var c12SHMBytes = []c12Byte{
	{"WRITE", 120, litefs.LockTypeWrite}, {"CKPT", 121, litefs.LockTypeCkpt}, {"RECOVER", 122, litefs.LockTypeRecover},
	{"READ0", 123, litefs.LockTypeRead0}, {"READ1", 124, litefs.LockTypeRead1}, {"READ2", 125, litefs.LockTypeRead2},
	{"READ3", 126, litefs.LockTypeRead3}, {"READ4", 127, litefs.LockTypeRead4}, {"DMS", 128, litefs.LockTypeDMS},
}

// (the SHARED lock is the 510-byte range; one name in LiteFS)
var c12DBBytes = []c12Byte{
	{"PENDING", 0x40000000, litefs.LockTypePending}, {"RESERVED", 0x40000001, litefs.LockTypeReserved}, {"SHARED", 0x40000002, litefs.LockTypeShared},
}

// runC12Range drives lock calls over byte ranges through the lock handlers of
// the database and -shm files with three owners and compares, after every call,
// the outcome, every lock's public state and every owner's own holding with a
// reference POSIX table in which a range call is atomic.
func runC12Range(c *core.Case, k int) {
	n, err := newPrimary(c.Dir+"/data", nil)
	if err != nil {
		c.Inconclusive("node start: " + err.Error())
		return
	}
	defer n.Close()
	led := newLedger()
	w, err := newWriter(n, "db", 1024, true, "delete", nil, c.SubRng("w"), led, 1)
	if err != nil {
		c.Violate("C12/setup", err.Error(), nil)
		return
	}
	if err := w.ensure(3); err != nil {
		c.Violate("C12/setup", err.Error(), nil)
		return
	}
	w.close() // (the -shm file stays)
	db := n.Store.DB("db")
	owners := []uint64{uint64(100*k + 11), uint64(100*k + 12), uint64(100*k + 13)}
	files := map[uint64][2]*drv.File{}
	for _, o := range owners {
		d, err1 := n.Open("db")
		s, err2 := n.Open("db-shm")
		if err1 != nil || err2 != nil {
			c.Violate("C12/setup", fmt.Sprintf("open: %v %v", err1, err2), nil)
			return
		}
		files[o] = [2]*drv.File{d, s}
		defer d.Close(o)
		defer s.Close(o)
	}
	if free, held := allUnlockedC12(db); !free {
		c.Inconclusive("locks held before the first call: " + held)
		return
	}
	tab := ref.NewLockTable()
	var hist []string
	all := append(append([]c12Byte{}, c12DBBytes...), c12SHMBytes...)
	compare := func(after string) bool {
		detail := map[string]any{"last_calls": tail(hist, 40), "reference_table": tab.Key()}
		for _, b := range all {
			if got, want := db.VerifLockState(b.lt).String(), tab.State(b.name); got != want {
				c.Violate("C12/range/lock-state-differs/"+b.name, fmt.Sprintf("after %s: lock %s is %s; by byte-range lock rules (a refused call changes nothing) it is %s", after, b.name, got, want), detail)
				return false
			}
			for _, o := range owners {
				got := "unlocked"
				if gs := db.GuardSet(o); gs != nil {
					got = gs.Guard(b.lt).State().String()
				}
				want := tab.Holds(b.name, o)
				if want == "" {
					want = "unlocked"
				}
				if got != want {
					c.Violate("C12/range/owner-holding-differs/"+b.name, fmt.Sprintf("after %s: owner %d holds %s %s; by byte-range lock rules (a refused call changes nothing) it holds it %s", after, o, b.name, got, want), detail)
					return false
				}
			}
		}
		return true
	}
	rounds := 400
	for r := 0; r < rounds; r++ {
		o := owners[c.Rng.IntN(len(owners))]
		set, fi := c12SHMBytes, 1
		if c.Rng.IntN(4) == 0 {
			set, fi = c12DBBytes, 0
		}
		f := files[o][fi]
		a := c.Rng.IntN(len(set))
		b := a
		if c.Rng.IntN(3) != 0 { // two of three calls name several bytes
			b = a + c.Rng.IntN(len(set)-a)
		}
		start, end := set[a].off, set[b].off
		if set[b].name == "SHARED" {
			end = set[b].off + 509
		}
		switch op := c.Rng.IntN(5); {
		case op == 0:
			label := fmt.Sprintf("o%d.unlock(%s..%s)", o, set[a].name, set[b].name)
			hist = append(hist, label)
			if err := f.Unlock(o, start, end); err != nil {
				c.Violate("C12/range/unlock-error", label+": "+err.Error(), nil)
				return
			}
			for _, x := range set[a : b+1] {
				tab.Unlock(x.name, o)
			}
			c.Count("range_unlocks", 1)
			if !compare(label) {
				return
			}
		default:
			excl := op >= 3
			label := fmt.Sprintf("o%d.lock(%s..%s,excl=%v)", o, set[a].name, set[b].name, excl)
			// reference: the bytes in LiteFS's order on a copy; all or nothing
			t := tab.Clone()
			want, progress := true, 0
			for _, x := range set[a : b+1] {
				ok := false
				if excl {
					// LiteFS's documented rule: no checkpoint lock while another owner writes
					if x.name == "CKPT" && t.State("WRITE") != "unlocked" && t.Holds("WRITE", o) != "exclusive" {
						ok = false
					} else {
						ok = t.TryExcl(x.name, o)
					}
				} else {
					ok = t.TryShared(x.name, o)
				}
				if !ok {
					want = false
					break
				}
				progress++
			}
			err := f.Lock(o, start, end, excl)
			hist = append(hist, fmt.Sprintf("%s -> %v", label, err))
			if err != nil && err != drv.ErrBusy {
				c.Violate("C12/range/lock-call-error", label+": "+err.Error(), nil)
				return
			}
			c.Count("ops_checked", 1)
			if got := err == nil; got != want {
				what := "was refused although byte-range lock rules between distinct owners allow every byte of it"
				if got {
					what = "was granted although another owner holds a conflicting lock on one of its bytes"
				}
				c.Violate("C12/range/wrong-outcome", label+" "+what, map[string]any{"last_calls": tail(hist, 40), "reference_table": tab.Key()})
				return
			}
			if want {
				tab = t
				if b > a {
					c.Count("range_requests_granted", 1)
				}
			} else if progress > 0 {
				c.Count("range_requests_refused_after_partial_progress", 1)
			} else {
				c.Count("range_requests_refused_at_first_byte", 1)
			}
			if !compare(label) {
				return
			}
		}
		if r%50 == 49 {
			// everybody lets go: nothing may be left
			for _, o := range owners {
				_ = files[o][0].Unlock(o, c12DBBytes[0].off, c12DBBytes[2].off+509)
				_ = files[o][1].Unlock(o, 120, 128)
				for _, x := range all {
					tab.Unlock(x.name, o)
				}
			}
			if free, held := allUnlockedC12(db); !free {
				c.Violate("C12/range/lock-left-after-unlock", "after every owner released every byte, locks are still held: "+held, map[string]any{"last_calls": tail(hist, 40)})
				return
			}
		}
	}
	// ---- a refused range request changes nothing, not even for a moment: owner A
	// holds READ1 exclusively and keeps asking for READ1..READ2 shared, which B's
	// exclusive READ2 refuses; a third owner polling READ1 must never get in, and A
	// must still hold READ1 exclusively afterwards
	ctx := context.Background()
	A, B, C := owners[0], owners[1], owners[2]
	for _, o := range owners {
		_ = files[o][0].Unlock(o, c12DBBytes[0].off, c12DBBytes[2].off+509)
		_ = files[o][1].Unlock(o, 120, 128)
	}
	okA, _ := db.TryLocks(ctx, A, []litefs.LockType{litefs.LockTypeRead1})
	okB, _ := db.TryLocks(ctx, B, []litefs.LockType{litefs.LockTypeRead2})
	if !okA || !okB {
		c.Inconclusive("setup of the concurrent range probe")
		return
	}
	var stop atomic.Bool
	var intruded atomic.Int64
	var wg sync.WaitGroup
	wg.Add(1)
	go func() {
		defer wg.Done()
		for !stop.Load() {
			if db.TryRLocks(ctx, C, []litefs.LockType{litefs.LockTypeRead1}) {
				intruded.Add(1)
				_ = db.Unlock(ctx, C, []litefs.LockType{litefs.LockTypeRead1})
			}
		}
	}()
	granted := 0
	for i := 0; i < 3000; i++ {
		if db.TryRLocks(ctx, A, []litefs.LockType{litefs.LockTypeRead1, litefs.LockTypeRead2}) {
			granted++
		}
	}
	stop.Store(true)
	wg.Wait()
	c.Count("range_concurrent_refusals", 3000)
	stA := db.GuardSet(A).Guard(litefs.LockTypeRead1).State().String()
	if granted > 0 || intruded.Load() > 0 || stA != "exclusive" {
		c.Violate("C12/range/refused-request-changed-state", fmt.Sprintf("owner A holds READ1 exclusively and asked 3000 times for READ1..READ2 shared while B holds READ2 exclusively: granted %d times; a third owner polling READ1 got in %d times; A holds READ1 %s afterwards (a refused request changes nothing)", granted, intruded.Load(), stA), nil)
		return
	}
	_ = db.Unlock(ctx, A, []litefs.LockType{litefs.LockTypeRead1})
	_ = db.Unlock(ctx, B, []litefs.LockType{litefs.LockTypeRead2})
	// ---- the same with a refusal that comes late: B takes and drops READ2 all the
	// time, so some of A's requests for READ1..READ2 (exclusive; or shared on top of
	// an exclusive READ1) find every byte free when they look and READ2 taken when
	// they get there. Whatever the interleaving, after a refused request A holds
	// READ1 as before it
	stop.Store(false)
	wg.Add(1)
	go func() {
		defer wg.Done()
		for !stop.Load() {
			if ok, _ := db.TryLocks(ctx, B, []litefs.LockType{litefs.LockTypeRead2}); ok {
				_ = db.Unlock(ctx, B, []litefs.LockType{litefs.LockTypeRead2})
			}
		}
	}()
	refused, bad := 0, ""
	for i := 0; i < 20000 && bad == ""; i++ {
		pre := "unlocked"
		if i%2 == 1 {
			if ok, _ := db.TryLocks(ctx, A, []litefs.LockType{litefs.LockTypeRead1}); !ok {
				continue
			}
			pre = "exclusive"
		}
		var ok bool
		if i%2 == 1 {
			ok = db.TryRLocks(ctx, A, []litefs.LockType{litefs.LockTypeRead1, litefs.LockTypeRead2})
		} else {
			ok, _ = db.TryLocks(ctx, A, []litefs.LockType{litefs.LockTypeRead1, litefs.LockTypeRead2})
		}
		if !ok {
			refused++
			if st := db.GuardSet(A).Guard(litefs.LockTypeRead1).State().String(); st != pre {
				bad = fmt.Sprintf("request %d (shared=%v) for READ1..READ2 was refused (another owner takes and drops READ2 all the time); A held READ1 %s before it and holds it %s afterwards", i, i%2 == 1, pre, st)
			}
		}
		_ = db.Unlock(ctx, A, []litefs.LockType{litefs.LockTypeRead1, litefs.LockTypeRead2})
	}
	stop.Store(true)
	wg.Wait()
	c.Count("range_racing_requests", 20000)
	c.Count("range_racing_refusals", refused)
	if bad != "" {
		c.Violate("C12/range/refused-request-changed-state", bad, nil)
		return
	}
	c.Distinct(fmt.Sprintf("range/k%d", k%8))
}

func allUnlockedC12(db *litefs.DB) (bool, string) {
	held := ""
	for _, b := range append(append([]c12Byte{}, c12DBBytes...), c12SHMBytes...) {
		if st := db.VerifLockState(b.lt); st != litefs.RWMutexStateUnlocked {
			held += b.name + "=" + st.String() + " "
		}
	}
	return held == "", held
}

func tail(s []string, n int) []string {
	if len(s) > n {
		return s[len(s)-n:]
	}
	return s
}
