//go:build verif

package checks

import (
	"bytes"
	"context"
	"errors"
	"fmt"
	"os"
	"path/filepath"
	"strings"
	"sync"
	"time"

	"verif/cluster"
	"verif/core"
	"verif/mon"
	"verif/pager"
)

func init() {
	addFamily("C11", func(tier string) int {
		if tier == "thorough" {
			return 48
		}
		return 6
	}, runC11HaltRelease, " (+ halt-lock release under a local reader: a replica that holds the remote halt lock has committed WAL transactions; another connection on the replica is inside a read transaction (SHARED, DMS, a READ mark); the halt lock is given back, which makes LiteFS checkpoint the log - that checkpoint has to wait for the reader like SQLite's own would: while the reader holds its locks neither the database file nor the log may change, counters haltrel_*)")
	chk := Registry["C11"]
	base := chk.Floors
	chk.Floors = func(tier string) map[string]int {
		m := map[string]int{}
		if base != nil {
			for k, v := range base(tier) {
				m[k] = v
			}
		}
		m["haltrel_judged"] = 3
		return m
	}
}

func runC11HaltRelease(c *core.Case, k int) {
	ps := []uint32{1024, 4096, 512}[k%3]
	cl, err := cluster.New(c.Dir, []cluster.NodeOpts{{Candidate: true}, {}})
	if err != nil {
		c.Inconclusive(err.Error())
		return
	}
	defer cl.Close()
	if err := cl.Start(0); err != nil || cl.WaitPrimary(0, 10*time.Second) == nil {
		c.Inconclusive("primary start")
		return
	}
	if err := cl.Start(1); err != nil || !cl.WaitConnected(1, 10*time.Second) {
		c.Inconclusive("replica start")
		return
	}
	P, R := cl.Nodes[0], cl.Nodes[1]
	led := newLedger()
	detail := map[string]any{"page_size": ps}
	wP, err := newWriter(P.Node, "db", ps, true, "delete", nil, c.SubRng("wp"), led, 1)
	if err != nil {
		c.Violate("C11/setup", err.Error(), detail)
		return
	}
	if err := wP.ensure(uint32(5 + c.Rng.IntN(5))); err != nil {
		c.Violate("C11/setup", err.Error(), detail)
		return
	}
	_, _ = wP.txn(2)
	wP.close()
	if ok, _, _ := cl.WaitConverged(P, R, []string{"db"}, 5, 30*time.Second); !ok {
		c.Inconclusive("replica did not converge")
		return
	}
	// ---- the replica takes the halt lock and commits
	const haltOwner, readOwner = 41, 77
	lf, err := R.Node.Open("db-lock")
	if err != nil {
		c.Violate("C11/setup", "open lock file: "+err.Error(), detail)
		return
	}
	defer lf.Release()
	lctx, cancel := context.WithTimeout(context.Background(), 10*time.Second)
	err = lf.LockWait(lctx, haltOwner, 72, 72, true)
	cancel()
	if err != nil {
		c.Inconclusive("halt lock: " + err.Error())
		return
	}
	img, _ := led.get("db", mon.PosOf(R.Node, "db"))
	rw, err := newWriter(R.Node, "db", ps, true, "delete", img, c.SubRng("rw"), led, 32)
	if err != nil {
		c.Violate("C11/setup", "writer on the holder: "+err.Error(), detail)
		return
	}
	defer rw.close()
	rw.d.BusyRetries = 2000
	if err := rw.ensure(0); err != nil {
		c.Inconclusive("holder open: " + err.Error())
		return
	}
	n := 0
	for try := 0; try < 12 && n < 1+k%2; try++ {
		if ok, err := rw.txn(2); err != nil {
			healthViolations(c, R.Node, "forwarded write", detail)
			c.Inconclusive("forwarded commit: " + err.Error())
			return
		} else if ok {
			n++
		}
	}
	dbDir := mon.DBDir(R.Node, "db")
	walBefore, _ := os.ReadFile(filepath.Join(dbDir, "wal"))
	if len(walBefore) <= 32 {
		c.Inconclusive("the holder's log is empty")
		return
	}
	// ---- another connection on the replica is inside a read transaction
	rdb, err1 := R.Node.Open("db")
	rshm, err2 := R.Node.Open("db-shm")
	if err1 != nil || err2 != nil {
		c.Inconclusive(fmt.Sprintf("reader open: %v %v", err1, err2))
		return
	}
	defer rdb.Close(readOwner)
	defer rshm.Close(readOwner)
	if lockRetry(rdb, readOwner, pager.PendingByte, pager.PendingByte, false, 2000) != nil ||
		lockRetry(rdb, readOwner, pager.SharedFirst, pager.SharedFirst+pager.SharedSize-1, false, 2000) != nil {
		c.Inconclusive("reader SHARED")
		return
	}
	_ = rdb.Unlock(readOwner, pager.PendingByte, pager.PendingByte)
	mark := uint64(pager.WalRead0 + 1 + k%3)
	if lockRetry(rshm, readOwner, pager.WalDMS, pager.WalDMS, false, 2000) != nil || lockRetry(rshm, readOwner, mark, mark, false, 2000) != nil {
		c.Inconclusive("reader shm locks")
		return
	}
	dbBefore, _ := os.ReadFile(filepath.Join(dbDir, "database"))
	walBefore, _ = os.ReadFile(filepath.Join(dbDir, "wal"))
	// ---- the halt lock is given back
	rw.close()
	released := make(chan error, 1)
	go func() { released <- lf.Unlock(haltOwner, 72, 72) }()
	returned := false
	select {
	case <-released:
		returned = true
	case <-time.After(250 * time.Millisecond):
	}
	dbNow, _ := os.ReadFile(filepath.Join(dbDir, "database"))
	walNow, _ := os.ReadFile(filepath.Join(dbDir, "wal"))
	detail["release_returned_under_reader"] = returned
	detail["reader_mark"] = mark - pager.WalRead0
	if !bytes.Equal(dbNow, dbBefore) || !bytes.Equal(walNow, walBefore) {
		c.Violate("C11/internal-writer-ran-with-conflicting-client-lock", fmt.Sprintf("halt-release: while a connection on the replica is inside a read transaction (SHARED, DMS, READ%d) the release of the halt lock changed the files under it (database %d -> %d bytes, changed: %v; log %d -> %d bytes, changed: %v): LiteFS checkpointed without the locks a checkpointer needs", mark-pager.WalRead0, len(dbBefore), len(dbNow), !bytes.Equal(dbNow, dbBefore), len(walBefore), len(walNow), !bytes.Equal(walNow, walBefore)), detail)
		return
	}
	// the reader ends
	_ = rshm.Unlock(readOwner, mark, mark)
	_ = rshm.Unlock(readOwner, pager.WalDMS, pager.WalDMS)
	_ = rdb.Unlock(readOwner, pager.SharedFirst, pager.SharedFirst+pager.SharedSize-1)
	if !returned {
		select {
		case err := <-released:
			_ = err
		case <-time.After(30 * time.Second):
			c.Violate("C11/halt-release-hangs", "the release of the halt lock did not return within 30 s after the local reader ended", detail)
			return
		}
		c.Count("haltrel_waited_for_reader", 1)
	} else {
		c.Count("haltrel_returned_without_touching_files", 1)
	}
	if healthViolations(c, R.Node, "halt release under a reader", detail) || healthViolations(c, P.Node, "halt release under a reader", detail) {
		return
	}
	if ok, _, timedOut := cl.WaitConverged(P, R, []string{"db"}, 8, 30*time.Second); !ok && !timedOut {
		c.Violate("C11/setup", fmt.Sprintf("after the release: replica at %s, primary at %s", mon.PosOf(R.Node, "db"), mon.PosOf(P.Node, "db")), detail)
		return
	}
	c.Count("haltrel_judged", 1)
	c.Distinct(fmt.Sprintf("haltrel/ps%d/mark%d/returned%v", ps, mark-pager.WalRead0, returned))
}

func init() {
	addFamily("C11", func(tier string) int {
		if tier == "thorough" {
			return 48
		}
		return 6
	}, runC11RoleChangeUnderWriter, " (+ role change under a local writer: an application on the primary is inside a write transaction (rollback journal with pages already written, or WAL with frames appended) when the node loses its lease; the recovery LiteFS runs at the role change has to wait for the transaction's locks: while the writer holds them neither the database file, the journal nor the log may change, counters rolechg_*)")
	chk := Registry["C11"]
	base := chk.Floors
	chk.Floors = func(tier string) map[string]int {
		m := map[string]int{}
		if base != nil {
			for k, v := range base(tier) {
				m[k] = v
			}
		}
		m["rolechg_judged"] = 3
		return m
	}
}

func runC11RoleChangeUnderWriter(c *core.Case, k int) {
	ps := []uint32{1024, 4096, 512}[k%3]
	wal := k%2 == 1
	mode := []string{"delete", "truncate", "persist"}[(k/2)%3]
	var mu sync.Mutex
	blocked := false
	cl, err := cluster.New(c.Dir, []cluster.NodeOpts{{Candidate: true}})
	if err != nil {
		c.Inconclusive(err.Error())
		return
	}
	defer cl.Close()
	cl.Svc.SetInject(func(node, op string) error {
		mu.Lock()
		defer mu.Unlock()
		if blocked && op == "acquire" {
			return errors.New("scripted: acquire unavailable")
		}
		return nil
	})
	if err := cl.Start(0); err != nil || cl.WaitPrimary(0, 10*time.Second) == nil {
		c.Inconclusive("primary start")
		return
	}
	P := cl.Nodes[0]
	led := newLedger()
	detail := map[string]any{"page_size": ps, "wal": wal, "journal_mode": mode}
	w, err := newWriter(P.Node, "db", ps, wal, mode, nil, c.SubRng("w"), led, 1)
	if err != nil {
		c.Violate("C11/setup", err.Error(), detail)
		return
	}
	defer w.close()
	if err := w.ensure(uint32(8 + c.Rng.IntN(6))); err != nil {
		c.Violate("C11/setup", err.Error(), detail)
		return
	}
	_, _ = w.txn(2)
	// ---- the application's transaction is parked after it has written something
	parked := make(chan string, 1)
	resume := make(chan struct{})
	writes := 0
	w.d.Hook = func(step string) error {
		if strings.HasPrefix(step, "db write page") || strings.HasPrefix(step, "wal frame") {
			writes++
		}
		if writes >= 2 && (strings.HasPrefix(step, "journal finalize") || strings.HasPrefix(step, "db write page") || strings.HasPrefix(step, "wal frame") || strings.HasPrefix(step, "wal fsync")) {
			select {
			case parked <- step:
				<-resume
			default:
			}
		}
		return nil
	}
	cur := w.d.M.PageN
	done := make(chan pager.TxResult, 1)
	go func() {
		if wal {
			done <- w.conn.RunWALTx(pager.WALSpec{NewPageN: cur, Outcome: "commit", SplitFrame: true, Frames: []pager.FrameSpec{{Pgno: 2}, {Pgno: 3}, {Pgno: 4}, {Pgno: 1}}})
		} else {
			done <- w.conn.RunRollbackTx(pager.RollbackSpec{Mode: mode, Outcome: "commit", NewPageN: cur, Dirty: []uint32{2, 3, 4, 5}, SpillAfter: 1})
		}
	}()
	var at string
	select {
	case at = <-parked:
	case r := <-done:
		c.Inconclusive(fmt.Sprintf("the transaction ended before it could be parked (%v)", r.Err))
		return
	case <-time.After(20 * time.Second):
		c.Inconclusive("the transaction was not parked")
		return
	}
	detail["writer_parked_before"] = at
	dbDir := mon.DBDir(P.Node, "db")
	read := func() (a, b, j []byte) {
		a, _ = os.ReadFile(filepath.Join(dbDir, "database"))
		b, _ = os.ReadFile(filepath.Join(dbDir, "wal"))
		j, _ = os.ReadFile(filepath.Join(dbDir, "journal"))
		return
	}
	db0, wal0, j0 := read()
	// ---- the node loses its lease
	mu.Lock()
	blocked = true
	mu.Unlock()
	if k%4 < 2 {
		P.Store.Demote()
	} else {
		cl.Svc.Expire()
	}
	for dl := time.Now().Add(10 * time.Second); P.Store.IsPrimary() && time.Now().Before(dl); {
		time.Sleep(time.Millisecond)
	}
	time.Sleep(200 * time.Millisecond)
	db1, wal1, j1 := read()
	if !bytes.Equal(db0, db1) || !bytes.Equal(wal0, wal1) || !bytes.Equal(j0, j1) {
		close(resume)
		<-done
		c.Violate("C11/internal-writer-ran-with-conflicting-client-lock", fmt.Sprintf("role-change: an application is inside a write transaction (parked before %q, it holds its write locks) when the node loses its lease; LiteFS's recovery changed the files under it (database changed: %v, %d -> %d bytes; log changed: %v, %d -> %d bytes; journal changed: %v, %d -> %d bytes)", at, !bytes.Equal(db0, db1), len(db0), len(db1), !bytes.Equal(wal0, wal1), len(wal0), len(wal1), !bytes.Equal(j0, j1), len(j0), len(j1)), detail)
		return
	}
	close(resume)
	var res pager.TxResult
	select {
	case res = <-done:
	case <-time.After(30 * time.Second):
		c.Inconclusive("watchdog: the parked transaction did not end")
		return
	}
	w.d.Hook = nil
	detail["transaction_result"] = fmt.Sprint(res.Err)
	w.close()
	mu.Lock()
	blocked = false
	mu.Unlock()
	// (WAL mode: a commit that begins after the authority was lost stops the node by design)
	if len(P.Node.Exits()) == 0 {
		if healthViolations(c, P.Node, "role change under a writer", detail) {
			return
		}
	} else {
		c.Count("rolechg_node_exit_by_design", 1)
	}
	c.Count("rolechg_judged", 1)
	c.Distinct(fmt.Sprintf("rolechg/wal%v/%s/ps%d/%s", wal, mode, ps, stepClass(at)))
}
