//go:build verif

package checks

import (
	"context"
	"fmt"
	"strings"
	"sync/atomic"
	"syscall"

	"verif/core"
	"verif/mon"
	"verif/pager"
)

func init() {
	addFamily("C02", func(tier string) int {
		if tier == "thorough" {
			return 90
		}
		return 12
	}, runC02FinalizeFault, " (+ a transient fault while LiteFS handles the finalisation: one OS-layer call of LiteFS's own (opening the journal to look at its header, creating or renaming the transaction file) fails once with EMFILE while SQLite finalises a transaction. Either the finalisation is refused and, once the application is gone, the database is back at the previous position and image, or it succeeds and the position has advanced by one with a transaction file that turns the old image into the new one; counters fault_*)")
	chk := Registry["C02"]
	base := chk.Floors
	chk.Floors = func(tier string) map[string]int {
		m := map[string]int{}
		if base != nil {
			for k, v := range base(tier) {
				m[k] = v
			}
		}
		m["fault_finalisations_judged"] = 10
		return m
	}
}

func runC02FinalizeFault(c *core.Case, k int) {
	ps := []uint32{1024, 4096, 512}[k%3]
	mode := []string{"delete", "truncate", "persist"}[k/3%3]
	faultOp := []string{"ISJOURNALHDRVALID", "COMMITJOURNAL:LTX", "ISJOURNALHDRVALID", "COMMITJOURNAL:DB"}[k%4]
	n, err := newPrimary(c.Dir+"/data", nil)
	if err != nil {
		c.Inconclusive("node start: " + err.Error())
		return
	}
	defer n.Close()
	d := pager.NewDB(n, "db", ps, c.SubRng("d"))
	conn, err := d.Open(1)
	if err != nil {
		c.Violate("C02/op-refused/open", err.Error(), nil)
		return
	}
	closed := false
	defer func() {
		if !closed {
			conn.Close()
		}
	}()
	for i := 0; i < 2; i++ {
		if res := conn.RunRollbackTx(pager.RollbackSpec{Mode: mode, Outcome: "commit", NewPageN: uint32(5 + i), Dirty: []uint32{2, 3}}); res.Err != nil {
			c.Violate("C02/op-refused/"+res.ErrStep, res.Err.Error(), nil)
			return
		}
	}
	prev, oldImg := mon.PosOf(n, "db"), d.M
	spec := pager.RollbackSpec{Mode: mode, Outcome: "commit", NewPageN: oldImg.PageN + uint32(c.Rng.IntN(3)), Dirty: []uint32{2, 3, 4}}
	var injected atomic.Bool
	var at atomic.Value
	n.OS.SetHook(func(op, kind, path string) error {
		if strings.HasPrefix(op, faultOp) && injected.CompareAndSwap(false, true) {
			at.Store(op + ":" + kind)
			return syscall.EMFILE
		}
		return nil
	})
	res := conn.RunRollbackTx(spec)
	n.OS.SetHook(nil)
	detail := map[string]any{"page_size": ps, "mode": mode, "fault_at": fmt.Sprint(at.Load()), "spec": spec, "before": prev.String(), "finalise_error": fmt.Sprint(res.Err), "error_step": res.ErrStep}
	if !injected.Load() {
		c.Inconclusive("the fault point " + faultOp + " was not reached")
		return
	}
	c.Count("programs", 1)
	c.Count("fault_finalisations_judged", 1)
	if healthViolations(c, n, "finalisation under a fault", detail) {
		return
	}
	after := mon.PosOf(n, "db")
	detail["after"] = after.String()
	if res.Err == nil {
		// the application was told that its transaction is committed
		c.Count("fault_finalisation_succeeded", 1)
		if after.TXID != prev.TXID+1 {
			c.Violate("C02/commit-not-captured", fmt.Sprintf("a transient fault (%s, EMFILE) hit LiteFS while SQLite finalised a transaction; the finalisation was answered with success but the position went from %s to %s instead of advancing by one", at.Load(), prev, after), detail)
			return
		}
		if !judgeLTXAt(c, mon.DBDir(n, "db"), after.TXID, prev.Chk, oldImg, d.M, "finalisation under a fault", detail) {
			return
		}
		if after.Chk != d.M.Checksum() {
			c.Violate("C02/pos-checksum", fmt.Sprintf("reported checksum %x != from-scratch checksum %x", after.Chk, d.M.Checksum()), detail)
			return
		}
		judgeSeen(c, n, "db", 1, d.M, "after a finalisation that succeeded under a fault", detail)
		c.Distinct(fmt.Sprintf("finalize-fault/%s/%s/ps%d/ok", mode, faultOp, ps))
		return
	}
	// refused: the application gives up (its process ends); what it leaves behind
	// is a hot journal, and the database must come back at the previous position
	c.Count("fault_finalisation_refused", 1)
	conn.Close()
	closed = true
	if after != prev {
		c.Violate("C02/refused-commit-moved-position", fmt.Sprintf("the finalisation failed (%v) yet the position went from %s to %s", res.Err, prev, after), detail)
		return
	}
	if err := n.Store.DB("db").Recover(context.Background()); err != nil {
		c.Violate("C02/recover-failed", fmt.Sprintf("recovery after a refused finalisation: %v", err), detail)
		return
	}
	d.M = oldImg
	if p := mon.PosOf(n, "db"); p != prev {
		c.Violate("C02/refused-commit-moved-position", fmt.Sprintf("after the recovery the position is %s, it was %s", p, prev), detail)
		return
	}
	judgeSeen(c, n, "db", 3, oldImg, "after a refused finalisation and the recovery of its journal", detail)
	judgeRawChecksum(c, n, "db", "after a refused finalisation", detail)
	c.Distinct(fmt.Sprintf("finalize-fault/%s/%s/ps%d/refused", mode, faultOp, ps))
}
