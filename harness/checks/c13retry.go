//go:build verif

package checks

import (
	"context"
	"fmt"
	"sync"
	"time"

	"github.com/superfly/litefs"
	lhttp "github.com/superfly/litefs/http"

	"verif/cluster"
	"verif/core"
	"verif/mon"
	"verif/pager"
)

func init() {
	addFamily("C13", func(tier string) int {
		if tier == "thorough" {
			return 48
		}
		return 6
	}, runC13Retry, " (+ the acquire request repeated with the same id WHILE the first one still waits: a local writer on the primary holds the write lock, the replica's POST /halt gets no answer, the request is sent again - two or three requests with one id wait at the same time; when the writer ends every one of them must be answered with one and the same lock, counters retry_*)")
	chk := Registry["C13"]
	base := chk.Floors
	chk.Floors = func(tier string) map[string]int {
		m := map[string]int{}
		if base != nil {
			for k, v := range base(tier) {
				m[k] = v
			}
		}
		m["retry_concurrent_same_id_granted"] = 4
		return m
	}
}

// runC13Retry: "repeated acquire requests with the same lock ID return the same
// lock" also when the repetition arrives before the first request was answered.
// A local transaction on the primary holds PENDING+RESERVED+SHARED (through the
// FUSE lock handlers); n requests with one id are sent over HTTP one after the
// other; the local transaction ends; every request must come back with the same
// lock, well inside the acquire timeout, and the primary must hold exactly that
// lock.
func runC13Retry(c *core.Case, k int) {
	tune := func(s *litefs.Store) { s.HaltAcquireTimeout = 3 * time.Second; s.HaltLockTTL = time.Hour }
	cl, err := cluster.New(c.Dir, []cluster.NodeOpts{{Candidate: true, Tune: tune}})
	if err != nil {
		c.Inconclusive(err.Error())
		return
	}
	defer cl.Close()
	if err := cl.Start(0); err != nil || cl.WaitPrimary(0, 10*time.Second) == nil {
		c.Inconclusive("primary start")
		return
	}
	P := cl.Nodes[0]
	led := newLedger()
	wal := k%2 == 1
	w, err := newWriter(P.Node, "db", 1024, wal, "delete", nil, c.SubRng("w"), led, 1)
	if err != nil {
		c.Violate("C13/setup", err.Error(), nil)
		return
	}
	w.d.BusyRetries = 5000
	if err := w.ensure(4); err != nil {
		c.Violate("C13/setup", err.Error(), nil)
		return
	}
	if _, err := w.txn(2); err != nil {
		c.Violate("C13/setup", err.Error(), nil)
		return
	}
	defer w.close()
	// the local writer: another application inside a write transaction
	const owner = 9911
	fname := "db"
	if wal {
		fname = "db-shm"
	}
	f, err := P.Node.Open(fname)
	if err != nil {
		c.Inconclusive(err.Error())
		return
	}
	defer f.Close(owner)
	var lerr error
	if wal {
		lerr = lockRetry(f, owner, pager.WalWrite, pager.WalWrite, true, 2000)
	} else {
		if lerr = lockRetry(f, owner, pager.SharedFirst, pager.SharedFirst+pager.SharedSize-1, false, 2000); lerr == nil {
			lerr = lockRetry(f, owner, pager.ReservedByte, pager.ReservedByte, true, 2000)
		}
	}
	if lerr != nil {
		c.Inconclusive("local writer lock: " + lerr.Error())
		return
	}
	n := 2 + k%2*(k/2%2)
	id := int64(100000 + c.Rng.IntN(900000))
	type res struct {
		hl  *litefs.HaltLock
		err error
		dur time.Duration
	}
	out := make([]res, n)
	var wg sync.WaitGroup
	for i := 0; i < n; i++ {
		wg.Add(1)
		go func(i int) {
			defer wg.Done()
			t0 := time.Now()
			hl, err := lhttp.NewClient().AcquireHaltLock(context.Background(), P.URL(), 0xC13C13, "db", id)
			out[i] = res{hl, err, time.Since(t0)}
		}(i)
		time.Sleep(time.Duration(10+c.Rng.IntN(40)) * time.Millisecond) // ... no answer ...
	}
	c.Count("retry_requests", n)
	if P.Store.DB("db").HoldsHaltLock(id) {
		c.Violate("C13/retry/granted-during-local-write", "the halt lock was granted while a local transaction held the write lock", nil)
		return
	}
	// the local transaction ends
	if wal {
		_ = f.Unlock(owner, pager.WalWrite, pager.WalWrite)
	} else {
		_ = f.Unlock(owner, pager.ReservedByte, pager.ReservedByte)
		_ = f.Unlock(owner, pager.SharedFirst, pager.SharedFirst+pager.SharedSize-1)
	}
	done := make(chan struct{})
	go func() { wg.Wait(); close(done) }()
	select {
	case <-done:
	case <-time.After(60 * time.Second):
		c.Inconclusive("watchdog: acquire requests did not return")
		return
	}
	detail := map[string]any{"wal": wal, "requests": n, "lock_id": id, "primary_pos": mon.PosOf(P.Node, "db").String(), "primary_holds_lock": P.Store.DB("db").HoldsHaltLock(id)}
	for i, r := range out {
		detail[fmt.Sprintf("request_%d", i)] = fmt.Sprintf("lock=%+v err=%v after %s", r.hl, r.err, r.dur.Round(time.Millisecond))
	}
	for i, r := range out {
		if r.err != nil {
			c.Violate("C13/reacquire-failed", fmt.Sprintf("retry-while-waiting: %d acquire requests with id %d waited for a local transaction on the primary; after it ended request #%d failed (%v) although the lock with that id was granted", n, id, i, r.err), detail)
			return
		}
	}
	for i := 1; i < n; i++ {
		a, b := out[0].hl, out[i].hl
		if a.ID != id || b.ID != id || a.Pos != b.Pos || a.Expires == nil || b.Expires == nil || !a.Expires.Equal(*b.Expires) {
			c.Violate("C13/reacquire-different-lock", fmt.Sprintf("retry-while-waiting: requests with one id were answered with different locks: %+v vs %+v", a, b), detail)
			return
		}
	}
	if !P.Store.DB("db").HoldsHaltLock(id) {
		c.Violate("C13/retry/lock-not-held", "every request was answered with a lock the primary does not hold", detail)
		return
	}
	if err := lhttp.NewClient().ReleaseHaltLock(context.Background(), P.URL(), 0xC13C13, "db", id); err != nil {
		c.Violate("C13/retry/release-failed", err.Error(), detail)
		return
	}
	// and the primary writes again
	_, err = w.txn(2)
	if err != nil {
		if !healthViolations(c, P.Node, "write after release", detail) {
			c.Violate("C13/primary-blocked-after-release", "after the lock was released the primary cannot write: "+err.Error(), detail)
		}
		return
	}
	c.Count("retry_concurrent_same_id_granted", 1)
	c.Count("forwarded_commits", 0)
	c.Distinct(fmt.Sprintf("retry-while-waiting/wal%v/n%d", wal, n))
}
