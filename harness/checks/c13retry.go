//go:build verif

package checks

import (
	"context"
	"fmt"
	"sync"
	"time"

	"github.com/superfly/litefs"
	lhttp "github.com/superfly/litefs/http"

	"verif/cluster"
	"verif/core"
	"verif/mon"
	"verif/pager"
)

func init() {
	addFamily("C13", func(tier string) int {
		if tier == "thorough" {
			return 48
		}
		return 6
	}, runC13Retry, " (+ the acquire request repeated with the same id WHILE the first one still waits: a local writer on the primary holds the write lock, the replica's POST /halt gets no answer, the request is sent again - two or three requests with one id wait at the same time; when the writer ends every one of them must be answered with one and the same lock, counters retry_*)")
	chk := Registry["C13"]
	base := chk.Floors
	chk.Floors = func(tier string) map[string]int {
		m := map[string]int{}
		if base != nil {
			for k, v := range base(tier) {
				m[k] = v
			}
		}
		m["retry_concurrent_same_id_granted"] = 4
		return m
	}
}

// runC13Retry: "repeated acquire requests with the same lock ID return the same
// lock" also when the repetition arrives before the first request was answered.
// A local transaction on the primary holds PENDING+RESERVED+SHARED (through the
// FUSE lock handlers); n requests with one id are sent over HTTP one after the
// other; the local transaction ends; every request must come back with the same
// lock, well inside the acquire timeout, and the primary must hold exactly that
// lock.
func runC13Retry(c *core.Case, k int) {
	tune := func(s *litefs.Store) { s.HaltAcquireTimeout = 3 * time.Second; s.HaltLockTTL = time.Hour }
	cl, err := cluster.New(c.Dir, []cluster.NodeOpts{{Candidate: true, Tune: tune}})
	if err != nil {
		c.Inconclusive(err.Error())
		return
	}
	defer cl.Close()
	if err := cl.Start(0); err != nil || cl.WaitPrimary(0, 10*time.Second) == nil {
		c.Inconclusive("primary start")
		return
	}
	P := cl.Nodes[0]
	led := newLedger()
	wal := k%2 == 1
	w, err := newWriter(P.Node, "db", 1024, wal, "delete", nil, c.SubRng("w"), led, 1)
	if err != nil {
		c.Violate("C13/setup", err.Error(), nil)
		return
	}
	w.d.BusyRetries = 5000
	if err := w.ensure(4); err != nil {
		c.Violate("C13/setup", err.Error(), nil)
		return
	}
	if _, err := w.txn(2); err != nil {
		c.Violate("C13/setup", err.Error(), nil)
		return
	}
	defer w.close()
	// the local writer: another application inside a write transaction
	const owner = 9911
	fname := "db"
	if wal {
		fname = "db-shm"
	}
	f, err := P.Node.Open(fname)
	if err != nil {
		c.Inconclusive(err.Error())
		return
	}
	defer f.Close(owner)
	var lerr error
	if wal {
		lerr = lockRetry(f, owner, pager.WalWrite, pager.WalWrite, true, 2000)
	} else {
		if lerr = lockRetry(f, owner, pager.SharedFirst, pager.SharedFirst+pager.SharedSize-1, false, 2000); lerr == nil {
			lerr = lockRetry(f, owner, pager.ReservedByte, pager.ReservedByte, true, 2000)
		}
	}
	if lerr != nil {
		c.Inconclusive("local writer lock: " + lerr.Error())
		return
	}
	n := 2 + k%2*(k/2%2)
	id := int64(100000 + c.Rng.IntN(900000))
	type res struct {
		hl  *litefs.HaltLock
		err error
		dur time.Duration
	}
	out := make([]res, n)
	var wg sync.WaitGroup
	for i := 0; i < n; i++ {
		wg.Add(1)
		go func(i int) {
			defer wg.Done()
			t0 := time.Now()
			hl, err := lhttp.NewClient().AcquireHaltLock(context.Background(), P.URL(), 0xC13C13, "db", id)
			out[i] = res{hl, err, time.Since(t0)}
		}(i)
		time.Sleep(time.Duration(10+c.Rng.IntN(40)) * time.Millisecond) // ... no answer ...
	}
	c.Count("retry_requests", n)
	if P.Store.DB("db").HoldsHaltLock(id) {
		c.Violate("C13/retry/granted-during-local-write", "the halt lock was granted while a local transaction held the write lock", nil)
		return
	}
	// the local transaction ends
	if wal {
		_ = f.Unlock(owner, pager.WalWrite, pager.WalWrite)
	} else {
		_ = f.Unlock(owner, pager.ReservedByte, pager.ReservedByte)
		_ = f.Unlock(owner, pager.SharedFirst, pager.SharedFirst+pager.SharedSize-1)
	}
	done := make(chan struct{})
	go func() { wg.Wait(); close(done) }()
	select {
	case <-done:
	case <-time.After(60 * time.Second):
		c.Inconclusive("watchdog: acquire requests did not return")
		return
	}
	detail := map[string]any{"wal": wal, "requests": n, "lock_id": id, "primary_pos": mon.PosOf(P.Node, "db").String(), "primary_holds_lock": P.Store.DB("db").HoldsHaltLock(id)}
	for i, r := range out {
		detail[fmt.Sprintf("request_%d", i)] = fmt.Sprintf("lock=%+v err=%v after %s", r.hl, r.err, r.dur.Round(time.Millisecond))
	}
	for i, r := range out {
		if r.err != nil {
			c.Violate("C13/reacquire-failed", fmt.Sprintf("retry-while-waiting: %d acquire requests with id %d waited for a local transaction on the primary; after it ended request #%d failed (%v) although the lock with that id was granted", n, id, i, r.err), detail)
			return
		}
	}
	for i := 1; i < n; i++ {
		a, b := out[0].hl, out[i].hl
		if a.ID != id || b.ID != id || a.Pos != b.Pos || a.Expires == nil || b.Expires == nil || !a.Expires.Equal(*b.Expires) {
			c.Violate("C13/reacquire-different-lock", fmt.Sprintf("retry-while-waiting: requests with one id were answered with different locks: %+v vs %+v", a, b), detail)
			return
		}
	}
	if !P.Store.DB("db").HoldsHaltLock(id) {
		c.Violate("C13/retry/lock-not-held", "every request was answered with a lock the primary does not hold", detail)
		return
	}
	if err := lhttp.NewClient().ReleaseHaltLock(context.Background(), P.URL(), 0xC13C13, "db", id); err != nil {
		c.Violate("C13/retry/release-failed", err.Error(), detail)
		return
	}
	// and the primary writes again
	_, err = w.txn(2)
	if err != nil {
		if !healthViolations(c, P.Node, "write after release", detail) {
			c.Violate("C13/primary-blocked-after-release", "after the lock was released the primary cannot write: "+err.Error(), detail)
		}
		return
	}
	c.Count("retry_concurrent_same_id_granted", 1)
	c.Count("forwarded_commits", 0)
	c.Distinct(fmt.Sprintf("retry-while-waiting/wal%v/n%d", wal, n))
}

func init() {
	addFamily("C13", func(tier string) int {
		if tier == "thorough" {
			return 32
		}
		return 4
	}, runC13HolderPromoted, " (+ the holder becomes primary: the replica that holds the halt lock is a candidate and takes the lease when the granting primary loses it; it is the primary now - its transactions must commit (or be refused without damage), the node must keep running and the former primary must follow it once its own grant has expired, counters promoted_*)")
	chk := Registry["C13"]
	base := chk.Floors
	chk.Floors = func(tier string) map[string]int {
		m := map[string]int{}
		if base != nil {
			for k, v := range base(tier) {
				m[k] = v
			}
		}
		m["promoted_holder_judged"] = 2
		return m
	}
}

func runC13HolderPromoted(c *core.Case, k int) {
	wal := k%2 == 1
	ps := []uint32{1024, 4096, 512}[k%3]
	var mu sync.Mutex
	blocked := map[string]bool{"n1": true}
	tune := func(s *litefs.Store) {
		s.HaltLockTTL = 1500 * time.Millisecond
		s.HaltLockMonitorInterval = 50 * time.Millisecond
	}
	cl, err := cluster.New(c.Dir, []cluster.NodeOpts{{Candidate: true, Tune: tune}, {Candidate: true, Tune: tune}})
	if err != nil {
		c.Inconclusive(err.Error())
		return
	}
	defer cl.Close()
	cl.Svc.SetInject(func(node, op string) error {
		mu.Lock()
		defer mu.Unlock()
		if op == "acquire" && blocked[node] {
			return fmt.Errorf("scripted: acquire unavailable")
		}
		return nil
	})
	setBlocked := func(n string, v bool) { mu.Lock(); blocked[n] = v; mu.Unlock() }
	if err := cl.Start(0); err != nil || cl.WaitPrimary(0, 10*time.Second) == nil {
		c.Inconclusive("primary start")
		return
	}
	A, R := cl.Nodes[0], cl.Nodes[1]
	led := newLedger()
	var hist []string
	detail := func() map[string]any {
		return map[string]any{"wal": wal, "page_size": ps, "history": hist, "n0": mon.PosOf(A.Node, "db").String(), "n1": mon.PosOf(R.Node, "db").String()}
	}
	wA, err := newWriter(A.Node, "db", ps, wal, "delete", nil, c.SubRng("wa"), led, 1)
	if err != nil {
		c.Violate("C13/setup", err.Error(), nil)
		return
	}
	if err := wA.ensure(uint32(5 + c.Rng.IntN(5))); err != nil {
		c.Violate("C13/setup", err.Error(), nil)
		return
	}
	_, _ = wA.txn(2)
	wA.close()
	if err := cl.Start(1); err != nil {
		c.Inconclusive(err.Error())
		return
	}
	if ok, _, _ := cl.WaitConverged(A, R, []string{"db"}, 5, 30*time.Second); !ok {
		c.Inconclusive("replica did not converge")
		return
	}
	lf, err := R.Node.Open("db-lock")
	if err != nil {
		c.Violate("C13/setup", "open lock file: "+err.Error(), detail())
		return
	}
	defer lf.Release()
	lctx, cancel := context.WithTimeout(context.Background(), 10*time.Second)
	err = lf.LockWait(lctx, 41, 72, 72, true)
	cancel()
	if err != nil {
		c.Violate("C13/acquire-failed", err.Error(), detail())
		return
	}
	hist = append(hist, "n1 holds the halt lock")
	img, _ := led.get("db", mon.PosOf(R.Node, "db"))
	rw, err := newWriter(R.Node, "db", ps, wal, "delete", img, c.SubRng("rw"), led, 32)
	if err != nil {
		c.Violate("C13/setup", "writer on the holder: "+err.Error(), detail())
		return
	}
	defer rw.close()
	rw.d.BusyRetries = 2000
	if err := rw.ensure(0); err != nil {
		c.Violate("C13/forwarded-commit-failed", err.Error(), detail())
		return
	}
	for try := 0; try < 10; try++ {
		if ok, err := rw.txn(2); err != nil {
			healthViolations(c, R.Node, "forwarded write", detail())
			if !c.Violated() {
				c.Violate("C13/forwarded-commit-failed", err.Error(), detail())
			}
			return
		} else if ok {
			break
		}
	}
	hist = append(hist, "forwarded transaction committed")
	// ---- the lease moves to the holder itself
	setBlocked("n0", true)
	setBlocked("n1", false)
	if k%4 < 2 {
		cl.Svc.Expire()
	} else {
		A.Store.Demote()
	}
	if cl.WaitPrimary(1, 20*time.Second) == nil {
		c.Inconclusive("n1 did not become primary")
		return
	}
	hist = append(hist, "n1 (the holder) is primary")
	c.Count("promoted_holder_cases", 1)
	// ---- the application on n1 writes on (it still believes it holds the lock byte)
	before := mon.PosOf(R.Node, "db")
	committed, werr := false, error(nil)
	for try := 0; try < 10 && !committed && werr == nil; try++ {
		before = mon.PosOf(R.Node, "db") // (a rolled-back journal transaction may consume an ID of its own)
		committed, werr = rw.txn(2)
	}
	hist = append(hist, fmt.Sprintf("transaction on the new primary: committed=%v err=%v", committed, werr))
	if healthViolations(c, R.Node, "transaction on the promoted holder", detail()) {
		return
	}
	after := mon.PosOf(R.Node, "db")
	if werr == nil && committed && after.TXID != before.TXID+1 {
		c.Violate("C13/promoted-holder-commit-lost", fmt.Sprintf("the transaction on the new primary returned success but the position went %s -> %s", before, after), detail())
		return
	}
	if werr != nil && after != before {
		c.Violate("C13/promoted-holder-refused-but-published", fmt.Sprintf("the transaction was refused (%v) but the position went %s -> %s", werr, before, after), detail())
		return
	}
	if werr == nil {
		judgeRawChecksum(c, R.Node, "db", "promoted holder", detail())
		if c.Violated() {
			return
		}
	} else {
		// (a refused rollback-journal commit: SQLite rolls its journal back)
		_ = R.Store.DB("db").Recover(context.Background())
		c.Count("promoted_holder_commit_refused", 1)
	}
	rw.close()
	_ = lf.Unlock(41, 72, 72)
	// ---- the primary can write (after the release at the latest) and n0 follows
	imgR, ok := led.get("db", mon.PosOf(R.Node, "db"))
	if !ok {
		c.Violate("C13/primary-position-unknown", "n1 is at a position nobody committed: "+mon.PosOf(R.Node, "db").String(), detail())
		return
	}
	w2, err := newWriter(R.Node, "db", ps, wal, "delete", imgR, c.SubRng("w2"), led, 5)
	if err != nil {
		c.Violate("C13/primary-writer", err.Error(), detail())
		return
	}
	defer w2.close()
	w2.d.BusyRetries = 4000
	if err := w2.ensure(0); err == nil {
		ok2 := false
		for try := 0; try < 10 && !ok2 && err == nil; try++ {
			ok2, err = w2.txn(2)
		}
	}
	if err != nil {
		healthViolations(c, R.Node, "write after the release", detail())
		if !c.Violated() {
			c.Violate("C13/primary-blocked-after-release", fmt.Sprintf("the holder became primary and released the halt lock, yet it cannot write: %v", err), detail())
		}
		return
	}
	okc, _, timedOut := cl.WaitConverged(R, A, []string{"db"}, 60, 60*time.Second)
	if healthViolations(c, A.Node, "former primary", detail()) {
		return
	}
	if timedOut {
		c.Inconclusive("convergence watchdog")
		return
	}
	if !okc {
		c.Violate("C13/former-primary-never-rejoined", fmt.Sprintf("n0 is at %s, the primary n1 at %s", mon.PosOf(A.Node, "db"), mon.PosOf(R.Node, "db")), detail())
		return
	}
	c.Count("promoted_holder_judged", 1)
	c.Distinct(fmt.Sprintf("promoted/wal%v/committed%v/err%v", wal, committed, werr != nil))
}
