//go:build verif

package checks

import (
	"bufio"
	"fmt"
	"io"
	"net"
	"net/http"
	"strconv"
	"strings"
	"time"

	"github.com/superfly/litefs"

	"verif/cluster"
	"verif/core"
)

func init() {
	addFamily("C20", func(tier string) int {
		if tier == "thorough" {
			return 24
		}
		return 3
	}, runC20Events, " (+ slow /events reader: a client stops reading GET /events while more events are published than the subscription buffers, then reads on; the response must end as a well-formed HTTP body and the node must keep answering, counters events_*)")
	chk := Registry["C20"]
	base := chk.Floors
	chk.Floors = func(tier string) map[string]int {
		m := map[string]int{}
		if base != nil {
			for k, v := range base(tier) {
				m[k] = v
			}
		}
		m["events_slow_reader_streams_ended_cleanly"] = 2
		return m
	}
}

// runC20Events: GET /events with a client that stalls. The store drops a
// subscriber whose buffer (1024 events) is full; the handler then has to end
// the response like any other: the chunked body is terminated, nothing panics,
// the node keeps serving.
func runC20Events(c *core.Case, k int) {
	cl, err := cluster.New(c.Dir, []cluster.NodeOpts{{Candidate: true}})
	if err != nil {
		c.Inconclusive(err.Error())
		return
	}
	defer cl.Close()
	if err := cl.Start(0); err != nil || cl.WaitPrimary(0, 10*time.Second) == nil {
		c.Inconclusive("primary start")
		return
	}
	P := cl.Nodes[0]
	addr := strings.TrimPrefix(P.URL(), "http://")
	conn, err := net.DialTimeout("tcp", addr, 5*time.Second)
	if err != nil {
		c.Inconclusive("dial: " + err.Error())
		return
	}
	defer conn.Close()
	if _, err := io.WriteString(conn, "GET /events HTTP/1.1\r\nHost: verif\r\n\r\n"); err != nil {
		c.Inconclusive("write request: " + err.Error())
		return
	}
	br := bufio.NewReaderSize(conn, 1<<16)
	_ = conn.SetReadDeadline(time.Now().Add(10 * time.Second))
	resp, err := http.ReadResponse(br, &http.Request{Method: "GET"})
	if err != nil {
		c.Violate("C20/no-response/GET /events", "GET /events: "+err.Error(), nil)
		return
	}
	if resp.StatusCode != 200 {
		c.Violate("C20/events-status", fmt.Sprintf("GET /events answered %d", resp.StatusCode), nil)
		return
	}
	chunked := len(resp.TransferEncoding) > 0 && resp.TransferEncoding[0] == "chunked"
	detail := map[string]any{"chunked": chunked, "payload_bytes": 0, "published": 0}
	// ---- the client stalls; events keep coming
	size := []int{16 << 10, 4 << 10, 64 << 10}[k%3]
	payload := strings.Repeat("x", size)
	n := 1100 + (32<<20)/size // more than any pair of socket buffers (a few MB each) plus the 1024-event queue can take
	for i := 0; i < n; i++ {
		P.Store.NotifyEvent(litefs.Event{Type: "verif", DB: "db", Data: payload})
		if i%256 == 0 {
			time.Sleep(time.Millisecond) // let the handler drain what the socket takes
		}
	}
	detail["payload_bytes"], detail["published"] = size, n
	c.Count("events_published", n)
	// ---- the client reads on: the body must end as a well-formed HTTP body.
	// http.ReadResponse has set resp.Body up to decode the transfer encoding: a
	// chunked body that stops without its terminating chunk reads as
	// io.ErrUnexpectedEOF, a clean end as io.EOF.
	_ = conn.SetReadDeadline(time.Now().Add(60 * time.Second))
	got, rerr := io.Copy(io.Discard, resp.Body)
	detail["body_bytes_read"] = strconv.FormatInt(got, 10)
	c.Count("events_requests", 1)
	if ne, ok := rerr.(net.Error); ok && ne.Timeout() {
		c.Inconclusive(fmt.Sprintf("the /events body did not end within the watchdog (%d bytes read)", got))
		return
	}
	if rerr != nil {
		c.Violate("C20/events-stream-aborted", fmt.Sprintf("GET /events with a stalled reader: after the store dropped the slow subscriber the response did not end as a well-formed body but with %q after %d bytes (a handler that panics is cut off like this)", rerr.Error(), got), detail)
		return
	}
	if got == 0 {
		c.Inconclusive("no event reached the client")
		return
	}
	c.Count("events_slow_reader_streams_ended_cleanly", 1)
	// ---- the node still serves
	hc := &http.Client{Timeout: 10 * time.Second}
	r2, err := hc.Get(P.URL() + "/info")
	if err != nil {
		c.Violate("C20/node-wedged-after-events", "GET /info after the slow /events reader: "+err.Error(), detail)
		return
	}
	_, _ = io.Copy(io.Discard, r2.Body)
	r2.Body.Close()
	if r2.StatusCode != 200 {
		c.Violate("C20/node-wedged-after-events", fmt.Sprintf("GET /info after the slow /events reader answered %d", r2.StatusCode), detail)
		return
	}
	// a fresh subscriber still gets events
	sub := P.Store.SubscribeEvents()
	P.Store.NotifyEvent(litefs.Event{Type: "verif", DB: "db", Data: "after"})
	select {
	case _, ok := <-sub.C():
		if !ok {
			c.Violate("C20/events-subscription-broken", "a new subscription is closed at once after a slow reader was dropped", detail)
		}
	case <-time.After(5 * time.Second):
		c.Violate("C20/events-subscription-broken", "a new subscription receives nothing after a slow reader was dropped", detail)
	}
	sub.Stop()
	if healthViolations(c, P.Node, "slow /events reader", detail) {
		return
	}
	c.Distinct(fmt.Sprintf("events-slow-reader/payload%d/chunked%v", size, chunked))
	if k == 0 {
		c.Sample(detail)
	}
}
