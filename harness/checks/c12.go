package checks

import (
	"context"
	"errors"
	"fmt"
	"runtime"
	"sort"
	"strings"
	"sync"
	"sync/atomic"
	"time"

	"github.com/anishathalye/porcupine"
	"github.com/superfly/litefs"
	"verif/core"
)

func init() {
	register(&core.Check{
		ID:    "C12",
		Level: "exploration",
		Rule: "(a) breadth-first enumeration of every reachable state of 1..4 guards on one real RWMutex, executing every operation (TryLock, TryRLock, CanLock, CanRLock, Unlock) in every state and comparing results and states with a three-line reader/writer spec (closed sub-space, reported per guard count); " +
			"(b) concurrent histories: 2..16 goroutines, one guard each, random operations recorded at the call boundary and checked for linearizability against the sequential spec with porcupine, under the race detector; (c) blocking Lock/RLock with scripted release and cancellation; " +
			"distinct = BFS transitions + distinct concurrent histories (by hash)",
		Assumptions: []string{"porcupine timeout = inconclusive", "'returns as soon as available' is judged as returning within 5 s of the lock being continuously free"},
		NumCases: func(tier string) int {
			if tier == "thorough" {
				return 4 + 3000 + 64
			}
			return 4 + 240 + 32
		},
		Race:       true,
		MaxWorkers: 4,
		RaceIsViolation: func(pair string) bool {
			// both stacks inside rwmutex.go
			parts := strings.Split(pair, " <-> ")
			return len(parts) == 2 && strings.Contains(parts[0], "RWMutex") && strings.Contains(parts[1], "RWMutex")
		},
		EvalCounter: "ops_checked",
		CaseTimeout: 40 * time.Second,
		Run:         runC12,
		Floors: func(tier string) map[string]int {
			return map[string]int{"bfs_closed": 4, "bfs_transitions": 300, "histories_linearizable": 120, "blocking_returned_after_release": 6, "blocking_cancelled": 4, "blocking_cancelled_upgrade": 1}
		},
	})
}

// --- sequential spec -------------------------------------------------------

type rwSpec struct {
	g []int8 // 0 unlocked, 1 shared, 2 exclusive
}

func (s rwSpec) clone() rwSpec { return rwSpec{g: append([]int8(nil), s.g...)} }
func (s rwSpec) key() string   { return fmt.Sprint(s.g) }

func (s rwSpec) others(i int) (shared int, excl bool) {
	for j, v := range s.g {
		if j == i {
			continue
		}
		if v == 1 {
			shared++
		} else if v == 2 {
			excl = true
		}
	}
	return
}

// apply returns the result of op by guard i and the new state.
func (s rwSpec) apply(op string, i int) (bool, rwSpec) {
	n := s.clone()
	sh, ex := s.others(i)
	switch op {
	case "TryLock":
		if sh == 0 && !ex {
			n.g[i] = 2
			return true, n
		}
		return false, n
	case "TryRLock":
		if !ex {
			n.g[i] = 1
			return true, n
		}
		return false, n
	case "CanLock":
		return sh == 0 && !ex, n
	case "CanRLock":
		return !ex, n
	case "Unlock":
		n.g[i] = 0
		return true, n
	}
	panic("bad op")
}

func (s rwSpec) mutexState() litefs.RWMutexState {
	st := litefs.RWMutexStateUnlocked
	for _, v := range s.g {
		if v == 2 {
			return litefs.RWMutexStateExclusive
		}
		if v == 1 {
			st = litefs.RWMutexStateShared
		}
	}
	return st
}

var rwOps = []string{"TryLock", "TryRLock", "CanLock", "CanRLock", "Unlock"}

func doRWOp(g *litefs.RWMutexGuard, op string) bool {
	switch op {
	case "TryLock":
		return g.TryLock()
	case "TryRLock":
		return g.TryRLock()
	case "CanLock":
		ok, _ := g.CanLock()
		return ok
	case "CanRLock":
		return g.CanRLock()
	case "Unlock":
		g.Unlock()
		return true
	}
	panic("bad op")
}

type rwStep struct {
	Op    string `json:"op"`
	Guard int    `json:"guard"`
}

func runC12(c *core.Case) {
	quickHist := 240
	if c.Tier == "thorough" {
		quickHist = 3000
	}
	switch {
	case c.Index < 4:
		c12BFS(c, c.Index+1)
	case c.Index < 4+quickHist:
		c12Concurrent(c)
	default:
		c12Blocking(c)
	}
}

// c12BFS enumerates the complete state space for n guards.
func c12BFS(c *core.Case, n int) {
	type node struct {
		spec rwSpec
		path []rwStep
	}
	start := rwSpec{g: make([]int8, n)}
	seen := map[string]bool{start.key(): true}
	queue := []node{{spec: start}}
	transitions := 0
	for len(queue) > 0 {
		cur := queue[0]
		queue = queue[1:]
		for _, op := range rwOps {
			for gi := 0; gi < n; gi++ {
				// rebuild the real state by replaying the path on a fresh mutex
				var mu litefs.RWMutex
				guards := make([]litefs.RWMutexGuard, n)
				for i := range guards {
					guards[i] = mu.Guard()
				}
				for _, st := range cur.path {
					doRWOp(&guards[st.Guard], st.Op)
				}
				var gotPanic any
				var got bool
				func() {
					defer func() { gotPanic = recover() }()
					got = doRWOp(&guards[gi], op)
				}()
				want, next := cur.spec.apply(op, gi)
				transitions++
				c.Count("ops_checked", 1)
				detail := map[string]any{"guards": n, "path": cur.path, "op": op, "guard": gi, "state_before": cur.spec.g}
				if gotPanic != nil {
					c.Violate("C12/panic", fmt.Sprintf("%s by guard %d in state %v panicked: %v", op, gi, cur.spec.g, gotPanic), detail)
					return
				}
				if got != want {
					c.Violate("C12/wrong-result/"+op, fmt.Sprintf("%s by guard %d in state %v returned %v, POSIX reader/writer rules say %v", op, gi, cur.spec.g, got, want), detail)
					return
				}
				for i := range guards {
					if int8(guards[i].State()) != next.g[i] {
						c.Violate("C12/wrong-guard-state/"+op, fmt.Sprintf("after %s by guard %d in state %v: guard %d is %s, expected state %v", op, gi, cur.spec.g, i, guards[i].State(), next.g), detail)
						return
					}
				}
				if mu.State() != next.mutexState() {
					c.Violate("C12/wrong-mutex-state/"+op, fmt.Sprintf("after %s by guard %d in state %v: mutex is %s, expected %s", op, gi, cur.spec.g, mu.State(), next.mutexState()), detail)
					return
				}
				if op == "CanLock" {
					// the second return value reports the current mutex state
					_, ms := guards[gi].CanLock()
					if ms != next.mutexState() {
						c.Violate("C12/canlock-state", fmt.Sprintf("CanLock reports mutex state %s, expected %s", ms, next.mutexState()), detail)
						return
					}
				}
				if !seen[next.key()] {
					seen[next.key()] = true
					queue = append(queue, node{spec: next, path: append(append([]rwStep{}, cur.path...), rwStep{op, gi})})
				}
				c.Distinct(fmt.Sprintf("bfs/%d/%s/%s/%d", n, cur.spec.key(), op, gi))
			}
		}
	}
	c.Count("bfs_closed", 1)
	c.Count("bfs_states", len(seen))
	c.Count("bfs_transitions", transitions)
	keys := make([]string, 0, len(seen))
	for k := range seen {
		keys = append(keys, k)
	}
	sort.Strings(keys)
	c.Sample(map[string]any{"kind": "bfs", "guards": n, "states": keys, "transitions": transitions, "exhaustive": true})
}

// --- concurrent histories ---------------------------------------------------

type rwInput struct {
	Guard int
	Op    string
}

func c12Model(n int) porcupine.Model {
	return porcupine.Model{
		Init: func() interface{} { return string(make([]byte, n)) },
		Step: func(state, input, output interface{}) (bool, interface{}) {
			st := []byte(state.(string))
			s := rwSpec{g: make([]int8, n)}
			for i := range st {
				s.g[i] = int8(st[i])
			}
			in := input.(rwInput)
			want, next := s.apply(in.Op, in.Guard)
			if output.(bool) != want {
				return false, state
			}
			out := make([]byte, n)
			for i := range next.g {
				out[i] = byte(next.g[i])
			}
			return true, string(out)
		},
		DescribeOperation: func(input, output interface{}) string {
			in := input.(rwInput)
			return fmt.Sprintf("g%d.%s -> %v", in.Guard, in.Op, output)
		},
	}
}

func c12Concurrent(c *core.Case) {
	n := []int{2, 3, 4, 8, 16, 4, 3, 2}[c.Index%8]
	opsPer := 60 / n
	if opsPer < 4 {
		opsPer = 4
	}
	if n <= 4 {
		opsPer = 14
	}
	var mu litefs.RWMutex
	guards := make([]litefs.RWMutexGuard, n)
	for i := range guards {
		guards[i] = mu.Guard()
	}
	var clock atomic.Int64
	ops := make([][]porcupine.Operation, n)
	var wg sync.WaitGroup
	startCh := make(chan struct{})
	var panicked atomic.Value
	var arrived atomic.Int64
	for i := 0; i < n; i++ {
		wg.Add(1)
		rng := c.SubRng(fmt.Sprintf("g%d", i))
		go func(i int) {
			defer wg.Done()
			defer func() {
				if r := recover(); r != nil {
					panicked.Store(fmt.Sprint(r))
				}
			}()
			<-startCh
			for k := 0; k < opsPer; k++ {
				// round barrier: all goroutines issue their k-th operation together
				// (spin so that all are running when the round opens)
				arrived.Add(1)
				for arrived.Load() < int64((k+1)*n) && panicked.Load() == nil {
					runtime.Gosched()
				}
				op := rwOps[rng.IntN(len(rwOps))]
				call := clock.Add(1)
				out := doRWOp(&guards[i], op)
				ret := clock.Add(1)
				ops[i] = append(ops[i], porcupine.Operation{ClientId: i, Input: rwInput{i, op}, Call: call, Output: out, Return: ret})
			}
		}(i)
	}
	// An observer reads mutex and guard states concurrently (as the lock table
	// in /debug/vars and the WAL write path do); its reads must be race-free and
	// never show an impossible combination.
	obsDone := make(chan struct{})
	var obsBad atomic.Value
	go func() {
		for {
			select {
			case <-obsDone:
				return
			default:
			}
			// Each State() call is atomic on its own, but reading the guards one
			// after the other is not a snapshot (a hand-over between two reads
			// shows two exclusive guards), so no verdict is drawn across guards:
			// mutual exclusion is decided by the linearizability check of the
			// recorded history. A single guard must never report a state outside
			// the three defined ones.
			_ = mu.State()
			for i := range guards {
				switch guards[i].State() {
				case litefs.RWMutexStateUnlocked, litefs.RWMutexStateShared, litefs.RWMutexStateExclusive:
				default:
					obsBad.Store(fmt.Sprintf("guard %d reports undefined state %d", i, guards[i].State()))
				}
			}
			runtime.Gosched()
		}
	}()
	defer close(obsDone)
	close(startCh)
	waitCh := make(chan struct{})
	go func() { wg.Wait(); close(waitCh) }()
	for waiting := true; waiting; {
		select {
		case <-waitCh:
			waiting = false
		case <-time.After(50 * time.Millisecond):
			// a panic inside the mutex leaves its internal sync.Mutex held and the
			// other goroutines blocked for good: do not wait for them
			if panicked.Load() != nil {
				waiting = false
			}
		}
	}
	if p := panicked.Load(); p != nil {
		c.Violate("C12/panic-concurrent", fmt.Sprintf("panic inside rwmutex under concurrency: %v", p), nil)
		return
	}
	if b := obsBad.Load(); b != nil {
		c.Violate("C12/observer-saw-undefined-state", b.(string), nil)
		return
	}
	var all []porcupine.Operation
	for _, o := range ops {
		all = append(all, o...)
	}
	sort.Slice(all, func(i, j int) bool { return all[i].Call < all[j].Call })
	overlap := false
	for i := 1; i < len(all); i++ {
		if all[i].Call < all[i-1].Return {
			overlap = true
			break
		}
	}
	c.Count("ops_checked", len(all))
	res := porcupine.CheckOperationsTimeout(c12Model(n), all, 30*time.Second)
	switch res {
	case porcupine.Ok:
		c.Count("histories_linearizable", 1)
		if overlap {
			c.Count("histories_with_overlap", 1)
		}
	case porcupine.Unknown:
		c.Inconclusive("porcupine timed out")
		return
	case porcupine.Illegal:
		var hist []string
		for _, o := range all {
			in := o.Input.(rwInput)
			hist = append(hist, fmt.Sprintf("[%d,%d] g%d.%s=%v", o.Call, o.Return, in.Guard, in.Op, o.Output))
		}
		c.Violate("C12/not-linearizable", fmt.Sprintf("concurrent history of %d operations by %d guards is not linearizable against the reader/writer spec", len(all), n), map[string]any{"history": hist})
		return
	}
	// end state must be consistent: at most one exclusive xor shared holders
	ex, sh := 0, 0
	for i := range guards {
		switch guards[i].State() {
		case litefs.RWMutexStateExclusive:
			ex++
		case litefs.RWMutexStateShared:
			sh++
		}
	}
	if ex > 1 || (ex == 1 && sh > 0) {
		c.Violate("C12/bad-end-state", fmt.Sprintf("%d exclusive and %d shared holders at the same time", ex, sh), nil)
	}
	h := uint64(14695981039346656037)
	for _, o := range all {
		in := o.Input.(rwInput)
		for _, b := range []byte(fmt.Sprintf("%d%s%v", in.Guard, in.Op, o.Output)) {
			h = (h ^ uint64(b)) * 1099511628211
		}
	}
	c.Distinct(fmt.Sprintf("hist/%d/%x", n, h))
	if c.Index < 8 {
		var hist []string
		for _, o := range all[:minInt(len(all), 20)] {
			in := o.Input.(rwInput)
			hist = append(hist, fmt.Sprintf("[%d,%d] g%d.%s=%v", o.Call, o.Return, in.Guard, in.Op, o.Output))
		}
		c.Sample(map[string]any{"kind": "concurrent", "guards": n, "overlap": overlap, "first_ops": hist})
	}
}

// --- blocking variants -------------------------------------------------------

func c12Blocking(c *core.Case) {
	// A time-out is only a verdict when it reproduces three times in a row.
	for attempt := 0; attempt < 3; attempt++ {
		if !c12BlockingOnce(c, attempt == 2) {
			return
		}
	}
}

// c12BlockingOnce returns true if the attempt timed out and should be retried.
func c12BlockingOnce(c *core.Case, last bool) (retry bool) {
	var mu litefs.RWMutex
	holder := mu.Guard()
	waiter := mu.Guard()
	wantExcl := c.Index%2 == 0
	holdExcl := c.Index%4 < 2
	cancelCase := (c.Index/4)%2 == 1
	// the waiter may already hold the lock shared (the blocking call is then an
	// upgrade, or a repeated shared acquire); with an exclusive holder that is
	// impossible, so there the waiter only has an earlier hold behind it
	waiterShared := (c.Index/16)%2 == 1
	initial := litefs.RWMutexStateUnlocked
	if waiterShared {
		waiter.TryRLock()
		if holdExcl {
			waiter.Unlock()
		} else {
			initial = litefs.RWMutexStateShared
		}
	}
	if !wantExcl && !holdExcl {
		// a shared holder does not block a shared waiter: must return at once
		holder.TryRLock()
		ctx, cancel := context.WithTimeout(context.Background(), 5*time.Second)
		defer cancel()
		if err := waiter.RLock(ctx); err != nil {
			c.Violate("C12/rlock-blocked-by-reader", "RLock did not return although only a shared lock was held: "+err.Error(), nil)
		} else if waiter.State() != litefs.RWMutexStateShared || holder.State() != litefs.RWMutexStateShared {
			c.Violate("C12/blocking-wrong-state", fmt.Sprintf("after RLock beside a shared holder the guards are %s / %s, expected shared / shared", waiter.State(), holder.State()), nil)
		}
		c.Count("ops_checked", 1)
		c.Count("blocking_returned_after_release", 1)
		c.Distinct("blocking/shared-shared")
		return false
	}
	if holdExcl {
		holder.TryLock()
	} else {
		holder.TryRLock()
	}
	ctx, cancel := context.WithCancel(context.Background())
	defer cancel()
	customCtx := (c.Index/8)%2 == 1
	if customCtx {
		// a context implemented outside the standard library (like the store's
		// primary context): done when its channel closes, with its own error
		// (its parent is a live cancelable context, so context.Cause finds the
		// parent's empty cause rather than falling back to Err)
		parent, pcancel := context.WithCancel(context.Background())
		defer pcancel()
		cc := &c12Ctx{Context: parent, done: make(chan struct{})}
		ctx, cancel = cc, func() { cc.once.Do(func() { close(cc.done) }) }
		defer cancel()
	}
	type result struct {
		err error
		at  time.Time
	}
	done := make(chan result, 1)
	var released atomic.Int64
	go func() {
		var err error
		if wantExcl {
			err = waiter.Lock(ctx)
		} else {
			err = waiter.RLock(ctx)
		}
		done <- result{err, time.Now()}
	}()
	// the waiter must not get the lock while it is unavailable
	select {
	case r := <-done:
		if r.err == nil {
			c.Violate("C12/blocking-returned-while-held", fmt.Sprintf("blocking acquire (excl=%v) returned nil while the lock was held (excl=%v) by another guard", wantExcl, holdExcl), nil)
		} else {
			c.Violate("C12/blocking-early-error", "blocking acquire failed before release or cancel: "+r.err.Error(), nil)
		}
		return false
	case <-time.After(time.Duration(2+c.Rng.IntN(8)) * time.Millisecond):
	}
	c.Count("ops_checked", 1)
	if cancelCase {
		cancel()
		select {
		case r := <-done:
			if r.err == nil {
				c.Violate("C12/cancel-returned-nil", "blocking acquire returned nil after its context was cancelled while the lock was still held", nil)
				return false
			}
			if waiter.State() != initial {
				c.Violate("C12/cancel-changed-state", fmt.Sprintf("a cancelled blocking acquire (a failed attempt) left the guard %s, it was %s before", waiter.State(), initial), nil)
				return false
			}
			if holder.State() == litefs.RWMutexStateUnlocked {
				c.Violate("C12/cancel-changed-state", "a cancelled blocking acquire released the other guard's hold", nil)
				return false
			}
			if initial == litefs.RWMutexStateShared {
				// the waiter still is a reader: nobody else may take the lock exclusively
				third := mu.Guard()
				if ok, _ := third.CanLock(); ok || third.TryLock() {
					c.Violate("C12/cancel-changed-state", "after a cancelled upgrade of a shared holder a third guard can take the lock exclusively", nil)
					return false
				}
				c.Count("blocking_cancelled_upgrade", 1)
			}
			c.Count("blocking_cancelled", 1)
		case <-time.After(5 * time.Second):
			if last {
				c.Violate("C12/cancel-never-returns", "blocking acquire did not return within 5 s of its context being cancelled (3 attempts)", nil)
				return false
			}
			holder.Unlock()
			return true
		}
		c.Distinct(fmt.Sprintf("blocking/cancel/w%v/h%v/custom%v/prior%v", wantExcl, holdExcl, customCtx, waiterShared))
		return false
	}
	released.Store(time.Now().UnixNano())
	holder.Unlock()
	select {
	case r := <-done:
		if r.err != nil {
			c.Violate("C12/blocking-error-after-release", r.err.Error(), nil)
			return false
		}
		want := litefs.RWMutexStateShared
		if wantExcl {
			want = litefs.RWMutexStateExclusive
		}
		if waiter.State() != want {
			c.Violate("C12/blocking-wrong-state", fmt.Sprintf("guard is %s after blocking acquire, expected %s", waiter.State(), want), nil)
			return false
		}
		c.Count("blocking_returned_after_release", 1)
	case <-time.After(5 * time.Second):
		cancel()
		if last {
			c.Violate("C12/blocking-never-returns", fmt.Sprintf("blocking acquire (excl=%v) did not return within 5 s of the lock being continuously free (3 attempts)", wantExcl), nil)
			return false
		}
		return true
	}
	c.Distinct(fmt.Sprintf("blocking/release/w%v/h%v/prior%v", wantExcl, holdExcl, waiterShared))
	return false
}

type c12Ctx struct {
	context.Context
	done chan struct{}
	once sync.Once
}

func (c *c12Ctx) Done() <-chan struct{} { return c.done }
func (c *c12Ctx) Err() error {
	select {
	case <-c.done:
		return errors.New("custom context ended")
	default:
		return nil
	}
}
