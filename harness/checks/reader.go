package checks

import (
	"bytes"
	"fmt"
	"os"
	"path/filepath"
	"syscall"
	"time"

	"verif/core"
	"verif/drv"
	"verif/mon"
	"verif/pager"
	"verif/ref"
)

type readResult struct {
	Absent  bool
	Skipped string
	Pos     mon.PosKey
	Img     *ref.Image
	DBLen   int
	WALLen  int
}

func lockRetry(f *drv.File, owner, start, end uint64, excl bool, tries int) error {
	var err error
	for i := 0; i < tries; i++ {
		if err = f.Lock(owner, start, end, excl); err != drv.ErrBusy {
			return err
		}
		time.Sleep(200 * time.Microsecond)
	}
	return err
}

// mountRead reads database name on node n the way a SQLite reader does: it
// takes the database SHARED lock and (if the SHM file exists) DMS + READ0
// shared, samples <name>-pos, reads size and every page through the simulated
// page cache, samples -pos again, and releases the locks.
func mountRead(c *core.Case, n *drv.Node, name string, owner uint64) (res readResult, err error) {
	p0 := mon.PosOf(n, name)
	f, err := n.Open(name)
	if err != nil {
		if drv.Errno(err) == syscall.ENOENT {
			// no lock can be taken on an absent file: the two observations
			// (lookup, position) are only a pair if the position did not move
			if p := mon.PosOf(n, name); p != p0 {
				res.Skipped = "position moved while the absent file was looked up"
				return res, nil
			}
			res.Absent = true
			res.Pos = p0
			return res, nil
		}
		return res, err
	}
	defer f.Close(owner)
	if err := lockRetry(f, owner, pager.PendingByte, pager.PendingByte, false, 2000); err != nil {
		res.Skipped = "PENDING busy"
		return res, nil
	}
	if err := lockRetry(f, owner, pager.SharedFirst, pager.SharedFirst+pager.SharedSize-1, false, 2000); err != nil {
		res.Skipped = "SHARED busy"
		return res, nil
	}
	_ = f.Unlock(owner, pager.PendingByte, pager.PendingByte)
	shm, err := n.Open(name + "-shm")
	if err != nil && drv.Errno(err) == syscall.ENOENT {
		// A WAL-mode database whose shared-memory file is gone (the last
		// connection was closed properly): SQLite learns the mode from page 1,
		// creates the file and takes its WAL locks like any WAL reader.
		hdr := make([]byte, 100)
		if k, rerr := n.Cache.Read(f, owner, hdr, 0); rerr == nil && k >= 20 && hdr[18] == 2 && hdr[19] == 2 {
			if shm, err = n.Create(name + "-shm"); err == nil {
				_ = shm.WriteAt(owner, make([]byte, 32768), 0)
			} else {
				shm, err = n.Open(name + "-shm")
			}
		}
	}
	if err == nil {
		defer shm.Close(owner)
		if err := lockRetry(shm, owner, pager.WalDMS, pager.WalDMS, false, 2000); err != nil {
			res.Skipped = "DMS busy"
			return res, nil
		}
		if err := lockRetry(shm, owner, pager.WalRead0, pager.WalRead0, false, 2000); err != nil {
			res.Skipped = "READ0 busy"
			return res, nil
		}
	}
	pf, err := n.Open(name + "-pos")
	if err != nil {
		return res, fmt.Errorf("open pos: %w", err)
	}
	defer pf.Release()
	p1, err := mon.ReadPosFile(n, pf, owner, true)
	if err != nil {
		return res, err
	}
	dbb, err := mon.ReadAll(n, f, owner, true)
	if err != nil {
		return res, fmt.Errorf("read db: %w", err)
	}
	var wal []byte
	if wf, err := n.Open(name + "-wal"); err == nil {
		wal, _ = mon.ReadAll(n, wf, owner, false)
		_ = wf.Release()
	}
	p2, err := mon.ReadPosFile(n, pf, owner, true)
	if err != nil {
		return res, err
	}
	if p1 != p2 {
		c.Violate(c.Prop+"/pos-changed-under-read-locks", fmt.Sprintf("%s on %s: position changed %s -> %s while a reader held SHARED(+DMS,READ0)", name, n.Cfg.Dir, p1, p2), nil)
	}
	res.Pos = p2
	if os.Getenv("VERIF_DEBUG_READ") != "" {
		raw, _ := os.ReadFile(filepath.Join(mon.DBDir(n, name), "database"))
		_, rn, _, _ := ref.HeaderInfo(raw)
		_, cn, _, _ := ref.HeaderInfo(dbb)
		fmt.Fprintf(os.Stderr, "DEBUG mountRead %s %s pos=%s rawlen=%d rawhdrN=%d cachelen=%d cachehdrN=%d equal=%v mode=%s\n", n.Cfg.Dir, name, p2, len(raw), rn, len(dbb), cn, bytes.Equal(raw, dbb), n.Store.DB(name).Mode())
	}
	res.Img = ref.LogicalImage(dbb, wal)
	res.DBLen, res.WALLen = len(dbb), len(wal)
	if os.Getenv("VERIF_DEBUG_READ") != "" {
		fmt.Fprintf(os.Stderr, "DEBUG   -> img pages=%d pagesize=%d wal=%d p0=%s p1=%s\n", res.Img.PageN, res.Img.PageSize, len(wal), p0, p1)
	}
	return res, nil
}

// judgeReplicaRead compares a mount read with the ledger.
func judgeReplicaRead(c *core.Case, led *ledger, nodeName, name string, r readResult, ctx string, detail any) {
	if r.Skipped != "" {
		c.Count("reads_skipped", 1)
		return
	}
	c.Count("reads", 1)
	if r.Pos.TXID == 0 {
		c.Count("reads_at_zero", 1)
		return
	}
	var want *ref.Image
	ok := false
	for i := 0; i < 3000; i++ {
		if want, ok = led.get(name, r.Pos); ok {
			break
		}
		time.Sleep(time.Millisecond)
	}
	if !ok {
		c.Violate(c.Prop+"/position-not-on-primary-history", fmt.Sprintf("%s reports position %s for %s which no primary ever committed (%s)", nodeName, r.Pos, name, ctx), detail)
		return
	}
	var got *ref.Image
	if r.Absent {
		got = ref.NewImage(0)
	} else {
		got = r.Img
	}
	if d := got.Diff(want); d != "" {
		c.Violate(c.Prop+"/replica-image-mismatch", fmt.Sprintf("%s at position %s of %s: bytes read through the mount differ from the primary's image at that position: %s (%s; absent=%v db=%d bytes wal=%d bytes)", nodeName, r.Pos, name, d, ctx, r.Absent, r.DBLen, r.WALLen), detail)
		return
	}
	c.Count("reads_matched", 1)
}
