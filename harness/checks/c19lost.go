//go:build verif

package checks

import (
	"errors"
	"fmt"
	"io"
	"net"
	"net/http"
	"strings"
	"sync"
	"sync/atomic"
	"time"

	"verif/cluster"
	"verif/core"
)

func init() {
	addFamily("C19", func(tier string) int {
		if tier == "thorough" {
			return 24
		}
		return 3
	}, runC19PrimaryLost, " (+ the primary is lost: the primary's process dies while the lease still names it, the replica's reconnects are refused, then the lease lapses and nobody takes it; from then on no primary is known, and a write arriving at the replica's proxy is answered with an error, not with a redirect to the node that is gone, counters lost_*)")
	chk := Registry["C19"]
	base := chk.Floors
	chk.Floors = func(tier string) map[string]int {
		m := map[string]int{}
		if base != nil {
			for k, v := range base(tier) {
				m[k] = v
			}
		}
		m["lost_primary_write_answered_error"] = 2
		return m
	}
}

func runC19PrimaryLost(c *core.Case, k int) {
	cl, err := cluster.New(c.Dir, []cluster.NodeOpts{{Candidate: true}, {}})
	if err != nil {
		c.Inconclusive(err.Error())
		return
	}
	defer cl.Close()
	var mu sync.Mutex
	keepLease := false
	cl.Svc.SetInject(func(node, op string) error {
		mu.Lock()
		defer mu.Unlock()
		if keepLease && node == "n0" && op == "lease-close" {
			return errors.New("scripted: the process is gone before it can release the lease")
		}
		return nil
	})
	if err := cl.Start(0); err != nil || cl.WaitPrimary(0, 10*time.Second) == nil {
		c.Inconclusive("primary start")
		return
	}
	P := cl.Nodes[0]
	led := newLedger()
	w, err := newWriter(P.Node, "db", 1024, k%2 == 1, "delete", nil, c.SubRng("w"), led, 1)
	if err != nil {
		c.Violate("C19/setup", err.Error(), nil)
		return
	}
	w.d.BusyRetries = 5000
	if err := w.ensure(4); err != nil {
		c.Violate("C19/setup", err.Error(), nil)
		return
	}
	_, _ = w.txn(2)
	w.close()
	if err := cl.Start(1); err != nil {
		c.Inconclusive(err.Error())
		return
	}
	R := cl.Nodes[1]
	if ok, _, _ := cl.WaitConverged(P, R, []string{"db"}, 5, 30*time.Second); !ok {
		c.Inconclusive("replica did not converge")
		return
	}
	// the replica's application and proxy
	var hits int
	var hmu sync.Mutex
	var foreign atomic.Int64
	nonce := fmt.Sprintf("c19lost-%d-%d-%d", c.Index, k, c.Rng.Uint64())
	ln, err := net.Listen("tcp", "127.0.0.1:0")
	if err != nil {
		c.Inconclusive(err.Error())
		return
	}
	defer ln.Close()
	go func() {
		_ = http.Serve(ln, http.HandlerFunc(func(rw http.ResponseWriter, r *http.Request) {
			// (only this case's own requests count: the port may have belonged to
			// an earlier case's application, and a late request of that case's
			// clients can still arrive here)
			if r.Header.Get("X-Verif-Case") == nonce {
				hmu.Lock()
				hits++
				hmu.Unlock()
			} else {
				foreign.Add(1)
			}
			_, _ = io.WriteString(rw, "ok")
		}))
	}()
	proxy, err := startProxy(R, ln.Addr().String())
	if err != nil {
		c.Inconclusive("proxy: " + err.Error())
		return
	}
	defer proxy.Close()
	hc := &http.Client{Timeout: 10 * time.Second, CheckRedirect: func(*http.Request, []*http.Request) error { return http.ErrUseLastResponse }}
	post := func() (int, string, error) {
		req, _ := http.NewRequest("POST", fmt.Sprintf("http://127.0.0.1:%d/items/1", proxy.Port()), strings.NewReader("x"))
		req.Header.Set("X-Verif-Case", nonce)
		resp, err := hc.Do(req)
		if err != nil {
			return 0, "", err
		}
		_, _ = io.Copy(io.Discard, resp.Body)
		resp.Body.Close()
		return resp.StatusCode, resp.Header.Get("fly-replay"), nil
	}
	st, replay, err := post()
	detail := map[string]any{"with_primary": fmt.Sprintf("status %d fly-replay %q err %v", st, replay, err)}
	if err != nil || !strings.HasPrefix(replay, "instance=") {
		c.Violate("C19/replica-write-not-redirected", fmt.Sprintf("with a live primary a write on the replica was answered %d fly-replay=%q (%v)", st, replay, err), detail)
		return
	}
	// ---- the primary's process dies; the lease still names it
	mu.Lock()
	keepLease = true
	mu.Unlock()
	cl.Stop(0)
	calls0 := len(R.Client.Calls())
	for dl := time.Now().Add(10 * time.Second); len(R.Client.Calls()) < calls0+2 && time.Now().Before(dl); {
		time.Sleep(5 * time.Millisecond) // (reconnects are being refused)
	}
	detail["refused_reconnects"] = len(R.Client.Calls()) - calls0
	// ---- the lease lapses; nobody takes it (the replica is no candidate)
	cl.Svc.Expire()
	for dl := time.Now().Add(10 * time.Second); time.Now().Before(dl); time.Sleep(10 * time.Millisecond) {
		if _, info := R.Store.PrimaryInfo(); info == nil {
			break
		}
	}
	time.Sleep(100 * time.Millisecond)
	_, info := R.Store.PrimaryInfo()
	st, replay, err = post()
	detail["without_primary"] = fmt.Sprintf("status %d fly-replay %q err %v", st, replay, err)
	hmu.Lock()
	h := hits
	hmu.Unlock()
	c.Count("lost_foreign_requests_ignored", int(foreign.Load()))
	if h > 0 {
		c.Violate("C19/write-ran-on-replica", "a write reached the replica's application", detail)
		return
	}
	if err != nil {
		c.Violate("C19/no-answer", err.Error(), detail)
		return
	}
	if replay != "" || st < 500 {
		c.Violate("C19/no-primary-wrong-answer", fmt.Sprintf("primary-lost: the primary is gone and its lease has lapsed, no primary is known (the replica's primary info: %v); a write on the replica was answered %d with fly-replay=%q: a redirect to a node that is not primary, expected an error", info, st, replay), detail)
		return
	}
	c.Count("lost_primary_write_answered_error", 1)
	c.Count("requests", 2)
	c.Distinct(fmt.Sprintf("primary-lost/wal%v", k%2 == 1))
}
