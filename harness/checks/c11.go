package checks

import (
	"context"
	"fmt"
	"io"
	"strings"
	"time"

	"github.com/superfly/litefs"
	"verif/core"
	"verif/drv"
	"verif/pager"
	"verif/ref"
)

func init() {
	register(&core.Check{
		ID:    "C11",
		Level: "exploration",
		Rule: "each case is a guided random walk of ~500 lock operations on one database (rollback or WAL mode) by 2-3 client lock owners issuing SQLite's byte-range lock calls through the FUSE handlers (single bytes, the SHARED range, READ1..4 ranges, range unlocks, flush) interleaved with LiteFS's internal writers (TryAcquireWriteLock/release, Recover, Checkpoint, halt-lock acquire/release, snapshot and export lock sequences, all with short deadlines); " +
			"every call's result and the public state of all twelve locks are compared with a reference byte-range lock table extended with the one documented LiteFS rule (CKPT refused while another owner holds WRITE); WAL writes without the write lock must be refused; " +
			"the walk prefers (state, operation) pairs not tried before; distinct = such pairs",
		Assumptions: []string{"a client call that names several lock bytes is one attempt: granted as a whole or refused without any change (POSIX fcntl)", "single scenario goroutine: outcomes of deadline-bounded internal sections are deterministic"},
		NumCases: func(tier string) int {
			if tier == "thorough" {
				return 800
			}
			return 64
		},
		EvalCounter: "lock_ops",
		CaseTimeout: 120 * time.Second,
		Run:         runC11,
		Floors: func(tier string) map[string]int {
			m := map[string]int{"lock_ops": 20000, "internal_acquired": 100, "internal_refused": 200, "ckpt_gate_refusals": 20, "wal_write_without_lock_refused": 20,
				"snapshot_ok": 20, "snapshot_blocked": 20, "halt_acquired": 20, "client_refused_by_internal": 100}
			for _, l := range []string{"PENDING", "RESERVED", "SHARED", "WRITE", "CKPT", "RECOVER", "READ0", "READ1", "READ2", "READ3", "READ4", "DMS"} {
				m["granted_"+l] = 20
			}
			return m
		},
	})
}

var dbLocks = []struct {
	name       string
	start, end uint64
}{
	{"PENDING", pager.PendingByte, pager.PendingByte},
	{"RESERVED", pager.ReservedByte, pager.ReservedByte},
	{"SHARED", pager.SharedFirst, pager.SharedFirst + pager.SharedSize - 1},
}

var shmLocks = []struct {
	name string
	b    uint64
}{
	{"WRITE", 120}, {"CKPT", 121}, {"RECOVER", 122}, {"READ0", 123}, {"READ1", 124}, {"READ2", 125}, {"READ3", 126}, {"READ4", 127}, {"DMS", 128},
}

type c11Env struct {
	c         *core.Case
	n         *drv.Node
	db        *litefs.DB
	wal       bool
	tab       *ref.LockTable
	dbf       map[uint64]*drv.File
	shm       map[uint64]*drv.File
	walf      *drv.File
	internal  map[uint64]*litefs.GuardSet // internal holders by pseudo owner id
	nextInt   uint64
	haltID    int64
	haltOwner uint64
	path      []string
	tried     map[string]bool
}

func (e *c11Env) violate(fp, what string) {
	p := e.path
	if len(p) > 60 {
		p = p[len(p)-60:]
	}
	e.c.Violate("C11/"+fp, what, map[string]any{"wal_mode": e.wal, "last_ops": p, "reference_table": e.tab.Key()})
}

// refInternalAcquire applies LiteFS's internal write-lock sequence to the
// reference table atomically (all or nothing).
func (e *c11Env) refInternalAcquire(owner uint64) bool {
	t := e.tab.Clone()
	ok := t.TryShared("PENDING", owner) && t.TryShared("SHARED", owner)
	if ok {
		t.Unlock("PENDING", owner)
		if !e.wal {
			ok = t.TryExcl("RESERVED", owner) && t.TryExcl("PENDING", owner) && t.TryExcl("SHARED", owner)
		} else {
			ok = t.TryShared("DMS", owner)
			for _, l := range []string{"WRITE", "CKPT", "RECOVER", "READ0", "READ1", "READ2", "READ3", "READ4"} {
				ok = ok && t.TryExcl(l, owner)
			}
		}
	}
	if ok {
		e.tab = t
	}
	return ok
}

func (e *c11Env) refReleaseOwner(owner uint64) {
	for _, l := range []string{"PENDING", "RESERVED", "SHARED", "WRITE", "CKPT", "RECOVER", "READ0", "READ1", "READ2", "READ3", "READ4", "DMS"} {
		e.tab.Unlock(l, owner)
	}
}

// refSnapshotPossible: could the snapshot/export read-lock sequence complete now?
func (e *c11Env) refSnapshotPossible() bool {
	t := e.tab.Clone()
	const o = 9_999_999
	if !t.TryShared("PENDING", o) || !t.TryShared("SHARED", o) {
		return false
	}
	t.Unlock("PENDING", o)
	if e.wal {
		if !t.TryExcl("WRITE", o) {
			return false
		}
		t.Unlock("WRITE", o)
	}
	for _, l := range []string{"CKPT", "RECOVER", "READ0", "READ1", "READ2", "READ3", "READ4"} {
		if !t.TryShared(l, o) {
			return false
		}
	}
	return true
}

// compareStates checks the public lock states against the reference table.
func (e *c11Env) compareStates(after string) bool {
	for _, lt := range []litefs.LockType{litefs.LockTypePending, litefs.LockTypeReserved, litefs.LockTypeShared, litefs.LockTypeWrite, litefs.LockTypeCkpt,
		litefs.LockTypeRecover, litefs.LockTypeRead0, litefs.LockTypeRead1, litefs.LockTypeRead2, litefs.LockTypeRead3, litefs.LockTypeRead4, litefs.LockTypeDMS} {
		got := e.db.VerifLockState(lt).String()
		want := e.tab.State(lt.String())
		if got != want {
			e.violate("lock-state-differs/"+lt.String(), fmt.Sprintf("after %s: lock %s is %s, the reference lock table says %s", after, lt, got, want))
			return false
		}
	}
	return true
}

func runC11(c *core.Case) {
	wal := c.Index%2 == 1
	nOwners := 2 + (c.Index/2)%2
	n, err := newPrimary(c.Dir+"/data", func(s *litefs.Store) {
		s.HaltAcquireTimeout = 3 * time.Millisecond
		s.HaltLockTTL = time.Hour
	})
	if err != nil {
		c.Inconclusive(err.Error())
		return
	}
	defer n.Close()
	d := pager.NewDB(n, "db", 1024, c.Rng)
	conn, err := d.Open(1000)
	if err != nil {
		c.Violate("C11/setup", err.Error(), nil)
		return
	}
	if res := conn.RunRollbackTx(pager.RollbackSpec{Mode: "delete", Outcome: "commit", NewPageN: 4, WALHeader: wal}); res.Err != nil {
		c.Violate("C11/setup", res.Err.Error(), nil)
		return
	}
	if wal {
		// create -wal and -shm so the write lock release path finds them
		if err := conn.OpenWAL(); err != nil {
			c.Violate("C11/setup", err.Error(), nil)
			return
		}
		if res := conn.RunWALTx(pager.WALSpec{NewPageN: 4, Outcome: "commit", SplitFrame: true, Frames: []pager.FrameSpec{{Pgno: 2}, {Pgno: 1}}}); res.Err != nil {
			c.Violate("C11/setup", res.Err.Error(), nil)
			return
		}
	}
	conn.Close()
	e := &c11Env{c: c, n: n, db: n.Store.DB("db"), wal: wal, tab: ref.NewLockTable(), dbf: map[uint64]*drv.File{}, shm: map[uint64]*drv.File{},
		internal: map[uint64]*litefs.GuardSet{}, nextInt: 5000, tried: map[string]bool{}}
	for o := uint64(1); o <= uint64(nOwners); o++ {
		f, err := n.Open("db")
		if err != nil {
			c.Violate("C11/setup", err.Error(), nil)
			return
		}
		e.dbf[o] = f
		if wal {
			s, err := n.Open("db-shm")
			if err != nil {
				c.Violate("C11/setup", "open shm: "+err.Error(), nil)
				return
			}
			e.shm[o] = s
		}
	}
	if wal {
		if e.walf, err = n.Open("db-wal"); err != nil {
			c.Violate("C11/setup", "open wal: "+err.Error(), nil)
			return
		}
	}
	if !e.compareStates("setup") {
		return
	}

	type opT struct {
		name string
		run  func() bool
	}
	var ops []opT
	clientLock := func(o uint64, onSHM bool, label string, names []string, start, end uint64, excl bool) func() bool {
		return func() bool {
			f := e.dbf[o]
			if onSHM {
				f = e.shm[o]
			}
			err := f.Lock(o, start, end, excl)
			// reference: one fcntl call is one attempt - the named bytes are tried in
			// LiteFS's order on a copy of the table, and a refusal changes nothing
			live := e.tab
			e.tab = live.Clone()
			want := true
			gate := false
			internalBlock := false
			for _, nm := range names {
				ok := false
				if excl {
					if nm == "CKPT" && e.tab.State("WRITE") != "unlocked" && e.tab.Holds("WRITE", o) != "exclusive" {
						// the documented LiteFS rule
						ok = false
						gate = true
					} else {
						ok = e.tab.TryExcl(nm, o)
					}
				} else {
					ok = e.tab.TryShared(nm, o)
				}
				if !ok {
					want = false
					for io := range e.internal {
						if e.tab.Holds(nm, io) != "" {
							internalBlock = true
						}
					}
					if e.haltOwner != 0 && e.tab.Holds(nm, e.haltOwner) != "" {
						internalBlock = true
					}
					break
				}
				e.c.Count("granted_"+nm, 1)
			}
			if !want {
				e.tab = live // a failed attempt changes nothing
				if len(names) > 1 {
					e.c.Count("range_calls_refused", 1)
				}
			}
			got := err == nil
			if err != nil && err != drv.ErrBusy {
				e.violate("lock-call-error", fmt.Sprintf("%s returned %v", label, err))
				return false
			}
			if got != want {
				if gate && got {
					e.violate("ckpt-granted-while-write-held", fmt.Sprintf("%s was granted although another connection holds the WAL write lock", label))
				} else if want {
					e.violate("lock-refused", fmt.Sprintf("%s was refused, byte-range lock rules between distinct owners allow it", label))
				} else {
					e.violate("conflicting-lock-granted", fmt.Sprintf("%s was granted although a conflicting lock is held (internal writer involved: %v)", label, internalBlock))
				}
				return false
			}
			if gate && !got {
				e.c.Count("ckpt_gate_refusals", 1)
			}
			if !got && internalBlock {
				e.c.Count("client_refused_by_internal", 1)
			}
			return true
		}
	}
	clientUnlock := func(o uint64, onSHM bool, label string, names []string, start, end uint64) func() bool {
		return func() bool {
			f := e.dbf[o]
			if onSHM {
				f = e.shm[o]
			}
			if err := f.Unlock(o, start, end); err != nil {
				e.violate("unlock-error", fmt.Sprintf("%s returned %v", label, err))
				return false
			}
			for _, nm := range names {
				e.tab.Unlock(nm, o)
			}
			return true
		}
	}
	for o := uint64(1); o <= uint64(nOwners); o++ {
		o := o
		for _, l := range dbLocks {
			for _, excl := range []bool{false, true} {
				ops = append(ops, opT{fmt.Sprintf("o%d.lock(%s,excl=%v)", o, l.name, excl), clientLock(o, false, fmt.Sprintf("owner %d lock %s excl=%v", o, l.name, excl), []string{l.name}, l.start, l.end, excl)})
			}
			ops = append(ops, opT{fmt.Sprintf("o%d.unlock(%s)", o, l.name), clientUnlock(o, false, fmt.Sprintf("owner %d unlock %s", o, l.name), []string{l.name}, l.start, l.end)})
		}
		ops = append(ops, opT{fmt.Sprintf("o%d.unlock(PENDING..RESERVED)", o), clientUnlock(o, false, "unlock PENDING..RESERVED", []string{"PENDING", "RESERVED"}, pager.PendingByte, pager.ReservedByte)})
		ops = append(ops, opT{fmt.Sprintf("o%d.unlock(db all)", o), clientUnlock(o, false, "unlock whole db file", []string{"PENDING", "RESERVED", "SHARED"}, 0, 0x7fffffffffffffff)})
		ops = append(ops, opT{fmt.Sprintf("o%d.flush(db)", o), func() bool {
			_ = e.dbf[o].Flush(o)
			for _, nm := range []string{"PENDING", "RESERVED", "SHARED"} {
				e.tab.Unlock(nm, o)
			}
			return true
		}})
		if wal {
			for _, l := range shmLocks {
				for _, excl := range []bool{false, true} {
					ops = append(ops, opT{fmt.Sprintf("o%d.lock(%s,excl=%v)", o, l.name, excl), clientLock(o, true, fmt.Sprintf("owner %d lock %s excl=%v", o, l.name, excl), []string{l.name}, l.b, l.b, excl)})
				}
				ops = append(ops, opT{fmt.Sprintf("o%d.unlock(%s)", o, l.name), clientUnlock(o, true, fmt.Sprintf("owner %d unlock %s", o, l.name), []string{l.name}, l.b, l.b)})
			}
			r14 := []string{"READ1", "READ2", "READ3", "READ4"}
			ops = append(ops, opT{fmt.Sprintf("o%d.lock(READ1..4,excl)", o), clientLock(o, true, fmt.Sprintf("owner %d lock READ1..4 excl", o), r14, 124, 127, true)})
			ops = append(ops, opT{fmt.Sprintf("o%d.unlock(READ1..4)", o), clientUnlock(o, true, "unlock READ1..4", r14, 124, 127)})
			ops = append(ops, opT{fmt.Sprintf("o%d.lock(WRITE..RECOVER,excl)", o), clientLock(o, true, fmt.Sprintf("owner %d lock WRITE..RECOVER excl", o), []string{"WRITE", "CKPT", "RECOVER"}, 120, 122, true)})
			ops = append(ops, opT{fmt.Sprintf("o%d.flush(shm)", o), func() bool {
				_ = e.shm[o].Flush(o)
				for _, l := range shmLocks {
					e.tab.Unlock(l.name, o)
				}
				return true
			}})
			ops = append(ops, opT{fmt.Sprintf("o%d.walwrite", o), func() bool {
				// a frame-header sized write past the committed end of the log
				if e.tab.State("WRITE") == "exclusive" {
					return true
				}
				sz, _ := e.walf.Size()
				var err error
				switch e.c.Rng.IntN(3) {
				case 0: // well-formed 32-byte header at offset 0
					w := &ref.WALWriter{PageSize: 1024, Salt1: e.c.Rng.Uint32(), Salt2: e.c.Rng.Uint32()}
					err = e.walf.WriteAt(o, w.Header(), 0)
				case 1: // frame header at the end of the log
					if sz < 32 {
						sz = 32
					}
					sz = 32 + (sz-32+1047)/1048*1048
					err = e.walf.WriteAt(o, make([]byte, 24), sz)
				default: // frame body
					if sz < 32 {
						sz = 32
					}
					sz = 32 + (sz-32+1047)/1048*1048
					err = e.walf.WriteAt(o, make([]byte, 1024), sz+24)
				}
				if e.tab.State("WRITE") != "exclusive" {
					if err == nil {
						e.violate("wal-write-without-write-lock-accepted", "a WAL write was accepted although nobody holds the WAL write lock")
						return false
					}
					e.c.Count("wal_write_without_lock_refused", 1)
				}
				return true
			}})
		}
	}
	// internal actions
	ops = append(ops, opT{"internal.tryAcquire", func() bool {
		io := e.nextInt
		e.nextInt++
		gs := e.db.TryAcquireWriteLock()
		want := e.refInternalAcquire(io)
		if (gs != nil) != want {
			if gs != nil {
				e.violate("internal-writer-ran-with-conflicting-client-lock", "TryAcquireWriteLock succeeded although a client connection holds a conflicting lock")
			} else {
				e.violate("internal-writer-refused", "TryAcquireWriteLock failed although no conflicting lock is held")
			}
			return false
		}
		if gs != nil {
			e.internal[io] = gs
			e.c.Count("internal_acquired", 1)
		} else {
			e.c.Count("internal_refused", 1)
		}
		return true
	}})
	ops = append(ops, opT{"internal.release", func() bool {
		for io, gs := range e.internal {
			gs.Unlock()
			e.refReleaseOwner(io)
			delete(e.internal, io)
			break
		}
		return true
	}})
	ops = append(ops, opT{"internal.recover", func() bool {
		probe := e.tab.Clone()
		saved := e.tab
		want := e.refInternalAcquire(8_888_888)
		e.tab = saved
		_ = probe
		// (short wait only where the reference says it must block; see snap below)
		d := 3 * time.Millisecond
		if want {
			d = 20 * time.Second
		}
		ctx, cancel := context.WithTimeout(context.Background(), d)
		defer cancel()
		err := e.db.Recover(ctx)
		if (err == nil) != want {
			if err == nil {
				e.violate("internal-writer-ran-with-conflicting-client-lock", "Recover (checkpoint/rollback) ran although a client connection holds a conflicting lock")
			} else {
				e.violate("internal-writer-refused", "Recover failed although no conflicting lock is held: "+err.Error())
			}
			return false
		}
		if want {
			e.refReleaseOwner(8_888_888)
			e.c.Count("internal_acquired", 1)
		} else {
			e.c.Count("internal_refused", 1)
		}
		return true
	}})
	ops = append(ops, opT{"internal.halt", func() bool {
		if e.haltOwner != 0 {
			e.db.ReleaseHaltLock(context.Background(), e.haltID)
			e.refReleaseOwner(e.haltOwner)
			e.haltOwner = 0
			return true
		}
		id := int64(1 + e.c.Rng.IntN(1<<30))
		io := e.nextInt
		e.nextInt++
		hl, err := e.db.AcquireHaltLock(context.Background(), id)
		want := e.refInternalAcquire(io)
		if (err == nil) != want {
			if err == nil {
				e.violate("internal-writer-ran-with-conflicting-client-lock", "AcquireHaltLock succeeded although a client connection holds a conflicting lock")
			} else {
				e.violate("internal-writer-refused", "AcquireHaltLock failed although no conflicting lock is held: "+err.Error())
			}
			return false
		}
		if err == nil {
			_ = hl
			e.haltID, e.haltOwner = id, io
			e.c.Count("halt_acquired", 1)
		}
		return true
	}})
	snap := func(name string, f func(ctx context.Context) error) opT {
		return opT{name, func() bool {
			want := e.refSnapshotPossible()
			// A blocked sequence is recognised by its context running out (nobody
			// else runs in this single-threaded walk, so it can never be granted
			// later): keep that wait short. A grantable sequence simply runs to
			// completion; its deadline is only a watchdog and must be generous -
			// 3 ms was not enough on a cold machine (false alarm in a fresh sandbox).
			d := 3 * time.Millisecond
			if want {
				d = 20 * time.Second
			}
			ctx, cancel := context.WithTimeout(context.Background(), d)
			defer cancel()
			err := f(ctx)
			if (err == nil) != want {
				if err == nil {
					e.violate("snapshot-read-section-ran-with-conflicting-lock", name+" completed although a conflicting lock is held")
				} else {
					e.violate("snapshot-refused", name+" failed although its lock sequence is grantable: "+err.Error())
				}
				return false
			}
			if want {
				e.c.Count("snapshot_ok", 1)
			} else {
				e.c.Count("snapshot_blocked", 1)
			}
			return true
		}}
	}
	ops = append(ops, snap("internal.snapshot", func(ctx context.Context) error { _, _, err := e.db.WriteSnapshotTo(ctx, io.Discard); return err }))
	ops = append(ops, snap("internal.export", func(ctx context.Context) error { _, err := e.db.Export(ctx, io.Discard); return err }))

	steps := 500
	for i := 0; i < steps; i++ {
		if i%25 == 24 {
			// everybody lets go: return to the empty table (via the real calls)
			for o := uint64(1); o <= uint64(nOwners); o++ {
				_ = e.dbf[o].Flush(o)
				if wal {
					_ = e.shm[o].Flush(o)
				}
				e.refReleaseOwner(o)
			}
			for io, gs := range e.internal {
				gs.Unlock()
				e.refReleaseOwner(io)
				delete(e.internal, io)
			}
			if e.haltOwner != 0 {
				e.db.ReleaseHaltLock(context.Background(), e.haltID)
				e.refReleaseOwner(e.haltOwner)
				e.haltOwner = 0
			}
			if !e.compareStates("release-all") {
				return
			}
		}
		stateKey := e.tab.Key()
		// prefer an operation not yet tried in this state
		var cand []int
		for k := range ops {
			if !e.tried[stateKey+"|"+ops[k].name] {
				cand = append(cand, k)
			}
		}
		var k int
		if len(cand) > 0 && c.Rng.IntN(4) != 0 {
			k = cand[c.Rng.IntN(len(cand))]
		} else {
			k = c.Rng.IntN(len(ops))
		}
		e.tried[stateKey+"|"+ops[k].name] = true
		e.path = append(e.path, ops[k].name)
		c.Count("lock_ops", 1)
		if !ops[k].run() {
			return
		}
		if healthViolations(c, n, ops[k].name, map[string]any{"last_ops": e.path[maxInt(0, len(e.path)-40):]}) {
			return
		}
		if !e.compareStates(ops[k].name) {
			return
		}
		cls := ops[k].name
		if j := strings.Index(cls, "."); j > 0 && cls[0] == 'o' {
			cls = cls[j+1:]
		}
		c.Distinct(fmt.Sprintf("wal%v/%s|%s", wal, stateKey, cls))
	}
	if c.Index < 4 {
		c.Sample(map[string]any{"wal_mode": wal, "owners": nOwners, "first_ops": e.path[:minInt(40, len(e.path))], "final_table": e.tab.Key()})
	}
}

func maxInt(a, b int) int {
	if a > b {
		return a
	}
	return b
}
