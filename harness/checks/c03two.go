//go:build verif

package checks

import (
	"fmt"
	"path/filepath"
	"strings"
	"sync/atomic"
	"time"

	"verif/core"
	"verif/mon"
	"verif/pager"
	"verif/ref"
)

func init() {
	addFamily("C03", func(tier string) int {
		if tier == "thorough" {
			return 96
		}
		return 8
	}, runC03TwoWriters, " (+ two connections: a second connection waits for WAL_WRITE_LOCK while the first one's release is being processed (the capture of the first transaction is held at an OS-layer gate), then appends and commits its own transaction; every commit must become its own transaction file with exactly its pages, counters two_*)")
	chk := Registry["C03"]
	base := chk.Floors
	chk.Floors = func(tier string) map[string]int {
		m := map[string]int{}
		if base != nil {
			for k, v := range base(tier) {
				m[k] = v
			}
		}
		m["two_writer_rounds"] = 16
		return m
	}
}

// judgeLTXAt checks that the transaction file txid turns oldImg into want.
func judgeLTXAt(c *core.Case, dbDir string, txid uint64, preChk uint64, oldImg, want *ref.Image, ctx string, detail any) bool {
	prop := c.Prop
	path := filepath.Join(dbDir, "ltx", fmt.Sprintf("%016x-%016x.ltx", txid, txid))
	l, err := mon.DecodeLTX(path)
	if err != nil {
		c.Violate(prop+"/ltx-unreadable", fmt.Sprintf("transaction file %s: %v (%s)", filepath.Base(path), err, ctx), detail)
		return false
	}
	if uint64(l.Header.MinTXID) != txid || uint64(l.Header.MaxTXID) != txid {
		c.Violate(prop+"/ltx-txid", fmt.Sprintf("ltx header txids %d-%d, expected %d (%s)", l.Header.MinTXID, l.Header.MaxTXID, txid, ctx), detail)
	}
	if uint64(l.Header.PreApplyChecksum) != preChk {
		c.Violate(prop+"/ltx-prechecksum", fmt.Sprintf("ltx pre-apply checksum %x != checksum %x of the image before the transaction (%s)", uint64(l.Header.PreApplyChecksum), preChk, ctx), detail)
	}
	for _, p := range l.StructuralProblems() {
		c.Violate(prop+"/ltx-structure", p+" ("+ctx+")", detail)
	}
	if d := l.Apply(oldImg).Diff(want); d != "" {
		c.Violate(prop+"/ltx-image-mismatch", fmt.Sprintf("ltx %d applied to the image before the transaction differs from the image after it: %s (%s)", txid, d, ctx), detail)
	}
	if uint64(l.Trailer.PostApplyChecksum) != want.Checksum() {
		c.Violate(prop+"/ltx-postchecksum", fmt.Sprintf("ltx %d post-apply checksum %x != from-scratch checksum %x of the image after the transaction (%s)", txid, uint64(l.Trailer.PostApplyChecksum), want.Checksum(), ctx), detail)
	}
	return !c.Violated()
}

// runC03TwoWriters: connection A commits a WAL transaction; while LiteFS
// processes A's release of WAL_WRITE_LOCK (the capture is held at one of its
// file operations) connection B asks for the lock, and once it has it appends
// and commits a transaction of its own. SQLite's rule is that the lock is the
// writer's until the unlock call returns; LiteFS captures at that call. Two
// commits, two releases: two transaction files, each with its own pages.
func runC03TwoWriters(c *core.Case, k int) {
	ps := []uint32{1024, 4096, 512}[k%3]
	n, err := newPrimary(c.Dir+"/data", nil)
	if err != nil {
		c.Inconclusive("node start: " + err.Error())
		return
	}
	defer n.Close()
	d := pager.NewDB(n, "db", ps, c.Rng)
	d.BusyRetries = 50000
	A, err := d.Open(1)
	if err != nil {
		c.Violate("C03/op-refused/open", err.Error(), nil)
		return
	}
	defer A.Close()
	if res := A.RunRollbackTx(pager.RollbackSpec{Mode: "delete", Outcome: "commit", NewPageN: uint32(4 + c.Rng.IntN(8)), WALHeader: true}); res.Err != nil {
		c.Violate("C03/op-refused/"+res.ErrStep, res.Err.Error(), nil)
		return
	}
	if err := A.OpenWAL(); err != nil {
		c.Violate("C03/op-refused/open-wal", err.Error(), nil)
		return
	}
	B, err := d.Open(2)
	if err == nil {
		err = B.OpenWAL()
	}
	if err != nil {
		c.Violate("C03/op-refused/open-wal", "second connection: "+err.Error(), nil)
		return
	}
	defer B.Close()
	spec := func() pager.WALSpec {
		cur := d.M.PageN
		ws := pager.WALSpec{NewPageN: cur + uint32(c.Rng.IntN(2)), Outcome: "commit", SplitFrame: c.Rng.IntN(2) == 0}
		for i := 0; i < 1+c.Rng.IntN(3); i++ {
			ws.Frames = append(ws.Frames, pager.FrameSpec{Pgno: 2 + uint32(c.Rng.IntN(int(cur-1)))})
		}
		if ws.NewPageN > cur {
			ws.Frames = append(ws.Frames, pager.FrameSpec{Pgno: ws.NewPageN})
		}
		ws.Frames = append(ws.Frames, pager.FrameSpec{Pgno: 1})
		return ws
	}
	gateOp := []string{"COMMITWAL:LTX", "COMMITWAL:WAL", "COMMITWAL:DB"}[k%3]
	var hist []string
	for round := 0; round < 4 && !c.Violated(); round++ {
		prev, img0 := mon.PosOf(n, "db"), d.M
		entered := make(chan struct{}, 1)
		bDone := make(chan pager.TxResult, 1)
		var fired atomic.Bool
		n.OS.SetHook(func(op, kind, path string) error {
			if strings.HasPrefix(op, gateOp) && fired.CompareAndSwap(false, true) {
				entered <- struct{}{}
				select {
				case r := <-bDone: // (only if B got through while A's release is being processed)
					bDone <- r
				case <-time.After(30 * time.Millisecond):
				}
			}
			return nil
		})
		var imgA *ref.Image
		started := make(chan struct{})
		go func() {
			select {
			case <-entered:
			case <-time.After(20 * time.Second):
			}
			imgA = d.M // A's transaction is committed (its release is in progress)
			close(started)
			bDone <- B.RunWALTx(spec())
		}()
		sa := spec()
		byClose := k%4 == 3 && round%2 == 0
		if byClose {
			// the first connection does not unlock: its process ends (descriptors
			// closed while it holds the write lock); the capture happens at that release
			sa.ReleaseByClose = true
		}
		ra := A.RunWALTx(sa)
		var rb pager.TxResult
		select {
		case rb = <-bDone:
		case <-time.After(60 * time.Second):
			n.OS.SetHook(nil)
			c.Inconclusive("watchdog: the second connection did not finish")
			return
		}
		<-started
		n.OS.SetHook(nil)
		imgB := d.M
		hist = append(hist, fmt.Sprintf("round %d: A commits %d frames (%d pages, released by close: %v), B commits (%d pages), gate %s hit=%v", round, len(sa.Frames), imgA.PageN, byClose, imgB.PageN, gateOp, fired.Load()))
		detail := map[string]any{"page_size": ps, "gate": gateOp, "history": hist, "before": prev.String(), "after": mon.PosOf(n, "db").String()}
		ctx := fmt.Sprintf("two-writers round %d", round)
		c.Count("programs", 2)
		if healthViolations(c, n, ctx, detail) {
			return
		}
		for who, r := range map[string]pager.TxResult{"A": ra, "B": rb} {
			if r.Err != nil {
				c.Violate("C03/op-refused/"+r.ErrStep, fmt.Sprintf("LiteFS failed a legal SQLite step %q of connection %s: %v (%s)", r.ErrStep, who, r.Err, ctx), detail)
				return
			}
		}
		if !fired.Load() {
			c.Inconclusive("the gate operation " + gateOp + " was not reached")
			return
		}
		pos := mon.PosOf(n, "db")
		if pos.TXID != prev.TXID+2 {
			c.Violate("C03/commit-not-captured", fmt.Sprintf("two-writers: two connections committed one WAL transaction each (the second one waited for the write lock while the first one's release was processed); the position went from %s to %s instead of advancing by two", prev, pos), detail)
			return
		}
		dbDir := mon.DBDir(n, "db")
		if !judgeLTXAt(c, dbDir, prev.TXID+1, prev.Chk, img0, imgA, ctx+": first connection's transaction", detail) ||
			!judgeLTXAt(c, dbDir, prev.TXID+2, imgA.Checksum(), imgA, imgB, ctx+": second connection's transaction", detail) {
			return
		}
		if pos.Chk != imgB.Checksum() {
			c.Violate("C03/pos-checksum", fmt.Sprintf("reported checksum %x != from-scratch checksum %x (%s)", pos.Chk, imgB.Checksum(), ctx), detail)
			return
		}
		judgeSeen(c, n, "db", 1, imgB, ctx, detail)
		judgeRawChecksum(c, n, "db", ctx, detail)
		c.Count("two_writer_rounds", 1)
		c.Count("ltx_decoded", 2)
		if byClose {
			c.Count("two_writer_rounds_released_by_close", 1)
			var err error
			if A, err = d.Open(1); err == nil {
				err = A.OpenWAL()
			}
			if err != nil {
				c.Violate("C03/op-refused/reopen", "reopening the database after the writer's descriptors were closed: "+err.Error(), detail)
				return
			}
			defer A.Close()
		}
		if round%2 == 1 {
			// a checkpoint now and then so the log restarts
			if r := A.RunCheckpoint(pager.CheckpointSpec{Kind: "passive"}); r.Err != nil {
				c.Violate("C03/op-refused/"+r.ErrStep, fmt.Sprintf("checkpoint: %v (%s)", r.Err, ctx), detail)
				return
			}
		}
	}
	c.Distinct(fmt.Sprintf("two-writers/ps%d/%s", ps, gateOp))
}
