package checks

import (
	"bytes"
	"encoding/binary"
	"encoding/json"
	"errors"
	"fmt"
	"io"
	"math/rand/v2"
	"os"
	"os/exec"
	"path/filepath"
	"reflect"
	"runtime"
	"strings"
	"time"

	"github.com/superfly/litefs"
	lhttp "github.com/superfly/litefs/http"
	"github.com/superfly/ltx"
	"verif/core"
)

func init() {
	register(&core.Check{
		ID:    "C18",
		Level: "exploration",
		Rule: "generated values of all seven stream frame types, position maps and chunked bodies (payload sizes and write chunkings around 65535) are encoded with LiteFS's writers and decoded with its readers under read splitting (one byte at a time, random pieces, data together with EOF) and must round-trip; every proper prefix of every encoding and mutated/hostile encodings (length prefixes up to 0xFFFFFFFF) must yield an error, never a value, a panic or a hang; " +
			"hostile inputs are decoded in a child process (input written to disk first) whose total allocation must stay below 1 MiB + 64 x input bytes; ReadFullAt is compared with io.ReadFull on splitting ReaderAts; distinct = (codec, value class, reader kind / mutation) tuples",
		Assumptions: []string{"memory oracle = Go runtime TotalAlloc of a fresh child process"},
		NumCases: func(tier string) int {
			if tier == "thorough" {
				return 4000
			}
			return 240
		},
		EvalCounter:     "values",
		CaseTimeout:     90 * time.Second,
		HangIsViolation: true,
		Run:             runC18,
		Floors: func(tier string) map[string]int {
			m := map[string]int{"values": 20000, "prefixes_checked": 20000, "chunk_roundtrips": 500, "posmap_roundtrips": 500, "readfullat_checked": 500, "hostile_children": 40, "chunk_around_65535": 50}
			for _, t := range []string{"ltx", "ready", "end", "dropdb", "handoff", "hwm", "heartbeat"} {
				m["frame_"+t] = 1000
			}
			return m
		},
	})
}

// --- splitting readers --------------------------------------------------------

type oneByteReader struct{ r io.Reader }

func (o oneByteReader) Read(p []byte) (int, error) {
	if len(p) == 0 {
		return 0, nil
	}
	return o.r.Read(p[:1])
}

type randReader struct {
	r   io.Reader
	rng *rand.Rand
}

func (o randReader) Read(p []byte) (int, error) {
	if len(p) == 0 {
		return 0, nil
	}
	n := 1 + o.rng.IntN(len(p))
	if o.rng.IntN(5) == 0 {
		n = 1
	}
	return o.r.Read(p[:n])
}

// eofReader returns the final bytes together with io.EOF.
type eofReader struct {
	b []byte
}

func (o *eofReader) Read(p []byte) (int, error) {
	if len(o.b) == 0 {
		return 0, io.EOF
	}
	n := copy(p, o.b)
	o.b = o.b[n:]
	if len(o.b) == 0 {
		return n, io.EOF
	}
	return n, nil
}

func readers(b []byte, rng *rand.Rand) map[string]io.Reader {
	return map[string]io.Reader{
		"whole":   bytes.NewReader(b),
		"onebyte": oneByteReader{bytes.NewReader(b)},
		"random":  randReader{bytes.NewReader(b), rng},
		"eof":     &eofReader{b: append([]byte(nil), b...)},
	}
}

func randName(rng *rand.Rand) string {
	var n int
	switch rng.IntN(8) {
	case 0:
		n = 0
	case 1:
		n = 1
	case 2:
		n = 255 + rng.IntN(3)
	case 3:
		n = 65534 + rng.IntN(4)
	case 4:
		n = 100000 + rng.IntN(1000)
	default:
		n = rng.IntN(40)
	}
	b := make([]byte, n)
	for i := range b {
		b[i] = byte(rng.Uint32())
	}
	return string(b)
}

func randU64(rng *rand.Rand) uint64 {
	switch rng.IntN(6) {
	case 0:
		return 0
	case 1:
		return 1
	case 2:
		return 1<<63 - 1
	case 3:
		return 1 << 63
	case 4:
		return ^uint64(0)
	}
	return rng.Uint64()
}

func genFrame(rng *rand.Rand) (litefs.StreamFrame, string) {
	switch rng.IntN(7) {
	case 0:
		return &litefs.LTXStreamFrame{Size: int64(randU64(rng)), Name: randName(rng)}, "ltx"
	case 1:
		return &litefs.ReadyStreamFrame{}, "ready"
	case 2:
		return &litefs.EndStreamFrame{}, "end"
	case 3:
		return &litefs.DropDBStreamFrame{Name: randName(rng)}, "dropdb"
	case 4:
		return &litefs.HandoffStreamFrame{LeaseID: randName(rng)}, "handoff"
	case 5:
		return &litefs.HWMStreamFrame{TXID: ltx.TXID(randU64(rng)), Name: randName(rng)}, "hwm"
	}
	return &litefs.HeartbeatStreamFrame{Timestamp: int64(randU64(rng))}, "heartbeat"
}

func guard(c *core.Case, what string, detail any, f func()) (panicked bool) {
	defer func() {
		if r := recover(); r != nil {
			c.Violate("C18/panic/"+what, fmt.Sprintf("%s panicked: %v", what, r), detail)
			panicked = true
		}
	}()
	f()
	return false
}

func runC18(c *core.Case) {
	switch c.Index % 6 {
	case 0, 1:
		c18Frames(c)
	case 2:
		c18PosMap(c)
	case 3:
		c18Chunk(c)
	case 4:
		c18ReadFullAt(c)
	default:
		c18Hostile(c)
	}
}

func c18Frames(c *core.Case) {
	for i := 0; i < 260; i++ {
		f, typ := genFrame(c.Rng)
		var buf bytes.Buffer
		if err := litefs.WriteStreamFrame(&buf, f); err != nil {
			c.Violate("C18/frame-encode-error", err.Error(), typ)
			return
		}
		enc := buf.Bytes()
		c.Count("values", 1)
		c.Count("frame_"+typ, 1)
		for kind, r := range readers(enc, c.Rng) {
			var got litefs.StreamFrame
			var err error
			if guard(c, "ReadStreamFrame", typ, func() { got, err = litefs.ReadStreamFrame(r) }) {
				return
			}
			if err != nil {
				c.Violate("C18/frame-roundtrip-error/"+typ, fmt.Sprintf("%s frame failed to decode with the %s reader: %v", typ, kind, err), map[string]any{"encoding_head": fmt.Sprintf("%x", enc[:minInt(len(enc), 64)]), "len": len(enc)})
				return
			}
			if !reflect.DeepEqual(got, f) {
				c.Violate("C18/frame-roundtrip-differs/"+typ, fmt.Sprintf("%s frame decoded to a different value with the %s reader", typ, kind), map[string]any{"encoding_head": fmt.Sprintf("%x", enc[:minInt(len(enc), 64)]), "len": len(enc)})
				return
			}
			c.Distinct("frame/" + typ + "/" + kind + "/" + lenClass(len(enc)))
		}
		// every proper prefix is an error (sample prefixes for long encodings)
		step := 1
		if len(enc) > 300 {
			step = len(enc) / 150
		}
		for cut := 0; cut < len(enc); cut += step {
			var got litefs.StreamFrame
			var err error
			rk := []string{"whole", "onebyte", "eof"}[c.Rng.IntN(3)]
			if guard(c, "ReadStreamFrame(prefix)", typ, func() { got, err = litefs.ReadStreamFrame(readers(enc[:cut], c.Rng)[rk]) }) {
				return
			}
			c.Count("prefixes_checked", 1)
			if err == nil {
				c.Violate("C18/frame-prefix-accepted/"+typ, fmt.Sprintf("a %d-byte prefix of a %d-byte %s frame decoded without error to %T", cut, len(enc), typ, got), map[string]any{"prefix": fmt.Sprintf("%x", enc[:minInt(cut, 64)])})
				return
			}
			// io.EOF is what ReadStreamFrame answers at a frame boundary (a stream that
			// ended between frames); a frame cut short after its first byte must not
			// look like that to the caller
			if cut > 0 && err == io.EOF {
				c.Violate("C18/frame-prefix-reads-as-clean-end/"+typ, fmt.Sprintf("a %d-byte prefix of a %d-byte %s frame (reader %q) is reported as io.EOF, the value for a stream that ended cleanly between frames", cut, len(enc), typ, rk), map[string]any{"prefix": fmt.Sprintf("%x", enc[:minInt(cut, 64)])})
				return
			}
		}
		// a frame that could not be sent leaves nothing behind: the write to a
		// broken connection fails (at once, or after part of it), then another
		// frame goes out on a healthy connection and must arrive as written
		if i%4 == 0 {
			_ = litefs.WriteStreamFrame(&c18FailWriter{okBytes: c.Rng.IntN(len(enc) + 1)}, f)
			f2, typ2 := genFrame(c.Rng)
			var buf2 bytes.Buffer
			if err := litefs.WriteStreamFrame(&buf2, f2); err != nil {
				c.Violate("C18/frame-encode-error", err.Error(), typ2)
				return
			}
			var got litefs.StreamFrame
			var err error
			rd := bytes.NewReader(buf2.Bytes())
			if guard(c, "ReadStreamFrame", typ2, func() { got, err = litefs.ReadStreamFrame(rd) }) {
				return
			}
			c.Count("frames_after_failed_write", 1)
			if err != nil || !reflect.DeepEqual(got, f2) || rd.Len() != 0 {
				c.Violate("C18/frame-after-failed-write-differs/"+typ2, fmt.Sprintf("a %s frame could not be written to a broken connection; the %s frame written next to a healthy connection decoded to %T (%v) with %d bytes left over", typ, typ2, got, err, rd.Len()), map[string]any{"encoding_head": fmt.Sprintf("%x", buf2.Bytes()[:minInt(buf2.Len(), 64)])})
				return
			}
		}
		if i == 0 && c.Index < 6 {
			c.Sample(map[string]any{"codec": "frame", "type": typ, "encoded_len": len(enc), "head": fmt.Sprintf("%x", enc[:minInt(len(enc), 32)])})
		}
	}
}

// c18FailWriter accepts okBytes bytes, then fails (a connection that went away).
type c18FailWriter struct{ okBytes int }

func (w *c18FailWriter) Write(p []byte) (int, error) {
	if len(p) <= w.okBytes {
		w.okBytes -= len(p)
		return len(p), nil
	}
	n := w.okBytes
	w.okBytes = 0
	return n, io.ErrClosedPipe
}

func lenClass(n int) string {
	switch {
	case n < 16:
		return "tiny"
	case n < 300:
		return "small"
	case n < 65535:
		return "medium"
	default:
		return "large"
	}
}

func c18PosMap(c *core.Case) {
	for i := 0; i < 120; i++ {
		m := map[string]ltx.Pos{}
		n := []int{0, 1, 2, 5, 40}[c.Rng.IntN(5)]
		for j := 0; j < n; j++ {
			m[randName(c.Rng)] = ltx.Pos{TXID: ltx.TXID(randU64(c.Rng)), PostApplyChecksum: ltx.Checksum(randU64(c.Rng))}
		}
		var buf bytes.Buffer
		if err := lhttp.WritePosMapTo(&buf, m); err != nil {
			c.Violate("C18/posmap-encode-error", err.Error(), nil)
			return
		}
		enc := buf.Bytes()
		c.Count("values", 1)
		for kind, r := range readers(enc, c.Rng) {
			var got map[string]ltx.Pos
			var err error
			if guard(c, "ReadPosMapFrom", nil, func() { got, err = lhttp.ReadPosMapFrom(r) }) {
				return
			}
			if err != nil {
				c.Violate("C18/posmap-roundtrip-error", fmt.Sprintf("position map of %d entries failed to decode with the %s reader: %v", len(m), kind, err), nil)
				return
			}
			if !reflect.DeepEqual(got, m) {
				c.Violate("C18/posmap-roundtrip-differs", fmt.Sprintf("position map of %d entries decoded differently with the %s reader", len(m), kind), nil)
				return
			}
			c.Count("posmap_roundtrips", 1)
			c.Distinct(fmt.Sprintf("posmap/%d/%s", len(m), kind))
		}
		step := 1
		if len(enc) > 300 {
			step = len(enc) / 150
		}
		for cut := 0; cut < len(enc); cut += step {
			var err error
			if guard(c, "ReadPosMapFrom(prefix)", nil, func() { _, err = lhttp.ReadPosMapFrom(bytes.NewReader(enc[:cut])) }) {
				return
			}
			c.Count("prefixes_checked", 1)
			if err == nil {
				c.Violate("C18/posmap-prefix-accepted", fmt.Sprintf("a %d-byte prefix of a %d-byte position map (%d entries) decoded without error", cut, len(enc), len(m)), nil)
				return
			}
		}
	}
	c.Sample(map[string]any{"codec": "posmap"})
}

func c18Chunk(c *core.Case) {
	sizes := []int{0, 1, 2, 100, 65534, 65535, 65536, 65537, 131069, 131070, 131071, 200000, 1 << 20, 1<<20 + 1}
	for i := 0; i < 24; i++ {
		n := sizes[c.Rng.IntN(len(sizes))]
		if c.Rng.IntN(3) == 0 {
			n = c.Rng.IntN(300000)
		}
		payload := make([]byte, n)
		for j := 0; j+8 <= len(payload); j += 8 {
			binary.LittleEndian.PutUint64(payload[j:], c.Rng.Uint64())
		}
		var buf bytes.Buffer
		w := litefs.VerifNewChunkWriter(&buf)
		// write chunking
		mode := c.Rng.IntN(4)
		rest := payload
		var werr error
		for len(rest) > 0 && werr == nil {
			k := len(rest)
			switch mode {
			case 0:
			case 1:
				k = minInt(k, 1+c.Rng.IntN(70000))
			case 2:
				k = minInt(k, []int{65534, 65535, 65536, 65537}[c.Rng.IntN(4)])
			case 3:
				k = minInt(k, 1+c.Rng.IntN(10))
				if len(rest) > 4000 {
					k = minInt(len(rest), 3000+c.Rng.IntN(200000))
				}
			}
			var m int
			m, werr = w.Write(rest[:k])
			if werr == nil && m != k {
				c.Violate("C18/chunk-short-write", fmt.Sprintf("Write of %d bytes returned %d", k, m), nil)
				return
			}
			rest = rest[k:]
			if c.Rng.IntN(10) == 0 {
				_, _ = w.Write(nil) // a zero-length write must not emit an end marker
			}
		}
		if werr == nil {
			werr = w.Close()
		}
		if werr != nil {
			c.Violate("C18/chunk-encode-error", werr.Error(), nil)
			return
		}
		enc := buf.Bytes()
		c.Count("values", 1)
		if n >= 65530 && n <= 65540 || n >= 131065 && n <= 131075 {
			c.Count("chunk_around_65535", 1)
		}
		// followed by trailing data that must stay unread
		trailer := []byte{0xAA, 0xBB, 0xCC, 0xDD}
		full := append(append([]byte{}, enc...), trailer...)
		for kind, r := range readers(full, c.Rng) {
			var got []byte
			var err error
			cr := litefs.VerifNewChunkReader(r)
			if guard(c, "chunk.Reader", nil, func() { got, err = io.ReadAll(cr) }) {
				return
			}
			if err != nil {
				c.Violate("C18/chunk-roundtrip-error", fmt.Sprintf("chunked body of %d bytes (write mode %d) failed to decode with the %s reader: %v", n, mode, kind, err), nil)
				return
			}
			if !bytes.Equal(got, payload) {
				c.Violate("C18/chunk-roundtrip-differs", fmt.Sprintf("chunked body of %d bytes (write mode %d) decoded to %d bytes with the %s reader", n, mode, len(got), kind), nil)
				return
			}
			restb, _ := io.ReadAll(r)
			if kind != "eof" && !bytes.Equal(restb, trailer) {
				c.Violate("C18/chunk-overread", fmt.Sprintf("chunk reader consumed bytes beyond the end marker (%d of 4 trailing bytes left) with the %s reader", len(restb), kind), nil)
				return
			}
			c.Count("chunk_roundtrips", 1)
			c.Distinct(fmt.Sprintf("chunk/%s/mode%d/%s", lenClass(n), mode, kind))
		}
		// proper prefixes: never a clean EOF
		for k := 0; k < 60; k++ {
			cut := c.Rng.IntN(len(enc))
			if k < 8 {
				cut = []int{0, 1, 2, 3, len(enc) - 1, len(enc) - 2, len(enc) - 3, len(enc) / 2}[k]
				if cut < 0 || cut >= len(enc) {
					continue
				}
			}
			var err error
			var got []byte
			if guard(c, "chunk.Reader(prefix)", nil, func() { got, err = io.ReadAll(litefs.VerifNewChunkReader(bytes.NewReader(enc[:cut]))) }) {
				return
			}
			c.Count("prefixes_checked", 1)
			if err == nil {
				c.Violate("C18/chunk-prefix-accepted", fmt.Sprintf("a %d-byte prefix of a %d-byte chunked body (payload %d) ended with a clean EOF after %d payload bytes", cut, len(enc), n, len(got)), nil)
				return
			}
		}
	}
	c.Sample(map[string]any{"codec": "chunk"})
}

// splitReaderAt returns short reads.
type splitReaderAt struct {
	b   []byte
	rng *rand.Rand
	eof bool // return data together with io.EOF at the end
}

func (s *splitReaderAt) ReadAt(p []byte, off int64) (int, error) {
	if off >= int64(len(s.b)) {
		return 0, io.EOF
	}
	n := len(p)
	if n > 1 && s.rng.IntN(2) == 0 {
		n = 1 + s.rng.IntN(n)
	}
	m := copy(p[:n], s.b[off:])
	if off+int64(m) == int64(len(s.b)) && (s.eof || m < n) {
		return m, io.EOF
	}
	return m, nil
}

func c18ReadFullAt(c *core.Case) {
	for i := 0; i < 200; i++ {
		size := c.Rng.IntN(200)
		b := make([]byte, size)
		for j := range b {
			b[j] = byte(c.Rng.Uint32())
		}
		off := int64(c.Rng.IntN(size + 5))
		want := c.Rng.IntN(size + 10)
		ra := &splitReaderAt{b: b, rng: c.Rng, eof: c.Rng.IntN(2) == 0}
		buf := make([]byte, want)
		var n int
		var err error
		if guard(c, "ReadFullAt", nil, func() { n, err = litefs.VerifReadFullAt(ra, buf, off) }) {
			return
		}
		// reference: io.ReadFull on the section
		var sect []byte
		if off < int64(len(b)) {
			sect = b[off:]
		}
		ref := make([]byte, want)
		rn, rerr := io.ReadFull(bytes.NewReader(sect), ref)
		c.Count("readfullat_checked", 1)
		c.Count("values", 1)
		if n != rn || !errors.Is(err, rerr) && !(err == nil && rerr == nil) || !bytes.Equal(buf[:n], ref[:rn]) {
			c.Violate("C18/readfullat-differs", fmt.Sprintf("ReadFullAt(len=%d, off=%d) on %d bytes returned (%d, %v); io.ReadFull returns (%d, %v)", want, off, size, n, err, rn, rerr), nil)
			return
		}
		c.Distinct(fmt.Sprintf("readfullat/%v/%v", rerr, ra.eof))
	}
}

// --- hostile inputs in a child process --------------------------------------------

func c18Hostile(c *core.Case) {
	type hostile struct {
		kind string
		b    []byte
	}
	be32 := func(v uint32) []byte { b := make([]byte, 4); binary.BigEndian.PutUint32(b, v); return b }
	be64 := func(v uint64) []byte { b := make([]byte, 8); binary.BigEndian.PutUint64(b, v); return b }
	cat := func(parts ...[]byte) []byte { return bytes.Join(parts, nil) }
	bigs := []uint32{0xFFFFFFFF, 0x80000000, 0x7FFFFFFF, 0x40000000, 0x10000000}
	big := bigs[c.Rng.IntN(len(bigs))]
	tail := make([]byte, c.Rng.IntN(40))
	var inputs []hostile
	inputs = append(inputs,
		hostile{"frame", cat(be32(1), be64(0), be32(big), tail)}, // LTX frame, name length huge
		hostile{"frame", cat(be32(4), be32(big), tail)},          // DropDB
		hostile{"frame", cat(be32(5), be32(big), tail)},          // Handoff
		hostile{"frame", cat(be32(6), be64(7), be32(big), tail)}, // HWM
		hostile{"frame", cat(be32(c.Rng.Uint32()|8), tail)},      // unknown type
		hostile{"posmap", cat(be32(big), tail)},                  // entry count huge
		hostile{"posmap", cat(be32(1), be32(big), tail)},         // name length huge
		hostile{"posmap", cat(be32(3), be32(1), []byte("a"), be64(1), be64(2), be32(big))},
		hostile{"chunk", cat([]byte{0xFF, 0xFF}, tail)}, // chunk claims 65535 bytes
	)
	rb := make([]byte, 1+c.Rng.IntN(64))
	for i := range rb {
		rb[i] = byte(c.Rng.Uint32())
	}
	inputs = append(inputs, hostile{[]string{"frame", "posmap", "chunk"}[c.Rng.IntN(3)], rb})
	exe, _ := os.Executable()
	for i, h := range inputs {
		path := filepath.Join(c.Dir, fmt.Sprintf("hostile-%d.bin", i))
		if err := os.WriteFile(path, h.b, 0o644); err != nil {
			c.Inconclusive(err.Error())
			return
		}
		cmd := exec.Command(exe, "c18child", h.kind, path)
		cmd.Env = append(os.Environ(), "GOMEMLIMIT=off")
		var out, errb bytes.Buffer
		cmd.Stdout, cmd.Stderr = &out, &errb
		done := make(chan error, 1)
		_ = cmd.Start()
		go func() { done <- cmd.Wait() }()
		detail := map[string]any{"codec": h.kind, "input": fmt.Sprintf("%x", h.b[:minInt(len(h.b), 48)]), "input_len": len(h.b)}
		select {
		case err := <-done:
			c.Count("hostile_children", 1)
			c.Count("values", 1)
			if err != nil {
				msg := errb.String()
				fp := "child-died"
				if strings.Contains(msg, "out of memory") {
					fp = "out-of-memory"
				} else if strings.Contains(msg, "panic:") {
					fp = "panic"
				}
				detail["stderr_head"] = msg[:minInt(len(msg), 400)]
				c.Violate("C18/hostile-"+fp+"/"+h.kind, fmt.Sprintf("decoding a %d-byte hostile %s input killed the process (%s)", len(h.b), h.kind, fp), detail)
				return
			}
			var res struct {
				Err        string `json:"err"`
				TotalAlloc uint64 `json:"total_alloc"`
				Value      bool   `json:"value"`
			}
			_ = json.Unmarshal(out.Bytes(), &res)
			limit := uint64(1<<20 + 64*len(h.b))
			if res.TotalAlloc > limit {
				c.Violate("C18/hostile-memory/"+h.kind, fmt.Sprintf("decoding a %d-byte hostile %s input allocated %d bytes (limit %d)", len(h.b), h.kind, res.TotalAlloc, limit), detail)
				return
			}
			if res.Err == "" && i < 9 {
				c.Violate("C18/hostile-accepted/"+h.kind, fmt.Sprintf("a truncated hostile %s input decoded without error", h.kind), detail)
				return
			}
			c.Distinct(fmt.Sprintf("hostile/%s/%d/%x", h.kind, i, big))
		case <-time.After(30 * time.Second):
			_ = cmd.Process.Kill()
			c.Violate("C18/hostile-hang/"+h.kind, fmt.Sprintf("decoding a %d-byte hostile %s input did not finish within 30 s", len(h.b), h.kind), detail)
			return
		}
	}
	c.Sample(map[string]any{"codec": "hostile", "inputs": len(inputs)})
}

// C18Child decodes one input file and reports allocation (run as `vcheck c18child kind file`).
func C18Child(kind, path string) int {
	b, err := os.ReadFile(path)
	if err != nil {
		return 2
	}
	var ms0, ms1 runtime.MemStats
	runtime.ReadMemStats(&ms0)
	var derr error
	value := false
	switch kind {
	case "frame":
		var f litefs.StreamFrame
		f, derr = litefs.ReadStreamFrame(bytes.NewReader(b))
		value = f != nil
	case "posmap":
		var m map[string]ltx.Pos
		m, derr = lhttp.ReadPosMapFrom(bytes.NewReader(b))
		value = m != nil
	case "chunk":
		_, derr = io.ReadAll(litefs.VerifNewChunkReader(bytes.NewReader(b)))
	}
	runtime.ReadMemStats(&ms1)
	out := map[string]any{"total_alloc": ms1.TotalAlloc - ms0.TotalAlloc, "value": value}
	if derr != nil {
		out["err"] = derr.Error()
	}
	_ = json.NewEncoder(os.Stdout).Encode(out)
	return 0
}
