//go:build verif

package checks

// Floors for counters added late (round 8 and the side-note probes). This file
// sorts last, so every check is registered when its init runs.
func init() {
	extra := map[string]map[string]int{
		"C02": {"first_tx_rolled_back": 20, "mode_roundtrip_exclusive_from_shared": 10},
		"C04": {"page_size_65536_cases": 3},
		"C06": {"fork_replica_holds_first_file": 3},
		"C09": {"removals_checked_against_service": 30},
		"C10": {"hot_exports_http1": 5},
		"C20": {"holder_snapshot_tx_after_drop": 5, "holder_tx_apply_failed_early": 5},
		"C03": {"two_writer_rounds_released_by_close": 2, "commit_frame_padded": 100},
		"C01": {"last_connection_closed_before_change": 1},
		"C05": {"points_recreate-first-tx": 5, "points_wal-to-rollback": 5, "mode_after_recovery_checked": 300, "first_wal_tx_interrupted": 1},
		"C07": {"halt_acquire_failed_and_release_failed": 1, "import_demoted_during_upload": 1},
		"C08": {"loss_by_unanswered_renewal": 1, "handoff_to_node_zero_refused": 1},
		"C11": {"range_calls_refused": 50},
		"C12": {"range_concurrent_refusals": 3000, "range_racing_refusals": 1000},
		"C13": {"late_forward_to_former_primary_refused": 4},
		"C14": {"recreated_with_other_page_size": 2, "fresh_idle_primary_adopted_existing_service": 1, "background_refused_upload_then_commits_kept": 1},
		"C16": {"fault_refused_then_restart_old": 10},
		"C17": {"C_page0_frames": 30, "A_first_transaction": 100, "A_persist_journal_with_stale_segments": 100},
	}
	if chk := Registry["C03"]; chk != nil {
		addMountFloors(chk, func(tier string) map[string]int { return map[string]int{"kmount_wal_psow0_cases": 2} })
	}
	for id, add := range extra {
		chk := Registry[id]
		if chk == nil {
			continue
		}
		base, add := chk.Floors, add
		chk.Floors = func(tier string) map[string]int {
			m := map[string]int{}
			if base != nil {
				for k, v := range base(tier) {
					m[k] = v
				}
			}
			for k, v := range add {
				m[k] = v
			}
			return m
		}
	}
}
