package checks

// Driver B: the file system is mounted through the kernel and REAL SQLite
// (mattn/go-sqlite3, cgo) runs SQL on it. These cases are appended to the case
// lists of C01, C02 and C03 and feed the same kind of oracle as the simulator
// cases: every LTX file the primary produces is decoded and applied to an
// independent reference image; that image must carry the checksum the file and
// the position claim, must equal the logical image of the raw files, and - opened
// by a plain SQLite outside the mount - must pass integrity_check and hold the
// same content SQLite reads through the mount. Replicas are read through their
// own kernel mount (real page cache, real invalidations).
//
// If mounting does not work in the environment the cases count
// kmount_unavailable and decide nothing (no floor depends on them).

import (
	"bufio"
	"bytes"
	"context"
	"crypto/sha256"
	"database/sql"
	"encoding/json"
	"errors"
	"fmt"
	"io"
	"os"
	"os/exec"
	"path/filepath"
	"runtime"
	"sort"
	"strings"
	"sync"
	"sync/atomic"
	"syscall"
	"time"

	_ "github.com/mattn/go-sqlite3"
	"github.com/superfly/litefs"
	lfuse "github.com/superfly/litefs/fuse"
	lhttp "github.com/superfly/litefs/http"
	"verif/cluster"
	"verif/core"
	"verif/drv"
	"verif/mon"
	"verif/ref"
)

func init() {
	addKMount("C01", func(tier string) int {
		if tier == "thorough" {
			return 120
		}
		return 8
	}, func(c *core.Case, k int) { runKMount(c, "cluster", k) })
	addKMount("C02", func(tier string) int {
		if tier == "thorough" {
			return 160
		}
		return 10
	}, func(c *core.Case, k int) { runKMount(c, "rollback", k) })
	addKMount("C03", func(tier string) int {
		if tier == "thorough" {
			return 160
		}
		return 10
	}, func(c *core.Case, k int) { runKMount(c, "wal", k) })
	addKMount("C13", func(tier string) int {
		if tier == "thorough" {
			return 96
		}
		return 8
	}, runKMountC13)
	addKMount("C05", func(tier string) int {
		if tier == "thorough" {
			return 96
		}
		return 8
	}, runKMountC05)
	addKMount("C15", func(tier string) int {
		if tier == "thorough" {
			return 96
		}
		return 8
	}, runKMountC15)
	addKMount("C10", func(tier string) int {
		if tier == "thorough" {
			return 96
		}
		return 8
	}, runKMountC10)
	addKMount("C16", func(tier string) int {
		if tier == "thorough" {
			return 96
		}
		return 8
	}, runKMountC16)
	addKMount("C07", func(tier string) int {
		if tier == "thorough" {
			return 96
		}
		return 8
	}, runKMountC07)
}

// addKMount appends n(tier) driver-B cases to a registered check.
func addKMount(id string, n func(tier string) int, run func(c *core.Case, k int)) {
	addKMountCounter(id, n, run, "kmount_cases")
}

// addKMountCounter is addKMount with the name of the counter every case of the
// family increments once when the mount driver is available (its floor).
func addKMountCounter(id string, n func(tier string) int, run func(c *core.Case, k int), counter string) {
	chk := Registry[id]
	if chk == nil {
		return
	}
	baseN, baseRun := chk.NumCases, chk.Run
	chk.NumCases = func(tier string) int { return baseN(tier) + n(tier) }
	chk.Run = func(c *core.Case) {
		if b := baseN(c.Tier); c.Index >= b {
			run(c, c.Index-b)
			return
		}
		baseRun(c)
	}
	chk.Rule += " (+ driver B: the same oracles on real SQLite running SQL through a kernel mount of the file system, counters kmount_*)"
	addMountFloors(chk, func(tier string) map[string]int { return map[string]int{counter: n(tier)} })
}

// addMountFloors merges floors that only apply when the kernel-mount drivers ran.
func addMountFloors(chk *core.Check, f func(tier string) map[string]int) {
	prev := chk.MountFloors
	chk.MountFloors = func(tier string) map[string]int {
		out := map[string]int{}
		if prev != nil {
			for k, v := range prev(tier) {
				out[k] += v
			}
		}
		for k, v := range f(tier) {
			out[k] += v
		}
		return out
	}
}

var kmountProbe struct {
	once sync.Once
	ok   bool
	why  string
}

func kmountAvailable() (bool, string) {
	kmountProbe.once.Do(func() {
		if os.Getenv("VERIF_NO_KMOUNT") != "" {
			kmountProbe.why = "disabled by VERIF_NO_KMOUNT"
			return
		}
		dir, err := os.MkdirTemp(core.ScratchBase(), "verif-kprobe-")
		if err != nil {
			kmountProbe.why = err.Error()
			return
		}
		defer os.RemoveAll(dir)
		n, err := drv.NewNode(drv.Config{Dir: filepath.Join(dir, "n"), Candidate: true, KernelMount: true,
			Leaser: litefs.NewStaticLeaser(true, "localhost", "http://127.0.0.1:1")})
		if err != nil {
			kmountProbe.why = err.Error()
			return
		}
		defer n.Close()
		if _, err := os.ReadDir(n.MountDir()); err != nil {
			kmountProbe.why = "readdir on the mount: " + err.Error()
			return
		}
		kmountProbe.ok = true
	})
	return kmountProbe.ok, kmountProbe.why
}

// ---------------------------------------------------------------------------

// localSQL is an in-process SQLite connection. It is used (a) inside the SQL
// child process for everything that touches a kernel mount and (b) in the
// worker itself only for plain files outside any mount.
//
// SQLite must NOT run on the mount from the process that serves the mount:
// WAL mode maps the -shm file, and munmap/page-fault paths then wait for FUSE
// requests while holding the address space's mmap lock, which the serving
// goroutines of the same process need - a kernel-level self-deadlock that
// nothing but aborting the FUSE connection resolves (seen once, see DESIGN 5.4).
type localSQL struct {
	db   *sql.DB
	conn *sql.Conn
}

func openLocalSQL(path string, readOnly bool, params ...string) (*localSQL, error) {
	busy := "_busy_timeout=8000"
	for _, p := range params {
		if strings.HasPrefix(p, "_busy_timeout=") {
			busy = p
		}
	}
	dsn := "file:" + path + "?" + busy
	if readOnly {
		dsn += "&mode=ro"
	}
	for _, p := range params {
		if !strings.HasPrefix(p, "_busy_timeout=") {
			dsn += "&" + p
		}
	}
	db, err := sql.Open("sqlite3", dsn)
	if err != nil {
		return nil, err
	}
	db.SetMaxOpenConns(1)
	conn, err := db.Conn(context.Background())
	if err != nil {
		db.Close()
		return nil, err
	}
	return &localSQL{db: db, conn: conn}, nil
}

func (s *localSQL) close() {
	if s == nil {
		return
	}
	_ = s.conn.Close()
	_ = s.db.Close()
}

func (s *localSQL) exec(q string) error {
	ctx, cancel := context.WithTimeout(context.Background(), 60*time.Second)
	defer cancel()
	_, err := s.conn.ExecContext(ctx, q)
	return err
}

func (s *localSQL) queryString(q string) (string, error) {
	ctx, cancel := context.WithTimeout(context.Background(), 60*time.Second)
	defer cancel()
	var out string
	err := s.conn.QueryRowContext(ctx, q).Scan(&out)
	return out, err
}

// contentHash reads schema and every row of every table inside one read
// transaction and hashes them.
func (s *localSQL) contentHash() (string, error) {
	ctx, cancel := context.WithTimeout(context.Background(), 120*time.Second)
	defer cancel()
	tx, err := s.conn.BeginTx(ctx, &sql.TxOptions{ReadOnly: true})
	if err != nil {
		return "", err
	}
	defer func() { _ = tx.Rollback() }()
	h := sha256.New()
	rows, err := tx.QueryContext(ctx, "SELECT type, name, tbl_name, coalesce(sql,'') FROM sqlite_master ORDER BY name, type")
	if err != nil {
		return "", err
	}
	var tables []string
	for rows.Next() {
		var typ, name, tbl, q string
		if err := rows.Scan(&typ, &name, &tbl, &q); err != nil {
			rows.Close()
			return "", err
		}
		fmt.Fprintf(h, "%s|%s|%s|%s\n", typ, name, tbl, q)
		if typ == "table" && !strings.HasPrefix(name, "sqlite_") {
			tables = append(tables, name)
		}
	}
	if err := rows.Err(); err != nil {
		rows.Close()
		return "", err
	}
	rows.Close()
	sort.Strings(tables)
	n := 0
	for _, t := range tables {
		r, err := tx.QueryContext(ctx, "SELECT id, k, v FROM "+t+" ORDER BY id")
		if err != nil {
			return "", err
		}
		for r.Next() {
			var id, k int64
			var v []byte
			if err := r.Scan(&id, &k, &v); err != nil {
				r.Close()
				return "", err
			}
			fmt.Fprintf(h, "%s:%d:%d:%d:", t, id, k, len(v))
			h.Write(v)
			n++
		}
		if err := r.Err(); err != nil {
			r.Close()
			return "", err
		}
		r.Close()
	}
	return fmt.Sprintf("%d-tables/%d-rows/%x", len(tables), n, h.Sum(nil)[:10]), nil
}

// ---- SQL child process -------------------------------------------------------

type sqlReq struct {
	Op     string   `json:"op"` // open | exec | query1 | hash | close | unlink | truncate | pwrite | create
	H      int      `json:"h,omitempty"`
	Path   string   `json:"path,omitempty"`
	RO     bool     `json:"ro,omitempty"`
	Params []string `json:"params,omitempty"`
	Q      string   `json:"q,omitempty"`
	Size   int64    `json:"size,omitempty"` // truncate size / pwrite offset
	Data   []byte   `json:"data,omitempty"`
}

type sqlResp struct {
	Err string `json:"err,omitempty"`
	Val string `json:"val,omitempty"`
	H   int    `json:"h,omitempty"`
}

// SQLChild is the main loop of `vcheck sqlchild`: JSON requests on stdin, JSON
// replies on stdout. It ends when stdin closes.
func SQLChild() int {
	in := bufio.NewReaderSize(os.Stdin, 1<<20)
	out := json.NewEncoder(os.Stdout)
	conns := map[int]*localSQL{}
	files := map[int]*os.File{}
	bg := map[int]chan string{}
	next := 0
	for {
		line, err := in.ReadBytes('\n')
		if err != nil {
			for _, c := range conns {
				c.close()
			}
			return 0
		}
		var req sqlReq
		var resp sqlResp
		if err := json.Unmarshal(line, &req); err != nil {
			resp.Err = "bad request: " + err.Error()
			_ = out.Encode(resp)
			continue
		}
		c := conns[req.H]
		switch req.Op {
		case "open":
			s, err := openLocalSQL(req.Path, req.RO, req.Params...)
			if err != nil {
				resp.Err = err.Error()
			} else {
				next++
				conns[next] = s
				resp.H = next
			}
		case "close":
			if c != nil {
				c.close()
				delete(conns, req.H)
			}
		case "unlink":
			if err := os.Remove(req.Path); err != nil {
				resp.Err = err.Error()
			}
		case "truncate":
			if err := os.Truncate(req.Path, req.Size); err != nil {
				resp.Err = err.Error()
			}
		case "pwrite":
			f, err := os.OpenFile(req.Path, os.O_WRONLY, 0)
			if err == nil {
				_, err = f.WriteAt(req.Data, req.Size)
				if cerr := f.Close(); err == nil {
					err = cerr
				}
			}
			if err != nil {
				resp.Err = err.Error()
			}
		case "hold":
			// keep a plain read-only descriptor open (an application holding the file)
			f, err := os.Open(req.Path)
			if err != nil {
				resp.Err = err.Error()
			} else {
				next++
				files[next] = f
				resp.H = next
			}
		case "preadall":
			if f := files[req.H]; f == nil {
				resp.Err = "no such descriptor"
			} else if st, err := f.Stat(); err != nil {
				resp.Err = err.Error()
			} else {
				buf := make([]byte, st.Size())
				n, err := f.ReadAt(buf, 0)
				if err != nil && err != io.EOF {
					resp.Err = err.Error()
				} else {
					resp.Val = fmt.Sprintf("%d/%x", n, sha256.Sum256(buf[:n]))
				}
			}
		case "dropcaches":
			// ask the kernel to evict unused dentries and inodes (FUSE FORGET follows)
			if err := os.WriteFile("/proc/sys/vm/drop_caches", []byte("2"), 0o200); err != nil {
				resp.Err = err.Error()
			}
		case "stat":
			if st, err := os.Stat(req.Path); err != nil {
				resp.Err = err.Error()
			} else {
				resp.Val = fmt.Sprint(st.Size())
			}
		case "readdir":
			ents, err := os.ReadDir(req.Path)
			if err != nil {
				resp.Err = err.Error()
			} else {
				var names []string
				for _, e := range ents {
					names = append(names, e.Name())
				}
				sort.Strings(names)
				resp.Val = strings.Join(names, ",")
			}
		case "flock":
			// blocking POSIX write lock on one byte (F_SETLKW), kept until funlock
			f, err := os.OpenFile(req.Path, os.O_RDWR, 0)
			if err == nil {
				lk := syscall.Flock_t{Type: syscall.F_WRLCK, Whence: 0, Start: req.Size, Len: 1}
				if err = syscall.FcntlFlock(f.Fd(), syscall.F_SETLKW, &lk); err != nil {
					_ = f.Close()
				} else {
					next++
					files[next] = f
					resp.H = next
				}
			}
			if err != nil {
				resp.Err = err.Error()
			}
		case "funlock":
			if f := files[req.H]; f != nil {
				lk := syscall.Flock_t{Type: syscall.F_UNLCK, Whence: 0, Start: req.Size, Len: 1}
				if err := syscall.FcntlFlock(f.Fd(), syscall.F_SETLK, &lk); err != nil {
					resp.Err = err.Error()
				}
				_ = f.Close()
				delete(files, req.H)
			}
		case "create":
			f, err := os.OpenFile(req.Path, os.O_RDWR|os.O_CREATE|os.O_EXCL, 0o644)
			if err != nil {
				resp.Err = err.Error()
			} else {
				_ = f.Close()
			}
		case "exec_bg":
			// run a statement on connection H in the background (another
			// connection of this process goes on meanwhile); wait_bg collects it
			if c == nil {
				resp.Err = "no such connection"
				break
			}
			ch := make(chan string, 1)
			bg[req.H] = ch
			go func(c *localSQL, q string) {
				if err := c.exec(q); err != nil {
					ch <- err.Error()
				} else {
					ch <- ""
				}
			}(c, req.Q)
		case "poll_bg":
			if ch := bg[req.H]; ch == nil {
				resp.Err = "nothing in the background"
			} else {
				select {
				case r := <-ch:
					ch <- r
					resp.Val = "done"
				default:
					resp.Val = "running"
				}
			}
		case "wait_bg":
			if ch := bg[req.H]; ch == nil {
				resp.Err = "nothing in the background"
			} else {
				resp.Err = <-ch
				delete(bg, req.H)
			}
		case "exec", "query1", "hash":
			if c == nil {
				resp.Err = "no such connection"
				break
			}
			var err error
			switch req.Op {
			case "exec":
				err = c.exec(req.Q)
			case "query1":
				resp.Val, err = c.queryString(req.Q)
			case "hash":
				resp.Val, err = c.contentHash()
			}
			if err != nil {
				resp.Err = err.Error()
			}
		default:
			resp.Err = "unknown op"
		}
		if err := out.Encode(resp); err != nil {
			return 1
		}
	}
}

// sqlProc is the worker's handle on one SQL child process.
type sqlProc struct {
	mu   sync.Mutex
	cmd  *exec.Cmd
	in   io.WriteCloser
	out  *bufio.Reader
	dead bool
}

var errSQLChildTimeout = errors.New("SQL child did not answer in time (killed)")

func startSQLProc() (*sqlProc, error) {
	exe, err := os.Executable()
	if err != nil {
		return nil, err
	}
	cmd := exec.Command(exe, "sqlchild")
	cmd.Stderr = io.Discard
	in, err := cmd.StdinPipe()
	if err != nil {
		return nil, err
	}
	outp, err := cmd.StdoutPipe()
	if err != nil {
		return nil, err
	}
	if err := cmd.Start(); err != nil {
		return nil, err
	}
	return &sqlProc{cmd: cmd, in: in, out: bufio.NewReaderSize(outp, 1<<20)}, nil
}

func (p *sqlProc) stop() {
	if p == nil {
		return
	}
	p.mu.Lock()
	defer p.mu.Unlock()
	if !p.dead {
		p.dead = true
		_ = p.in.Close()
		done := make(chan struct{})
		go func() { _ = p.cmd.Wait(); close(done) }()
		select {
		case <-done:
		case <-time.After(5 * time.Second):
			_ = p.cmd.Process.Kill()
			<-done
		}
	}
}

// killNow ends the child at once (its file system is gone: SQLite would only
// spin in its retry loops). A call in flight returns with an error.
func (p *sqlProc) killNow() {
	if p != nil && p.cmd.Process != nil {
		_ = p.cmd.Process.Kill()
	}
}

func (p *sqlProc) call(req sqlReq) (sqlResp, error) {
	p.mu.Lock()
	defer p.mu.Unlock()
	if p.dead {
		return sqlResp{}, errors.New("SQL child is gone")
	}
	b, _ := json.Marshal(req)
	if _, err := p.in.Write(append(b, '\n')); err != nil {
		return sqlResp{}, err
	}
	type res struct {
		line []byte
		err  error
	}
	ch := make(chan res, 1)
	go func() {
		line, err := p.out.ReadBytes('\n')
		ch <- res{line, err}
	}()
	select {
	case r := <-ch:
		if r.err != nil {
			p.dead = true
			go func() { _ = p.cmd.Wait() }() // reap
			return sqlResp{}, fmt.Errorf("SQL child died: %w", r.err)
		}
		var resp sqlResp
		if err := json.Unmarshal(r.line, &resp); err != nil {
			return sqlResp{}, err
		}
		if resp.Err != "" {
			return resp, errors.New(resp.Err)
		}
		return resp, nil
	case <-time.After(150 * time.Second):
		p.dead = true
		_ = p.cmd.Process.Kill()
		go func() { _ = p.cmd.Wait() }()
		return sqlResp{}, errSQLChildTimeout
	}
}

// sqlDB is one SQLite connection living in a SQL child process.
type sqlDB struct {
	p *sqlProc
	h int
}

func (p *sqlProc) open(path string, readOnly bool, params ...string) (*sqlDB, error) {
	r, err := p.call(sqlReq{Op: "open", Path: path, RO: readOnly, Params: params})
	if err != nil {
		return nil, err
	}
	return &sqlDB{p: p, h: r.H}, nil
}

func (s *sqlDB) close() {
	if s != nil {
		_, _ = s.p.call(sqlReq{Op: "close", H: s.h})
	}
}
func (s *sqlDB) exec(q string) error {
	_, err := s.p.call(sqlReq{Op: "exec", H: s.h, Q: q})
	return err
}
func (s *sqlDB) queryString(q string) (string, error) {
	r, err := s.p.call(sqlReq{Op: "query1", H: s.h, Q: q})
	return r.Val, err
}
func (s *sqlDB) contentHash() (string, error) {
	r, err := s.p.call(sqlReq{Op: "hash", H: s.h})
	return r.Val, err
}

// ---------------------------------------------------------------------------

// ltxChain follows a node's ltx directory and rebuilds the image independently.
type ltxChain struct {
	dir   string
	img   *ref.Image
	pos   mon.PosKey
	files []string // every LTX file consumed so far, in order
	upto  []mon.PosKey
}

// advance consumes the files that appeared since the last call.
func (ch *ltxChain) advance() (newFiles int, problem string) {
	ents, _, err := mon.ListLTXDir(ch.dir)
	if err != nil {
		return 0, "list ltx dir: " + err.Error()
	}
	for _, e := range ents {
		if e.Max <= ch.pos.TXID {
			continue
		}
		path := filepath.Join(ch.dir, e.Name)
		f, err := mon.DecodeLTX(path)
		if err != nil {
			return newFiles, fmt.Sprintf("%s does not decode/verify: %v", e.Name, err)
		}
		if uint64(f.Header.MinTXID) != ch.pos.TXID+1 {
			return newFiles, fmt.Sprintf("%s starts at txid %d after position %s (gap or overlap)", e.Name, f.Header.MinTXID, ch.pos)
		}
		if ch.pos.TXID != 0 && uint64(f.Header.PreApplyChecksum) != ch.pos.Chk {
			return newFiles, fmt.Sprintf("%s pre-apply checksum %x != previous post-apply %x", e.Name, uint64(f.Header.PreApplyChecksum), ch.pos.Chk)
		}
		if p := f.StructuralProblems(); len(p) > 0 {
			return newFiles, fmt.Sprintf("%s: %s", e.Name, strings.Join(p, "; "))
		}
		ch.img = f.Apply(ch.img)
		if got := ch.img.Checksum(); got != uint64(f.Trailer.PostApplyChecksum) {
			return newFiles, fmt.Sprintf("applying %s to the reference image gives checksum %x, its trailer says %x", e.Name, got, uint64(f.Trailer.PostApplyChecksum))
		}
		ch.pos = mon.PosKey{TXID: uint64(f.Header.MaxTXID), Chk: uint64(f.Trailer.PostApplyChecksum)}
		ch.files = append(ch.files, path)
		ch.upto = append(ch.upto, ch.pos)
		newFiles++
	}
	return newFiles, ""
}

// imageAt rebuilds the image at an earlier position by replaying the files.
func (ch *ltxChain) imageAt(p mon.PosKey) *ref.Image {
	var img *ref.Image
	for i, path := range ch.files {
		f, err := mon.DecodeLTX(path)
		if err != nil {
			return nil
		}
		img = f.Apply(img)
		if ch.upto[i] == p {
			return img
		}
	}
	return nil
}

// plainHash opens an image with SQLite outside the mount.
func plainHash(dir string, img *ref.Image, tag string) (hash, integrity string, err error) {
	if img == nil || img.PageN == 0 {
		return "empty", "ok", nil
	}
	path := filepath.Join(dir, "plain-"+tag+".db")
	if err := os.WriteFile(path, img.Bytes(), 0o644); err != nil {
		return "", "", err
	}
	defer os.Remove(path)
	s, err := openLocalSQL(path, true, "immutable=1")
	if err != nil {
		return "", "", err
	}
	defer s.close()
	integrity, err = s.queryString("PRAGMA integrity_check")
	if err != nil {
		return "", "", fmt.Errorf("integrity_check: %w", err)
	}
	hash, err = s.contentHash()
	return hash, integrity, err
}

func isCorruptionErr(err error) bool {
	if err == nil {
		return false
	}
	m := strings.ToLower(err.Error())
	return strings.Contains(m, "malformed") || strings.Contains(m, "disk i/o") || strings.Contains(m, "not a database") || strings.Contains(m, "corrupt") || strings.Contains(m, "input/output")
}

func runKMount(c *core.Case, variant string, k int) {
	P0 := c.Prop
	if ok, why := kmountAvailable(); !ok {
		c.Count("kmount_unavailable", 1)
		if k == 0 {
			c.Sample(map[string]any{"kmount": "unavailable", "why": why})
		}
		return
	}
	c.Count("kmount_cases", 1)
	ps := []int{1024, 4096, 512, 8192, 2048, 16384}[c.Rng.IntN(6)]
	modes := []string{"delete", "truncate", "persist"}
	if variant == "wal" {
		modes = []string{"wal"}
	} else if variant == "cluster" {
		modes = []string{"delete", "wal", "truncate", "wal", "persist"}
	}
	mode := modes[k%len(modes)]
	autoVac := []int{0, 0, 1, 2}[c.Rng.IntN(4)]
	smallCache := c.Rng.IntN(2) == 0
	withReplica := variant == "cluster"
	steps := 40
	if c.Tier == "thorough" {
		steps = 90
	}
	opts := []cluster.NodeOpts{{Candidate: true, KernelMount: true}}
	if withReplica {
		opts = append(opts, cluster.NodeOpts{KernelMount: true})
	}
	cl, err := cluster.New(c.Dir, opts)
	if err != nil {
		c.Inconclusive(err.Error())
		return
	}
	defer cl.Close()
	if err := cl.Start(0); err != nil || cl.WaitPrimary(0, 10*time.Second) == nil {
		c.Inconclusive(fmt.Sprintf("primary start: %v", err))
		return
	}
	if withReplica {
		if err := cl.Start(1); err != nil || !cl.WaitConnected(1, 10*time.Second) {
			c.Inconclusive(fmt.Sprintf("replica start: %v", err))
			return
		}
	}
	P := cl.Nodes[0]
	var hist []string
	detail := func(extra map[string]any) map[string]any {
		h := hist
		if len(h) > 60 {
			h = h[len(h)-60:]
		}
		d := map[string]any{"driver": "B (kernel mount + real SQLite)", "variant": variant, "page_size": ps, "journal_mode": mode, "auto_vacuum": autoVac, "small_cache": smallCache, "sql_tail": h}
		for k, v := range extra {
			d[k] = v
		}
		return d
	}
	fail := func(fp, what string, extra map[string]any) {
		c.Violate(P0+"/kmount/"+fp, what, detail(extra))
	}
	wproc, err := startSQLProc()
	if err != nil {
		c.Inconclusive("SQL child: " + err.Error())
		return
	}
	defer func() { wproc.stop() }()
	// WAL mode, every other case: the application runs with synchronous=FULL on
	// a "device without powersafe overwrite" (URI parameter psow=0): SQLite then
	// repeats each commit frame to fill its sector
	var wparams []string
	padded := mode == "wal" && (k/len(modes))%2 == 1
	if padded {
		wparams = []string{"psow=0"}
		c.Count("kmount_wal_psow0_cases", 1)
	}
	w, err := wproc.open(filepath.Join(P.MountDir(), "db"), false, wparams...)
	if err != nil {
		fail("open", "cannot open the database through the mount: "+err.Error(), nil)
		return
	}
	chain := &ltxChain{dir: filepath.Join(mon.DBDir(P.Node, "db"), "ltx")}

	inTx := false
	inTxNow := func() bool { return inTx }
	// run executes one statement on the primary and judges the chain afterwards
	run := func(q string, mustChange bool) bool {
		hist = append(hist, q)
		before := mon.PosOf(P.Node, "db")
		err := w.exec(q)
		c.Count("kmount_statements", 1)
		if healthViolations(c, P.Node, "real SQLite: "+q, detail(nil)) {
			return false
		}
		if err != nil {
			fail("sql-error", fmt.Sprintf("statement failed on a healthy primary: %q: %v", q, err), nil)
			return false
		}
		n, prob := chain.advance()
		if prob != "" {
			fail("ltx-chain", "after "+q+": "+prob, nil)
			return false
		}
		c.Count("kmount_ltx_files", n)
		after := mon.PosOf(P.Node, "db")
		if after != chain.pos {
			fail("position", fmt.Sprintf("after %q the node reports %s but its newest transaction file ends at %s", q, after, chain.pos), nil)
			return false
		}
		if mustChange && after == before {
			fail("commit-not-captured", fmt.Sprintf("%q changed the database but no transaction was recorded (position stays %s)", q, after), nil)
			return false
		}
		// the raw files must hold exactly the reference image (C04's oracle);
		// inside an open transaction a cache spill legitimately puts uncommitted
		// pages into the database file (the hot journal undoes them)
		raw := mon.RawImage(mon.DBDir(P.Node, "db"))
		if d := chain.img.Diff(raw); d != "" && !inTxNow() {
			fail("raw-image", fmt.Sprintf("after %q the database files differ from the image rebuilt from the transaction files at %s: %s", q, after, d), nil)
			return false
		}
		c.Count("kmount_chain_checks", 1)
		return true
	}
	// content: what SQLite reads through the mount == a plain SQLite on the rebuilt image
	content := func(ctx string) (string, bool) {
		got, err := w.contentHash()
		if err != nil {
			fail("read-error", ctx+": reading through the primary's mount failed: "+err.Error(), nil)
			return "", false
		}
		want, integ, err := plainHash(c.Dir, chain.img, "p")
		if err != nil {
			fail("rebuilt-image-unreadable", fmt.Sprintf("%s: the image rebuilt from the transaction files at %s cannot be read by SQLite: %v", ctx, chain.pos, err), nil)
			return "", false
		}
		if integ != "ok" {
			fail("rebuilt-image-integrity", fmt.Sprintf("%s: integrity_check of the image rebuilt from the transaction files at %s: %s", ctx, chain.pos, integ), nil)
			return "", false
		}
		if got != want {
			fail("content-differs", fmt.Sprintf("%s: SQLite reads %s through the mount but the image rebuilt from the transaction files at %s holds %s", ctx, got, chain.pos, want), nil)
			return "", false
		}
		c.Count("kmount_content_checks", 1)
		return got, true
	}

	// replica reader: continuous reads through the replica's own kernel mount
	type rsample struct {
		before, after mon.PosKey
		hash          string
		err           error
	}
	var samples []rsample
	var smu sync.Mutex
	var stop atomic.Bool
	var rwg sync.WaitGroup
	var R *cluster.CNode
	rrng := c.SubRng("reader-pacing")
	startReader := func() {
		R = cl.Nodes[1]
		rproc, err := startSQLProc()
		if err != nil {
			return
		}
		rwg.Add(1)
		go func() {
			defer rwg.Done()
			defer rproc.stop()
			for !stop.Load() {
				if mon.PosOf(R.Node, "db").TXID == 0 {
					time.Sleep(2 * time.Millisecond)
					continue
				}
				// a fresh connection per read: an idle WAL-mode connection keeps the
				// database SHARED lock for its whole life, and if the primary
				// meanwhile switches the database to a rollback-journal mode the
				// replica's apply (which then needs that lock exclusively) waits for
				// the application to close it - LiteFS cannot pre-empt application
				// locks, so that wait is not judged here
				r, err := rproc.open(filepath.Join(R.MountDir(), "db"), true)
				if err != nil {
					time.Sleep(2 * time.Millisecond)
					continue
				}
				b := mon.PosOf(R.Node, "db")
				h, err := r.contentHash()
				a := mon.PosOf(R.Node, "db")
				r.close()
				smu.Lock()
				if len(samples) < 400 {
					samples = append(samples, rsample{b, a, h, err})
				}
				smu.Unlock()
				// leave gaps: a reader that re-takes SHARED back to back starves the
				// replica's apply (which polls for the exclusive lock)
				time.Sleep(time.Duration(10+rrng.IntN(30)) * time.Millisecond)
			}
		}()
	}
	defer func() { stop.Store(true); rwg.Wait() }()

	// ---- setup
	for _, q := range []string{fmt.Sprintf("PRAGMA page_size=%d", ps), fmt.Sprintf("PRAGMA auto_vacuum=%d", autoVac)} {
		if err := w.exec(q); err != nil {
			fail("sql-error", q+": "+err.Error(), nil)
			return
		}
	}
	if jm, err := w.queryString("PRAGMA journal_mode=" + mode); err != nil || !strings.EqualFold(jm, mode) {
		fail("journal-mode", fmt.Sprintf("PRAGMA journal_mode=%s answered %q, %v", mode, jm, err), nil)
		return
	}
	hist = append(hist, "PRAGMA journal_mode="+mode)
	if padded {
		_ = w.exec("PRAGMA synchronous=FULL")
		hist = append(hist, "opened with psow=0; PRAGMA synchronous=FULL")
	}
	if smallCache {
		_ = w.exec("PRAGMA cache_size=6")
	}
	if !run("CREATE TABLE t0(id INTEGER PRIMARY KEY, k INTEGER, v BLOB)", true) {
		return
	}
	if withReplica {
		startReader()
	}
	heldFD := 0
	tables := []string{"t0"}
	nextID := map[string]int{"t0": 1}
	curMode := mode
	for step := 0; step < steps && !c.Violated(); step++ {
		t := tables[c.Rng.IntN(len(tables))]
		q, must := "", true
		switch r := c.Rng.IntN(100); {
		case r < 34:
			n := []int{10, 200, 900, 3000, 20000, 70000}[c.Rng.IntN(6)]
			q = fmt.Sprintf("INSERT INTO %s(id,k,v) VALUES(%d,%d,randomblob(%d))", t, nextID[t], c.Rng.IntN(1000), n)
			nextID[t]++
		case r < 46:
			q = fmt.Sprintf("INSERT OR IGNORE INTO %s(id,k,v) SELECT id+%d, k, randomblob(%d) FROM %s LIMIT %d", t, 1000000+step*1000, 50+c.Rng.IntN(400), t, 1+c.Rng.IntN(30))
			must = false
		case r < 58:
			q = fmt.Sprintf("UPDATE %s SET v=randomblob(%d), k=k+1 WHERE id%%%d=0", t, 20+c.Rng.IntN(3000), 1+c.Rng.IntN(4))
			must = false
		case r < 68:
			q = fmt.Sprintf("DELETE FROM %s WHERE id%%%d=%d", t, 2+c.Rng.IntN(3), c.Rng.IntN(2))
			must = false
		case r < 72 && !inTx:
			q, must = "VACUUM", false
		case r < 75 && !inTx && autoVac == 2:
			q, must = fmt.Sprintf("PRAGMA incremental_vacuum(%d)", 1+c.Rng.IntN(20)), false
		case r < 80 && !inTx:
			q, must = "BEGIN IMMEDIATE", false
			inTx = true
		case r < 88 && inTx:
			if c.Rng.IntN(4) == 0 {
				q = "ROLLBACK"
			} else {
				q = "COMMIT"
			}
			must, inTx = false, false
		case r < 91 && !inTx && len(tables) < 4:
			nt := fmt.Sprintf("t%d", len(tables))
			q = fmt.Sprintf("CREATE TABLE %s(id INTEGER PRIMARY KEY, k INTEGER, v BLOB)", nt)
			tables = append(tables, nt)
			nextID[nt] = 1
		case r < 93 && !inTx:
			q, must = fmt.Sprintf("CREATE INDEX IF NOT EXISTS i_%s_%d ON %s(k)", t, c.Rng.IntN(2), t), false
		case r < 96 && !inTx && curMode == "wal":
			q, must = fmt.Sprintf("PRAGMA wal_checkpoint(%s)", pick(c, []string{"PASSIVE", "FULL", "RESTART", "TRUNCATE"})), false
		case r < 98 && !inTx && variant != "rollback" && c.Tier == "thorough":
			// journal-mode switch in both directions
			if curMode == "wal" {
				curMode = pick(c, []string{"delete", "truncate", "persist"})
			} else {
				curMode = "wal"
			}
			q, must = "PRAGMA journal_mode="+curMode, false
			c.Count("kmount_mode_switches", 1)
		default:
			q = fmt.Sprintf("INSERT INTO %s(id,k,v) VALUES(%d,%d,zeroblob(%d))", t, nextID[t], step, c.Rng.IntN(5000))
			nextID[t]++
		}
		if !inTx && q != "COMMIT" && q != "ROLLBACK" && step > 4 && c.Rng.IntN(14) == 0 {
			// The application process dies in the middle of a transaction (SIGKILL:
			// descriptors closed by the kernel, hot journal or uncommitted frames
			// left) and a new process opens the database: SQLite's own recovery
			// runs through the mount. Nothing of the dead transaction may show.
			h0, err := w.contentHash()
			if err != nil {
				fail("read-error", err.Error(), nil)
				return
			}
			img0 := chain.img.Clone()
			pos0 := chain.pos
			_ = w.exec("BEGIN IMMEDIATE")
			for i := 0; i < 2+c.Rng.IntN(4); i++ {
				_ = w.exec(fmt.Sprintf("INSERT INTO %s(id,k,v) VALUES(%d,%d,randomblob(%d))", t, 5000000+step*100+i, step, 500+c.Rng.IntN(30000)))
			}
			_ = w.exec(fmt.Sprintf("UPDATE %s SET k=k+1", t))
			wproc.killNow()
			wproc.stop()
			hist = append(hist, "application process killed inside a transaction; a new one opens the database")
			if wproc, err = startSQLProc(); err != nil {
				c.Inconclusive("SQL child: " + err.Error())
				return
			}
			if w, err = wproc.open(filepath.Join(P.MountDir(), "db"), false, wparams...); err != nil {
				fail("open-after-client-crash", err.Error(), nil)
				return
			}
			if curMode != "wal" {
				_, _ = w.queryStringOrExec("PRAGMA journal_mode=" + curMode)
			}
			if smallCache {
				_ = w.exec("PRAGMA cache_size=6")
			}
			h1, err := w.contentHash()
			if healthViolations(c, P.Node, "recovery by a new client", detail(nil)) {
				return
			}
			if err != nil {
				fail("read-after-client-crash", fmt.Sprintf("the new client cannot read the database after the old one died mid-transaction: %v", err), nil)
				return
			}
			if h1 != h0 {
				fail("client-crash-changed-content", fmt.Sprintf("the old client died inside an uncommitted transaction; the new client reads %s, before the transaction the content was %s", h1, h0), nil)
				return
			}
			if _, prob := chain.advance(); prob != "" {
				fail("ltx-chain", "after recovery by a new client: "+prob, nil)
				return
			}
			if chain.pos.TXID > pos0.TXID+1 {
				fail("client-crash-published", fmt.Sprintf("an uncommitted transaction of a dead client moved the position %s -> %s", pos0, chain.pos), nil)
				return
			}
			if d := chain.img.Diff(img0); d != "" {
				// free pages SQLite did not journal may differ in bytes; the content must not
				if _, integ, err := plainHash(c.Dir, chain.img, "cc"); err != nil || integ != "ok" {
					fail("client-crash-changed-image", fmt.Sprintf("after a dead client's transaction was rolled back the image at %s differs from the image before (%s) and fails integrity_check: %q %v", chain.pos, d, integ, err), nil)
					return
				}
				c.Count("kmount_client_crash_image_bytes_differ", 1)
			}
			if mon.PosOf(P.Node, "db") != chain.pos {
				fail("position", fmt.Sprintf("node reports %s, newest transaction file ends at %s", mon.PosOf(P.Node, "db"), chain.pos), nil)
				return
			}
			c.Count("kmount_client_crashes", 1)
		}
		if inTx && q != "BEGIN IMMEDIATE" {
			must = false
		}
		if !run(q, must) {
			return
		}
		if (step%10 == 9 || step == steps-1) && !inTx {
			h, ok := content(fmt.Sprintf("step %d", step))
			if !ok {
				return
			}
			if withReplica {
				ok, _, timedOut := cl.WaitConverged(P, R, []string{"db"}, 8, 30*time.Second)
				if timedOut {
					if os.Getenv("VERIF_KDEBUG") != "" {
						buf := make([]byte, 1<<22)
						buf = buf[:runtime.Stack(buf, true)]
						_ = os.WriteFile(fmt.Sprintf("/dev/shm/kstall-%d.txt", c.Index), buf, 0o644)
					}
					c.Inconclusive("replica convergence watchdog")
					return
				}
				if !ok {
					fail("replica-not-converged", fmt.Sprintf("the replica is at %s, the primary at %s", mon.PosOf(R.Node, "db"), mon.PosOf(P.Node, "db")), nil)
					return
				}
				r, err := wproc.open(filepath.Join(R.MountDir(), "db"), true)
				if err != nil {
					fail("replica-open", err.Error(), nil)
					return
				}
				rh, err := r.contentHash()
				r.close()
				if err != nil {
					fail("replica-read-error", fmt.Sprintf("reading through the replica's mount at %s failed: %v", mon.PosOf(R.Node, "db"), err), nil)
					return
				}
				if rh != h {
					// diagnosis for the report: is it the replica's files or only what the
					// kernel serves (page cache, mapped -shm)?
					diag := map[string]any{"replica_pos": mon.PosOf(R.Node, "db").String(), "primary_pos": mon.PosOf(P.Node, "db").String()}
					rraw := mon.RawImage(mon.DBDir(R.Node, "db"))
					diag["replica_raw_files_vs_chain_image"] = chain.img.Diff(rraw)
					if hh, integ, err := plainHash(c.Dir, rraw, "rdiag"); err == nil {
						diag["replica_raw_files_read_by_plain_sqlite"] = hh + " integrity=" + integ
					}
					if b, err := os.ReadFile(filepath.Join(mon.DBDir(R.Node, "db"), "shm")); err == nil && len(b) >= 136 {
						diag["replica_shm_header_hex"] = fmt.Sprintf("%x", b[:136])
					}
					if st, err := os.Stat(filepath.Join(mon.DBDir(R.Node, "db"), "wal")); err == nil {
						diag["replica_wal_bytes"] = st.Size()
					}
					if r2, err := wproc.open(filepath.Join(R.MountDir(), "db"), true); err == nil {
						h2, e2 := r2.contentHash()
						r2.close()
						diag["second_read_same_caches"] = fmt.Sprintf("%s %v", h2, e2)
					}
					_ = os.WriteFile("/proc/sys/vm/drop_caches", []byte("3"), 0o200)
					if r3, err := wproc.open(filepath.Join(R.MountDir(), "db"), true); err == nil {
						h3, e3 := r3.contentHash()
						r3.close()
						diag["third_read_after_drop_caches"] = fmt.Sprintf("%s %v", h3, e3)
					}
					fail("replica-content-differs", fmt.Sprintf("at %s SQLite reads %s through the replica's mount, the primary holds %s", mon.PosOf(R.Node, "db"), rh, h), diag)
					return
				}
				c.Count("kmount_replica_reads_converged", 1)
				// an application that keeps the database open on the replica while the
				// kernel evicts other, unused inodes of the mount (the -pos file was
				// looked up once): pages it has cached must still be invalidated
				rpos := mon.PosOf(R.Node, "db")
				if heldFD == 0 {
					if hr, err := wproc.call(sqlReq{Op: "hold", Path: filepath.Join(R.MountDir(), "db")}); err == nil {
						heldFD = hr.H
						_, _ = wproc.call(sqlReq{Op: "preadall", H: heldFD})
						_, _ = wproc.call(sqlReq{Op: "stat", Path: filepath.Join(R.MountDir(), "db-pos")})
						if _, err := wproc.call(sqlReq{Op: "dropcaches"}); err == nil {
							c.Count("kmount_kernel_cache_evictions", 1)
						}
					}
				} else if want := chain.imageAt(rpos); want != nil {
					if pr, err := wproc.call(sqlReq{Op: "preadall", H: heldFD}); err == nil {
						wb := want.Bytes()
						if exp := fmt.Sprintf("%d/%x", len(wb), sha256.Sum256(wb)); pr.Val != exp {
							fail("stale-pages-through-open-descriptor", fmt.Sprintf("an application holding the database open on the replica reads %s through its descriptor at position %s; the primary's image at that position is %s", pr.Val, rpos, exp), nil)
							return
						}
						c.Count("kmount_held_descriptor_reads", 1)
					}
				}
			}
		}
	}
	if inTx {
		_ = run("COMMIT", false)
	}
	if c.Violated() {
		return
	}
	if _, ok := content("end"); !ok {
		return
	}
	// judge the concurrent replica reads: each must be the content of one
	// position between the positions sampled around it
	if withReplica {
		stop.Store(true)
		rwg.Wait()
		healthViolations(c, R.Node, "replica (real SQLite reads)", detail(nil))
		hashAt := map[mon.PosKey]string{}
		for i, s := range samples {
			if s.err != nil {
				if isCorruptionErr(s.err) {
					fail("replica-read-corrupt", fmt.Sprintf("a read through the replica's mount between %s and %s failed with %v", s.before, s.after, s.err), nil)
					return
				}
				c.Count("kmount_replica_read_errors_other", 1)
				continue
			}
			okRead := false
			var tried []string
			for j, p := range chain.upto {
				if p.TXID < s.before.TXID || p.TXID > s.after.TXID {
					continue
				}
				h, seen := hashAt[p]
				if !seen {
					var err error
					h, _, err = plainHash(c.Dir, chain.imageAt(p), fmt.Sprintf("r%d-%d", i, j))
					if err != nil {
						h = "unreadable: " + err.Error()
					}
					hashAt[p] = h
				}
				tried = append(tried, p.String()+"="+h)
				if h == s.hash {
					okRead = true
					break
				}
			}
			if !okRead && len(tried) > 0 {
				fail("replica-read-not-a-committed-state", fmt.Sprintf("a read through the replica's mount while it moved from %s to %s returned %s, which is the content of none of the positions in between (%s)", s.before, s.after, s.hash, strings.Join(tried, ", ")), nil)
				return
			}
			if okRead {
				c.Count("kmount_replica_reads_judged", 1)
			}
		}
	}
	c.Distinct(fmt.Sprintf("kmount/%s/%s/ps%d/av%d/cache%v", variant, mode, ps, autoVac, smallCache))
	if k < 2 {
		c.Sample(detail(map[string]any{"final_pos": chain.pos.String(), "ltx_files": len(chain.files)}))
	}
}

// runKMountC07: a replica mounted through the kernel; real SQLite and plain
// file system calls issued by an application process try to change the
// database there. Everything must be refused or be a no-op: image, position and
// log stay what they were, and the replica goes on following the primary.
// Then the primary loses its lease in the middle of a real SQLite transaction.
func runKMountC07(c *core.Case, k int) {
	if ok, why := kmountAvailable(); !ok {
		c.Count("kmount_unavailable", 1)
		if k == 0 {
			c.Sample(map[string]any{"kmount": "unavailable", "why": why})
		}
		return
	}
	c.Count("kmount_cases", 1)
	mode := []string{"delete", "wal", "truncate", "wal", "persist", "wal"}[k%6]
	ps := []int{1024, 4096, 512}[c.Rng.IntN(3)]
	cl, err := cluster.New(c.Dir, []cluster.NodeOpts{{Candidate: true, KernelMount: true}, {KernelMount: true}})
	if err != nil {
		c.Inconclusive(err.Error())
		return
	}
	defer cl.Close()
	if err := cl.Start(0); err != nil || cl.WaitPrimary(0, 10*time.Second) == nil {
		c.Inconclusive(fmt.Sprintf("primary start: %v", err))
		return
	}
	if err := cl.Start(1); err != nil || !cl.WaitConnected(1, 10*time.Second) {
		c.Inconclusive(fmt.Sprintf("replica start: %v", err))
		return
	}
	P, R := cl.Nodes[0], cl.Nodes[1]
	var hist []string
	detail := func(extra map[string]any) map[string]any {
		d := map[string]any{"driver": "B (kernel mount + real SQLite)", "journal_mode": mode, "page_size": ps, "ops": hist}
		for k, v := range extra {
			d[k] = v
		}
		return d
	}
	proc, err := startSQLProc()
	if err != nil {
		c.Inconclusive("SQL child: " + err.Error())
		return
	}
	defer proc.stop()
	w, err := proc.open(filepath.Join(P.MountDir(), "db"), false)
	if err != nil {
		c.Violate("C07/kmount/open", err.Error(), detail(nil))
		return
	}
	for _, q := range []string{fmt.Sprintf("PRAGMA page_size=%d", ps), "PRAGMA journal_mode=" + mode, "CREATE TABLE t0(id INTEGER PRIMARY KEY, k INTEGER, v BLOB)"} {
		if _, err := w.queryStringOrExec(q); err != nil {
			c.Violate("C07/kmount/setup", q+": "+err.Error(), detail(nil))
			return
		}
	}
	for i := 1; i <= 4+c.Rng.IntN(4); i++ {
		if err := w.exec(fmt.Sprintf("INSERT INTO t0 VALUES(%d,%d,randomblob(%d))", i, i, 100+c.Rng.IntN(5000))); err != nil {
			c.Violate("C07/kmount/setup", err.Error(), detail(nil))
			return
		}
	}
	if ok, _, timedOut := cl.WaitConverged(P, R, []string{"db"}, 8, 30*time.Second); !ok {
		if timedOut {
			c.Inconclusive("replica convergence watchdog")
		} else {
			c.Violate("C07/kmount/setup", "replica did not converge", detail(nil))
		}
		return
	}
	want, err := w.contentHash()
	if err != nil {
		c.Violate("C07/kmount/setup", err.Error(), detail(nil))
		return
	}
	rdb := filepath.Join(R.MountDir(), "db")
	before := c07Snapshot(R.Node, "db")
	type op struct {
		name string
		run  func() error
		must bool // must return an error
	}
	var rconn *sqlDB
	sqlOp := func(q string, must bool) op {
		return op{"sql: " + q, func() error {
			if rconn == nil {
				var err error
				if rconn, err = proc.open(rdb, false); err != nil {
					return err
				}
			}
			_, err := rconn.queryStringOrExec(q)
			return err
		}, must}
	}
	ops := []op{
		sqlOp("INSERT INTO t0 VALUES(1000,1,randomblob(3000))", true),
		sqlOp("UPDATE t0 SET k=k+1", true),
		sqlOp("DELETE FROM t0", true),
		sqlOp("CREATE TABLE t9(a)", true),
		sqlOp("VACUUM", true),
		sqlOp("PRAGMA journal_mode=delete", false),
		sqlOp("PRAGMA journal_mode=wal", false),
		sqlOp("PRAGMA wal_checkpoint(TRUNCATE)", false),
		// inside an explicit transaction a statement may succeed in SQLite's page
		// cache; some statement up to and including COMMIT must fail
		{"sql: BEGIN IMMEDIATE; INSERT; COMMIT", func() error {
			var first error
			for _, q := range []string{"BEGIN IMMEDIATE", "INSERT INTO t0 VALUES(1001,1,zeroblob(10))", "COMMIT"} {
				if err := sqlOp(q, false).run(); err != nil && first == nil {
					first = fmt.Errorf("%s: %w", q, err)
				}
			}
			_ = sqlOp("ROLLBACK", false).run()
			return first
		}, true},
		{"sql: BEGIN; INSERT; ROLLBACK", func() error {
			for _, q := range []string{"BEGIN", "INSERT INTO t0 VALUES(1002,1,zeroblob(10))", "ROLLBACK"} {
				_ = sqlOp(q, false).run()
			}
			return nil
		}, false},
		{"truncate db to 0", func() error { _, err := proc.call(sqlReq{Op: "truncate", Path: rdb, Size: 0}); return err }, true},
		{"pwrite db page 2", func() error {
			_, err := proc.call(sqlReq{Op: "pwrite", Path: rdb, Size: int64(ps), Data: make([]byte, ps)})
			return err
		}, true},
		{"create db-journal", func() error { _, err := proc.call(sqlReq{Op: "create", Path: rdb + "-journal"}); return err }, true},
		{"unlink db", func() error { _, err := proc.call(sqlReq{Op: "unlink", Path: rdb}); return err }, true},
		{"unlink db-wal", func() error {
			// never under an open connection: SQLite forbids removing the log
			// beneath a live connection (LiteFS then stops at that connection's
			// next write attempt because the log it must inspect is gone)
			if rconn != nil {
				rconn.close()
				rconn = nil
			}
			_, err := proc.call(sqlReq{Op: "unlink", Path: rdb + "-wal"})
			return err
		}, false},
		// a new, empty database may be created on a replica (it is not a
		// replicated database); it must stay unpublished
		{"create newdb", func() error {
			_, err := proc.call(sqlReq{Op: "create", Path: filepath.Join(R.MountDir(), "newdb")})
			if p := mon.PosOf(R.Node, "newdb"); p.TXID != 0 {
				return nil
			}
			if err == nil {
				err = errors.New("(created, unpublished)")
			}
			return err
		}, true},
	}
	c.Rng.Shuffle(len(ops), func(i, j int) { ops[i], ops[j] = ops[j], ops[i] })
	for _, o := range ops {
		hist = append(hist, o.name)
		err := o.run()
		c.Count("kmount_replica_ops", 1)
		c.Count("ops_judged", 1)
		if healthViolations(c, R.Node, "replica op "+o.name, detail(nil)) {
			return
		}
		after := c07Snapshot(R.Node, "db")
		if after != before {
			c.Violate("C07/kmount/replica-changed", fmt.Sprintf("%q issued by an application on the replica's mount changed the database, position or log: %v -> %v (returned %v)", o.name, before, after, err), detail(nil))
			return
		}
		if o.must && err == nil {
			c.Violate("C07/kmount/write-accepted", fmt.Sprintf("%q issued by an application on the replica's mount returned success", o.name), detail(nil))
			return
		}
		if err != nil && (strings.Contains(strings.ToLower(err.Error()), "malformed") || strings.Contains(strings.ToLower(err.Error()), "not a database")) {
			c.Violate("C07/kmount/replica-corrupt", fmt.Sprintf("%q on the replica's mount failed with a corruption error: %v", o.name, err), detail(nil))
			return
		}
		if err != nil {
			c.Count("kmount_replica_ops_refused", 1)
			m := strings.ToLower(err.Error())
			switch {
			case strings.Contains(m, "readonly") || strings.Contains(m, "read-only") || strings.Contains(m, "permission denied"):
				c.Count("refused_readonly", 1)
			default:
				c.Count("kmount_refused_other", 1)
				c.Distinct("kmount/c07/other-error/" + o.name[:min(len(o.name), 24)])
			}
		}
	}
	if rconn != nil {
		rconn.close()
	}
	// the replica still reads the primary's content and still follows it
	r2, err := proc.open(rdb, true)
	if err != nil {
		c.Violate("C07/kmount/replica-open", err.Error(), detail(nil))
		return
	}
	got, err := r2.contentHash()
	r2.close()
	if err != nil || got != want {
		c.Violate("C07/kmount/replica-content", fmt.Sprintf("after the refused operations the replica reads %s (%v), the primary holds %s", got, err, want), detail(nil))
		return
	}
	if err := w.exec("INSERT INTO t0 VALUES(2000,1,randomblob(100))"); err != nil {
		c.Violate("C07/kmount/primary-write", err.Error(), detail(nil))
		return
	}
	if ok, _, timedOut := cl.WaitConverged(P, R, []string{"db"}, 8, 30*time.Second); !ok && !timedOut {
		c.Violate("C07/kmount/replica-stopped-following", fmt.Sprintf("after the refused operations the replica stays at %s, the primary is at %s", mon.PosOf(R.Node, "db"), mon.PosOf(P.Node, "db")), detail(nil))
		return
	}

	// the primary loses its lease inside a real SQLite transaction
	how := []string{"expire", "demote"}[c.Rng.IntN(2)]
	var blocked atomic.Bool
	cl.Svc.SetInject(func(node, op string) error {
		if blocked.Load() && op == "acquire" {
			return errors.New("scripted: unavailable")
		}
		return nil
	})
	pb := c07Snapshot(P.Node, "db")
	if err := w.exec("BEGIN IMMEDIATE"); err != nil {
		c.Violate("C07/kmount/primary-write", err.Error(), detail(nil))
		return
	}
	if err := w.exec("INSERT INTO t0 VALUES(3000,1,randomblob(2000))"); err != nil {
		c.Violate("C07/kmount/primary-write", err.Error(), detail(nil))
		return
	}
	blocked.Store(true)
	if how == "expire" {
		cl.Svc.Expire()
	} else {
		P.Store.Demote()
	}
	for dl := time.Now().Add(15 * time.Second); P.Store.IsPrimary() && time.Now().Before(dl); {
		time.Sleep(2 * time.Millisecond)
	}
	if P.Store.IsPrimary() {
		c.Inconclusive("node did not lose primary status")
		return
	}
	cerr := w.exec("COMMIT")
	hist = append(hist, fmt.Sprintf("lease lost (%s) inside a transaction; COMMIT -> %v", how, cerr))
	pa := c07StableSnapshot(P.Node, "db")
	c.Count("demotions_mid_tx", 1)
	c.Count("ops_judged", 1)
	exited := len(P.Node.Exits()) > 0
	if pa.pos != pb.pos || pa.ltx != pb.ltx {
		c.Violate("C07/kmount/published-after-authority-loss", fmt.Sprintf("the node lost its lease inside a real SQLite transaction (%s mode) yet position/log moved: %s %s -> %s %s", mode, pb.pos, pb.ltx, pa.pos, pa.ltx), detail(nil))
		return
	}
	if cerr == nil && !exited {
		c.Violate("C07/kmount/commit-succeeded-after-authority-loss", fmt.Sprintf("COMMIT returned success after the node had lost its lease (%s, %s mode) and the node did not stop", how, mode), detail(nil))
		return
	}
	if exited && mode != "wal" {
		c.Violate("C07/kmount/exit-in-rollback-mode", "Store.Exit was called for a rollback-journal transaction after authority loss", detail(nil))
		return
	}
	c.Count("demotion_then_commit_refused", 1)
	c.Distinct(fmt.Sprintf("kmount/c07/%s/%s/exit%v", mode, how, exited))
	if k < 2 {
		c.Sample(detail(nil))
	}
}

// queryStringOrExec runs a statement that may or may not return a row.
func (s *sqlDB) queryStringOrExec(q string) (string, error) {
	if up := strings.ToUpper(q); strings.HasPrefix(up, "PRAGMA") && !strings.Contains(up, "WAL_CHECKPOINT") {
		v, err := s.queryString(q)
		if err != nil && strings.Contains(err.Error(), "no rows") {
			return "", nil
		}
		return v, err
	}
	return "", s.exec(q)
}

// runKMountC13: the halt lock end to end. An application process on a replica
// takes the database's HALT byte on <db>-lock with a blocking POSIX lock
// (F_SETLKW through the kernel), writes with real SQLite while it holds it, and
// releases it. The primary must be halted meanwhile, every forwarded
// transaction must land on the primary exactly once, in order, and both nodes
// must read the same content afterwards; after the release the replica is
// read-only again.
func runKMountC13(c *core.Case, k int) {
	if ok, why := kmountAvailable(); !ok {
		c.Count("kmount_unavailable", 1)
		if k == 0 {
			c.Sample(map[string]any{"kmount": "unavailable", "why": why})
		}
		return
	}
	c.Count("kmount_cases", 1)
	mode := []string{"delete", "wal", "truncate", "wal"}[k%4]
	ps := []int{1024, 4096, 512}[c.Rng.IntN(3)]
	cl, err := cluster.New(c.Dir, []cluster.NodeOpts{{Candidate: true, KernelMount: true}, {KernelMount: true}})
	if err != nil {
		c.Inconclusive(err.Error())
		return
	}
	defer cl.Close()
	if err := cl.Start(0); err != nil || cl.WaitPrimary(0, 10*time.Second) == nil {
		c.Inconclusive(fmt.Sprintf("primary start: %v", err))
		return
	}
	if err := cl.Start(1); err != nil || !cl.WaitConnected(1, 10*time.Second) {
		c.Inconclusive(fmt.Sprintf("replica start: %v", err))
		return
	}
	P, R := cl.Nodes[0], cl.Nodes[1]
	var hist []string
	detail := func(extra map[string]any) map[string]any {
		d := map[string]any{"driver": "B (kernel mount + real SQLite)", "journal_mode": mode, "page_size": ps, "steps": hist,
			"primary_pos": mon.PosOf(P.Node, "db").String(), "replica_pos": mon.PosOf(R.Node, "db").String()}
		for k, v := range extra {
			d[k] = v
		}
		return d
	}
	fail := func(fp, what string) { c.Violate("C13/kmount/"+fp, what, detail(nil)) }
	pproc, err := startSQLProc()
	if err != nil {
		c.Inconclusive("SQL child: " + err.Error())
		return
	}
	defer pproc.stop()
	rproc, err := startSQLProc()
	if err != nil {
		c.Inconclusive("SQL child: " + err.Error())
		return
	}
	defer rproc.stop()
	pdb, rdb := filepath.Join(P.MountDir(), "db"), filepath.Join(R.MountDir(), "db")
	w, err := pproc.open(pdb, false)
	if err != nil {
		fail("open", err.Error())
		return
	}
	for _, q := range []string{fmt.Sprintf("PRAGMA page_size=%d", ps), "PRAGMA journal_mode=" + mode, "CREATE TABLE t0(id INTEGER PRIMARY KEY, k INTEGER, v BLOB)", "INSERT INTO t0 VALUES(1,1,randomblob(2000))"} {
		if _, err := w.queryStringOrExec(q); err != nil {
			fail("setup", q+": "+err.Error())
			return
		}
	}
	chain := &ltxChain{dir: filepath.Join(mon.DBDir(P.Node, "db"), "ltx")}
	if _, prob := chain.advance(); prob != "" {
		fail("ltx-chain", prob)
		return
	}
	converge := func(ctx string) bool {
		ok, _, timedOut := cl.WaitConverged(P, R, []string{"db"}, 8, 30*time.Second)
		if timedOut {
			c.Inconclusive("replica convergence watchdog (" + ctx + ")")
			return false
		}
		if !ok {
			healthViolations(c, R.Node, ctx, detail(nil))
			healthViolations(c, P.Node, ctx, detail(nil))
			if !c.Violated() {
				fail("not-converged", fmt.Sprintf("%s: the replica is at %s, the primary at %s", ctx, mon.PosOf(R.Node, "db"), mon.PosOf(P.Node, "db")))
			}
			return false
		}
		return true
	}
	if !converge("before the halt") {
		return
	}
	rounds := 2 + c.Rng.IntN(2)
	nextID := 100
	for round := 0; round < rounds; round++ {
		// --- acquire through the kernel
		lr, err := rproc.call(sqlReq{Op: "flock", Path: rdb + "-lock", Size: int64(litefs.LockTypeHalt)})
		if err != nil {
			fail("acquire-failed", "F_SETLKW on the HALT byte of the replica's lock file: "+err.Error())
			return
		}
		hist = append(hist, "replica: HALT lock taken")
		c.Count("grants", 1)
		if !R.Store.DB("db").HasRemoteHaltLock() {
			fail("acquire-without-lock", "F_SETLKW returned but the replica does not hold the remote halt lock")
			return
		}
		// --- the primary is halted
		// (rollback modes only: in WAL mode SQLite's own read-lock retry loop
		// spins for ten seconds before giving up with SQLITE_PROTOCOL, whatever
		// the busy timeout; the simulator cases cover the halted WAL primary)
		pos0 := mon.PosOf(P.Node, "db")
		pw, err := (*sqlDB)(nil), errors.New("skipped")
		if mode != "wal" {
			pw, err = pproc.open(pdb, false, "_busy_timeout=300")
		}
		if err == nil {
			werr := pw.exec(fmt.Sprintf("INSERT INTO t0 VALUES(%d,0,zeroblob(10))", 900000+round))
			pw.close()
			if werr == nil && mon.PosOf(P.Node, "db") != pos0 {
				fail("primary-wrote-while-halted", "a local transaction committed on the primary while the replica held the halt lock")
				return
			}
			c.Count("kmount_primary_halted_checked", 1)
		}
		// --- forwarded writes by real SQLite on the replica
		rw, err := rproc.open(rdb, false)
		if err != nil {
			fail("replica-open", err.Error())
			return
		}
		n := 1 + c.Rng.IntN(3)
		for i := 0; i < n; i++ {
			nextID++
			q := fmt.Sprintf("INSERT INTO t0 VALUES(%d,%d,randomblob(%d))", nextID, round, 50+c.Rng.IntN(6000))
			if i == n-1 && c.Rng.IntN(2) == 0 {
				q = fmt.Sprintf("UPDATE t0 SET k=k+1, v=randomblob(%d)", 100+c.Rng.IntN(2000))
			}
			before := mon.PosOf(P.Node, "db")
			err := rw.exec(q)
			hist = append(hist, fmt.Sprintf("replica (holder): %s -> %v", q, err))
			if healthViolations(c, R.Node, "forwarded write", detail(nil)) || healthViolations(c, P.Node, "forwarded write", detail(nil)) {
				return
			}
			if err != nil {
				fail("holder-write-refused", fmt.Sprintf("the halt-lock holder's transaction failed: %v", err))
				return
			}
			after := mon.PosOf(P.Node, "db")
			if after.TXID != before.TXID+1 {
				fail("forwarded-commit-not-on-primary", fmt.Sprintf("the holder's transaction returned success but the primary moved %s -> %s", before, after))
				return
			}
			if rp := mon.PosOf(R.Node, "db"); rp != after {
				fail("holder-and-primary-differ", fmt.Sprintf("after a forwarded commit the holder is at %s, the primary at %s", rp, after))
				return
			}
			if _, prob := chain.advance(); prob != "" {
				fail("ltx-chain", "after forwarded commit: "+prob)
				return
			}
			if raw := mon.RawImage(mon.DBDir(P.Node, "db")); chain.img.Diff(raw) != "" {
				fail("primary-image", "after a forwarded commit the primary's files differ from the image rebuilt from its transaction files: "+chain.img.Diff(raw))
				return
			}
			c.Count("forwarded_commits", 1)
			if mode == "wal" {
				c.Count("forwarded_wal", 1)
			}
		}
		rw.close()
		// --- release
		if _, err := rproc.call(sqlReq{Op: "funlock", H: lr.H, Size: int64(litefs.LockTypeHalt)}); err != nil {
			fail("release-failed", err.Error())
			return
		}
		hist = append(hist, "replica: HALT lock released")
		for i := 0; i < 2000 && R.Store.DB("db").HasRemoteHaltLock(); i++ {
			time.Sleep(time.Millisecond)
		}
		if R.Store.DB("db").HasRemoteHaltLock() {
			fail("replica-still-holder", "the replica still believes it holds the halt lock after releasing it")
			return
		}
		// --- the former holder is read-only again, the primary writes again
		rw2, err := rproc.open(rdb, false, "_busy_timeout=300")
		if err == nil {
			rb := c07Snapshot(R.Node, "db")
			werr := rw2.exec(fmt.Sprintf("INSERT INTO t0 VALUES(%d,0,zeroblob(10))", 800000+round))
			rw2.close()
			if ra := c07Snapshot(R.Node, "db"); werr == nil || (ra.pos != rb.pos && ra.pos != mon.PosKey(mon.PosOf(P.Node, "db"))) {
				fail("former-holder-published", fmt.Sprintf("after releasing the halt lock the replica's write returned %v (position %s -> %s)", werr, rb.pos, ra.pos))
				return
			}
			c.Count("write_after_release_refused", 1)
		}
		nextID++
		if err := w.exec(fmt.Sprintf("INSERT INTO t0 VALUES(%d,%d,randomblob(300))", nextID, round)); err != nil {
			healthViolations(c, P.Node, "primary write after release", detail(nil))
			if !c.Violated() {
				fail("primary-cannot-write-after-halt", "after the halt lock was released the primary cannot commit: "+err.Error())
			}
			return
		}
		if _, prob := chain.advance(); prob != "" {
			fail("ltx-chain", "after release: "+prob)
			return
		}
		c.Count("primary_writes_after_release", 1)
		if !converge(fmt.Sprintf("after round %d", round)) {
			return
		}
		ph, err := w.contentHash()
		if err != nil {
			fail("read-error", err.Error())
			return
		}
		rr, err := rproc.open(rdb, true)
		if err != nil {
			fail("replica-open", err.Error())
			return
		}
		rh, err := rr.contentHash()
		rr.close()
		if err != nil || rh != ph {
			fail("content-differs", fmt.Sprintf("after round %d the replica reads %s (%v), the primary %s", round, rh, err, ph))
			return
		}
		want, integ, err := plainHash(c.Dir, chain.img, "c13")
		if err != nil || integ != "ok" || want != ph {
			fail("rebuilt-image", fmt.Sprintf("image rebuilt from the primary's transaction files: integrity %q, content %s (%v); SQLite reads %s", integ, want, err, ph))
			return
		}
		c.Count("kmount_content_checks", 1)
	}
	c.Distinct(fmt.Sprintf("kmount/c13/%s/ps%d/rounds%d", mode, ps, rounds))
	if k < 2 {
		c.Sample(detail(nil))
	}
}

// runKMountC05: crash points under REAL SQLite. The primary is mounted through
// the kernel and real SQLite runs statements on it; while a recorded statement
// runs, every OS-layer call LiteFS makes and every database page write that
// reaches it (SQLite is blocked in that very system call) copies the data
// directory: exactly what a process death at that instant leaves. Every image
// must reopen to the position before or after the statement with that
// position's image (rebuilt independently from the transaction files), leave
// no hot journal, and accept new commits.
func runKMountC05(c *core.Case, k int) {
	if ok, why := kmountAvailable(); !ok {
		c.Count("kmount_unavailable", 1)
		if k == 0 {
			c.Sample(map[string]any{"kmount": "unavailable", "why": why})
		}
		return
	}
	c.Count("kmount_cases", 1)
	mode := []string{"delete", "wal", "truncate", "persist"}[k%4]
	ps := []int{1024, 4096, 512, 2048}[c.Rng.IntN(4)]
	autoVac := []int{0, 1, 2}[c.Rng.IntN(3)]
	smallCache := c.Rng.IntN(2) == 0
	// case 0 is the fixed witness of the known finding (DESIGN 5.3b): free-list leaf
	// pages are made by a DELETE and reused by the next INSERT, in every run
	witness := k == 0
	if witness {
		mode, ps, autoVac, smallCache = "truncate", 1024, 2, false
	}
	dir := filepath.Join(c.Dir, "data")
	rec := &crashRecorder{src: dir, base: filepath.Join(c.Dir, "imgs")}
	n, err := drv.NewNode(drv.Config{Dir: dir, Candidate: true, KernelMount: true,
		Leaser:  litefs.NewStaticLeaser(true, "localhost", "http://127.0.0.1:1"),
		PreOpen: func(n *drv.Node) { rec.attach(n) }})
	if err != nil {
		c.Inconclusive("mount: " + err.Error())
		return
	}
	closed := false
	defer func() {
		if !closed {
			n.Close()
		}
	}()
	if !n.WaitReady(10 * time.Second) {
		c.Inconclusive("node not ready")
		return
	}
	var hist []string
	detail := map[string]any{"driver": "B (kernel mount + real SQLite)", "journal_mode": mode, "page_size": ps, "auto_vacuum": autoVac, "small_cache": smallCache}
	proc, err := startSQLProc()
	if err != nil {
		c.Inconclusive("SQL child: " + err.Error())
		return
	}
	defer proc.stop()
	w, err := proc.open(filepath.Join(n.MountDir(), "db"), false)
	if err != nil {
		c.Violate("C05/kmount/open", err.Error(), detail)
		return
	}
	chain := &ltxChain{dir: filepath.Join(mon.DBDir(n, "db"), "ltx")}
	exec := func(q string) bool {
		hist = append(hist, q)
		detail["sql_tail"] = hist
		if _, err := w.queryStringOrExec(q); err != nil {
			healthViolations(c, n, q, detail)
			if !c.Violated() {
				c.Violate("C05/kmount/sql-error", fmt.Sprintf("%q: %v", q, err), detail)
			}
			return false
		}
		if _, prob := chain.advance(); prob != "" {
			c.Violate("C05/kmount/ltx-chain", "after "+q+": "+prob, detail)
			return false
		}
		return true
	}
	for _, q := range []string{fmt.Sprintf("PRAGMA page_size=%d", ps), fmt.Sprintf("PRAGMA auto_vacuum=%d", autoVac), "PRAGMA journal_mode=" + mode} {
		if !exec(q) {
			return
		}
	}
	if smallCache {
		_ = w.exec("PRAGMA cache_size=5")
	}
	if !exec("CREATE TABLE t0(id INTEGER PRIMARY KEY, k INTEGER, v BLOB)") {
		return
	}
	for i := 1; i <= 6; i++ {
		size := []int{100, 3000, 20000, 500}[c.Rng.IntN(4)]
		if witness {
			size = []int{500, 500, 20000, 20000, 3000, 3000}[i-1]
		}
		if !exec(fmt.Sprintf("INSERT INTO t0 VALUES(%d,%d,randomblob(%d))", i, i, size)) {
			return
		}
	}
	led := newLedger()
	type recorded struct {
		q             string
		before, after mon.PosKey
		imgs          []crashImage
	}
	var runs []recorded
	nextID := 100
	steps := 3
	if c.Tier == "thorough" {
		steps = 5
	}
	for step := 0; step < steps; step++ {
		nextID++
		q := ""
		switch c.Rng.IntN(6) {
		case 0:
			q = fmt.Sprintf("INSERT INTO t0 VALUES(%d,%d,randomblob(%d))", nextID, step, 20000+c.Rng.IntN(50000))
		case 1:
			q = fmt.Sprintf("UPDATE t0 SET v=randomblob(%d), k=k+1 WHERE id%%2=%d", 50+c.Rng.IntN(4000), c.Rng.IntN(2))
		case 2:
			q = fmt.Sprintf("DELETE FROM t0 WHERE id%%3=%d", c.Rng.IntN(3))
		case 3:
			q = fmt.Sprintf("INSERT OR IGNORE INTO t0 SELECT id+%d, k, randomblob(%d) FROM t0 LIMIT %d", 100000*(step+1), 200+c.Rng.IntN(3000), 3+c.Rng.IntN(12))
		case 4:
			if mode == "wal" {
				q = fmt.Sprintf("PRAGMA wal_checkpoint(%s)", pick(c, []string{"PASSIVE", "FULL", "RESTART", "TRUNCATE"}))
			} else {
				q = fmt.Sprintf("INSERT INTO t0 VALUES(%d,%d,zeroblob(%d))", nextID, step, c.Rng.IntN(9000))
			}
		default:
			q = fmt.Sprintf("INSERT INTO t0 VALUES(%d,%d,randomblob(%d))", nextID, step, 10+c.Rng.IntN(900))
		}
		if witness {
			q = []string{"DELETE FROM t0 WHERE id%3=0", "INSERT INTO t0 VALUES(102,1,zeroblob(6583))", "UPDATE t0 SET v=randomblob(634), k=k+1 WHERE id%2=0", "INSERT INTO t0 VALUES(103,1,zeroblob(9000))", "INSERT INTO t0 VALUES(104,1,randomblob(10))"}[step%5]
		}
		before := chain.pos
		if img := chain.imageAt(before); img != nil {
			led.put("db", before, img)
		}
		rec.mu.Lock()
		rec.imgs, rec.finalized = nil, false
		rec.base = filepath.Join(c.Dir, "imgs", fmt.Sprintf("s%d", step)) // image directories are numbered per recording
		rec.mu.Unlock()
		rec.setEnabled(true)
		ok := exec(q)
		rec.setFinalized()
		rec.snap("done")
		rec.setEnabled(false)
		if !ok {
			return
		}
		after := chain.pos
		led.put("db", after, chain.img.Clone())
		rec.mu.Lock()
		imgs := rec.imgs
		rec.imgs = nil
		rec.mu.Unlock()
		if after.TXID > before.TXID+1 {
			// more than one transaction: images in between belong to neither end
			for _, im := range imgs {
				_ = os.RemoveAll(im.Dir)
			}
			c.Count("kmount_multi_tx_statements_skipped", 1)
			continue
		}
		// keep at most 40 images per statement, spread evenly (always the last)
		if len(imgs) > 40 {
			var keep []crashImage
			for i, im := range imgs {
				if i%((len(imgs)+39)/40) == 0 || i == len(imgs)-1 {
					keep = append(keep, im)
				} else {
					_ = os.RemoveAll(im.Dir)
				}
			}
			imgs = keep
		}
		runs = append(runs, recorded{q, before, after, imgs})
		c.Count("kmount_crash_statements", 1)
	}
	// the live node is no longer needed: judge the images
	w.close()
	proc.stop()
	n.Close()
	closed = true
	for _, r := range runs {
		d := map[string]any{"statement": r.q, "before": r.before.String(), "after": r.after.String()}
		for k, v := range detail {
			d[k] = v
		}
		for _, img := range r.imgs {
			if why := unjournaledFreePages(img.Dir, "db", uint32(ps), led, r.before); why != "" {
				// a known situation (see known_findings.json): decided separately so
				// that every other reopen failure is still reported under its own name
				c.Count("kmount_images_with_unjournaled_free_pages", 1)
				nn, err := drv.NewNode(drv.Config{Dir: img.Dir, Candidate: true, Leaser: litefs.NewStaticLeaser(true, "localhost", "http://127.0.0.1:1")})
				if err != nil {
					d2 := map[string]any{"crash_point": img.Label, "analysis": why}
					for k, v := range d {
						d2[k] = v
					}
					c.Violate("C05/kmount/reopen-failed(unjournaled-free-page-overwrite)", fmt.Sprintf("restart after a crash before %q failed: %v; %s", img.Label, err, why), d2)
					_ = os.RemoveAll(img.Dir)
					continue
				}
				nn.Close()
			}
			side := judgeCrashImage(c, img, "db", r.before, r.after, led, uint32(ps), "", d)
			_ = os.RemoveAll(img.Dir)
			if c.Violated() {
				return
			}
			if side != "" {
				c.Count("recovered_"+side, 1)
				c.Count("kmount_crash_images_judged", 1)
			}
			c.Distinct(fmt.Sprintf("kmount/c05/%s/ps%d/%s/%s", mode, ps, labelClass(img.Label), side))
		}
	}
	if k < 2 {
		c.Sample(map[string]any{"detail": detail, "statements_recorded": len(runs)})
	}
}

// freeListLeaves parses the SQLite free list of an image and returns its leaf
// pages (trunk pages are ordinary journaled pages).
func freeListLeaves(img *ref.Image) map[uint32]bool {
	out := map[uint32]bool{}
	if img == nil || img.PageN == 0 {
		return out
	}
	p1 := img.Page(1)
	if len(p1) < 40 {
		return out
	}
	be := func(b []byte) uint32 { return uint32(b[0])<<24 | uint32(b[1])<<16 | uint32(b[2])<<8 | uint32(b[3]) }
	trunk := be(p1[32:36])
	for guard := 0; trunk != 0 && trunk <= img.PageN && guard < 100000; guard++ {
		t := img.Page(trunk)
		n := be(t[4:8])
		for i := uint32(0); i < n && 8+4*i+4 <= uint32(len(t)); i++ {
			out[be(t[8+4*i:])] = true
		}
		trunk = be(t[0:4])
	}
	return out
}

// unjournaledFreePages analyses a crash image taken in a rollback-journal
// mode: it plays the hot journal back with the reference rules and compares
// the result with the pre-transaction image. If the only differences are
// free-list leaf pages of the pre-transaction image that have no record in the
// journal, it returns a description: SQLite does not journal such pages (their
// content is irrelevant to it) and may overwrite them during the transaction,
// so no rollback can restore their old bytes.
func unjournaledFreePages(dir, name string, ps uint32, led *ledger, before mon.PosKey) string {
	want, ok := led.get(name, before)
	if !ok || want == nil || want.PageN == 0 {
		return ""
	}
	dbb, err := os.ReadFile(filepath.Join(dir, "dbs", name, "database"))
	if err != nil {
		return ""
	}
	jb, _ := os.ReadFile(filepath.Join(dir, "dbs", name, "journal"))
	pb := ref.PlayJournal(jb, ps)
	if !pb.Valid {
		return ""
	}
	got := ref.ImageFromBytes(ps, dbb)
	for p, b := range pb.Pages {
		got.Set(p, b)
	}
	got.Truncate(pb.OrigPages)
	got.PageN = pb.OrigPages
	if got.PageN != want.PageN {
		return ""
	}
	leaves := freeListLeaves(want)
	var diff, other []uint32
	for p := uint32(1); p <= want.PageN; p++ {
		if p == ref.LockPgno(ps) {
			continue
		}
		if string(got.Page(p)) != string(want.Page(p)) {
			if _, journaled := pb.Pages[p]; leaves[p] && !journaled {
				diff = append(diff, p)
			} else {
				other = append(other, p)
			}
		}
	}
	if len(diff) == 0 || len(other) > 0 {
		return ""
	}
	return fmt.Sprintf("after playing the hot journal back the database equals the pre-transaction image except for pages %v, which are free-list leaf pages of that image and have no journal record (SQLite does not journal them and overwrote them)", diff)
}

// runKMountC15: drop and recreate through the kernel. The application on the
// primary unlinks the database file (rm through the mount); a replica's
// application, whose kernel has the old file's directory entry, attributes and
// pages cached, must see the name disappear and, after the name is recreated
// with another page size and content, read exactly the new database.
func runKMountC15(c *core.Case, k int) {
	if ok, why := kmountAvailable(); !ok {
		c.Count("kmount_unavailable", 1)
		if k == 0 {
			c.Sample(map[string]any{"kmount": "unavailable", "why": why})
		}
		return
	}
	c.Count("kmount_cases", 1)
	cl, err := cluster.New(c.Dir, []cluster.NodeOpts{{Candidate: true, KernelMount: true}, {KernelMount: true}})
	if err != nil {
		c.Inconclusive(err.Error())
		return
	}
	defer cl.Close()
	if err := cl.Start(0); err != nil || cl.WaitPrimary(0, 10*time.Second) == nil {
		c.Inconclusive(fmt.Sprintf("primary start: %v", err))
		return
	}
	if err := cl.Start(1); err != nil || !cl.WaitConnected(1, 10*time.Second) {
		c.Inconclusive(fmt.Sprintf("replica start: %v", err))
		return
	}
	P, R := cl.Nodes[0], cl.Nodes[1]
	var hist []string
	detail := func() map[string]any {
		return map[string]any{"driver": "B (kernel mount + real SQLite)", "steps": hist, "primary_pos": mon.PosOf(P.Node, "db").String(), "replica_pos": mon.PosOf(R.Node, "db").String()}
	}
	fail := func(fp, what string) { c.Violate("C15/kmount/"+fp, what, detail()) }
	proc, err := startSQLProc()
	if err != nil {
		c.Inconclusive("SQL child: " + err.Error())
		return
	}
	defer proc.stop()
	pdb, rdb := filepath.Join(P.MountDir(), "db"), filepath.Join(R.MountDir(), "db")
	converge := func(ctx string) bool {
		ok, _, timedOut := cl.WaitConverged(P, R, []string{"db"}, 8, 30*time.Second)
		if timedOut {
			c.Inconclusive("replica convergence watchdog (" + ctx + ")")
			return false
		}
		if healthViolations(c, R.Node, ctx, detail()) || healthViolations(c, P.Node, ctx, detail()) {
			return false
		}
		if !ok {
			fail("not-converged", fmt.Sprintf("%s: the replica is at %s, the primary at %s", ctx, mon.PosOf(R.Node, "db"), mon.PosOf(P.Node, "db")))
			return false
		}
		return true
	}
	cycles := 2 + c.Rng.IntN(2)
	prevTXID := uint64(0)
	for cycle := 0; cycle < cycles; cycle++ {
		ps := []int{1024, 4096, 512, 8192}[(k+cycle)%4]
		mode := []string{"delete", "wal", "truncate", "wal", "persist"}[(k+cycle*2)%5]
		// ---- (re)create on the primary
		w, err := proc.open(pdb, false)
		if err != nil {
			fail("recreate-failed", "open: "+err.Error())
			return
		}
		tag := fmt.Sprintf("c%d", cycle)
		for _, q := range []string{fmt.Sprintf("PRAGMA page_size=%d", ps), "PRAGMA journal_mode=" + mode,
			fmt.Sprintf("CREATE TABLE t_%s(id INTEGER PRIMARY KEY, k INTEGER, v BLOB)", tag),
			fmt.Sprintf("INSERT INTO t_%s VALUES(1,%d,randomblob(%d))", tag, cycle, 500+c.Rng.IntN(20000)),
			fmt.Sprintf("INSERT INTO t_%s VALUES(2,%d,randomblob(%d))", tag, cycle, 10+c.Rng.IntN(3000))} {
			if _, err := w.queryStringOrExec(q); err != nil {
				healthViolations(c, P.Node, q, detail())
				if !c.Violated() {
					fail("recreate-failed", fmt.Sprintf("cycle %d: %q: %v", cycle, q, err))
				}
				return
			}
			hist = append(hist, q)
		}
		if got := mon.PosOf(P.Node, "db").TXID; got <= prevTXID {
			fail("recreate-restarted-txids", fmt.Sprintf("cycle %d: after recreation the primary is at txid %d, the drop was txid %d", cycle, got, prevTXID))
			return
		}
		want, err := w.tableHash("t_" + tag)
		if err != nil {
			fail("read-error", err.Error())
			return
		}
		if mode == "wal" && c.Rng.IntN(2) == 0 {
			_ = w.exec("PRAGMA wal_checkpoint(TRUNCATE)")
		}
		pendingWAL := mode == "wal"
		w.close()
		if !converge(fmt.Sprintf("after (re)creation %d", cycle)) {
			return
		}
		// ---- the replica's application reads it (and so caches entry, attributes, pages)
		r, err := proc.open(rdb, true)
		if err != nil {
			fail("replica-open", fmt.Sprintf("cycle %d: %v", cycle, err))
			return
		}
		got, err := r.tableHash("t_" + tag)
		if cycle > 0 {
			if old, oerr := r.tableHash(fmt.Sprintf("t_c%d", cycle-1)); oerr == nil {
				fail("replica-sees-dropped-content", fmt.Sprintf("cycle %d: the replica still reads the previous incarnation's table (%s)", cycle, old))
				r.close()
				return
			}
		}
		keepOpen := c.Rng.IntN(2) == 0
		if !keepOpen {
			r.close()
		}
		if err != nil || got != want {
			fail("replica-content-differs", fmt.Sprintf("cycle %d (page size %d, %s): the replica reads %s (%v), the primary holds %s", cycle, ps, mode, got, err, want))
			return
		}
		c.Count("recreates", 1)
		c.Count("kmount_replica_reads_after_recreate", 1)
		// ---- drop on the primary: rm through the mount
		prev := mon.PosOf(P.Node, "db")
		if _, err := proc.call(sqlReq{Op: "unlink", Path: pdb}); err != nil {
			healthViolations(c, P.Node, "unlink", detail())
			if !c.Violated() {
				fail("drop-failed", fmt.Sprintf("cycle %d: unlink of the database on the primary's mount: %v", cycle, err))
			}
			return
		}
		hist = append(hist, fmt.Sprintf("rm db (pending wal %v, replica connection open %v)", pendingWAL, keepOpen))
		c.Count("drops", 1)
		pos := mon.PosOf(P.Node, "db")
		if pos.TXID != prev.TXID+1 || pos.Chk != ref.ChecksumFlag {
			fail("drop-position", fmt.Sprintf("after the drop the position is %s, expected txid %d with the empty checksum", pos, prev.TXID+1))
			return
		}
		prevTXID = pos.TXID
		for _, nm := range []string{"db", "db-journal", "db-wal", "db-shm"} {
			if _, err := proc.call(sqlReq{Op: "stat", Path: filepath.Join(P.MountDir(), nm)}); err == nil {
				fail("file-left-after-drop", fmt.Sprintf("%s is still visible on the primary's mount after the drop", nm))
				return
			}
		}
		if !converge(fmt.Sprintf("after drop %d", cycle)) {
			return
		}
		if keepOpen {
			r.close()
		}
		// the replica's kernel must have forgotten the name
		for _, nm := range []string{"db", "db-journal", "db-wal", "db-shm"} {
			if sz, err := proc.call(sqlReq{Op: "stat", Path: filepath.Join(R.MountDir(), nm)}); err == nil {
				fail("replica-still-sees-dropped-file", fmt.Sprintf("cycle %d: %s is still visible through the replica's mount after the drop was applied (size %s)", cycle, nm, sz.Val))
				return
			}
		}
		if ls, err := proc.call(sqlReq{Op: "readdir", Path: R.MountDir()}); err == nil && strings.Contains(","+ls.Val+",", ",db,") {
			fail("replica-lists-dropped-file", "the replica's directory listing still shows the dropped database: "+ls.Val)
			return
		}
		c.Count("kmount_drop_seen_through_replica_kernel", 1)
	}
	// ---- recreate at once, while the kernel still caches the dropped database's
	// journal entry: LiteFS tells the kernel about the removed -journal/-wal/-shm
	// files from a goroutine that runs after the unlink has been answered. The
	// hook holds that goroutine back, so the window every application has between
	// `rm db` and its next open is open for certain (normally it is microseconds
	// wide and only shows under load).
	if k%2 == 0 {
		jm := []string{"persist", "truncate"}[(k/2)%2]
		w, err := proc.open(pdb, false)
		if err != nil {
			fail("recreate-failed", "open: "+err.Error())
			return
		}
		for _, q := range []string{"PRAGMA journal_mode=" + jm, "CREATE TABLE t_h0(id INTEGER PRIMARY KEY, k INTEGER, v BLOB)", "INSERT INTO t_h0 VALUES(1,1,randomblob(3000))"} {
			if _, err := w.queryStringOrExec(q); err != nil {
				healthViolations(c, P.Node, q, detail())
				if !c.Violated() {
					fail("recreate-failed", fmt.Sprintf("held phase, setup: %q: %v", q, err))
				}
				return
			}
			hist = append(hist, q)
		}
		w.close()
		if !converge("before the held drop") {
			return
		}
		release := make(chan struct{})
		entered := make(chan struct{}, 4)
		hook := func(dbName string) {
			entered <- struct{}{}
			select {
			case <-release:
			case <-time.After(20 * time.Second):
			}
		}
		lfuse.VerifBeforeNotifyDelete.Store(&hook)
		released := false
		rel := func() {
			if !released {
				released = true
				close(release)
				lfuse.VerifBeforeNotifyDelete.Store(nil)
			}
		}
		defer rel()
		if _, err := proc.call(sqlReq{Op: "unlink", Path: pdb}); err != nil {
			healthViolations(c, P.Node, "unlink", detail())
			if !c.Violated() {
				fail("drop-failed", fmt.Sprintf("held phase: unlink of the database on the primary's mount: %v", err))
			}
			return
		}
		select {
		case <-entered:
		case <-time.After(10 * time.Second):
			c.Inconclusive("the notification goroutine never reached the hook")
			return
		}
		hist = append(hist, "rm db (kernel notifications of the removed journal held back); recreate at once")
		w, err = proc.open(pdb, false)
		if err != nil {
			fail("recreate-failed", "held phase: open: "+err.Error())
			return
		}
		for _, q := range []string{"PRAGMA journal_mode=" + jm, "CREATE TABLE t_h1(id INTEGER PRIMARY KEY, k INTEGER, v BLOB)", "INSERT INTO t_h1 VALUES(1,2,randomblob(2000))"} {
			if _, err := w.queryStringOrExec(q); err != nil {
				healthViolations(c, P.Node, q, detail())
				if !c.Violated() {
					fail("recreate-failed", fmt.Sprintf("a database recreated right after its drop, before the kernel was told that the old journal is gone: %q: %v", q, err))
				}
				return
			}
			hist = append(hist, q)
		}
		want, err := w.tableHash("t_h1")
		w.close()
		rel()
		if err != nil {
			fail("read-error", err.Error())
			return
		}
		if !converge("after the recreate that followed the held drop") {
			return
		}
		r, err := proc.open(rdb, true)
		if err != nil {
			fail("replica-open", "held phase: "+err.Error())
			return
		}
		got, err := r.tableHash("t_h1")
		r.close()
		if err != nil || got != want {
			fail("replica-content-differs", fmt.Sprintf("held phase: the replica reads %s (%v), the primary holds %s", got, err, want))
			return
		}
		c.Count("kmount_recreate_while_notify_held", 1)
	}
	c.Distinct(fmt.Sprintf("kmount/c15/k%d/cycles%d", k%5, cycles))
	if k < 2 {
		c.Sample(detail())
	}
}

// tableHash hashes one table's rows (remote).
func (s *sqlDB) tableHash(table string) (string, error) {
	r, err := s.p.call(sqlReq{Op: "query1", H: s.h, Q: "SELECT count(*) || '/' || coalesce(sum(length(v)),0) || '/' || coalesce(hex(group_concat(substr(v,1,8))),'') FROM (SELECT v FROM " + table + " ORDER BY id)"})
	return r.Val, err
}

// runKMountC10: exports and replica snapshots taken while real SQLite commits
// and checkpoints on its own schedule (wal_autocheckpoint forced low). Every
// export that completes must be byte for byte the image of the position it
// reports, as rebuilt independently from the primary's transaction files; a
// replica that joins mid-stream must end up reading the primary's content.
func runKMountC10(c *core.Case, k int) {
	if ok, why := kmountAvailable(); !ok {
		c.Count("kmount_unavailable", 1)
		if k == 0 {
			c.Sample(map[string]any{"kmount": "unavailable", "why": why})
		}
		return
	}
	c.Count("kmount_cases", 1)
	mode := []string{"wal", "wal", "delete", "wal", "truncate"}[k%5]
	ps := []int{1024, 4096, 512}[c.Rng.IntN(3)]
	cl, err := cluster.New(c.Dir, []cluster.NodeOpts{{Candidate: true, KernelMount: true}, {KernelMount: true}})
	if err != nil {
		c.Inconclusive(err.Error())
		return
	}
	defer cl.Close()
	if err := cl.Start(0); err != nil || cl.WaitPrimary(0, 10*time.Second) == nil {
		c.Inconclusive(fmt.Sprintf("primary start: %v", err))
		return
	}
	P, R := cl.Nodes[0], cl.Nodes[1]
	detail := map[string]any{"driver": "B (kernel mount + real SQLite)", "journal_mode": mode, "page_size": ps}
	proc, err := startSQLProc()
	if err != nil {
		c.Inconclusive("SQL child: " + err.Error())
		return
	}
	defer proc.stop()
	w, err := proc.open(filepath.Join(P.MountDir(), "db"), false)
	if err != nil {
		c.Violate("C10/kmount/open", err.Error(), detail)
		return
	}
	for _, q := range []string{fmt.Sprintf("PRAGMA page_size=%d", ps), "PRAGMA journal_mode=" + mode, fmt.Sprintf("PRAGMA wal_autocheckpoint=%d", 2+c.Rng.IntN(8)),
		"CREATE TABLE t0(id INTEGER PRIMARY KEY, k INTEGER, v BLOB)", "INSERT INTO t0 VALUES(1,1,randomblob(4000))"} {
		if _, err := w.queryStringOrExec(q); err != nil {
			c.Violate("C10/kmount/setup", q+": "+err.Error(), detail)
			return
		}
	}
	chain := &ltxChain{dir: filepath.Join(mon.DBDir(P.Node, "db"), "ltx")}
	type export struct {
		pos  mon.PosKey
		data []byte
		err  error
	}
	var exports []export
	var emu sync.Mutex
	erng := c.SubRng("export-pacing")
	var stop atomic.Bool
	var wg sync.WaitGroup
	wg.Add(1)
	go func() {
		defer wg.Done()
		for !stop.Load() {
			db := P.Store.DB("db")
			if db == nil {
				time.Sleep(time.Millisecond)
				continue
			}
			var buf bytes.Buffer
			ctx, cancel := context.WithTimeout(context.Background(), 20*time.Second)
			pos, err := db.Export(ctx, &buf)
			cancel()
			emu.Lock()
			if len(exports) < 60 {
				exports = append(exports, export{mon.PosKey{TXID: uint64(pos.TXID), Chk: uint64(pos.PostApplyChecksum)}, buf.Bytes(), err})
			}
			emu.Unlock()
			time.Sleep(time.Duration(erng.IntN(4)) * time.Millisecond)
		}
	}()
	steps := 50
	if c.Tier == "thorough" {
		steps = 120
	}
	nextID := 10
	failed := false
	for step := 0; step < steps && !failed; step++ {
		nextID++
		q := ""
		switch r := c.Rng.IntN(10); {
		case r < 5:
			q = fmt.Sprintf("INSERT INTO t0 VALUES(%d,%d,randomblob(%d))", nextID, step, 100+c.Rng.IntN(9000))
		case r < 7:
			q = fmt.Sprintf("UPDATE t0 SET v=randomblob(%d), k=k+1 WHERE id%%3=%d", 50+c.Rng.IntN(3000), c.Rng.IntN(3))
		case r < 8:
			q = fmt.Sprintf("DELETE FROM t0 WHERE id%%4=%d AND id>1", c.Rng.IntN(4))
		case r < 9 && mode == "wal":
			q = fmt.Sprintf("PRAGMA wal_checkpoint(%s)", pick(c, []string{"PASSIVE", "FULL", "RESTART", "TRUNCATE"}))
		default:
			q = fmt.Sprintf("INSERT INTO t0 VALUES(%d,%d,zeroblob(%d))", nextID, step, c.Rng.IntN(4000))
		}
		if _, err := w.queryStringOrExec(q); err != nil {
			healthViolations(c, P.Node, q, detail)
			if !c.Violated() {
				c.Violate("C10/kmount/sql-error", fmt.Sprintf("%q failed on the primary while exports were running: %v", q, err), detail)
			}
			failed = true
			break
		}
		c.Count("kmount_statements", 1)
		if step == steps/2 {
			// a replica joins now: its snapshot is taken between real commits and checkpoints
			if err := cl.Start(1); err != nil {
				c.Inconclusive("replica start: " + err.Error())
				failed = true
			}
		}
	}
	stop.Store(true)
	wg.Wait()
	if failed || healthViolations(c, P.Node, "exports under real SQLite", detail) {
		return
	}
	if _, prob := chain.advance(); prob != "" {
		c.Violate("C10/kmount/ltx-chain", prob, detail)
		return
	}
	good := 0
	for i, e := range exports {
		if e.err != nil {
			c.Count("kmount_exports_failed", 1)
			continue
		}
		want := chain.imageAt(e.pos)
		if want == nil {
			c.Violate("C10/kmount/export-position-never-committed", fmt.Sprintf("export %d reports position %s, which no transaction file of the primary ends at", i, e.pos), detail)
			return
		}
		got := ref.ImageFromBytes(uint32(ps), e.data)
		if d := got.Diff(want); d != "" {
			c.Violate("C10/kmount/export-mixture", fmt.Sprintf("export %d completed and reports position %s but its bytes are not the image of that position: %s", i, e.pos, d), detail)
			return
		}
		good++
	}
	c.Count("kmount_exports_judged", good)
	// the joined replica converges and reads the primary's content
	if ok, _, timedOut := cl.WaitConverged(P, R, []string{"db"}, 8, 30*time.Second); timedOut {
		c.Inconclusive("replica convergence watchdog")
		return
	} else if !ok {
		healthViolations(c, R.Node, "replica joined mid-stream", detail)
		if !c.Violated() {
			c.Violate("C10/kmount/replica-not-converged", fmt.Sprintf("replica at %s, primary at %s", mon.PosOf(R.Node, "db"), mon.PosOf(P.Node, "db")), detail)
		}
		return
	}
	ph, err := w.contentHash()
	if err != nil {
		c.Violate("C10/kmount/read-error", err.Error(), detail)
		return
	}
	rr, err := proc.open(filepath.Join(R.MountDir(), "db"), true)
	if err != nil {
		c.Violate("C10/kmount/replica-open", err.Error(), detail)
		return
	}
	rh, err := rr.contentHash()
	rr.close()
	if err != nil || rh != ph {
		c.Violate("C10/kmount/replica-content-differs", fmt.Sprintf("the replica that joined mid-stream reads %s (%v), the primary %s", rh, err, ph), detail)
		return
	}
	c.Count("kmount_snapshot_joins_judged", 1)
	c.Distinct(fmt.Sprintf("kmount/c10/%s/ps%d", mode, ps))
}

// runKMountC16: import and export with databases made and read by REAL SQLite.
// A source database is built by SQLite in a plain directory (page sizes, both
// header formats, auto_vacuum, free pages, overflow chains, vacuumed or not),
// imported over HTTP, and then read by SQLite through the primary's and the
// replica's kernel mounts: same rows, same bytes. SQLite then goes on writing,
// and an export - opened by plain SQLite - must hold what the mount shows.
func runKMountC16(c *core.Case, k int) {
	if ok, why := kmountAvailable(); !ok {
		c.Count("kmount_unavailable", 1)
		if k == 0 {
			c.Sample(map[string]any{"kmount": "unavailable", "why": why})
		}
		return
	}
	c.Count("kmount_cases", 1)
	cl, err := cluster.New(c.Dir, []cluster.NodeOpts{{Candidate: true, KernelMount: true}, {KernelMount: true}})
	if err != nil {
		c.Inconclusive(err.Error())
		return
	}
	defer cl.Close()
	if err := cl.Start(0); err != nil || cl.WaitPrimary(0, 10*time.Second) == nil {
		c.Inconclusive(fmt.Sprintf("primary start: %v", err))
		return
	}
	if err := cl.Start(1); err != nil || !cl.WaitConnected(1, 10*time.Second) {
		c.Inconclusive(fmt.Sprintf("replica start: %v", err))
		return
	}
	P, R := cl.Nodes[0], cl.Nodes[1]
	var hist []string
	detail := func() map[string]any {
		return map[string]any{"driver": "B (kernel mount + real SQLite)", "steps": hist, "primary_pos": mon.PosOf(P.Node, "db").String(), "replica_pos": mon.PosOf(R.Node, "db").String()}
	}
	fail := func(fp, what string) { c.Violate("C16/kmount/"+fp, what, detail()) }
	proc, err := startSQLProc()
	if err != nil {
		c.Inconclusive("SQL child: " + err.Error())
		return
	}
	defer proc.stop()
	pdb, rdb := filepath.Join(P.MountDir(), "db"), filepath.Join(R.MountDir(), "db")
	cli := lhttp.NewClient()
	chain := &ltxChain{dir: filepath.Join(mon.DBDir(P.Node, "db"), "ltx")}
	// makeSource builds a database with plain SQLite outside any mount
	makeSource := func(tag string, ps int, walHeader bool) ([]byte, string, bool) {
		path := filepath.Join(c.Dir, "src-"+tag+".db")
		src, err := openLocalSQL(path, false)
		if err != nil {
			c.Inconclusive("source db: " + err.Error())
			return nil, "", false
		}
		av := c.Rng.IntN(3)
		qs := []string{fmt.Sprintf("PRAGMA page_size=%d", ps), fmt.Sprintf("PRAGMA auto_vacuum=%d", av), "PRAGMA journal_mode=delete",
			"CREATE TABLE t0(id INTEGER PRIMARY KEY, k INTEGER, v BLOB)"}
		for i := 1; i <= 4+c.Rng.IntN(6); i++ {
			qs = append(qs, fmt.Sprintf("INSERT INTO t0 VALUES(%d,%d,randomblob(%d))", i, i, []int{20, 700, 5000, 30000}[c.Rng.IntN(4)]))
		}
		qs = append(qs, fmt.Sprintf("DELETE FROM t0 WHERE id%%3=%d", c.Rng.IntN(3)), "CREATE INDEX i0 ON t0(k)")
		if c.Rng.IntN(3) == 0 {
			qs = append(qs, "VACUUM")
		}
		if walHeader {
			qs = append(qs, "PRAGMA journal_mode=wal", fmt.Sprintf("INSERT INTO t0 VALUES(1000,0,randomblob(%d))", 100+c.Rng.IntN(3000)), "PRAGMA wal_checkpoint(TRUNCATE)")
		}
		for _, q := range qs {
			if strings.HasPrefix(q, "PRAGMA journal_mode") || strings.HasPrefix(q, "PRAGMA wal_checkpoint") {
				_ = src.exec(q)
				continue
			}
			if err := src.exec(q); err != nil {
				src.close()
				c.Inconclusive("source db: " + q + ": " + err.Error())
				return nil, "", false
			}
		}
		h, err := src.contentHash()
		src.close()
		b, rerr := os.ReadFile(path)
		if err != nil || rerr != nil {
			c.Inconclusive("source db read")
			return nil, "", false
		}
		hist = append(hist, fmt.Sprintf("source %s: page size %d, auto_vacuum %d, wal header %v, %d bytes", tag, ps, av, walHeader, len(b)))
		return b, h, true
	}
	judgeImported := func(ctx string, body []byte, wantHash string, ps int) bool {
		if _, prob := chain.advance(); prob != "" {
			fail("ltx-chain", ctx+": "+prob)
			return false
		}
		// (an import resets the file change counter and the schema cookie of page 1
		// so that existing connections reload: documented behaviour, also in C16's simulator cases)
		norm := append([]byte(nil), body...)
		if len(norm) >= 44 {
			copy(norm[24:28], []byte{0, 0, 0, 0})
			copy(norm[40:44], []byte{0, 0, 0, 0})
		}
		if d := chain.img.Diff(ref.ImageFromBytes(uint32(ps), norm)); d != "" {
			fail("imported-image-differs", fmt.Sprintf("%s: the image rebuilt from the primary's transaction files differs from the imported file: %s", ctx, d))
			return false
		}
		for _, nd := range []struct {
			name, path string
		}{{"primary", pdb}, {"replica", rdb}} {
			if nd.name == "replica" {
				if ok, _, timedOut := cl.WaitConverged(P, R, []string{"db"}, 8, 30*time.Second); timedOut {
					c.Inconclusive("replica convergence watchdog")
					return false
				} else if !ok {
					healthViolations(c, R.Node, ctx, detail())
					if !c.Violated() {
						fail("not-converged", fmt.Sprintf("%s: replica at %s, primary at %s", ctx, mon.PosOf(R.Node, "db"), mon.PosOf(P.Node, "db")))
					}
					return false
				}
			}
			r, err := proc.open(nd.path, true)
			if err != nil {
				fail("open-after-import", fmt.Sprintf("%s: SQLite cannot open the imported database through the %s's mount: %v", ctx, nd.name, err))
				return false
			}
			got, err := r.contentHash()
			integ, ierr := r.queryString("PRAGMA integrity_check")
			r.close()
			if err != nil || got != wantHash {
				fail("imported-content-differs", fmt.Sprintf("%s: through the %s's mount SQLite reads %s (%v), the imported database holds %s", ctx, nd.name, got, err, wantHash))
				return false
			}
			if ierr != nil || integ != "ok" {
				fail("imported-integrity", fmt.Sprintf("%s: integrity_check through the %s's mount: %q (%v)", ctx, nd.name, integ, ierr))
				return false
			}
			c.Count("kmount_import_reads", 1)
		}
		return true
	}
	basePS := []int{1024, 4096, 512, 8192}[k%4]
	rounds := 2 + c.Rng.IntN(2)
	for round := 0; round < rounds; round++ {
		ps := basePS
		wantReject := false
		if round > 0 && c.Rng.IntN(3) == 0 {
			ps = []int{512, 2048, 16384}[c.Rng.IntN(3)]
			wantReject = ps != basePS // another page size over a populated database must be refused
		}
		body, wantHash, ok := makeSource(fmt.Sprintf("r%d", round), ps, (k+round)%2 == 1)
		if !ok {
			return
		}
		before := mon.PosOf(P.Node, "db")
		var beforeHash string
		if before.TXID > 0 {
			if r, err := proc.open(pdb, true); err == nil {
				beforeHash, _ = r.contentHash()
				r.close()
			}
		}
		var err error
		viaCLI := os.Getenv("VERIF_LITEFS_BIN") != "" && (k+round)%2 == 0
		if viaCLI {
			// the command line tool of the same build: litefs import -url ... -name db <file>
			out, cerr := exec.Command(os.Getenv("VERIF_LITEFS_BIN"), "import", "-url", P.URL(), "-name", "db", filepath.Join(c.Dir, fmt.Sprintf("src-r%d.db", round))).CombinedOutput()
			if cerr != nil {
				err = fmt.Errorf("litefs import: %v: %s", cerr, strings.TrimSpace(string(out)))
			}
			c.Count("kmount_cli_imports", 1)
		} else {
			err = cli.Import(context.Background(), P.URL(), "db", bytes.NewReader(body))
		}
		hist = append(hist, fmt.Sprintf("import round %d (page size %d, cli %v): %v", round, ps, viaCLI, err))
		if healthViolations(c, P.Node, "import", detail()) {
			return
		}
		if wantReject {
			after := mon.PosOf(P.Node, "db")
			if err == nil || after != before {
				fail("other-page-size-accepted", fmt.Sprintf("an image with page size %d was imported over a populated database with page size %d: err=%v, position %s -> %s", ps, basePS, err, before, after))
				return
			}
			if r, err := proc.open(pdb, true); err == nil {
				h, _ := r.contentHash()
				r.close()
				if h != beforeHash {
					fail("refused-import-changed-content", fmt.Sprintf("the refused import changed what SQLite reads: %s -> %s", beforeHash, h))
					return
				}
			}
			c.Count("kmount_imports_refused", 1)
			continue
		}
		if err != nil {
			fail("import-failed", fmt.Sprintf("import of a database made by SQLite (page size %d) failed: %v", ps, err))
			return
		}
		if got := mon.PosOf(P.Node, "db"); got.TXID != before.TXID+1 {
			fail("import-position", fmt.Sprintf("the import moved the position %s -> %s", before, got))
			return
		}
		c.Count("kmount_imports", 1)
		if !judgeImported(fmt.Sprintf("import round %d", round), body, wantHash, ps) {
			return
		}
		// SQLite goes on writing on the imported database
		w, err := proc.open(pdb, false)
		if err != nil {
			fail("open-after-import", err.Error())
			return
		}
		for i := 0; i < 2+c.Rng.IntN(3); i++ {
			q := fmt.Sprintf("INSERT INTO t0 VALUES(%d,%d,randomblob(%d))", 5000+round*100+i, round, 50+c.Rng.IntN(9000))
			if err := w.exec(q); err != nil {
				healthViolations(c, P.Node, q, detail())
				if !c.Violated() {
					fail("write-after-import-failed", fmt.Sprintf("%q after the import: %v", q, err))
				}
				w.close()
				return
			}
			hist = append(hist, q)
		}
		cur, err := w.contentHash()
		w.close()
		if err != nil {
			fail("read-error", err.Error())
			return
		}
		if _, prob := chain.advance(); prob != "" {
			fail("ltx-chain", "after writes on the imported database: "+prob)
			return
		}
		// export: plain SQLite must read from it what the mount shows
		var exp []byte
		if viaCLI {
			outPath := filepath.Join(c.Dir, fmt.Sprintf("export-r%d.db", round))
			_ = os.Remove(outPath)
			out, cerr := exec.Command(os.Getenv("VERIF_LITEFS_BIN"), "export", "-url", P.URL(), "-name", "db", outPath).CombinedOutput()
			if cerr != nil {
				fail("export-failed", fmt.Sprintf("litefs export: %v: %s", cerr, strings.TrimSpace(string(out))))
				return
			}
			if exp, err = os.ReadFile(outPath); err != nil {
				fail("export-failed", err.Error())
				return
			}
			c.Count("kmount_cli_exports", 1)
		} else {
			rc, err := cli.Export(context.Background(), P.URL(), "db")
			if err != nil {
				fail("export-failed", err.Error())
				return
			}
			exp, err = io.ReadAll(rc)
			rc.Close()
			if err != nil {
				fail("export-failed", err.Error())
				return
			}
		}
		eh, integ, err := plainHash(c.Dir, ref.ImageFromBytes(uint32(ps), exp), fmt.Sprintf("exp%d", round))
		if err != nil || integ != "ok" || eh != cur {
			fail("export-differs", fmt.Sprintf("round %d: plain SQLite reads %s from the export (integrity %q, %v), the mount shows %s", round, eh, integ, err, cur))
			return
		}
		if d := ref.ImageFromBytes(uint32(ps), exp).Diff(chain.img); d != "" {
			fail("export-image-differs", "the exported bytes differ from the image rebuilt from the transaction files: "+d)
			return
		}
		c.Count("kmount_exports_judged", 1)
	}
	c.Distinct(fmt.Sprintf("kmount/c16/ps%d/rounds%d", basePS, rounds))
	if k < 2 {
		c.Sample(detail())
	}
}
