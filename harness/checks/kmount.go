package checks

// Driver B: the file system is mounted through the kernel and REAL SQLite
// (mattn/go-sqlite3, cgo) runs SQL on it. These cases are appended to the case
// lists of C01, C02 and C03 and feed the same kind of oracle as the simulator
// cases: every LTX file the primary produces is decoded and applied to an
// independent reference image; that image must carry the checksum the file and
// the position claim, must equal the logical image of the raw files, and - opened
// by a plain SQLite outside the mount - must pass integrity_check and hold the
// same content SQLite reads through the mount. Replicas are read through their
// own kernel mount (real page cache, real invalidations).
//
// If mounting does not work in the environment the cases count
// kmount_unavailable and decide nothing (no floor depends on them).

import (
	"bufio"
	"context"
	"crypto/sha256"
	"database/sql"
	"encoding/json"
	"errors"
	"fmt"
	"io"
	"os"
	"os/exec"
	"path/filepath"
	"runtime"
	"sort"
	"strings"
	"sync"
	"sync/atomic"
	"time"

	_ "github.com/mattn/go-sqlite3"
	"github.com/superfly/litefs"
	"verif/cluster"
	"verif/core"
	"verif/drv"
	"verif/mon"
	"verif/ref"
)

func init() {
	addKMount("C01", "cluster", func(tier string) int {
		if tier == "thorough" {
			return 120
		}
		return 8
	})
	addKMount("C02", "rollback", func(tier string) int {
		if tier == "thorough" {
			return 160
		}
		return 10
	})
	addKMount("C03", "wal", func(tier string) int {
		if tier == "thorough" {
			return 160
		}
		return 10
	})
}

// addKMount appends n(tier) driver-B cases to a registered check.
func addKMount(id, variant string, n func(tier string) int) {
	chk := Registry[id]
	if chk == nil {
		return
	}
	baseN, baseRun := chk.NumCases, chk.Run
	chk.NumCases = func(tier string) int { return baseN(tier) + n(tier) }
	chk.Run = func(c *core.Case) {
		if b := baseN(c.Tier); c.Index >= b {
			runKMount(c, variant, c.Index-b)
			return
		}
		baseRun(c)
	}
	chk.Rule += " (+ driver B: the same oracles on real SQLite running SQL through a kernel mount of the file system, counters kmount_*)"
}

var kmountProbe struct {
	once sync.Once
	ok   bool
	why  string
}

func kmountAvailable() (bool, string) {
	kmountProbe.once.Do(func() {
		dir, err := os.MkdirTemp(core.ScratchBase(), "verif-kprobe-")
		if err != nil {
			kmountProbe.why = err.Error()
			return
		}
		defer os.RemoveAll(dir)
		n, err := drv.NewNode(drv.Config{Dir: filepath.Join(dir, "n"), Candidate: true, KernelMount: true,
			Leaser: litefs.NewStaticLeaser(true, "localhost", "http://127.0.0.1:1")})
		if err != nil {
			kmountProbe.why = err.Error()
			return
		}
		defer n.Close()
		if _, err := os.ReadDir(n.MountDir()); err != nil {
			kmountProbe.why = "readdir on the mount: " + err.Error()
			return
		}
		kmountProbe.ok = true
	})
	return kmountProbe.ok, kmountProbe.why
}

// ---------------------------------------------------------------------------

// localSQL is an in-process SQLite connection. It is used (a) inside the SQL
// child process for everything that touches a kernel mount and (b) in the
// worker itself only for plain files outside any mount.
//
// SQLite must NOT run on the mount from the process that serves the mount:
// WAL mode maps the -shm file, and munmap/page-fault paths then wait for FUSE
// requests while holding the address space's mmap lock, which the serving
// goroutines of the same process need - a kernel-level self-deadlock that
// nothing but aborting the FUSE connection resolves (seen once, see DESIGN 5.4).
type localSQL struct {
	db   *sql.DB
	conn *sql.Conn
}

func openLocalSQL(path string, readOnly bool, params ...string) (*localSQL, error) {
	dsn := "file:" + path + "?_busy_timeout=8000"
	if readOnly {
		dsn += "&mode=ro"
	}
	for _, p := range params {
		dsn += "&" + p
	}
	db, err := sql.Open("sqlite3", dsn)
	if err != nil {
		return nil, err
	}
	db.SetMaxOpenConns(1)
	conn, err := db.Conn(context.Background())
	if err != nil {
		db.Close()
		return nil, err
	}
	return &localSQL{db: db, conn: conn}, nil
}

func (s *localSQL) close() {
	if s == nil {
		return
	}
	_ = s.conn.Close()
	_ = s.db.Close()
}

func (s *localSQL) exec(q string) error {
	ctx, cancel := context.WithTimeout(context.Background(), 60*time.Second)
	defer cancel()
	_, err := s.conn.ExecContext(ctx, q)
	return err
}

func (s *localSQL) queryString(q string) (string, error) {
	ctx, cancel := context.WithTimeout(context.Background(), 60*time.Second)
	defer cancel()
	var out string
	err := s.conn.QueryRowContext(ctx, q).Scan(&out)
	return out, err
}

// contentHash reads schema and every row of every table inside one read
// transaction and hashes them.
func (s *localSQL) contentHash() (string, error) {
	ctx, cancel := context.WithTimeout(context.Background(), 120*time.Second)
	defer cancel()
	tx, err := s.conn.BeginTx(ctx, &sql.TxOptions{ReadOnly: true})
	if err != nil {
		return "", err
	}
	defer func() { _ = tx.Rollback() }()
	h := sha256.New()
	rows, err := tx.QueryContext(ctx, "SELECT type, name, tbl_name, coalesce(sql,'') FROM sqlite_master ORDER BY name, type")
	if err != nil {
		return "", err
	}
	var tables []string
	for rows.Next() {
		var typ, name, tbl, q string
		if err := rows.Scan(&typ, &name, &tbl, &q); err != nil {
			rows.Close()
			return "", err
		}
		fmt.Fprintf(h, "%s|%s|%s|%s\n", typ, name, tbl, q)
		if typ == "table" && !strings.HasPrefix(name, "sqlite_") {
			tables = append(tables, name)
		}
	}
	if err := rows.Err(); err != nil {
		rows.Close()
		return "", err
	}
	rows.Close()
	sort.Strings(tables)
	n := 0
	for _, t := range tables {
		r, err := tx.QueryContext(ctx, "SELECT id, k, v FROM "+t+" ORDER BY id")
		if err != nil {
			return "", err
		}
		for r.Next() {
			var id, k int64
			var v []byte
			if err := r.Scan(&id, &k, &v); err != nil {
				r.Close()
				return "", err
			}
			fmt.Fprintf(h, "%s:%d:%d:%d:", t, id, k, len(v))
			h.Write(v)
			n++
		}
		if err := r.Err(); err != nil {
			r.Close()
			return "", err
		}
		r.Close()
	}
	return fmt.Sprintf("%d-tables/%d-rows/%x", len(tables), n, h.Sum(nil)[:10]), nil
}

// ---- SQL child process -------------------------------------------------------

type sqlReq struct {
	Op     string   `json:"op"` // open | exec | query1 | hash | close
	H      int      `json:"h,omitempty"`
	Path   string   `json:"path,omitempty"`
	RO     bool     `json:"ro,omitempty"`
	Params []string `json:"params,omitempty"`
	Q      string   `json:"q,omitempty"`
}

type sqlResp struct {
	Err string `json:"err,omitempty"`
	Val string `json:"val,omitempty"`
	H   int    `json:"h,omitempty"`
}

// SQLChild is the main loop of `vcheck sqlchild`: JSON requests on stdin, JSON
// replies on stdout. It ends when stdin closes.
func SQLChild() int {
	in := bufio.NewReaderSize(os.Stdin, 1<<20)
	out := json.NewEncoder(os.Stdout)
	conns := map[int]*localSQL{}
	next := 0
	for {
		line, err := in.ReadBytes('\n')
		if err != nil {
			for _, c := range conns {
				c.close()
			}
			return 0
		}
		var req sqlReq
		var resp sqlResp
		if err := json.Unmarshal(line, &req); err != nil {
			resp.Err = "bad request: " + err.Error()
			_ = out.Encode(resp)
			continue
		}
		c := conns[req.H]
		switch req.Op {
		case "open":
			s, err := openLocalSQL(req.Path, req.RO, req.Params...)
			if err != nil {
				resp.Err = err.Error()
			} else {
				next++
				conns[next] = s
				resp.H = next
			}
		case "close":
			if c != nil {
				c.close()
				delete(conns, req.H)
			}
		case "exec", "query1", "hash":
			if c == nil {
				resp.Err = "no such connection"
				break
			}
			var err error
			switch req.Op {
			case "exec":
				err = c.exec(req.Q)
			case "query1":
				resp.Val, err = c.queryString(req.Q)
			case "hash":
				resp.Val, err = c.contentHash()
			}
			if err != nil {
				resp.Err = err.Error()
			}
		default:
			resp.Err = "unknown op"
		}
		if err := out.Encode(resp); err != nil {
			return 1
		}
	}
}

// sqlProc is the worker's handle on one SQL child process.
type sqlProc struct {
	mu   sync.Mutex
	cmd  *exec.Cmd
	in   io.WriteCloser
	out  *bufio.Reader
	dead bool
}

var errSQLChildTimeout = errors.New("SQL child did not answer in time (killed)")

func startSQLProc() (*sqlProc, error) {
	exe, err := os.Executable()
	if err != nil {
		return nil, err
	}
	cmd := exec.Command(exe, "sqlchild")
	cmd.Stderr = io.Discard
	in, err := cmd.StdinPipe()
	if err != nil {
		return nil, err
	}
	outp, err := cmd.StdoutPipe()
	if err != nil {
		return nil, err
	}
	if err := cmd.Start(); err != nil {
		return nil, err
	}
	return &sqlProc{cmd: cmd, in: in, out: bufio.NewReaderSize(outp, 1<<20)}, nil
}

func (p *sqlProc) stop() {
	if p == nil {
		return
	}
	p.mu.Lock()
	defer p.mu.Unlock()
	if !p.dead {
		p.dead = true
		_ = p.in.Close()
		done := make(chan struct{})
		go func() { _ = p.cmd.Wait(); close(done) }()
		select {
		case <-done:
		case <-time.After(5 * time.Second):
			_ = p.cmd.Process.Kill()
			<-done
		}
	}
}

func (p *sqlProc) call(req sqlReq) (sqlResp, error) {
	p.mu.Lock()
	defer p.mu.Unlock()
	if p.dead {
		return sqlResp{}, errors.New("SQL child is gone")
	}
	b, _ := json.Marshal(req)
	if _, err := p.in.Write(append(b, '\n')); err != nil {
		return sqlResp{}, err
	}
	type res struct {
		line []byte
		err  error
	}
	ch := make(chan res, 1)
	go func() {
		line, err := p.out.ReadBytes('\n')
		ch <- res{line, err}
	}()
	select {
	case r := <-ch:
		if r.err != nil {
			p.dead = true
			return sqlResp{}, fmt.Errorf("SQL child died: %w", r.err)
		}
		var resp sqlResp
		if err := json.Unmarshal(r.line, &resp); err != nil {
			return sqlResp{}, err
		}
		if resp.Err != "" {
			return resp, errors.New(resp.Err)
		}
		return resp, nil
	case <-time.After(150 * time.Second):
		p.dead = true
		_ = p.cmd.Process.Kill()
		go func() { _ = p.cmd.Wait() }()
		return sqlResp{}, errSQLChildTimeout
	}
}

// sqlDB is one SQLite connection living in a SQL child process.
type sqlDB struct {
	p *sqlProc
	h int
}

func (p *sqlProc) open(path string, readOnly bool, params ...string) (*sqlDB, error) {
	r, err := p.call(sqlReq{Op: "open", Path: path, RO: readOnly, Params: params})
	if err != nil {
		return nil, err
	}
	return &sqlDB{p: p, h: r.H}, nil
}

func (s *sqlDB) close() {
	if s != nil {
		_, _ = s.p.call(sqlReq{Op: "close", H: s.h})
	}
}
func (s *sqlDB) exec(q string) error {
	_, err := s.p.call(sqlReq{Op: "exec", H: s.h, Q: q})
	return err
}
func (s *sqlDB) queryString(q string) (string, error) {
	r, err := s.p.call(sqlReq{Op: "query1", H: s.h, Q: q})
	return r.Val, err
}
func (s *sqlDB) contentHash() (string, error) {
	r, err := s.p.call(sqlReq{Op: "hash", H: s.h})
	return r.Val, err
}

// ---------------------------------------------------------------------------

// ltxChain follows a node's ltx directory and rebuilds the image independently.
type ltxChain struct {
	dir   string
	img   *ref.Image
	pos   mon.PosKey
	files []string // every LTX file consumed so far, in order
	upto  []mon.PosKey
}

// advance consumes the files that appeared since the last call.
func (ch *ltxChain) advance() (newFiles int, problem string) {
	ents, _, err := mon.ListLTXDir(ch.dir)
	if err != nil {
		return 0, "list ltx dir: " + err.Error()
	}
	for _, e := range ents {
		if e.Max <= ch.pos.TXID {
			continue
		}
		path := filepath.Join(ch.dir, e.Name)
		f, err := mon.DecodeLTX(path)
		if err != nil {
			return newFiles, fmt.Sprintf("%s does not decode/verify: %v", e.Name, err)
		}
		if uint64(f.Header.MinTXID) != ch.pos.TXID+1 {
			return newFiles, fmt.Sprintf("%s starts at txid %d after position %s (gap or overlap)", e.Name, f.Header.MinTXID, ch.pos)
		}
		if ch.pos.TXID != 0 && uint64(f.Header.PreApplyChecksum) != ch.pos.Chk {
			return newFiles, fmt.Sprintf("%s pre-apply checksum %x != previous post-apply %x", e.Name, uint64(f.Header.PreApplyChecksum), ch.pos.Chk)
		}
		if p := f.StructuralProblems(); len(p) > 0 {
			return newFiles, fmt.Sprintf("%s: %s", e.Name, strings.Join(p, "; "))
		}
		ch.img = f.Apply(ch.img)
		if got := ch.img.Checksum(); got != uint64(f.Trailer.PostApplyChecksum) {
			return newFiles, fmt.Sprintf("applying %s to the reference image gives checksum %x, its trailer says %x", e.Name, got, uint64(f.Trailer.PostApplyChecksum))
		}
		ch.pos = mon.PosKey{TXID: uint64(f.Header.MaxTXID), Chk: uint64(f.Trailer.PostApplyChecksum)}
		ch.files = append(ch.files, path)
		ch.upto = append(ch.upto, ch.pos)
		newFiles++
	}
	return newFiles, ""
}

// imageAt rebuilds the image at an earlier position by replaying the files.
func (ch *ltxChain) imageAt(p mon.PosKey) *ref.Image {
	var img *ref.Image
	for i, path := range ch.files {
		f, err := mon.DecodeLTX(path)
		if err != nil {
			return nil
		}
		img = f.Apply(img)
		if ch.upto[i] == p {
			return img
		}
	}
	return nil
}

// plainHash opens an image with SQLite outside the mount.
func plainHash(dir string, img *ref.Image, tag string) (hash, integrity string, err error) {
	if img == nil || img.PageN == 0 {
		return "empty", "ok", nil
	}
	path := filepath.Join(dir, "plain-"+tag+".db")
	if err := os.WriteFile(path, img.Bytes(), 0o644); err != nil {
		return "", "", err
	}
	defer os.Remove(path)
	s, err := openLocalSQL(path, true, "immutable=1")
	if err != nil {
		return "", "", err
	}
	defer s.close()
	integrity, err = s.queryString("PRAGMA integrity_check")
	if err != nil {
		return "", "", fmt.Errorf("integrity_check: %w", err)
	}
	hash, err = s.contentHash()
	return hash, integrity, err
}

func isCorruptionErr(err error) bool {
	if err == nil {
		return false
	}
	m := strings.ToLower(err.Error())
	return strings.Contains(m, "malformed") || strings.Contains(m, "disk i/o") || strings.Contains(m, "not a database") || strings.Contains(m, "corrupt") || strings.Contains(m, "input/output")
}

func runKMount(c *core.Case, variant string, k int) {
	P0 := c.Prop
	if ok, why := kmountAvailable(); !ok {
		c.Count("kmount_unavailable", 1)
		if k == 0 {
			c.Sample(map[string]any{"kmount": "unavailable", "why": why})
		}
		return
	}
	c.Count("kmount_cases", 1)
	ps := []int{1024, 4096, 512, 8192, 2048, 16384}[c.Rng.IntN(6)]
	modes := []string{"delete", "truncate", "persist"}
	if variant == "wal" {
		modes = []string{"wal"}
	} else if variant == "cluster" {
		modes = []string{"delete", "wal", "truncate", "wal", "persist"}
	}
	mode := modes[k%len(modes)]
	autoVac := []int{0, 0, 1, 2}[c.Rng.IntN(4)]
	smallCache := c.Rng.IntN(2) == 0
	withReplica := variant == "cluster"
	steps := 40
	if c.Tier == "thorough" {
		steps = 90
	}
	opts := []cluster.NodeOpts{{Candidate: true, KernelMount: true}}
	if withReplica {
		opts = append(opts, cluster.NodeOpts{KernelMount: true})
	}
	cl, err := cluster.New(c.Dir, opts)
	if err != nil {
		c.Inconclusive(err.Error())
		return
	}
	defer cl.Close()
	if err := cl.Start(0); err != nil || cl.WaitPrimary(0, 10*time.Second) == nil {
		c.Inconclusive(fmt.Sprintf("primary start: %v", err))
		return
	}
	if withReplica {
		if err := cl.Start(1); err != nil || !cl.WaitConnected(1, 10*time.Second) {
			c.Inconclusive(fmt.Sprintf("replica start: %v", err))
			return
		}
	}
	P := cl.Nodes[0]
	var hist []string
	detail := func(extra map[string]any) map[string]any {
		h := hist
		if len(h) > 60 {
			h = h[len(h)-60:]
		}
		d := map[string]any{"driver": "B (kernel mount + real SQLite)", "variant": variant, "page_size": ps, "journal_mode": mode, "auto_vacuum": autoVac, "small_cache": smallCache, "sql_tail": h}
		for k, v := range extra {
			d[k] = v
		}
		return d
	}
	fail := func(fp, what string, extra map[string]any) {
		c.Violate(P0+"/kmount/"+fp, what, detail(extra))
	}
	wproc, err := startSQLProc()
	if err != nil {
		c.Inconclusive("SQL child: " + err.Error())
		return
	}
	defer wproc.stop()
	w, err := wproc.open(filepath.Join(P.MountDir(), "db"), false)
	if err != nil {
		fail("open", "cannot open the database through the mount: "+err.Error(), nil)
		return
	}
	defer w.close()
	chain := &ltxChain{dir: filepath.Join(mon.DBDir(P.Node, "db"), "ltx")}

	inTx := false
	inTxNow := func() bool { return inTx }
	// run executes one statement on the primary and judges the chain afterwards
	run := func(q string, mustChange bool) bool {
		hist = append(hist, q)
		before := mon.PosOf(P.Node, "db")
		err := w.exec(q)
		c.Count("kmount_statements", 1)
		if healthViolations(c, P.Node, "real SQLite: "+q, detail(nil)) {
			return false
		}
		if err != nil {
			fail("sql-error", fmt.Sprintf("statement failed on a healthy primary: %q: %v", q, err), nil)
			return false
		}
		n, prob := chain.advance()
		if prob != "" {
			fail("ltx-chain", "after "+q+": "+prob, nil)
			return false
		}
		c.Count("kmount_ltx_files", n)
		after := mon.PosOf(P.Node, "db")
		if after != chain.pos {
			fail("position", fmt.Sprintf("after %q the node reports %s but its newest transaction file ends at %s", q, after, chain.pos), nil)
			return false
		}
		if mustChange && after == before {
			fail("commit-not-captured", fmt.Sprintf("%q changed the database but no transaction was recorded (position stays %s)", q, after), nil)
			return false
		}
		// the raw files must hold exactly the reference image (C04's oracle);
		// inside an open transaction a cache spill legitimately puts uncommitted
		// pages into the database file (the hot journal undoes them)
		raw := mon.RawImage(mon.DBDir(P.Node, "db"))
		if d := chain.img.Diff(raw); d != "" && !inTxNow() {
			fail("raw-image", fmt.Sprintf("after %q the database files differ from the image rebuilt from the transaction files at %s: %s", q, after, d), nil)
			return false
		}
		c.Count("kmount_chain_checks", 1)
		return true
	}
	// content: what SQLite reads through the mount == a plain SQLite on the rebuilt image
	content := func(ctx string) (string, bool) {
		got, err := w.contentHash()
		if err != nil {
			fail("read-error", ctx+": reading through the primary's mount failed: "+err.Error(), nil)
			return "", false
		}
		want, integ, err := plainHash(c.Dir, chain.img, "p")
		if err != nil {
			fail("rebuilt-image-unreadable", fmt.Sprintf("%s: the image rebuilt from the transaction files at %s cannot be read by SQLite: %v", ctx, chain.pos, err), nil)
			return "", false
		}
		if integ != "ok" {
			fail("rebuilt-image-integrity", fmt.Sprintf("%s: integrity_check of the image rebuilt from the transaction files at %s: %s", ctx, chain.pos, integ), nil)
			return "", false
		}
		if got != want {
			fail("content-differs", fmt.Sprintf("%s: SQLite reads %s through the mount but the image rebuilt from the transaction files at %s holds %s", ctx, got, chain.pos, want), nil)
			return "", false
		}
		c.Count("kmount_content_checks", 1)
		return got, true
	}

	// replica reader: continuous reads through the replica's own kernel mount
	type rsample struct {
		before, after mon.PosKey
		hash          string
		err           error
	}
	var samples []rsample
	var smu sync.Mutex
	var stop atomic.Bool
	var rwg sync.WaitGroup
	var R *cluster.CNode
	startReader := func() {
		R = cl.Nodes[1]
		rproc, err := startSQLProc()
		if err != nil {
			return
		}
		rwg.Add(1)
		go func() {
			defer rwg.Done()
			defer rproc.stop()
			for !stop.Load() {
				if mon.PosOf(R.Node, "db").TXID == 0 {
					time.Sleep(2 * time.Millisecond)
					continue
				}
				// a fresh connection per read: an idle WAL-mode connection keeps the
				// database SHARED lock for its whole life, and if the primary
				// meanwhile switches the database to a rollback-journal mode the
				// replica's apply (which then needs that lock exclusively) waits for
				// the application to close it - LiteFS cannot pre-empt application
				// locks, so that wait is not judged here
				r, err := rproc.open(filepath.Join(R.MountDir(), "db"), true)
				if err != nil {
					time.Sleep(2 * time.Millisecond)
					continue
				}
				b := mon.PosOf(R.Node, "db")
				h, err := r.contentHash()
				a := mon.PosOf(R.Node, "db")
				r.close()
				smu.Lock()
				if len(samples) < 400 {
					samples = append(samples, rsample{b, a, h, err})
				}
				smu.Unlock()
				// leave gaps: a reader that re-takes SHARED back to back starves the
				// replica's apply (which polls for the exclusive lock)
				time.Sleep(time.Duration(10+c.Rng.IntN(30)) * time.Millisecond)
			}
		}()
	}
	defer func() { stop.Store(true); rwg.Wait() }()

	// ---- setup
	for _, q := range []string{fmt.Sprintf("PRAGMA page_size=%d", ps), fmt.Sprintf("PRAGMA auto_vacuum=%d", autoVac)} {
		if err := w.exec(q); err != nil {
			fail("sql-error", q+": "+err.Error(), nil)
			return
		}
	}
	if jm, err := w.queryString("PRAGMA journal_mode=" + mode); err != nil || !strings.EqualFold(jm, mode) {
		fail("journal-mode", fmt.Sprintf("PRAGMA journal_mode=%s answered %q, %v", mode, jm, err), nil)
		return
	}
	hist = append(hist, "PRAGMA journal_mode="+mode)
	if smallCache {
		_ = w.exec("PRAGMA cache_size=6")
	}
	if !run("CREATE TABLE t0(id INTEGER PRIMARY KEY, k INTEGER, v BLOB)", true) {
		return
	}
	if withReplica {
		startReader()
	}
	tables := []string{"t0"}
	nextID := map[string]int{"t0": 1}
	curMode := mode
	for step := 0; step < steps && !c.Violated(); step++ {
		t := tables[c.Rng.IntN(len(tables))]
		q, must := "", true
		switch r := c.Rng.IntN(100); {
		case r < 34:
			n := []int{10, 200, 900, 3000, 20000, 70000}[c.Rng.IntN(6)]
			q = fmt.Sprintf("INSERT INTO %s(id,k,v) VALUES(%d,%d,randomblob(%d))", t, nextID[t], c.Rng.IntN(1000), n)
			nextID[t]++
		case r < 46:
			q = fmt.Sprintf("INSERT OR IGNORE INTO %s(id,k,v) SELECT id+%d, k, randomblob(%d) FROM %s LIMIT %d", t, 1000000+step*1000, 50+c.Rng.IntN(400), t, 1+c.Rng.IntN(30))
			must = false
		case r < 58:
			q = fmt.Sprintf("UPDATE %s SET v=randomblob(%d), k=k+1 WHERE id%%%d=0", t, 20+c.Rng.IntN(3000), 1+c.Rng.IntN(4))
			must = false
		case r < 68:
			q = fmt.Sprintf("DELETE FROM %s WHERE id%%%d=%d", t, 2+c.Rng.IntN(3), c.Rng.IntN(2))
			must = false
		case r < 72 && !inTx:
			q, must = "VACUUM", false
		case r < 75 && !inTx && autoVac == 2:
			q, must = fmt.Sprintf("PRAGMA incremental_vacuum(%d)", 1+c.Rng.IntN(20)), false
		case r < 80 && !inTx:
			q, must = "BEGIN IMMEDIATE", false
			inTx = true
		case r < 88 && inTx:
			if c.Rng.IntN(4) == 0 {
				q = "ROLLBACK"
			} else {
				q = "COMMIT"
			}
			must, inTx = false, false
		case r < 91 && !inTx && len(tables) < 4:
			nt := fmt.Sprintf("t%d", len(tables))
			q = fmt.Sprintf("CREATE TABLE %s(id INTEGER PRIMARY KEY, k INTEGER, v BLOB)", nt)
			tables = append(tables, nt)
			nextID[nt] = 1
		case r < 93 && !inTx:
			q, must = fmt.Sprintf("CREATE INDEX IF NOT EXISTS i_%s_%d ON %s(k)", t, c.Rng.IntN(2), t), false
		case r < 96 && !inTx && curMode == "wal":
			q, must = fmt.Sprintf("PRAGMA wal_checkpoint(%s)", pick(c, []string{"PASSIVE", "FULL", "RESTART", "TRUNCATE"})), false
		case r < 98 && !inTx && variant != "rollback" && c.Tier == "thorough":
			// journal-mode switch in both directions
			if curMode == "wal" {
				curMode = pick(c, []string{"delete", "truncate", "persist"})
			} else {
				curMode = "wal"
			}
			q, must = "PRAGMA journal_mode="+curMode, false
			c.Count("kmount_mode_switches", 1)
		default:
			q = fmt.Sprintf("INSERT INTO %s(id,k,v) VALUES(%d,%d,zeroblob(%d))", t, nextID[t], step, c.Rng.IntN(5000))
			nextID[t]++
		}
		if inTx && q != "BEGIN IMMEDIATE" {
			must = false
		}
		if !run(q, must) {
			return
		}
		if (step%10 == 9 || step == steps-1) && !inTx {
			h, ok := content(fmt.Sprintf("step %d", step))
			if !ok {
				return
			}
			if withReplica {
				ok, _, timedOut := cl.WaitConverged(P, R, []string{"db"}, 8, 30*time.Second)
				if timedOut {
					if os.Getenv("VERIF_KDEBUG") != "" {
						buf := make([]byte, 1<<22)
						buf = buf[:runtime.Stack(buf, true)]
						_ = os.WriteFile(fmt.Sprintf("/dev/shm/kstall-%d.txt", c.Index), buf, 0o644)
					}
					c.Inconclusive("replica convergence watchdog")
					return
				}
				if !ok {
					fail("replica-not-converged", fmt.Sprintf("the replica is at %s, the primary at %s", mon.PosOf(R.Node, "db"), mon.PosOf(P.Node, "db")), nil)
					return
				}
				r, err := wproc.open(filepath.Join(R.MountDir(), "db"), true)
				if err != nil {
					fail("replica-open", err.Error(), nil)
					return
				}
				rh, err := r.contentHash()
				r.close()
				if err != nil {
					fail("replica-read-error", fmt.Sprintf("reading through the replica's mount at %s failed: %v", mon.PosOf(R.Node, "db"), err), nil)
					return
				}
				if rh != h {
					fail("replica-content-differs", fmt.Sprintf("at %s SQLite reads %s through the replica's mount, the primary holds %s", mon.PosOf(R.Node, "db"), rh, h), nil)
					return
				}
				c.Count("kmount_replica_reads_converged", 1)
			}
		}
	}
	if inTx {
		_ = run("COMMIT", false)
	}
	if c.Violated() {
		return
	}
	if _, ok := content("end"); !ok {
		return
	}
	// judge the concurrent replica reads: each must be the content of one
	// position between the positions sampled around it
	if withReplica {
		stop.Store(true)
		rwg.Wait()
		healthViolations(c, R.Node, "replica (real SQLite reads)", detail(nil))
		hashAt := map[mon.PosKey]string{}
		for i, s := range samples {
			if s.err != nil {
				if isCorruptionErr(s.err) {
					fail("replica-read-corrupt", fmt.Sprintf("a read through the replica's mount between %s and %s failed with %v", s.before, s.after, s.err), nil)
					return
				}
				c.Count("kmount_replica_read_errors_other", 1)
				continue
			}
			okRead := false
			var tried []string
			for j, p := range chain.upto {
				if p.TXID < s.before.TXID || p.TXID > s.after.TXID {
					continue
				}
				h, seen := hashAt[p]
				if !seen {
					var err error
					h, _, err = plainHash(c.Dir, chain.imageAt(p), fmt.Sprintf("r%d-%d", i, j))
					if err != nil {
						h = "unreadable: " + err.Error()
					}
					hashAt[p] = h
				}
				tried = append(tried, p.String()+"="+h)
				if h == s.hash {
					okRead = true
					break
				}
			}
			if !okRead && len(tried) > 0 {
				fail("replica-read-not-a-committed-state", fmt.Sprintf("a read through the replica's mount while it moved from %s to %s returned %s, which is the content of none of the positions in between (%s)", s.before, s.after, s.hash, strings.Join(tried, ", ")), nil)
				return
			}
			if okRead {
				c.Count("kmount_replica_reads_judged", 1)
			}
		}
	}
	c.Distinct(fmt.Sprintf("kmount/%s/%s/ps%d/av%d/cache%v", variant, mode, ps, autoVac, smallCache))
	if k < 2 {
		c.Sample(detail(map[string]any{"final_pos": chain.pos.String(), "ltx_files": len(chain.files)}))
	}
}
