package checks

// Extra C02 cases: the SQLite client dies in the middle of a rollback-journal
// transaction (hot journal left, locks gone), LiteFS itself rolls the journal
// back when the node's role changes, and the next transaction grows the
// database again - with never-written pages exactly where the dead transaction
// had written. The new transaction must commit and be captured like any other.

import (
	"errors"
	"fmt"
	"strings"
	"sync"
	"time"

	"verif/cluster"
	"verif/core"
	"verif/mon"
	"verif/pager"
)

func init() {
	chk := Registry["C02"]
	if chk == nil {
		return
	}
	baseN, baseRun := chk.NumCases, chk.Run
	extra := func(tier string) int {
		if tier == "thorough" {
			return 120
		}
		return 12
	}
	chk.NumCases = func(tier string) int { return baseN(tier) + extra(tier) }
	chk.Run = func(c *core.Case) {
		if b := baseN(c.Tier); c.Index >= b {
			runC02Recover(c, c.Index-b)
			return
		}
		baseRun(c)
	}
	baseFloors := chk.Floors
	chk.Floors = func(tier string) map[string]int {
		m := map[string]int{}
		if baseFloors != nil {
			for k, v := range baseFloors(tier) {
				m[k] = v
			}
		}
		m["commits_after_litefs_rollback"] = 6
		return m
	}
	chk.Rule += "; (+ recover cases: the client dies mid-transaction, LiteFS rolls the hot journal back itself on a role change, the next transaction grows over the same pages with unwritten ones; counter commits_after_litefs_rollback)"
}

func runC02Recover(c *core.Case, k int) {
	ps := []uint32{1024, 512, 4096}[k%3]
	mode := []string{"delete", "truncate", "persist"}[(k/3)%3]
	var mu sync.Mutex
	blocked := false
	cl, err := cluster.New(c.Dir, []cluster.NodeOpts{{Candidate: true}})
	if err != nil {
		c.Inconclusive(err.Error())
		return
	}
	defer cl.Close()
	cl.Svc.SetInject(func(node, op string) error {
		mu.Lock()
		defer mu.Unlock()
		if blocked && op == "acquire" {
			return errors.New("scripted: acquire unavailable")
		}
		return nil
	})
	if err := cl.Start(0); err != nil || cl.WaitPrimary(0, 10*time.Second) == nil {
		c.Inconclusive("primary start")
		return
	}
	P := cl.Nodes[0]
	led := newLedger()
	detail := map[string]any{"page_size": ps, "journal_mode": mode}
	w, err := newWriter(P.Node, "db", ps, false, mode, nil, c.SubRng("w"), led, 1)
	if err != nil {
		c.Violate("C02/setup", err.Error(), detail)
		return
	}
	base := uint32(4 + c.Rng.IntN(4))
	if err := w.ensure(base); err != nil {
		c.Violate("C02/setup", err.Error(), detail)
		return
	}
	_, _ = w.txn(0)
	cur := w.d.M.PageN
	grow := uint32(3 + c.Rng.IntN(5))
	// ---- the client writes a growing transaction and dies before finalising the journal
	w.d.Hook = func(step string) error {
		if strings.HasPrefix(step, "journal finalize") {
			return pager.ErrAbort
		}
		return nil
	}
	spec := pager.RollbackSpec{Mode: mode, Outcome: "commit", NewPageN: cur + grow, Dirty: []uint32{1 + uint32(c.Rng.IntN(int(cur)))}}
	res := w.conn.RunRollbackTx(spec)
	w.d.Hook = nil
	c.Count("stale_journal_headers_zapped", res.StaleHdrZaps)
	if !res.Aborted {
		c.Inconclusive(fmt.Sprintf("the transaction was not aborted at the finalisation step (err %v)", res.Err))
		return
	}
	w.close() // descriptors closed: locks released, hot journal and grown file stay
	before := mon.PosOf(P.Node, "db")
	// ---- LiteFS recovers by itself: role change
	mu.Lock()
	blocked = true
	mu.Unlock()
	P.Store.Demote()
	for dl := time.Now().Add(10 * time.Second); P.Store.IsPrimary() && time.Now().Before(dl); {
		time.Sleep(time.Millisecond)
	}
	time.Sleep(30 * time.Millisecond)
	mu.Lock()
	blocked = false
	mu.Unlock()
	if cl.WaitPrimary(0, 15*time.Second) == nil {
		c.Inconclusive("node did not become primary again")
		return
	}
	time.Sleep(30 * time.Millisecond)
	if healthViolations(c, P.Node, "role-change recovery over a hot journal", detail) {
		return
	}
	if p := mon.PosOf(P.Node, "db"); p != before {
		c.Violate("C02/position-moved-by-recovery", fmt.Sprintf("rolling back a dead client's journal moved the position %s -> %s", before, p), detail)
		return
	}
	img, ok := led.get("db", before)
	if !ok {
		c.Inconclusive("ledger")
		return
	}
	judgeRawChecksum(c, P.Node, "db", "after LiteFS rolled the hot journal back", detail)
	if c.Violated() {
		return
	}
	// ---- a new client grows the database again, leaving holes where the dead one wrote
	w2, err := newWriter(P.Node, "db", ps, false, mode, img, c.SubRng("w2"), led, 2)
	if err != nil {
		c.Violate("C02/setup", "reopen: "+err.Error(), detail)
		return
	}
	defer w2.close()
	if err := w2.ensure(0); err != nil {
		c.Violate("C02/op-refused/open", err.Error(), detail)
		return
	}
	oldImg := w2.d.M
	spec2 := pager.RollbackSpec{Mode: mode, Outcome: "commit", NewPageN: cur + grow, Dirty: []uint32{1}, UnwrittenNew: grow - 1}
	res2 := w2.conn.RunRollbackTx(spec2)
	ctx := fmt.Sprintf("grow %d->%d with %d unwritten pages after a LiteFS-side journal rollback", cur, cur+grow, grow-1)
	detail["spec"] = spec2
	if healthViolations(c, P.Node, ctx, detail) {
		return
	}
	if res2.Err != nil {
		c.Violate("C02/op-refused/"+res2.ErrStep, fmt.Sprintf("LiteFS failed a legal SQLite step %q: %v (%s)", res2.ErrStep, res2.Err, ctx), detail)
		return
	}
	out := judgeLocalTx(c, P.Node, "db", before, oldImg, w2.d.M, true, ctx, detail)
	if !out.Advanced && !c.Violated() {
		c.Violate("C02/commit-not-captured", "position stayed "+before.String()+" ("+ctx+")", detail)
	}
	judgeRawChecksum(c, P.Node, "db", ctx, detail)
	if c.Violated() {
		return
	}
	c.Count("commits_after_litefs_rollback", 1)
	c.Distinct(fmt.Sprintf("recover/ps%d/%s/grow%d", ps, mode, grow))
}
