// Package checks holds one check per property.
package checks

import (
	"fmt"
	"path/filepath"
	"sort"
	"sync"
	"time"

	"github.com/superfly/litefs"
	"verif/core"
	"verif/drv"
	"verif/mon"
	"verif/pager"
	"verif/ref"
)

// Registry of all checks.
var Registry = map[string]*core.Check{}

func register(c *core.Check) { Registry[c.ID] = c }

func IDs() []string {
	var ids []string
	for k := range Registry {
		ids = append(ids, k)
	}
	sort.Strings(ids)
	return ids
}

// newPrimary starts a single static-primary node in dir.
func newPrimary(dir string, tune func(*litefs.Store)) (*drv.Node, error) {
	n, err := drv.NewNode(drv.Config{
		Dir: dir, Candidate: true,
		Leaser: litefs.NewStaticLeaser(true, "localhost", "http://127.0.0.1:1"),
		Tune:   tune,
	})
	if err != nil {
		return nil, err
	}
	if !n.WaitReady(10 * time.Second) {
		n.Close()
		return nil, fmt.Errorf("node not ready")
	}
	return n, nil
}

// pick returns a random element.
func pick[T any](c *core.Case, a []T) T { return a[c.Rng.IntN(len(a))] }

// healthViolations reports Store.Exit calls and handler panics as violations.
func healthViolations(c *core.Case, n *drv.Node, ctx string, detail any) bool {
	bad := false
	for _, e := range n.Exits() {
		c.Violate(c.Prop+"/store-exit/"+siteOf(e.Stack), fmt.Sprintf("Store.Exit(%d) on a healthy history (%s)", e.Code, ctx), map[string]any{"detail": detail, "stack": trimStack(e.Stack)})
		bad = true
	}
	for _, p := range n.Panics() {
		c.Violate(c.Prop+"/panic/"+siteOf(p.Stack), fmt.Sprintf("handler panic: %v (%s)", p.Value, ctx), map[string]any{"detail": detail, "stack": trimStack(p.Stack)})
		bad = true
	}
	return bad
}

// siteOf names the innermost litefs function on a stack (skipping hooks).
func siteOf(stack string) string {
	site := "unknown"
	lines := splitLines(stack)
	for _, l := range lines {
		if len(l) > 0 && l[0] != '\t' && hasPrefix(l, "github.com/superfly/litefs") {
			fn := l
			if j := lastIndex(fn, "("); j > 0 {
				fn = fn[:j]
			}
			fn = trimPrefix(fn, "github.com/superfly/litefs")
			fn = trimPrefix(fn, "/")
			fn = trimPrefix(fn, ".")
			if fn == "(*Store).Exit" || hasPrefix(fn, "verif") {
				continue
			}
			site = fn
			break
		}
	}
	return site
}

func trimStack(s string) string {
	if len(s) > 3000 {
		return s[:3000]
	}
	return s
}

// ledger maps positions to images per database.
type ledger struct {
	mu sync.Mutex
	m  map[string]map[mon.PosKey]*ref.Image
}

func newLedger() *ledger { return &ledger{m: map[string]map[mon.PosKey]*ref.Image{}} }

func (l *ledger) put(db string, p mon.PosKey, img *ref.Image) {
	// The ledger maps a position to the image with that position's checksum. A
	// writer whose commit step failed without an error it can see (WAL commits
	// happen at unlock) still believes in its new image while the node stays at
	// the old position: never file an image under a checksum it does not have.
	if p.TXID != 0 && img.Checksum() != p.Chk {
		return
	}
	l.mu.Lock()
	defer l.mu.Unlock()
	if l.m[db] == nil {
		l.m[db] = map[mon.PosKey]*ref.Image{}
	}
	l.m[db][p] = img
}

func (l *ledger) get(db string, p mon.PosKey) (*ref.Image, bool) {
	l.mu.Lock()
	defer l.mu.Unlock()
	img, ok := l.m[db][p]
	return img, ok
}

// txOracle judges one finished local transaction on a writable node against
// the LTX-decode oracle shared by C02/C03/C04. prev is the position before,
// oldImg the image before, want the image SQLite now sees.
type txOutcome struct {
	Advanced bool
	Pos      mon.PosKey
	LTX      *mon.LTXFile
}

func judgeLocalTx(c *core.Case, n *drv.Node, name string, prev mon.PosKey, oldImg, want *ref.Image, committed bool, ctx string, detail any) (out txOutcome) {
	prop := c.Prop
	pos := mon.PosOf(n, name)
	out.Pos = pos
	if pos.TXID < prev.TXID || pos.TXID > prev.TXID+1 {
		c.Violate(prop+"/txid-jump", fmt.Sprintf("position moved from %s to %s (%s)", prev, pos, ctx), detail)
		return
	}
	out.Advanced = pos.TXID == prev.TXID+1
	wantChk := want.Checksum()
	if !out.Advanced {
		if pos != prev {
			c.Violate(prop+"/checksum-changed-without-txid", fmt.Sprintf("position %s -> %s (%s)", prev, pos, ctx), detail)
		}
		if committed && want.Diff(oldImg) != "" {
			c.Violate(prop+"/commit-not-captured", fmt.Sprintf("a committed transaction changed the image (%s) but the position stayed %s (%s)", want.Diff(oldImg), pos, ctx), detail)
		}
		return
	}
	path := filepath.Join(mon.DBDir(n, name), "ltx", fmt.Sprintf("%016x-%016x.ltx", pos.TXID, pos.TXID))
	l, err := mon.DecodeLTX(path)
	if err != nil {
		c.Violate(prop+"/ltx-unreadable", fmt.Sprintf("new transaction file %s: %v (%s)", filepath.Base(path), err, ctx), detail)
		return
	}
	out.LTX = l
	if uint64(l.Header.MinTXID) != pos.TXID || uint64(l.Header.MaxTXID) != pos.TXID {
		c.Violate(prop+"/ltx-txid", fmt.Sprintf("ltx header txids %d-%d, expected %d (%s)", l.Header.MinTXID, l.Header.MaxTXID, pos.TXID, ctx), detail)
	}
	if prev.TXID > 0 && uint64(l.Header.PreApplyChecksum) != prev.Chk {
		c.Violate(prop+"/ltx-prechecksum", fmt.Sprintf("ltx pre-apply checksum %x != previous position checksum %x (%s)", uint64(l.Header.PreApplyChecksum), prev.Chk, ctx), detail)
	}
	for _, p := range l.StructuralProblems() {
		c.Violate(prop+"/ltx-structure", p+" ("+ctx+")", detail)
	}
	got := l.Apply(oldImg)
	if d := got.Diff(want); d != "" {
		fp := "/ltx-image-mismatch"
		if !committed {
			fp = "/rolledback-tx-changed-image"
		}
		c.Violate(prop+fp, fmt.Sprintf("ltx %d applied to previous image differs from what SQLite sees: %s (%s)", pos.TXID, d, ctx), detail)
	}
	if uint64(l.Trailer.PostApplyChecksum) != wantChk {
		c.Violate(prop+"/ltx-postchecksum", fmt.Sprintf("ltx post-apply checksum %x != from-scratch checksum %x of the image SQLite sees (%s)", uint64(l.Trailer.PostApplyChecksum), wantChk, ctx), detail)
	}
	if pos.Chk != wantChk {
		c.Violate(prop+"/pos-checksum", fmt.Sprintf("reported checksum %x != from-scratch checksum %x (%s)", pos.Chk, wantChk, ctx), detail)
	}
	if !committed && pos.Chk != prev.Chk {
		c.Violate(prop+"/rolledback-tx-changed-checksum", fmt.Sprintf("checksum changed %x -> %x by a rolled back transaction (%s)", prev.Chk, pos.Chk, ctx), detail)
	}
	return
}

// judgeSeen compares what is readable through the mount with want.
func judgeSeen(c *core.Case, n *drv.Node, name string, owner uint64, want *ref.Image, ctx string, detail any) {
	seen, err := mon.SeenImage(n, name, owner, true)
	if err != nil {
		c.Violate(c.Prop+"/read-error", fmt.Sprintf("reading %s through the mount: %v (%s)", name, err, ctx), detail)
		return
	}
	if d := seen.Diff(want); d != "" {
		c.Violate(c.Prop+"/seen-image-mismatch", fmt.Sprintf("image readable through the mount differs from SQLite's image at position %s: %s (%s)", mon.PosOf(n, name), d, ctx), detail)
	}
}

// judgeRawChecksum compares the reported checksum with the from-scratch
// checksum of the raw files (C04 monitor). Must be called at a quiescent point.
func judgeRawChecksum(c *core.Case, n *drv.Node, name string, ctx string, detail any) {
	pos := mon.PosOf(n, name)
	img := mon.RawImage(mon.DBDir(n, name))
	if pos.TXID == 0 {
		return
	}
	if got := img.Checksum(); got != pos.Chk {
		c.Violate("C04/raw-checksum-mismatch", fmt.Sprintf("%s: reported checksum %x != from-scratch checksum %x over raw files (pageN=%d) (%s)", name, pos.Chk, got, img.PageN, ctx), detail)
	}
	c.Count("c04_raw_checks", 1)
}

// expectTxEvent drains events and checks one tx event with pos arrived.
func drainEvents(sub *litefs.EventSubscriber) []litefs.Event {
	var evs []litefs.Event
	for {
		select {
		case e, ok := <-sub.C():
			if !ok {
				return evs
			}
			evs = append(evs, e)
		default:
			return evs
		}
	}
}

func hasTxEvent(evs []litefs.Event, name string, pos mon.PosKey) bool {
	for _, e := range evs {
		if e.Type == litefs.EventTypeTx && e.DB == name {
			if d, ok := e.Data.(litefs.TxEventData); ok && uint64(d.TXID) == pos.TXID && uint64(d.PostApplyChecksum) == pos.Chk {
				return true
			}
		}
	}
	return false
}

var _ = pager.PendingByte

// tiny string helpers (avoid importing strings everywhere)
func splitLines(s string) []string {
	var out []string
	start := 0
	for i := 0; i < len(s); i++ {
		if s[i] == '\n' {
			out = append(out, s[start:i])
			start = i + 1
		}
	}
	if start < len(s) {
		out = append(out, s[start:])
	}
	return out
}
func hasPrefix(s, p string) bool { return len(s) >= len(p) && s[:len(p)] == p }
func trimPrefix(s, p string) string {
	if hasPrefix(s, p) {
		return s[len(p):]
	}
	return s
}
func lastIndex(s, sub string) int {
	for i := len(s) - len(sub); i >= 0; i-- {
		if s[i:i+len(sub)] == sub {
			return i
		}
	}
	return -1
}

// drvNewStaticReplica starts a node whose static leaser points at a dead primary.
func drvNewStaticReplica(dir string) (*drv.Node, error) {
	return drv.NewNode(drv.Config{Dir: dir, Candidate: false, Leaser: litefs.NewStaticLeaser(false, "primary-host", "http://127.0.0.1:1")})
}
