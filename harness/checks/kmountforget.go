//go:build verif

package checks

import (
	"fmt"
	"path/filepath"
	"sync/atomic"
	"time"

	"bazil.org/fuse/fs"
	lfuse "github.com/superfly/litefs/fuse"

	"verif/cluster"
	"verif/core"
	"verif/mon"
)

func init() {
	addKMountCounter("C01", func(tier string) int {
		if tier == "thorough" {
			return 24
		}
		return 3
	}, runKMountForgetRace, "kmount_forget_cases")
	addMountFloors(Registry["C01"], func(tier string) map[string]int {
		return map[string]int{"kmount_forget_race_steered": 2}
	})
}

// runKMountForgetRace: a kernel FORGET of the database's inode overtakes a
// LOOKUP of the same name on a replica. The kernel evicts inodes whenever it
// likes (memory pressure, drop_caches); the FUSE library handles requests
// concurrently, and it drops a forgotten node from its own tables before it
// calls the node's Forget method. A lookup of the name in between is answered
// from RootNode's cache and registered again; Forget then removes the name.
// The case steers exactly that order with the hook fuse.VerifBeforeForgetNode
// and then does what C01 always does: an
// application reads the database on the replica, the primary commits, the
// replica applies, the application reads again - and must read the image of
// the position the replica reports, not what its kernel cached before.
func runKMountForgetRace(c *core.Case, k int) {
	if ok, why := kmountAvailable(); !ok {
		c.Count("kmount_unavailable", 1)
		if k == 0 {
			c.Sample(map[string]any{"kmount": "unavailable", "why": why})
		}
		return
	}
	c.Count("kmount_forget_cases", 1)
	mode := []string{"delete", "wal", "truncate"}[k%3]
	ps := []int{1024, 4096, 512}[(k/3)%3]
	cl, err := cluster.New(c.Dir, []cluster.NodeOpts{{Candidate: true, KernelMount: true}, {KernelMount: true}})
	if err != nil {
		c.Inconclusive(err.Error())
		return
	}
	defer cl.Close()
	if err := cl.Start(0); err != nil || cl.WaitPrimary(0, 10*time.Second) == nil {
		c.Inconclusive(fmt.Sprintf("primary start: %v", err))
		return
	}
	if err := cl.Start(1); err != nil || !cl.WaitConnected(1, 10*time.Second) {
		c.Inconclusive(fmt.Sprintf("replica start: %v", err))
		return
	}
	P, R := cl.Nodes[0], cl.Nodes[1]
	var hist []string
	detail := func() map[string]any {
		return map[string]any{"driver": "B (kernel mount + real SQLite)", "journal_mode": mode, "page_size": ps, "steps": hist,
			"primary_pos": mon.PosOf(P.Node, "db").String(), "replica_pos": mon.PosOf(R.Node, "db").String()}
	}
	fail := func(fp, what string) { c.Violate("C01/kmount/"+fp, what, detail()) }
	proc, err := startSQLProc()
	if err != nil {
		c.Inconclusive("SQL child: " + err.Error())
		return
	}
	defer proc.stop()
	statProc, err := startSQLProc()
	if err != nil {
		c.Inconclusive("SQL child: " + err.Error())
		return
	}
	defer statProc.stop()
	pdb, rdb := filepath.Join(P.MountDir(), "db"), filepath.Join(R.MountDir(), "db")
	w, err := proc.open(pdb, false)
	if err != nil {
		fail("open", err.Error())
		return
	}
	exec := func(q string) bool {
		hist = append(hist, q)
		if _, err := w.queryStringOrExec(q); err != nil {
			if !healthViolations(c, P.Node, q, detail()) {
				fail("sql-error", fmt.Sprintf("%q: %v", q, err))
			}
			return false
		}
		return true
	}
	for _, q := range []string{fmt.Sprintf("PRAGMA page_size=%d", ps), "PRAGMA journal_mode=" + mode,
		"CREATE TABLE t0(id INTEGER PRIMARY KEY, k INTEGER, v BLOB)"} {
		if !exec(q) {
			return
		}
	}
	for i := 1; i <= 8; i++ {
		if !exec(fmt.Sprintf("INSERT INTO t0 VALUES(%d,%d,randomblob(%d))", i, i, 300+c.Rng.IntN(5000))) {
			return
		}
	}
	converge := func(ctx string) bool {
		ok, _, timedOut := cl.WaitConverged(P, R, []string{"db"}, 8, 30*time.Second)
		if timedOut {
			c.Inconclusive("replica convergence watchdog (" + ctx + ")")
			return false
		}
		if healthViolations(c, R.Node, ctx, detail()) || healthViolations(c, P.Node, ctx, detail()) {
			return false
		}
		if !ok {
			fail("replica-not-converged", fmt.Sprintf("%s: the replica is at %s, the primary at %s", ctx, mon.PosOf(R.Node, "db"), mon.PosOf(P.Node, "db")))
			return false
		}
		return true
	}
	readReplica := func(ctx string) (string, bool) {
		r, err := proc.open(rdb, true)
		if err != nil {
			fail("replica-open", ctx+": "+err.Error())
			return "", false
		}
		h, err := r.contentHash()
		r.close()
		if err != nil {
			fail("replica-read-error", fmt.Sprintf("%s: reading through the replica's mount at %s failed: %v", ctx, mon.PosOf(R.Node, "db"), err))
			return "", false
		}
		return h, true
	}
	judge := func(ctx string) bool {
		want, err := w.contentHash()
		if err != nil {
			fail("read-error", err.Error())
			return false
		}
		if !converge(ctx) {
			return false
		}
		got, ok := readReplica(ctx)
		if !ok {
			return false
		}
		if got != want {
			fail("replica-content-differs", fmt.Sprintf("%s: at %s SQLite reads %s through the replica's mount, the primary holds %s", ctx, mon.PosOf(R.Node, "db"), got, want))
			return false
		}
		c.Count("kmount_forget_reads_judged", 1)
		return true
	}
	if !judge("before the eviction") {
		return
	}
	// ---- the steered order. The FUSE library drops the forgotten node from its own
	// tables and only then calls the node's Forget method, which removes the name
	// from RootNode's cache; a lookup of the name in between finds the cached node
	// and registers it again. The hook holds Forget at that point.
	release := make(chan struct{})
	entered := make(chan struct{}, 1)
	var fired atomic.Bool
	rnode := R.Node.Root.Node("db")
	if rnode == nil {
		c.Inconclusive("the replica's database node is not cached after a read")
		return
	}
	hook := func(node fs.Node) {
		if node != rnode || !fired.CompareAndSwap(false, true) {
			return
		}
		entered <- struct{}{}
		select {
		case <-release:
		case <-time.After(20 * time.Second):
		}
	}
	released := false
	rel := func() {
		if !released {
			released = true
			close(release)
			lfuse.VerifBeforeForgetNode.Store(nil)
		}
	}
	defer rel()
	lfuse.VerifBeforeForgetNode.Store(&hook)
	// the kernel drops the name; FUSE inodes are evicted with their last reference: FORGET follows
	if err := R.Node.FS.InvalidateEntry("db"); err != nil {
		c.Inconclusive("invalidate entry: " + err.Error())
		return
	}
	select {
	case <-entered:
	case <-time.After(10 * time.Second):
		c.Count("kmount_forget_not_evicted", 1)
		c.Inconclusive("the kernel sent no FORGET for the database's inode")
		return
	}
	// an application looks the name up while the node's Forget is on its way
	if _, err := statProc.call(sqlReq{Op: "stat", Path: rdb}); err != nil {
		fail("replica-stat", "stat of the database on the replica's mount: "+err.Error())
		return
	}
	rel()
	for i := 0; i < 200 && R.Node.Root.Node("db") != nil; i++ {
		time.Sleep(time.Millisecond) // Forget completes
	}
	hist = append(hist, "replica: FORGET of the database's old inode processed between RootNode.Lookup's answer and its registration")
	c.Count("kmount_forget_race_steered", 1)
	// ---- ordinary life goes on
	if _, ok := readReplica("after the eviction"); !ok { // fills the new inode's page cache
		return
	}
	for round := 0; round < 3; round++ {
		for i := 0; i < 2; i++ {
			q := fmt.Sprintf("UPDATE t0 SET v=randomblob(%d), k=k+1 WHERE id%%2=%d", 200+c.Rng.IntN(4000), i)
			if c.Rng.IntN(3) == 0 {
				q = fmt.Sprintf("INSERT INTO t0 VALUES(%d,%d,randomblob(%d))", 100+round*10+i, round, 100+c.Rng.IntN(9000))
			}
			if !exec(q) {
				return
			}
		}
		if !judge(fmt.Sprintf("round %d after a FORGET overtook a LOOKUP of the database", round)) {
			return
		}
	}
	c.Distinct(fmt.Sprintf("kmount/forget-race/%s/ps%d", mode, ps))
	if k == 0 {
		c.Sample(detail())
	}
}
