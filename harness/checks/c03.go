package checks

import (
	"context"
	"fmt"

	"verif/core"
	"verif/drv"
	"verif/mon"
	"verif/pager"
)

var c03Shapes = []string{"simple", "repeat", "rollback-overwrite", "grow", "shrink", "shrink-block", "shrink-tail", "spill-beyond", "ckpt-passive", "ckpt-full", "ckpt-restart", "ckpt-truncate", "litefs-ckpt", "lockonly", "mixed"}

func init() {
	register(&core.Check{
		ID:    "C03",
		Level: "exploration",
		Rule: "each case is a history of ~12 WAL pager programs (write transactions, rollbacks, application checkpoints of all four kinds, LiteFS checkpoints) on a fresh primary in WAL mode; " +
			"on every release of the WAL write lock the position delta and the new LTX file are judged against the frames the simulated writer appended; " +
			"distinct = (shape, page size, checksum byte order, frame delivery, outcome, size-class transition, restart?) tuples",
		Assumptions: []string{"the ltx module's decoder is trusted", "handlers are driven in-process", "WAL programs follow SQLite's documented protocol (Appendix A)"},
		NumCases: func(tier string) int {
			if tier == "thorough" {
				return 7000
			}
			return 450
		},
		EvalCounter: "programs",
		Run:         runC03,
		Floors: func(tier string) map[string]int {
			return map[string]int{
				"commit_le": 20, "commit_be": 20, "rollback_then_overwrite": 5, "wal_restart": 5,
				"shrink_across_block": 3, "shrink_within_cached_tail_block": 10, "spilled_beyond_commit": 3,
				"ckpt_passive": 2, "ckpt_full": 2, "ckpt_restart": 2, "ckpt_truncate": 2, "litefs_ckpt": 2,
				"ltx_decoded": 100, "no_advance_checked": 20, "switch_to_rollback": 20, "released_by_close": 20,
			}
		},
	})
}

// walSetup creates a database and switches it to WAL mode the way SQLite does
// (a rollback-journal transaction that rewrites page 1 with versions 2/2).
func walSetup(c *core.Case, n *drv.Node, d *pager.DB, owner uint64, pages uint32) (*pager.Conn, error) {
	conn, err := d.Open(owner)
	if err != nil {
		return nil, err
	}
	res := conn.RunRollbackTx(pager.RollbackSpec{Mode: "delete", Outcome: "commit", NewPageN: pages, WALHeader: true})
	if res.Err != nil {
		conn.Close()
		return nil, fmt.Errorf("create wal db: step %s: %w", res.ErrStep, res.Err)
	}
	if err := conn.OpenWAL(); err != nil {
		conn.Close()
		return nil, err
	}
	return conn, nil
}

func runC03(c *core.Case) {
	shape := c03Shapes[c.Index%len(c03Shapes)]
	pageSizes := []uint32{512, 1024, 4096, 512, 4096, 8192, 2048, 1024, 65536}
	ps := pageSizes[(c.Index/len(c03Shapes))%len(pageSizes)]
	if (shape == "shrink-block" || shape == "shrink-tail") && ps > 4096 {
		ps = 512
	}
	bigEndian := (c.Index/len(c03Shapes))%2 == 1

	n, err := newPrimary(c.Dir+"/data", nil)
	if err != nil {
		c.Inconclusive("node start: " + err.Error())
		return
	}
	defer n.Close()

	d := pager.NewDB(n, "db", ps, c.Rng)
	d.BigEndian = bigEndian
	if c.Rng.IntN(3) == 0 {
		d.Split = "split4k"
	}
	first := uint32(3 + c.Rng.IntN(10))
	if shape == "shrink-block" {
		first = pick(c, []uint32{300, 257, 520})
	}
	if shape == "shrink-tail" {
		// big database whose tail checksum block is fully checkpointed
		first = pick(c, []uint32{300, 514, 600, 258, 513})
	}
	conn, err := walSetup(c, n, d, 1, first)
	if err != nil {
		healthViolations(c, n, "wal setup", nil)
		if !c.Violated() {
			c.Violate("C03/setup-failed", err.Error(), nil)
		}
		return
	}
	defer conn.Close()
	if n.Store.DB("db").Mode().String() != "WAL_MODE" {
		c.Violate("C03/mode-not-wal", "database not in WAL mode after page 1 was committed with versions 2/2", nil)
		return
	}

	steps := 12
	if ps >= 8192 {
		steps = 6
	}
	var history []any
	pendingRollback := false
	for i := 0; i < steps; i++ {
		cur := d.M.PageN
		sh := shape
		if shape == "mixed" || (i%2 == 1 && shape != "shrink-block" && shape != "spill-beyond" && shape != "shrink-tail") {
			sh = c03Shapes[c.Rng.IntN(len(c03Shapes)-1)]
		}
		if shape == "shrink-tail" {
			// cycle: touch page 1, checkpoint (log restarts on the next write),
			// touch page 1 again (caches the tail block), shrink the tail by 1..3
			sh = []string{"simple", "ckpt-full", "simple", "shrink-tail"}[i%4]
			if i%8 == 1 {
				sh = "ckpt-truncate"
			}
		}
		prev := mon.PosOf(n, "db")
		oldImg := d.M
		ctx := fmt.Sprintf("step %d %s ps=%d be=%v cur=%d", i, sh, ps, bigEndian, cur)
		detail := map[string]any{"page_size": ps, "big_endian": bigEndian, "split": d.Split, "step": i, "history": history}

		// non-writer actions
		switch sh {
		case "ckpt-passive", "ckpt-full", "ckpt-restart", "ckpt-truncate":
			kind := sh[5:]
			res := conn.RunCheckpoint(pager.CheckpointSpec{Kind: kind})
			history = append(history, map[string]any{"checkpoint": kind})
			c.Count("programs", 1)
			if healthViolations(c, n, ctx, detail) {
				return
			}
			if res.Err != nil {
				c.Violate("C03/op-refused/"+res.ErrStep, fmt.Sprintf("checkpoint step %q failed: %v (%s)", res.ErrStep, res.Err, ctx), detail)
				return
			}
			if p := mon.PosOf(n, "db"); p != prev {
				c.Violate("C03/checkpoint-moved-position", fmt.Sprintf("%s -> %s (%s)", prev, p, ctx), detail)
			}
			judgeSeen(c, n, "db", 1, d.M, ctx, detail)
			judgeRawChecksum(c, n, "db", ctx, detail)
			c.Count("ckpt_"+kind, 1)
			c.Distinct(fmt.Sprintf("ckpt-%s/ps%d/be%v", kind, ps, bigEndian))
			if c.Violated() {
				return
			}
			continue
		case "litefs-ckpt":
			err := n.Store.DB("db").Checkpoint(context.Background())
			history = append(history, "litefs-checkpoint")
			c.Count("programs", 1)
			if healthViolations(c, n, ctx, detail) {
				return
			}
			if err != nil {
				c.Violate("C03/litefs-checkpoint-failed", err.Error()+" ("+ctx+")", detail)
				return
			}
			// LiteFS truncated the WAL and rewrote the SHM: SQLite sees an empty log.
			d.WalEnd = 0
			d.Backfilled = true
			d.WalContent = map[uint32][]byte{}
			if p := mon.PosOf(n, "db"); p != prev {
				c.Violate("C03/checkpoint-moved-position", fmt.Sprintf("%s -> %s (%s)", prev, p, ctx), detail)
			}
			judgeSeen(c, n, "db", 1, d.M, ctx, detail)
			judgeRawChecksum(c, n, "db", ctx, detail)
			c.Count("litefs_ckpt", 1)
			c.Distinct(fmt.Sprintf("litefs-ckpt/ps%d", ps))
			if c.Violated() {
				return
			}
			continue
		}

		spec := pager.WALSpec{NewPageN: cur, Outcome: "commit", SplitFrame: c.Rng.IntN(4) != 0, SyncSplit: c.Rng.IntN(4) == 0}
		addFrames := func(k int, maxPg uint32) {
			for j := 0; j < k; j++ {
				spec.Frames = append(spec.Frames, pager.FrameSpec{Pgno: 1 + uint32(c.Rng.IntN(int(maxPg)))})
			}
		}
		switch sh {
		case "simple", "shrink-block", "spill-beyond":
			if shape != "shrink-tail" {
				addFrames(1+c.Rng.IntN(4), cur)
			}
		case "repeat":
			addFrames(2+c.Rng.IntN(4), cur)
			spec.Frames = append(spec.Frames, spec.Frames...)
			addFrames(2, cur)
		case "rollback-overwrite":
			addFrames(2+c.Rng.IntN(5), cur)
			if !pendingRollback {
				spec.Outcome = "rollback"
				if spec.SplitFrame {
					spec.TornTail = c.Rng.IntN(3) // the failed write that caused the rollback
				}
			}
		case "grow":
			spec.NewPageN = cur + uint32(1+c.Rng.IntN(10))
			addFrames(c.Rng.IntN(3), cur)
			for p := cur + 1; p <= spec.NewPageN; p++ {
				spec.Frames = append(spec.Frames, pager.FrameSpec{Pgno: p})
			}
		case "shrink":
			if cur > 3 {
				spec.NewPageN = cur - uint32(1+c.Rng.IntN(int(cur-2)))
			}
			addFrames(1+c.Rng.IntN(3), spec.NewPageN)
		case "shrink-tail":
			if cur > 4 {
				spec.NewPageN = cur - uint32(1+c.Rng.IntN(3))
			}
		case "lockonly":
			spec.Outcome = "lockonly"
		default:
			addFrames(1+c.Rng.IntN(4), cur)
		}
		if shape == "shrink-block" && i == 2 {
			// shrink across a 256-page checksum block
			spec.NewPageN = pick(c, []uint32{200, 256, 100})
			spec.Frames = nil
			addFrames(2, spec.NewPageN)
			sh = "shrink-block!"
		}
		if shape == "spill-beyond" && i%3 == 2 && cur > 4 {
			// spill frames for pages that the commit then cuts off
			spec.NewPageN = cur - 2
			spec.Frames = append([]pager.FrameSpec{{Pgno: cur}, {Pgno: cur - 1}}, spec.Frames...)
			for k := range spec.Frames[2:] {
				if spec.Frames[2+k].Pgno > spec.NewPageN {
					spec.Frames[2+k].Pgno = 1
				}
			}
			sh = "spill-beyond!"
		}
		if spec.Outcome == "commit" {
			// the commit frame is for page 1 (header carries the new size) in most
			// transactions; sometimes another page.
			// A size change always dirties page 1 in SQLite (in-header size).
			if c.Rng.IntN(4) != 0 || spec.NewPageN != cur {
				spec.Frames = append(spec.Frames, pager.FrameSpec{Pgno: 1})
			} else if len(spec.Frames) == 0 {
				spec.Frames = append(spec.Frames, pager.FrameSpec{Pgno: 1})
			}
			if last := spec.Frames[len(spec.Frames)-1].Pgno; last > spec.NewPageN {
				spec.Frames = append(spec.Frames, pager.FrameSpec{Pgno: 1})
			}
		}
		if spec.Outcome == "commit" && c.Rng.IntN(6) == 0 {
			spec.PadCommit = 1 + c.Rng.IntN(3) // (synchronous=FULL with psow=0)
			c.Count("commit_frame_padded", 1)
		}
		restartExpected := d.Backfilled || d.WalEnd < 32
		if spec.Outcome == "commit" && c.Rng.IntN(8) == 0 {
			// the writer ends without unlocking: its descriptors are closed while
			// it holds the write lock (the commit frame is in the log, so the
			// transaction is committed and must be captured at that release)
			spec.ReleaseByClose = true
		}
		res := conn.RunWALTx(spec)
		history = append(history, spec)
		detail["spec"] = spec
		c.Count("programs", 1)
		ctx = fmt.Sprintf("%s %s %d->%d frames=%d", ctx, spec.Outcome, cur, spec.NewPageN, len(spec.Frames))
		c.Logf("%s: err=%v pos=%s", ctx, res.Err, mon.PosOf(n, "db"))
		if healthViolations(c, n, ctx, detail) {
			// a panic in the unlock handler also leaves locks held
			return
		}
		if res.Err != nil {
			c.Violate("C03/op-refused/"+res.ErrStep, fmt.Sprintf("LiteFS failed a legal SQLite step %q: %v (%s)", res.ErrStep, res.Err, ctx), detail)
			return
		}
		committed := spec.Outcome == "commit"
		out := judgeLocalTx(c, n, "db", prev, oldImg, d.M, committed, ctx, detail)
		if !committed {
			c.Count("no_advance_checked", 1)
			if out.Advanced {
				c.Violate("C03/advanced-without-commit", fmt.Sprintf("position advanced %s -> %s although no committed transaction was appended (%s)", prev, out.Pos, ctx), detail)
			}
		} else if !out.Advanced {
			c.Violate("C03/commit-not-captured", fmt.Sprintf("position stayed %s although a committed transaction was appended (%s)", prev, ctx), detail)
		}
		judgeSeen(c, n, "db", 1, d.M, ctx, detail)
		judgeRawChecksum(c, n, "db", ctx, detail)
		if tmp := mon.TmpFiles(n, "db"); len(tmp) > 0 {
			c.Violate("C03/tmp-left", fmt.Sprintf("temporary files left: %v (%s)", tmp, ctx), detail)
		}
		// after the transaction only the connection's standing locks remain
		db := n.Store.DB("db")
		for _, lt := range mon.AllLockTypes {
			st := db.VerifLockState(lt).String()
			want := "unlocked"
			if (lt.String() == "SHARED" || lt.String() == "DMS") && !spec.ReleaseByClose {
				want = "shared"
			}
			if st != want {
				c.Violate("C03/locks-left", fmt.Sprintf("lock %s is %s after the write lock was released, expected %s (%s)", lt, st, want, ctx), detail)
			}
		}
		if c.Violated() {
			return
		}
		if out.LTX != nil {
			c.Count("ltx_decoded", 1)
		}
		if spec.ReleaseByClose {
			c.Count("released_by_close", 1)
			var err error
			if conn, err = d.Open(1); err == nil {
				err = conn.OpenWAL()
			}
			if err != nil {
				c.Violate("C03/op-refused/reopen", "reopening the database after the writer's descriptors were closed: "+err.Error(), detail)
				return
			}
			defer conn.Close()
		}
		if committed {
			if bigEndian {
				c.Count("commit_be", 1)
			} else {
				c.Count("commit_le", 1)
			}
			if pendingRollback {
				c.Count("rollback_then_overwrite", 1)
			}
			if restartExpected && i > 0 {
				c.Count("wal_restart", 1)
			}
			if (cur > 256) != (spec.NewPageN > 256) && spec.NewPageN < cur {
				c.Count("shrink_across_block", 1)
			}
			if sh == "shrink-tail" && spec.NewPageN < cur {
				c.Count("shrink_within_cached_tail_block", 1)
			}
			for _, f := range spec.Frames {
				if f.Pgno > spec.NewPageN {
					c.Count("spilled_beyond_commit", 1)
					break
				}
			}
			pendingRollback = false
		} else if spec.Outcome == "rollback" {
			pendingRollback = true
			c.Count("rollback", 1)
		}
		c.Distinct(fmt.Sprintf("%s/ps%d/be%v/split%v/%s/%s->%s/restart%v", sh, ps, bigEndian, spec.SplitFrame, spec.Outcome, sizeClass(cur), sizeClass(spec.NewPageN), restartExpected))
		if i == 1 {
			c.Sample(map[string]any{"page_size": ps, "big_endian": bigEndian, "program": spec, "pos_after": out.Pos.String()})
		}
	}
	// epilogue of every third history: the application switches the database
	// back to a rollback-journal mode (checkpoint, log and index deleted, page 1
	// rewritten through a journal) and goes on writing
	if c.Index%3 == 0 && !c.Violated() {
		mode := pick(c, []string{"delete", "truncate", "persist"})
		prev, oldImg := mon.PosOf(n, "db"), d.M
		res := conn.SwitchToRollback(mode)
		ctx := fmt.Sprintf("switch wal->%s (%d pages)", mode, d.M.PageN)
		detail := map[string]any{"page_size": ps, "history": history, "switch_to": mode}
		c.Count("programs", 1)
		if healthViolations(c, n, ctx, detail) {
			return
		}
		if res.Err != nil {
			c.Violate("C03/op-refused/"+res.ErrStep, fmt.Sprintf("LiteFS failed a legal SQLite step %q: %v (%s)", res.ErrStep, res.Err, ctx), detail)
			return
		}
		out := judgeLocalTx(c, n, "db", prev, oldImg, d.M, true, ctx, detail)
		if !out.Advanced && !c.Violated() {
			c.Violate("C03/commit-not-captured", fmt.Sprintf("position stayed %s although the journal-mode switch rewrote page 1 (%s)", prev, ctx), detail)
		}
		judgeSeen(c, n, "db", 1, d.M, ctx, detail)
		judgeRawChecksum(c, n, "db", ctx, detail)
		if c.Violated() {
			return
		}
		c.Count("switch_to_rollback", 1)
		for j := 0; j < 2; j++ {
			prev, oldImg = mon.PosOf(n, "db"), d.M
			cur := d.M.PageN
			spec := pager.RollbackSpec{Mode: mode, Outcome: "commit", NewPageN: cur + uint32(c.Rng.IntN(3)), Dirty: []uint32{1 + uint32(c.Rng.IntN(int(cur)))}}
			r := conn.RunRollbackTx(spec)
			ctx := fmt.Sprintf("after switch: journal tx %d (%d->%d)", j, cur, spec.NewPageN)
			if healthViolations(c, n, ctx, detail) {
				return
			}
			if r.Err != nil {
				c.Violate("C03/op-refused/"+r.ErrStep, fmt.Sprintf("LiteFS failed a legal SQLite step %q: %v (%s)", r.ErrStep, r.Err, ctx), detail)
				return
			}
			judgeLocalTx(c, n, "db", prev, oldImg, d.M, true, ctx, detail)
			judgeRawChecksum(c, n, "db", ctx, detail)
			if c.Violated() {
				return
			}
		}
		c.Distinct(fmt.Sprintf("switch/ps%d/%s", ps, mode))
	}
}
