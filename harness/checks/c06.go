package checks

import (
	"bytes"
	"context"
	"fmt"
	"net"
	"net/http"
	"path/filepath"
	"strings"
	"sync"
	"time"

	"github.com/superfly/litefs"
	lhttp "github.com/superfly/litefs/http"
	"github.com/superfly/ltx"
	"golang.org/x/net/http2"
	"golang.org/x/net/http2/h2c"
	"verif/cluster"
	"verif/core"
	"verif/mon"
	"verif/ref"
)

var c06Relations = []string{"on-chain-behind", "fork-ahead", "fork-same-txid", "fork-behind", "retention-cut", "snapshot-only-behind", "empty", "equal"}

func init() {
	register(&core.Check{
		ID:    "C06",
		Level: "exploration",
		Rule: "(A) relation matrix: two candidate nodes are driven into a chosen relation (replica on the chain behind by k; a former primary on a fork that is longer / equally long / shorter than the new primary's branch; behind a retention cut; holding only a snapshot file; empty; equal) by scripted lease moves, stalls and isolated writes, then reconnected; the reconnecting node's stream transcript (frame headers + its position when each frame began) is checked: an incremental frame may only arrive while the node is exactly at (min TXID - 1, pre-checksum) AND that position is on the current primary's history; off-chain nodes must receive a snapshot; the end state must be byte-identical to the primary; " +
			"(B) hostile files: a harness-run fake primary streams frames that do not extend the replica's position (gap, overlap, wrong pre-checksum, corrupt body under a good header), and a legitimate halt-lock holder posts such files to /tx: database, position and log must be unchanged; distinct = (relation, fork lengths, mode, frame kinds seen)",
		Assumptions: []string{"a corrupt body under a matching header on the stream may stop the node by design; it is judged only on position/image", "fork branches are at most 6 transactions long in the quick tier"},
		NumCases: func(tier string) int {
			if tier == "thorough" {
				return 1600
			}
			return 96
		},
		EvalCounter: "frames_judged",
		CaseTimeout: 150 * time.Second,
		Run:         runC06,
		Floors: func(tier string) map[string]int {
			m := map[string]int{"frames_judged": 80, "offchain_got_snapshot": 20, "onchain_got_incremental": 6, "end_state_identical": 50, "hostile_stream_frames_rejected": 20, "hostile_tx_rejected": 20, "hostile_empty_replica_cases": 4}
			for _, r := range c06Relations {
				m["rel_"+r] = 4
			}
			return m
		},
	})
}

func runC06(c *core.Case) {
	if c.Index%4 == 3 {
		c06Hostile(c)
		return
	}
	rel := c06Relations[(c.Index-c.Index/4)%len(c06Relations)]
	c.Count("rel_"+rel, 1)
	wal := c.Index%2 == 1
	ps := []uint32{1024, 512, 4096}[c.Rng.IntN(3)]
	tune := func(s *litefs.Store) { s.Retention = time.Nanosecond }
	cl, err := cluster.New(c.Dir, []cluster.NodeOpts{{Candidate: true, Tune: tune}, {Candidate: true, Tune: tune}})
	if err != nil {
		c.Inconclusive(err.Error())
		return
	}
	defer cl.Close()
	var blockMu sync.Mutex
	blocked := map[string]bool{}
	cl.Svc.Inject = func(node, op string) error {
		blockMu.Lock()
		defer blockMu.Unlock()
		if op == "acquire" && blocked[node] {
			return fmt.Errorf("scripted: acquire unavailable")
		}
		return nil
	}
	setBlocked := func(node string, v bool) { blockMu.Lock(); blocked[node] = v; blockMu.Unlock() }
	setBlocked("n1", true)
	if err := cl.Start(0); err != nil || cl.WaitPrimary(0, 10*time.Second) == nil {
		c.Inconclusive("primary start")
		return
	}
	A, B := cl.Nodes[0], cl.Nodes[1]
	led := newLedger()
	var hist []string
	newW := func(n *cluster.CNode, tag string) *dbWriter {
		var img *ref.Image
		if pos := mon.PosOf(n.Node, "db"); pos.TXID > 0 {
			img, _ = led.get("db", pos)
		}
		w, err := newWriter(n.Node, "db", ps, wal, "delete", img, c.SubRng(tag), led, 1)
		if err != nil {
			c.Violate("C06/setup", err.Error(), hist)
			return nil
		}
		w.d.BusyRetries = 5000
		if err := w.ensure(uint32(4 + c.Rng.IntN(5))); err != nil {
			healthViolations(c, n.Node, "setup", hist)
			if !c.Violated() {
				c.Violate("C06/setup", err.Error(), hist)
			}
			return nil
		}
		return w
	}
	// chain records the positions the *current* primary has gone through
	var chain []mon.PosKey
	commit := func(w *dbWriter, k int, track bool) bool {
		for i := 0; i < k; i++ {
			for try := 0; try < 20; try++ {
				committed, err := w.txn(3)
				if err != nil {
					healthViolations(c, w.n, "write", hist)
					if !c.Violated() {
						c.Violate("C06/setup-write", err.Error(), hist)
					}
					return false
				}
				if track {
					chain = append(chain, mon.PosOf(w.n, "db"))
				}
				if committed {
					break
				}
			}
		}
		return true
	}
	// forks, every other round: B follows A from before the database's first
	// transaction, so B's log starts with the file 1-1 (written by A) instead of
	// a snapshot; when A comes back as B's replica off the history it must still
	// be given a snapshot, not its own old files
	earlyJoin := strings.HasPrefix(rel, "fork") && (c.Index/len(c06Relations))%2 == 1
	if earlyJoin {
		if err := cl.Start(1); err != nil || !cl.WaitConnected(1, 15*time.Second) {
			c.Inconclusive("B did not connect before the first transaction")
			return
		}
	}
	wA := newW(A, "wa0")
	if wA == nil {
		return
	}
	chain = append(chain, mon.PosOf(A.Node, "db"))
	base := 2 + c.Rng.IntN(4)
	if !commit(wA, base, true) {
		return
	}
	hist = append(hist, fmt.Sprintf("A primary, %d commits", base))
	onChain := func(p mon.PosKey) bool {
		if p.TXID == 0 {
			return true
		}
		for _, q := range chain {
			if q == p {
				return true
			}
		}
		return false
	}

	// judge the transcript of a node's most recent reconnect
	judgeTranscript := func(n *cluster.CNode, firstFrame int, expectSnapshot bool, ctx string) bool {
		frames := n.Client.Frames()
		sawSnap, sawInc := false, false
		for _, f := range frames[firstFrame:] {
			if f.Type != 1 || f.Name != "db" || !f.HeaderOK {
				continue
			}
			c.Count("frames_judged", 1)
			pb := mon.PosKey{TXID: f.PosBefore["db"][0], Chk: f.PosBefore["db"][1]}
			if f.Snapshot {
				sawSnap = true
				continue
			}
			sawInc = true
			if f.NodeID == n.Store.ID() && pb.TXID >= f.Max {
				continue // its own forwarded transaction coming back: skipped by design
			}
			if pb.TXID != f.Min-1 || pb.Chk != f.Pre {
				// the frame does not extend the node's position: it must have been rejected
				continue
			}
			if !onChain(pb) {
				c.Violate("C06/incremental-on-divergent-node", fmt.Sprintf("%s: an incremental transaction file %d-%d reached %s while it was at %s, which is not on the current primary's history (%s)", ctx, f.Min, f.Max, n.Name, pb, rel), map[string]any{"history": hist, "frame": f})
				return false
			}
		}
		if expectSnapshot {
			if !sawSnap {
				c.Violate("C06/no-snapshot-for-divergent-node", fmt.Sprintf("%s: %s is off the primary's history (%s) but never received a snapshot", ctx, n.Name, rel), map[string]any{"history": hist, "frames": frames[firstFrame:], "sessions": n.Client.Sessions()})
				return false
			}
			c.Count("offchain_got_snapshot", 1)
		} else if sawInc && !sawSnap {
			c.Count("onchain_got_incremental", 1)
		}
		return true
	}
	endIdentical := func(p, r *cluster.CNode, ctx string) bool {
		ok, _, timedOut := cl.WaitConverged(p, r, []string{"db"}, 5, 40*time.Second)
		if healthViolations(c, r.Node, ctx, hist) {
			return false
		}
		if timedOut {
			c.Inconclusive("convergence watchdog: " + ctx)
			return false
		}
		if !ok {
			c.Violate("C06/not-identical-after-reconnect", fmt.Sprintf("%s: %s did not reach the primary's position (primary %s, it is at %s)", ctx, r.Name, mon.PosOf(p.Node, "db"), mon.PosOf(r.Node, "db")), map[string]any{"history": hist, "sessions": r.Client.Sessions()})
			return false
		}
		res, err := mountRead(c, r.Node, "db", 7000+uint64(c.Rng.IntN(1000)))
		if err != nil {
			c.Violate("C06/read-error", err.Error(), hist)
			return false
		}
		judgeReplicaRead(c, led, r.Name, "db", res, ctx, hist)
		if c.Violated() {
			return false
		}
		pp := mon.PosOf(p.Node, "db")
		if probs := mon.ChainProblems(filepath.Join(mon.DBDir(r.Node, "db"), "ltx"), pp.TXID, pp.Chk); len(probs) > 0 {
			c.Violate("C06/replica-log-not-a-chain", fmt.Sprintf("%s: %s", ctx, strings.Join(probs, "; ")), hist)
			return false
		}
		c.Count("end_state_identical", 1)
		return true
	}

	switch rel {
	case "empty", "equal", "on-chain-behind", "snapshot-only-behind", "retention-cut":
		// B is a plain replica of A in various positions
		if rel != "empty" {
			if err := cl.Start(1); err != nil {
				c.Inconclusive(err.Error())
				return
			}
			if !endIdentical(A, B, "initial join") {
				return
			}
		}
		first := 0
		switch rel {
		case "empty":
			if !commit(wA, 2, true) {
				return
			}
			if err := cl.Start(1); err != nil {
				c.Inconclusive(err.Error())
				return
			}
		case "equal":
			cl.Stop(1)
			if err := cl.Start(1); err != nil {
				c.Inconclusive(err.Error())
				return
			}
		case "on-chain-behind", "snapshot-only-behind":
			// (after the initial join B holds only the snapshot file)
			if rel == "on-chain-behind" {
				if !commit(wA, 2, true) {
					return
				}
				if !endIdentical(A, B, "incremental before stop") {
					return
				}
			}
			cl.Stop(1)
			if !commit(wA, 1+c.Rng.IntN(5), true) {
				return
			}
			if err := cl.Start(1); err != nil {
				c.Inconclusive(err.Error())
				return
			}
		case "retention-cut":
			cl.Stop(1)
			if !commit(wA, 3+c.Rng.IntN(4), true) {
				return
			}
			time.Sleep(2 * time.Millisecond)
			_ = A.Store.EnforceRetention(context.Background())
			if err := cl.Start(1); err != nil {
				c.Inconclusive(err.Error())
				return
			}
		}
		hist = append(hist, "B "+rel+" reconnects to A")
		if !endIdentical(A, B, rel) {
			return
		}
		expectSnap := rel == "empty" || rel == "retention-cut"
		if !judgeTranscript(B, first, expectSnap, rel) {
			return
		}
	default:
		// forks: A is isolated with unreplicated writes, B takes over at the branch point
		if earlyJoin {
			c.Count("fork_replica_holds_first_file", 1)
		} else if err := cl.Start(1); err != nil {
			c.Inconclusive(err.Error())
			return
		}
		if !endIdentical(A, B, "before the fork") {
			return
		}
		f := 1 + c.Rng.IntN(3)
		g := f
		switch rel {
		case "fork-ahead":
			f = 3 + c.Rng.IntN(3)
			g = 1 + c.Rng.IntN(2)
		case "fork-behind":
			f = 1 + c.Rng.IntN(2)
			g = f + 2 + c.Rng.IntN(3)
		}
		// isolate A's stream: B no longer receives anything
		A.Proxy.SetMode("refuse")
		A.Proxy.Cut()
		branch := len(chain)
		if !commit(wA, f, false) {
			return
		}
		forkTip := mon.PosOf(A.Node, "db")
		hist = append(hist, fmt.Sprintf("A isolated, %d unreplicated commits (fork tip %s)", f, forkTip))
		wA.close()
		// move the lease to B (A reconnects to B as soon as B is primary: its
		// transcript starts here)
		firstFrame := len(A.Client.Frames())
		setBlocked("n0", true)
		setBlocked("n1", false)
		cl.Svc.Expire()
		if cl.WaitPrimary(1, 20*time.Second) == nil {
			c.Inconclusive("B did not become primary")
			return
		}
		chain = chain[:branch] // B's history continues from the branch point
		wB := newW(B, "wb")
		if wB == nil {
			return
		}
		defer wB.close()
		if !commit(wB, g, true) {
			return
		}
		hist = append(hist, fmt.Sprintf("B primary at the branch point, %d commits (tip %s)", g, mon.PosOf(B.Node, "db")))
		// A follows B as a replica
		A.Proxy.SetMode("pass")
		if !endIdentical(B, A, rel) {
			return
		}
		if !judgeTranscript(A, firstFrame, true, rel) {
			return
		}
		// and keeps following incrementally afterwards
		if !commit(wB, 2, true) {
			return
		}
		if !endIdentical(B, A, rel+" (after more commits)") {
			return
		}
		c.Distinct(fmt.Sprintf("%s/wal%v/f%d/g%d", rel, wal, f, g))
	}
	c.Distinct(fmt.Sprintf("%s/wal%v/ps%d", rel, wal, ps))
	if c.Index < 8 {
		c.Sample(map[string]any{"relation": rel, "wal": wal, "page_size": ps, "history": hist})
	}
}

// ---- part B: hostile files -----------------------------------------------------------

func buildLTX(ps uint32, commit uint32, min, max uint64, pre, post uint64, pages map[uint32][]byte, nodeID uint64) []byte {
	var buf bytes.Buffer
	enc := ltx.NewEncoder(&buf)
	_ = enc.EncodeHeader(ltx.Header{Version: 1, PageSize: ps, Commit: commit, MinTXID: ltx.TXID(min), MaxTXID: ltx.TXID(max), Timestamp: time.Now().UnixMilli(), PreApplyChecksum: ltx.Checksum(pre), NodeID: nodeID})
	for p := uint32(1); p <= commit; p++ {
		if b, ok := pages[p]; ok {
			_ = enc.EncodePage(ltx.PageHeader{Pgno: p}, b)
		}
	}
	enc.SetPostApplyChecksum(ltx.Checksum(post))
	_ = enc.Close()
	return buf.Bytes()
}

func c06Hostile(c *core.Case) {
	ps := uint32(1024)
	wal := c.Index%8 == 7
	cl, err := cluster.New(c.Dir, []cluster.NodeOpts{{Candidate: true}, {}})
	if err != nil {
		c.Inconclusive(err.Error())
		return
	}
	defer cl.Close()
	if err := cl.Start(0); err != nil || cl.WaitPrimary(0, 10*time.Second) == nil {
		c.Inconclusive("primary start")
		return
	}
	P, R := cl.Nodes[0], cl.Nodes[1]
	led := newLedger()
	w, err := newWriter(P.Node, "db", ps, wal, "delete", nil, c.SubRng("w"), led, 1)
	if err != nil {
		c.Violate("C06/setup", err.Error(), nil)
		return
	}
	w.d.BusyRetries = 5000
	if err := w.ensure(5); err != nil {
		c.Violate("C06/setup", err.Error(), nil)
		return
	}
	for i := 0; i < 3; i++ {
		_, _ = w.txn(2)
	}
	cur := w.d.M
	w.close()
	// every fourth hostile case: the node the fake primary talks to is EMPTY (it
	// never had the database): an incremental file extends nothing there either
	emptyReplica := c.Index%16 == 3
	if !emptyReplica {
		if err := cl.Start(1); err != nil {
			c.Inconclusive(err.Error())
			return
		}
		if ok, _, _ := cl.WaitConverged(P, R, []string{"db"}, 5, 30*time.Second); !ok {
			c.Inconclusive("replica did not converge")
			return
		}
	}
	pos := mon.PosOf(P.Node, "db")
	// hostile variants relative to position pos
	np := make([]byte, ps)
	for i := range np {
		np[i] = 0x77
	}
	next := cur.Clone()
	next.Set(2, np)
	good := func(min, max uint64, pre uint64) []byte {
		return buildLTX(ps, cur.PageN, min, max, pre, next.Checksum(), map[uint32][]byte{2: np}, 0x4242)
	}
	corrupt := good(pos.TXID+1, pos.TXID+1, pos.Chk)
	corrupt[len(corrupt)-40] ^= 0xFF
	variants := map[string][]byte{
		"gap":             good(pos.TXID+2, pos.TXID+2, pos.Chk),
		"overlap":         good(pos.TXID, pos.TXID, pos.Chk),
		"far-behind":      good(1, 1, pos.Chk),
		"wrong-prechksum": good(pos.TXID+1, pos.TXID+1, pos.Chk^0x5555),
		"corrupt-body":    corrupt,
		"truncated":       good(pos.TXID+1, pos.TXID+1, pos.Chk)[:130],
	}
	{
		// a well-formed SNAPSHOT (first transaction 1, every page) that ends before
		// the primary's position: it extends nothing either
		full := map[uint32][]byte{}
		for p := uint32(1); p <= next.PageN; p++ {
			full[p] = next.Page(p)
		}
		if pos.TXID > 1 {
			variants["snapshot-behind"] = buildLTX(ps, next.PageN, 1, pos.TXID-1, 0, next.Checksum(), full, 0x4242)
		}
	}
	// (1) through the forwarding endpoint, as the legitimate halt-lock holder
	hid := fmt.Sprint(5000 + c.Rng.IntN(1000))
	req, _ := http.NewRequest("POST", P.URL()+"/halt?name=db&id="+hid, nil)
	req.Header.Set(lhttp.HeaderNodeID, "00000000DEADBEEF")
	if resp, err := http.DefaultClient.Do(req); err != nil || resp.StatusCode != 200 {
		c.Inconclusive("halt acquire failed")
		return
	} else {
		resp.Body.Close()
	}
	for kind, body := range variants {
		before := c07Snapshot(P.Node, "db")
		code, err := postTx(P.URL(), 0xDEADBEEF, hid, body)
		after := c07Snapshot(P.Node, "db")
		detail := map[string]any{"kind": kind, "status": code, "error": fmt.Sprint(err), "position": pos.String()}
		if healthViolations(c, P.Node, "/tx "+kind, detail) {
			return
		}
		if code == 200 || before != after {
			c.Violate("C06/tx-not-extending-position-accepted/"+kind, fmt.Sprintf("POST /tx with a file that does not extend the primary's position %s (%s) was answered %d; state %v -> %v", pos, kind, code, before, after), detail)
			return
		}
		c.Count("hostile_tx_rejected", 1)
		c.Distinct("tx/" + kind)
	}
	reqd, _ := http.NewRequest("DELETE", P.URL()+"/halt?name=db&id="+hid, nil)
	reqd.Header.Set(lhttp.HeaderNodeID, "00000000DEADBEEF")
	if resp, err := http.DefaultClient.Do(reqd); err == nil {
		resp.Body.Close()
	}

	// (2) through the stream: a fake primary serves crafted frames to the replica
	var rpos mon.PosKey
	if !emptyReplica {
		rpos = mon.PosOf(R.Node, "db")
	} else {
		// (for an empty node: the next file of the real history, with every page of
		// the database in it, and one with a single page)
		full := map[uint32][]byte{}
		for p := uint32(1); p <= next.PageN; p++ {
			full[p] = next.Page(p)
		}
		variants["overlap"] = buildLTX(ps, next.PageN, pos.TXID+1, pos.TXID+1, pos.Chk, next.Checksum(), full, 0x4242)
		variants["far-behind"] = good(2, 2, pos.Chk)
	}
	var mu sync.Mutex
	served := map[string]bool{}
	order := []string{"gap", "overlap", "far-behind", "wrong-prechksum", "corrupt-body", "truncated"}
	ln, err := net.Listen("tcp", "127.0.0.1:0")
	if err != nil {
		c.Inconclusive(err.Error())
		return
	}
	defer ln.Close()
	clusterID := cl.Svc.ClusterIDDirect()
	h := http.HandlerFunc(func(rw http.ResponseWriter, r *http.Request) {
		if r.URL.Path != "/stream" {
			http.Error(rw, "fake primary", 404)
			return
		}
		mu.Lock()
		kind := ""
		for _, k := range order {
			if !served[k] {
				kind = k
				served[k] = true
				break
			}
		}
		mu.Unlock()
		rw.Header().Set(lhttp.HeaderClusterID, clusterID)
		rw.WriteHeader(200)
		rw.(http.Flusher).Flush()
		if kind == "" {
			_ = litefs.WriteStreamFrame(rw, &litefs.ReadyStreamFrame{})
			rw.(http.Flusher).Flush()
			<-r.Context().Done()
			return
		}
		_ = litefs.WriteStreamFrame(rw, &litefs.LTXStreamFrame{Name: "db"})
		cw := litefs.VerifNewChunkWriter(rw)
		_, _ = cw.Write(variants[kind])
		_ = cw.Close()
		rw.(http.Flusher).Flush()
		time.Sleep(20 * time.Millisecond)
	})
	srv := &http.Server{Handler: h2c.NewHandler(h, &http2.Server{})}
	go func() { _ = srv.Serve(ln) }()
	defer srv.Close()
	// take the real primary away and hand the "lease" to the fake node
	var before c07Snap
	if !emptyReplica {
		before = c07Snapshot(R.Node, "db")
	}
	cl.Stop(0)
	fake := cl.Svc.Leaser("fake", "fake", "http://"+ln.Addr().String())
	deadline := time.Now().Add(10 * time.Second)
	for time.Now().Before(deadline) {
		if _, err := fake.Acquire(context.Background()); err == nil {
			break
		}
		cl.Svc.Expire()
		time.Sleep(5 * time.Millisecond)
	}
	if emptyReplica {
		if err := cl.Start(1); err != nil {
			c.Inconclusive(err.Error())
			return
		}
		c.Count("hostile_empty_replica_cases", 1)
	}
	// wait until every variant has been served
	deadline = time.Now().Add(20 * time.Second)
	for time.Now().Before(deadline) {
		mu.Lock()
		n := len(served)
		mu.Unlock()
		if n >= len(order) {
			break
		}
		time.Sleep(5 * time.Millisecond)
	}
	time.Sleep(50 * time.Millisecond)
	mu.Lock()
	nserved := len(served)
	mu.Unlock()
	exited := R.Exited()
	after := c07Snapshot(R.Node, "db")
	detail := map[string]any{"served": nserved, "replica_exited": exited, "before": fmt.Sprint(before), "after": fmt.Sprint(after)}
	for _, pe := range R.Node.Panics() {
		c.Violate("C06/panic/"+siteOf(pe.Stack), fmt.Sprint(pe.Value), detail)
		return
	}
	if emptyReplica {
		// nothing of what was served may have been stored, in any form
		if after.pos != rpos || after.size != 0 || after.ltx != "" {
			c.Violate("C06/stream-file-not-extending-position-applied", fmt.Sprintf("empty-replica: a node that never had the database (position %s) was served files that are not a snapshot (first transaction > 1 or wrong pre-apply checksum); afterwards position %s, %d pages, transaction files [%s]", rpos, after.pos, after.size, after.ltx), detail)
			return
		}
	} else if after.pos != rpos || after.img != before.img {
		c.Violate("C06/stream-file-not-extending-position-applied", fmt.Sprintf("a replica at %s was served files that do not extend its position; afterwards position %s image %s (before: %s)", rpos, after.pos, after.img, before.img), detail)
		return
	}
	c.Count("hostile_stream_frames_rejected", nserved)
	if exited {
		c.Count("replica_exited_on_corrupt_body", 1)
	}
	c.Distinct(fmt.Sprintf("stream-hostile/wal%v/exit%v", wal, exited))
	if c.Index < 8 {
		c.Sample(map[string]any{"part": "hostile", "variants": order, "served": nserved, "replica_exited": exited})
	}
}
