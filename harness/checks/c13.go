package checks

import (
	"bytes"
	"context"
	"fmt"
	"net/http"
	"path/filepath"
	"strings"
	"sync"
	"sync/atomic"
	"time"

	"github.com/superfly/litefs"
	lhttp "github.com/superfly/litefs/http"
	"github.com/superfly/ltx"
	"verif/cluster"
	"verif/core"
	"verif/drv"
	"verif/mon"
	"verif/pager"
	"verif/ref"
)

var c13Scripts = []string{"forward", "acquire-during-local-write", "acquire-during-catchup", "local-writer-blocked", "non-holder-tx", "reacquire-same-id", "release-then-write", "expiry", "third-replica", "lost-commit-response", "lost-acquire-response"}

func init() {
	register(&core.Check{
		ID:    "C13",
		Level: "exploration",
		Rule: "each case runs one halt-lock script on a cluster (primary P, replica R, sometimes a third replica T): R takes the halt lock through the FUSE lock file (LockWait on byte 72 of <db>-lock), writes locally in rollback or WAL mode (each commit is forwarded to P over POST /tx before it completes) and releases; interferers: a local writer on P, forged /tx requests (no lock, wrong id, after release, after expiry), repeated acquires with the same id, expiry forced with a short TTL, lost acquire/commit responses; " +
			"checks are direct: positions of P and R at grant and after every forwarded commit, NodeID of every LTX P gains inside a grant interval, P's position/log around every forged request, convergence of T; distinct = (script, mode, observed outcome) tuples",
		Assumptions: []string{"expiry is forced with HaltLockTTL=40ms plus an explicit EnforceHaltLockExpiration call", "single grant interval per case"},
		NumCases: func(tier string) int {
			if tier == "thorough" {
				return len(c13Scripts) * 2 * 40
			}
			return len(c13Scripts) * 2 * 4
		},
		EvalCounter: "forwarded_commits",
		CaseTimeout: 120 * time.Second,
		Run:         runC13,
		Floors: func(tier string) map[string]int {
			return map[string]int{"forwarded_commits": 60, "release_gate_passages": 20, "forwarded_journal": 10, "forwarded_wal": 10, "grants": 40, "local_writer_blocked": 4,
				"forged_tx_rejected": 12, "reacquire_same_lock": 4, "primary_writes_after_release": 8, "expired_holder_rejected": 4, "third_replica_converged": 4, "acquire_raced_with_local_commit": 4,
				"stale_release_ignored": 3, "catchup_waited_for_reader": 1, "refused_forward_left_nothing": 1, "local_drop_blocked": 1, "unlock_interrupted_then_repeated": 1}
		},
	})
}

type c13Env struct {
	c     *core.Case
	cl    *cluster.Cluster
	p, r  *cluster.CNode
	led   *ledger
	wal   bool
	pw    *dbWriter
	rw    *dbWriter
	lockf *drv.File
	owner uint64
}

func (e *c13Env) detail(extra map[string]any) map[string]any {
	d := map[string]any{"wal": e.wal, "primary_pos": mon.PosOf(e.p.Node, "db").String(), "replica_pos": mon.PosOf(e.r.Node, "db").String(), "replica_client_calls": e.r.Client.Calls()}
	for k, v := range extra {
		d[k] = v
	}
	return d
}

// acquire takes the halt lock on R through the lock file.
func (e *c13Env) acquire() error {
	f, err := e.r.Node.Open("db-lock")
	if err != nil {
		return fmt.Errorf("open lock file: %w", err)
	}
	e.lockf = f
	ctx, cancel := context.WithTimeout(context.Background(), 10*time.Second)
	defer cancel()
	return f.LockWait(ctx, e.owner, 72, 72, true)
}

func (e *c13Env) release() error {
	if e.lockf == nil {
		return nil
	}
	err := e.lockf.Unlock(e.owner, 72, 72)
	return err
}

// forgeLTX builds a well-formed next transaction file for P's current position.
func forgeLTX(p *cluster.CNode, img *ref.Image, nodeID uint64) []byte {
	return forgeLTXPost(p, img, nodeID, 0)
}

// forgeLTXPost: as forgeLTX; xor != 0 falsifies the post-apply checksum the
// file announces (the file itself stays well-formed).
func forgeLTXPost(p *cluster.CNode, img *ref.Image, nodeID uint64, xor uint64) []byte {
	pos := p.Store.DB("db").Pos()
	var buf bytes.Buffer
	enc := ltx.NewEncoder(&buf)
	_ = enc.EncodeHeader(ltx.Header{Version: 1, PageSize: img.PageSize, Commit: img.PageN, MinTXID: pos.TXID + 1, MaxTXID: pos.TXID + 1,
		Timestamp: time.Now().UnixMilli(), PreApplyChecksum: pos.PostApplyChecksum, NodeID: nodeID})
	// rewrite page 2 with new content
	np := make([]byte, img.PageSize)
	for i := range np {
		np[i] = 0xEE
	}
	_ = enc.EncodePage(ltx.PageHeader{Pgno: 2}, np)
	ni := img.Clone()
	ni.Set(2, np)
	enc.SetPostApplyChecksum(ltx.ChecksumFlag | ltx.Checksum(ni.Checksum()^xor))
	_ = enc.Close()
	return buf.Bytes()
}

func postTx(url string, nodeID uint64, lockID string, body []byte) (int, error) {
	req, _ := http.NewRequest("POST", url+"/tx?name=db&lockID="+lockID, bytes.NewReader(body))
	req.Header.Set(lhttp.HeaderNodeID, litefs.FormatNodeID(nodeID))
	resp, err := http.DefaultClient.Do(req)
	if err != nil {
		return 0, err
	}
	resp.Body.Close()
	return resp.StatusCode, nil
}

func runC13(c *core.Case) {
	script := c13Scripts[c.Index%len(c13Scripts)]
	stalledCatchup := (c.Index/(2*len(c13Scripts)))%2 == 1
	wal := (c.Index/len(c13Scripts))%2 == 1
	ps := []uint32{1024, 4096, 512}[c.Rng.IntN(3)]
	nodes := []cluster.NodeOpts{{Candidate: true}, {}}
	if script == "third-replica" {
		nodes = append(nodes, cluster.NodeOpts{})
	}
	ttl := time.Hour
	if script == "expiry" {
		ttl = 40 * time.Millisecond
	}
	nodes[0].Tune = func(s *litefs.Store) { s.HaltLockTTL = ttl; s.HaltLockMonitorInterval = time.Hour }
	cl, err := cluster.New(c.Dir, nodes)
	if err != nil {
		c.Inconclusive(err.Error())
		return
	}
	defer cl.Close()
	if err := cl.Start(0); err != nil || cl.WaitPrimary(0, 10*time.Second) == nil {
		c.Inconclusive("primary start")
		return
	}
	e := &c13Env{c: c, cl: cl, p: cl.Nodes[0], led: newLedger(), wal: wal, owner: 900}
	pw, err := newWriter(e.p.Node, "db", ps, wal, "delete", nil, c.SubRng("pw"), e.led, 1)
	if err != nil {
		c.Violate("C13/setup", err.Error(), nil)
		return
	}
	e.pw = pw
	defer func() { e.pw.close() }()
	pw.d.BusyRetries = 20
	if err := pw.ensure(uint32(5 + c.Rng.IntN(6))); err != nil {
		c.Violate("C13/setup", err.Error(), nil)
		return
	}
	for i := 0; i < 2; i++ {
		if _, err := pw.txn(2); err != nil {
			c.Violate("C13/setup", err.Error(), nil)
			return
		}
	}
	for i := 1; i < len(nodes); i++ {
		if err := cl.Start(i); err != nil {
			c.Inconclusive(err.Error())
			return
		}
	}
	e.r = cl.Nodes[1]
	for i := 1; i < len(nodes); i++ {
		if ok, _, _ := cl.WaitConverged(e.p, cl.Nodes[i], []string{"db"}, 5, 30*time.Second); !ok {
			c.Inconclusive("replica did not converge before the script")
			return
		}
	}
	// The primary's SQLite connection goes idle (SQLite holds no lock between
	// transactions; in WAL mode it keeps SHARED + DMS shared which do not block).
	if !wal {
		pw.close()
	}

	// lost responses
	var lostMu sync.Mutex
	lost := map[string]int{}
	if script == "lost-commit-response" || script == "lost-acquire-response" {
		op := "commit"
		if script == "lost-acquire-response" {
			op = "halt"
		}
		e.r.Client.After = func(o string, err error) error {
			lostMu.Lock()
			defer lostMu.Unlock()
			if o == op && err == nil && lost[o] == 0 {
				lost[o]++
				return fmt.Errorf("scripted: response lost")
			}
			return nil
		}
	}

	// ---- grant -------------------------------------------------------------
	switch script {
	case "acquire-during-catchup":
		// the replica asks for the lock while transactions are still on their way to it
		if stalledCatchup {
			e.p.Proxy.SetMode("stall") // the stream stops: the replica falls behind for certain
		}
		if pw.conn == nil {
			if pw, err = newWriter(e.p.Node, "db", ps, wal, "delete", pw.d.M, c.SubRng("pw1"), e.led, 1); err == nil {
				e.pw = pw
				err = pw.ensure(3)
			}
		}
		for i := 0; i < 3 && err == nil; i++ {
			_, err = pw.txn(2)
		}
		if err != nil {
			c.Violate("C13/setup", err.Error(), nil)
			return
		}
		if !wal {
			pw.close()
		}
	case "acquire-during-local-write":
		// the halt request arrives while a local writer is inside a transaction,
		// which then commits: the grant must name the position after that commit
		if pw.conn == nil {
			if pw, err = newWriter(e.p.Node, "db", ps, wal, "delete", pw.d.M, c.SubRng("pw1"), e.led, 1); err == nil {
				e.pw = pw
				err = pw.ensure(3)
			}
		}
		if err != nil {
			c.Violate("C13/setup", err.Error(), nil)
			return
		}
	}
	posAtGrant := mon.PosOf(e.p.Node, "db")
	if script == "acquire-during-local-write" {
		acq := make(chan error, 1)
		steps, fireAt := 0, 3+c.Rng.IntN(6)
		pw.d.Hook = func(step string) error {
			steps++
			if steps == fireAt {
				go func() { acq <- e.acquire() }()
				time.Sleep(time.Duration(5+c.Rng.IntN(25)) * time.Millisecond)
			}
			return nil
		}
		_, werr := pw.txn(2)
		pw.d.Hook = nil
		if werr != nil {
			c.Violate("C13/setup", "local writer: "+werr.Error(), e.detail(nil))
			return
		}
		if steps < fireAt {
			go func() { acq <- e.acquire() }()
		}
		if !wal {
			pw.close()
		}
		select {
		case err = <-acq:
		case <-time.After(30 * time.Second):
			c.Violate("C13/acquire-hangs", "halt lock acquisition did not return within 30 s after the local writer finished", e.detail(nil))
			return
		}
		posAtGrant = mon.PosOf(e.p.Node, "db")
		c.Count("acquire_raced_with_local_commit", 1)
	} else if script == "acquire-during-catchup" && stalledCatchup {
		// An application on the replica is inside a read transaction while the
		// replica, asking for the halt lock, catches up: the catch-up transactions
		// are applied by LiteFS itself and must wait for the reader like any other
		// replicated transaction (C11), then the lock is granted.
		const rOwner = 7311
		rpos := mon.PosOf(e.r.Node, "db")
		rf, rerr := e.r.Node.Open("db")
		if rerr != nil {
			c.Inconclusive("reader open: " + rerr.Error())
			return
		}
		if lockRetry(rf, rOwner, pager.PendingByte, pager.PendingByte, false, 2000) != nil ||
			lockRetry(rf, rOwner, pager.SharedFirst, pager.SharedFirst+pager.SharedSize-1, false, 2000) != nil {
			rf.Close(rOwner)
			c.Inconclusive("reader locks busy")
			return
		}
		_ = rf.Unlock(rOwner, pager.PendingByte, pager.PendingByte)
		var rshm *drv.File
		if sf, serr := e.r.Node.Open("db-shm"); serr == nil {
			rshm = sf
			_ = lockRetry(rshm, rOwner, pager.WalDMS, pager.WalDMS, false, 2000)
			_ = lockRetry(rshm, rOwner, pager.WalRead0, pager.WalRead0, false, 2000)
		}
		acq := make(chan error, 1)
		go func() { acq <- e.acquire() }()
		hb0 := e.r.Client.Heartbeats.Load()
		e.p.Proxy.SetMode("pass")
		for dl := time.Now().Add(5 * time.Second); time.Now().Before(dl) && e.r.Client.Heartbeats.Load() < hb0+2 && mon.PosOf(e.r.Node, "db") == rpos; {
			time.Sleep(2 * time.Millisecond)
		}
		now := mon.PosOf(e.r.Node, "db")
		if rshm != nil {
			rshm.Close(rOwner)
		}
		rf.Close(rOwner)
		if now != rpos {
			c.Violate("C13/catchup-applied-under-reader-lock", fmt.Sprintf("while the replica caught up for a halt lock, LiteFS applied transactions (%s -> %s) although a local reader held its read locks", rpos, now), e.detail(nil))
			return
		}
		c.Count("catchup_waited_for_reader", 1)
		select {
		case err = <-acq:
		case <-time.After(30 * time.Second):
			c.Violate("C13/acquire-hangs", "halt lock acquisition did not return within 30 s after the reader finished", e.detail(nil))
			return
		}
		posAtGrant = mon.PosOf(e.p.Node, "db")
	} else {
		err = e.acquire()
	}
	if script == "lost-acquire-response" {
		// the first attempt fails at R although P granted: retry with a new handle
		// (same LockHandle keeps its id: FUSE retries the same request)
		if err == nil {
			c.Violate("C13/lost-response-not-seen", "acquire succeeded although its response was dropped", e.detail(nil))
			return
		}
		ctx, cancel := context.WithTimeout(context.Background(), 10*time.Second)
		err = e.lockf.LockWait(ctx, e.owner, 72, 72, true)
		cancel()
	}
	if err != nil {
		healthViolations(c, e.p.Node, "acquire", nil)
		if !c.Violated() {
			c.Violate("C13/acquire-failed", "halt lock acquisition through the lock file failed: "+err.Error(), e.detail(nil))
		}
		return
	}
	c.Count("grants", 1)
	hl := e.r.Store.DB("db").RemoteHaltLock()
	if hl == nil {
		c.Violate("C13/no-remote-halt-lock", "LockWait returned success but the replica holds no remote halt lock", e.detail(nil))
		return
	}
	grantPos := mon.PosKey{TXID: uint64(hl.Pos.TXID), Chk: uint64(hl.Pos.PostApplyChecksum)}
	if grantPos != posAtGrant || mon.PosOf(e.p.Node, "db") != posAtGrant {
		c.Violate("C13/grant-position", fmt.Sprintf("halt lock grant names position %s, the primary was at %s (now %s)", grantPos, posAtGrant, mon.PosOf(e.p.Node, "db")), e.detail(nil))
		return
	}
	if rp := mon.PosOf(e.r.Node, "db"); rp != grantPos {
		c.Violate("C13/replica-not-at-grant-position", fmt.Sprintf("replica starts writing at %s, the grant names %s", rp, grantPos), e.detail(nil))
		return
	}
	if got := e.p.Store.DB("db").VerifHaltLockID(); got != hl.ID {
		c.Violate("C13/primary-halt-id", fmt.Sprintf("primary holds halt lock id %d, replica was given %d", got, hl.ID), e.detail(nil))
		return
	}
	ltxBefore, _, _ := mon.ListLTXDir(filepath.Join(mon.DBDir(e.p.Node, "db"), "ltx"))

	// replica-side writer
	img, _ := e.led.get("db", grantPos)
	rw, err := newWriter(e.r.Node, "db", ps, wal, "delete", img, c.SubRng("rw"), e.led, 2)
	if err != nil {
		c.Violate("C13/replica-writer", err.Error(), e.detail(nil))
		return
	}
	e.rw = rw
	defer func() { e.rw.close() }()
	rw.d.BusyRetries = 200
	if err := rw.ensure(3); err != nil {
		c.Violate("C13/replica-writer", err.Error(), e.detail(nil))
		return
	}
	forward := func(k int, ctx string) bool {
		for i := 0; i < k; i++ {
			before := mon.PosOf(e.r.Node, "db")
			committed, err := rw.txn(2)
			if err != nil {
				healthViolations(c, e.r.Node, "forwarded commit", e.detail(nil))
				healthViolations(c, e.p.Node, "forwarded commit (primary)", e.detail(nil))
				if !c.Violated() {
					c.Violate("C13/forwarded-commit-failed", fmt.Sprintf("%s: local write on the halt-lock holder failed: %v", ctx, err), e.detail(nil))
				}
				return false
			}
			rp, pp := mon.PosOf(e.r.Node, "db"), mon.PosOf(e.p.Node, "db")
			if rp != before && pp != rp {
				c.Violate("C13/commit-returned-before-primary-applied", fmt.Sprintf("%s: replica's commit returned at %s but the primary is at %s", ctx, rp, pp), e.detail(nil))
				return false
			}
			if committed {
				c.Count("forwarded_commits", 1)
				if wal {
					c.Count("forwarded_wal", 1)
				} else {
					c.Count("forwarded_journal", 1)
				}
			}
		}
		return true
	}

	outcome := "ok"
	switch script {
	case "forward", "third-replica", "lost-acquire-response", "acquire-during-local-write", "acquire-during-catchup":
		if !forward(2+c.Rng.IntN(4), script) {
			return
		}
	case "lost-commit-response":
		// the first commit is applied on P but R sees an error: R must not end up
		// on a different history than P
		var err error
		for try := 0; try < 20; try++ { // (a simulated ROLLBACK in WAL mode forwards nothing)
			if _, err = rw.txn(2); err != nil || len(e.r.Node.Exits()) > 0 {
				break
			}
			lostMu.Lock()
			n := lost["commit"]
			lostMu.Unlock()
			if n > 0 {
				break
			}
		}
		outcome = "commit-error"
		// In WAL mode LiteFS exits fatally by design when the commit step fails.
		if len(e.r.Node.Exits()) > 0 {
			outcome = "replica-exit"
			c.Count("replica_exit_on_lost_response", 1)
		} else if err == nil {
			c.Violate("C13/lost-response-not-seen", "commit succeeded although its response was dropped", e.detail(nil))
			return
		}
	case "local-writer-blocked":
		// a local writer on P must not get through while R holds the halt lock
		if !forward(1, script) {
			return
		}
		lw, err := newWriter(e.p.Node, "db", ps, wal, "delete", e.rw.d.M, c.SubRng("lw"), e.led, 3)
		if err == nil {
			lw.d.BusyRetries = 30
			if lw.d.WALMode {
				if werr := lw.ensure(3); werr != nil {
					err = werr
				}
			}
			if err == nil {
				before := mon.PosOf(e.p.Node, "db")
				_, werr := lw.txn(2)
				after := mon.PosOf(e.p.Node, "db")
				if werr == nil && after != before {
					c.Violate("C13/local-commit-during-halt", fmt.Sprintf("the primary committed a local transaction (%s -> %s) while a replica holds the halt lock", before, after), e.detail(nil))
					lw.close()
					return
				}
				if after != before {
					c.Violate("C13/primary-moved-during-halt", fmt.Sprintf("primary position moved %s -> %s by a local writer during the halt", before, after), e.detail(nil))
				}
				c.Count("local_writer_blocked", 1)
			}
			lw.close()
		}
		if !forward(1, script+" (after local attempt)") {
			return
		}
		// `rm db` on the primary is a local transaction as well (the drop)
		if (c.Index/len(c13Scripts))%4 == 3 {
			before := mon.PosOf(e.p.Node, "db")
			rerr := e.p.Node.Remove("db")
			after := mon.PosOf(e.p.Node, "db")
			if after != before {
				c.Violate("C13/local-drop-during-halt", fmt.Sprintf("the primary dropped the database locally (%s -> %s, unlink answered %v) while a replica holds its halt lock", before, after, rerr), e.detail(nil))
				return
			}
			c.Count("local_drop_blocked", 1)
		}
	case "non-holder-tx":
		if !forward(1, script) {
			return
		}
	case "reacquire-same-id":
		// a retried acquire with the same id returns the same lock
		cli := lhttp.NewClient()
		hl2, err := cli.AcquireHaltLock(context.Background(), e.p.URL(), e.r.Store.ID(), "db", hl.ID)
		if err != nil {
			c.Violate("C13/reacquire-failed", "repeated acquire with the same id failed: "+err.Error(), e.detail(nil))
			return
		}
		if hl2.ID != hl.ID || hl2.Pos != hl.Pos || (hl2.Expires != nil && hl.Expires != nil && !hl2.Expires.Equal(*hl.Expires)) {
			c.Violate("C13/reacquire-different-lock", fmt.Sprintf("repeated acquire with id %d returned a different lock: %+v vs %+v", hl.ID, hl2, hl), e.detail(nil))
			return
		}
		c.Count("reacquire_same_lock", 1)
		if !forward(2, script) {
			return
		}
	case "release-then-write", "expiry":
		if !forward(1+c.Rng.IntN(2), script) {
			return
		}
	}
	if c.Violated() {
		return
	}

	// every LTX the primary gained inside the grant interval came from R
	if outcome == "ok" {
		ltxNow, _, _ := mon.ListLTXDir(filepath.Join(mon.DBDir(e.p.Node, "db"), "ltx"))
		seen := map[string]bool{}
		for _, f := range ltxBefore {
			seen[f.Name] = true
		}
		for _, f := range ltxNow {
			if seen[f.Name] {
				continue
			}
			l, err := mon.DecodeLTX(filepath.Join(mon.DBDir(e.p.Node, "db"), "ltx", f.Name))
			if err != nil {
				c.Violate("C13/primary-ltx-unreadable", err.Error(), e.detail(nil))
				return
			}
			if l.Header.NodeID != e.r.Store.ID() {
				c.Violate("C13/foreign-ltx-during-halt", fmt.Sprintf("the primary gained %s (node id %x) inside the grant interval; the holder is %x", f.Name, l.Header.NodeID, e.r.Store.ID()), e.detail(nil))
				return
			}
		}
	}

	// ---- forged /tx from somebody who is not the holder -----------------------
	forged := func(when, lockID string, nodeID uint64) bool {
		before := mon.PosOf(e.p.Node, "db")
		curImg, _ := e.led.get("db", before)
		if curImg == nil {
			return true
		}
		body := forgeLTX(e.p, curImg, nodeID)
		code, err := postTx(e.p.URL(), nodeID, lockID, body)
		after := mon.PosOf(e.p.Node, "db")
		if healthViolations(c, e.p.Node, "forged /tx "+when, e.detail(nil)) {
			return false
		}
		if err == nil && code == 200 || after != before {
			c.Violate("C13/tx-accepted-from-non-holder", fmt.Sprintf("POST /tx %s (lockID=%s) was answered %d and the primary moved %s -> %s; only the current halt-lock holder may publish", when, lockID, code, before, after), e.detail(map[string]any{"when": when}))
			return false
		}
		c.Count("forged_tx_rejected", 1)
		return true
	}
	if script == "non-holder-tx" {
		// a late or repeated release of ANOTHER lock (an earlier holder whose lock
		// has expired, a retried DELETE): the current holder's lock must survive it
		for _, stale := range []int64{hl.ID + 1, 1, hl.ID - 7} {
			_ = lhttp.NewClient().ReleaseHaltLock(context.Background(), e.p.URL(), 0x5151, "db", stale)
			if got := e.p.Store.DB("db").VerifHaltLockID(); got != hl.ID {
				c.Violate("C13/stale-release-dropped-lock", fmt.Sprintf("DELETE /halt with lock id %d (not the current lock %d) changed the primary's halt lock to %d: the holder neither released it nor did it expire", stale, hl.ID, got), e.detail(nil))
				return
			}
			c.Count("stale_release_ignored", 1)
		}
		if !forged("with a wrong lock id while R holds the lock", "424242", 0x1234) {
			return
		}
		if !forged("with the right id but another node id's header", fmt.Sprint(hl.ID+1), e.r.Store.ID()) {
			return
		}
	}

	// ---- release / expiry -------------------------------------------------------
	if outcome == "replica-exit" {
		c.Distinct(fmt.Sprintf("%s/wal%v/%s", script, wal, outcome))
		return
	}
	if script == "expiry" {
		time.Sleep(60 * time.Millisecond)
		e.p.Store.EnforceHaltLockExpiration(context.Background())
		if got := e.p.Store.DB("db").VerifHaltLockID(); got != 0 {
			c.Violate("C13/halt-lock-not-expired", "the primary still holds the halt lock after its TTL", e.detail(nil))
			return
		}
		// the former holder tries to publish
		rb, pb := mon.PosOf(e.r.Node, "db"), mon.PosOf(e.p.Node, "db")
		_, werr := rw.txn(2)
		ra, pa := mon.PosOf(e.r.Node, "db"), mon.PosOf(e.p.Node, "db")
		if werr == nil && pa != pb {
			c.Violate("C13/expired-holder-published", fmt.Sprintf("after the halt lock expired the former holder still published: primary %s -> %s (replica %s -> %s)", pb, pa, rb, ra), e.detail(nil))
			return
		}
		if pa != pb {
			c.Violate("C13/expired-holder-published", fmt.Sprintf("primary moved %s -> %s by a forwarded transaction after expiry", pb, pa), e.detail(nil))
			return
		}
		c.Count("expired_holder_rejected", 1)
		outcome = "expired"
		// a refused forwarded commit leaves nothing behind on the former holder: if it
		// is still running, its position is where it was and its transaction log ends
		// exactly there (nothing published locally that the primary never accepted)
		if len(e.r.Node.Exits()) == 0 && werr != nil {
			if ra != rb {
				c.Violate("C13/refused-forward-moved-holder", fmt.Sprintf("the forwarded commit was refused (%v) but the former holder moved %s -> %s", werr, rb, ra), e.detail(nil))
				return
			}
			if probs := mon.ChainProblems(filepath.Join(mon.DBDir(e.r.Node, "db"), "ltx"), ra.TXID, ra.Chk); len(probs) > 0 {
				c.Violate("C13/refused-forward-left-ltx", fmt.Sprintf("the forwarded commit was refused (%v) and the former holder stays at %s, but its transaction log does not end there: %s", werr, ra, strings.Join(probs, "; ")), e.detail(nil))
				return
			}
			c.Count("refused_forward_left_nothing", 1)
		}
		// R may have exited fatally (WAL) or rolled back; its local state is no longer judged
	} else {
		rw.close()
		// Gate inside the release on the primary: at the instant the halt lock's
		// write locks are free for local writers (a local writer takes them), one
		// more forwarded transaction carrying the released lock id arrives. From
		// that instant on the former holder must not be able to publish.
		{
			pdb := e.p.Store.DB("db")
			var armed, fired, inProbe atomic.Bool
			var gateCode int
			var gatePosBefore, gatePosAfter mon.PosKey
			curImg, _ := e.led.get("db", mon.PosOf(e.p.Node, "db"))
			var body []byte
			if curImg != nil && curImg.PageN >= 2 {
				body = forgeLTX(e.p, curImg, e.r.Store.ID())
			}
			lockID := fmt.Sprint(hl.ID)
			pdb.VerifOnLockStateChange(func(lt litefs.LockType, prev, next litefs.RWMutexState) {
				if !armed.Load() || next != litefs.RWMutexStateUnlocked || body == nil || fired.Load() {
					return
				}
				// (the probe below changes lock states itself: no re-entry)
				if inProbe.Swap(true) {
					return
				}
				defer inProbe.Store(false)
				gs := pdb.TryAcquireWriteLock()
				if gs == nil {
					return // some of the halt lock's locks are still held
				}
				if fired.Swap(true) {
					gs.Unlock()
					return
				}
				gatePosBefore = mon.PosOf(e.p.Node, "db")
				gateCode, _ = postTx(e.p.URL(), e.r.Store.ID(), lockID, body)
				gatePosAfter = mon.PosOf(e.p.Node, "db")
				gs.Unlock()
			})
			interrupted := false
			if script == "release-then-write" && (c.Index/len(c13Scripts))%2 == 0 && e.lockf != nil {
				interrupted = true
				// The application's unlock is interrupted (a signal inside the system
				// call: FUSE INTERRUPT cancels the request) while the release is on its
				// way to the primary; the kernel then repeats the unlock. The repeated
				// unlock is the one that has to release the lock.
				e.p.Proxy.SetMode("stall")
				ictx, icancel := context.WithCancel(context.Background())
				idone := make(chan error, 1)
				go func() { idone <- e.lockf.UnlockCtx(ictx, e.owner, 72, 72) }()
				time.Sleep(30 * time.Millisecond)
				icancel()
				var ierr error
				select {
				case ierr = <-idone:
				case <-time.After(10 * time.Second):
					e.p.Proxy.SetMode("pass")
					c.Inconclusive("the interrupted unlock did not return")
					return
				}
				e.p.Proxy.SetMode("pass")
				c.Logf("interrupted unlock returned %v", ierr)
				c.Count("unlock_interrupted_then_repeated", 1)
			}
			// (after an interrupted attempt its request may still arrive and release the
			// lock on its own schedule: the gate probe is for the undisturbed release)
			armed.Store(!interrupted)
			err := e.release()
			armed.Store(false)
			pdb.VerifOnLockStateChange(nil)
			if err != nil {
				c.Violate("C13/release-failed", err.Error(), e.detail(nil))
				return
			}
			if fired.Load() {
				c.Count("release_gate_passages", 1)
				if gateCode == 200 || gatePosAfter != gatePosBefore {
					c.Violate("C13/tx-accepted-while-local-writer-holds-lock", fmt.Sprintf("during the release of halt lock %s a local writer already held the write lock when a forwarded transaction with that lock id arrived: it was answered %d and the primary moved %s -> %s", lockID, gateCode, gatePosBefore, gatePosAfter), e.detail(nil))
					return
				}
			}
		}
		if false {
			c.Violate("C13/release-failed", "", e.detail(nil))
			return
		}
		if got := e.p.Store.DB("db").VerifHaltLockID(); got != 0 {
			c.Violate("C13/halt-lock-not-released", "the primary still holds the halt lock after the replica released it", e.detail(nil))
			return
		}
		if e.r.Store.DB("db").HasRemoteHaltLock() {
			c.Violate("C13/replica-still-holder", "the replica still believes it holds the halt lock after releasing it", e.detail(nil))
			return
		}
		// former holder can no longer write
		rb := mon.PosOf(e.r.Node, "db")
		rw2, err := newWriter(e.r.Node, "db", ps, wal, "delete", e.rw.d.M, c.SubRng("rw2"), e.led, 4)
		if err == nil {
			rw2.d.BusyRetries = 20
			pb := mon.PosOf(e.p.Node, "db")
			werr := rw2.ensure(3)
			if werr == nil {
				_, werr = rw2.txn(2)
			}
			if mon.PosOf(e.p.Node, "db") != pb || (werr == nil && mon.PosOf(e.r.Node, "db") != rb) {
				c.Violate("C13/former-holder-published", "after releasing the halt lock the replica still committed a transaction", e.detail(nil))
				rw2.close()
				return
			}
			rw2.close()
		}
		if script == "non-holder-tx" || script == "release-then-write" {
			if !forged("after the lock was released", fmt.Sprint(hl.ID), e.r.Store.ID()) {
				return
			}
		}
	}
	if len(e.r.Node.Exits()) > 0 && outcome != "expired" {
		healthViolations(c, e.r.Node, "replica", e.detail(nil))
		return
	}
	// the primary can write again
	pimg, ok := e.led.get("db", mon.PosOf(e.p.Node, "db"))
	if !ok {
		c.Violate("C13/primary-position-unknown", "primary is at a position nobody committed: "+mon.PosOf(e.p.Node, "db").String(), e.detail(nil))
		return
	}
	e.pw.close()
	pw2, err := newWriter(e.p.Node, "db", ps, wal, "delete", pimg, c.SubRng("pw2"), e.led, 5)
	if err != nil {
		c.Violate("C13/primary-writer", err.Error(), e.detail(nil))
		return
	}
	e.pw = pw2
	pw2.d.BusyRetries = 2000
	if err := pw2.ensure(3); err != nil {
		c.Violate("C13/primary-cannot-write-after-halt", err.Error(), e.detail(nil))
		return
	}
	for i := 0; i < 2; i++ {
		if _, err := pw2.txn(2); err != nil {
			healthViolations(c, e.p.Node, "primary write after halt", e.detail(nil))
			if !c.Violated() {
				c.Violate("C13/primary-cannot-write-after-halt", fmt.Sprintf("after the halt lock was %s the primary cannot commit: %v", outcome, err), e.detail(nil))
			}
			return
		}
	}
	c.Count("primary_writes_after_release", 1)
	healthViolations(c, e.p.Node, "end", e.detail(nil))
	// replicas converge
	{
		for i := 1; i < len(nodes); i++ {
			rn := cl.Nodes[i]
			if rn.Exited() {
				continue // a dead process (fatal exit by design after a failed WAL commit step)
			}
			if outcome == "expired" && i == 1 {
				// the former holder's SQLite connection is gone: its locks are released
				e.rw.close()
			}
			ok, _, timedOut := cl.WaitConverged(e.p, rn, []string{"db"}, 5, 30*time.Second)
			if timedOut {
				c.Inconclusive("convergence watchdog")
				continue
			}
			if !ok {
				c.Violate("C13/replica-diverged-after-halt", fmt.Sprintf("%s did not reach the primary's position after the halt (primary %s, replica %s)", rn.Name, mon.PosOf(e.p.Node, "db"), mon.PosOf(rn.Node, "db")), e.detail(nil))
				return
			}
			e.owner++
			res, err := mountRead(c, rn.Node, "db", e.owner)
			if err == nil {
				judgeReplicaRead(c, e.led, rn.Name, "db", res, "after halt", nil)
			}
			if i == 2 {
				c.Count("third_replica_converged", 1)
			}
		}
	}
	c.Distinct(fmt.Sprintf("%s/wal%v/ps%d/%s", script, wal, ps, outcome))
	if c.Index < len(c13Scripts)*2 {
		c.Sample(map[string]any{"script": script, "wal": wal, "page_size": ps, "outcome": outcome, "grant_pos": grantPos.String(), "replica_client_calls": e.r.Client.Calls()})
	}
}
