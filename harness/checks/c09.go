package checks

import (
	"bytes"
	"context"
	"fmt"
	"os"
	"path/filepath"
	"sort"
	"strings"
	"sync"
	"time"

	"github.com/superfly/litefs"
	"github.com/superfly/ltx"
	"verif/cluster"
	"verif/core"
	"verif/drv"
	"verif/mon"
	"verif/pager"
	"verif/ref"
)

func init() {
	register(&core.Check{
		ID:    "C09",
		Level: "exploration",
		Rule: "each case is a mixed history on a primary with a replica (local commits in both journal modes on two databases, replicated applies, snapshot joins, imports, drops and recreations, restarts with decoy *.tmp / foreign files planted in the ltx directory) interleaved with retention sweeps (zero-length retention) fired between operations, in the middle of a commit (step hook) and while the replica's stream is parked on an open LTX file (OS-layer gate), with and without a backup client acknowledging uploads; " +
			"at quiescent points (under the database's write lock) the ltx directory of every node is parsed and must be one contiguous, self-verifying chain ending at the node's position; every file a sweep removes is checked at the moment of removal against the newest file and the backup high-water mark; distinct = (operation, mode, retention timing, backup?, chain length class) tuples",
		Assumptions: []string{"chain is judged on the files present (a retention-trimmed suffix is a chain)"},
		NumCases: func(tier string) int {
			if tier == "thorough" {
				return 1200
			}
			return 64
		},
		EvalCounter: "chain_checks",
		CaseTimeout: 120 * time.Second,
		Run:         runC09,
		Floors: func(tier string) map[string]int {
			return map[string]int{"chain_checks": 800, "sweeps": 200, "sweep_mid_commit": 20, "sweep_with_parked_stream": 10, "files_removed_by_retention": 200,
				"removals_checked_against_hwm": 30, "decoys_planted": 20, "snapshot_replaced_chain": 10, "imports": 10, "drops": 10, "restarts": 20}
		},
	})
}

// retentionWatch inspects every file a retention sweep removes.
type retentionWatch struct {
	mu       sync.Mutex
	n        *drv.Node
	backup   bool
	problems []string
	removed  int
	hwmChk   int
	svcChk   int
	// svcPos reports the transaction ID the backup service really holds for a
	// database (read from the service, not from LiteFS's own high-water mark)
	svcPos func(name string) (uint64, bool)
}

func (w *retentionWatch) hook(op, kind, path string) error {
	if op != "ENFORCERETENTION" || kind != "remove" {
		return nil
	}
	name := filepath.Base(filepath.Dir(filepath.Dir(path)))
	_, maxTXID, err := ltx.ParseFilename(filepath.Base(path))
	w.mu.Lock()
	defer w.mu.Unlock()
	w.removed++
	if err != nil {
		w.problems = append(w.problems, fmt.Sprintf("retention removed a file that is not a transaction file: %s", filepath.Base(path)))
		return nil
	}
	db := w.n.Store.DB(name)
	if db == nil {
		return nil
	}
	// newest file currently on disk
	files, _, _ := mon.ListLTXDir(filepath.Dir(path))
	newest := uint64(0)
	for _, f := range files {
		if f.Max > newest {
			newest = f.Max
		}
	}
	if uint64(maxTXID) >= newest {
		w.problems = append(w.problems, fmt.Sprintf("retention removes the newest transaction file %s of %s (newest max txid %d)", filepath.Base(path), name, newest))
	}
	if w.backup {
		w.hwmChk++
		if hwm := db.HWM(); uint64(maxTXID) >= uint64(hwm) {
			w.problems = append(w.problems, fmt.Sprintf("retention removes %s of %s although the backup service has only confirmed up to txid %d", filepath.Base(path), name, uint64(hwm)))
		}
		if w.svcPos != nil {
			if have, ok := w.svcPos(name); ok {
				w.svcChk++
				if uint64(maxTXID) > have {
					w.problems = append(w.problems, fmt.Sprintf("retention removes %s of %s although the backup service holds this database only up to txid %d (LiteFS's high-water mark says %d)", filepath.Base(path), name, have, uint64(db.HWM())))
				}
			}
		}
	}
	return nil
}

func runC09(c *core.Case) {
	ps := []uint32{512, 1024, 4096}[c.Index%3]
	withBackup := (c.Index/3)%2 == 1
	jmode := pick(c, []string{"delete", "truncate", "persist"})
	var bc *litefs.FileBackupClient
	if withBackup {
		bc = litefs.NewFileBackupClient(c.Dir + "/backup")
		if err := bc.Open(); err != nil {
			c.Inconclusive(err.Error())
			return
		}
	}
	watch := &retentionWatch{backup: withBackup}
	if withBackup {
		watch.svcPos = func(name string) (uint64, bool) {
			m, err := bc.PosMap(context.Background())
			if err != nil {
				return 0, false
			}
			return uint64(m[name].TXID), true
		}
	}
	var gateMu sync.Mutex
	var gateArmed, gateParked bool
	gateParkedCh := make(chan struct{}, 1)
	gateRelease := make(chan struct{})
	tuneP := func(s *litefs.Store) {
		s.Retention = time.Nanosecond
		s.Compress = c.Index%2 == 0
		if bc != nil {
			s.BackupClient = bc
			s.BackupDelay = 0 // syncs are triggered explicitly with SyncBackup
		}
	}
	cl, err := cluster.New(c.Dir, []cluster.NodeOpts{{Candidate: true, Tune: tuneP}, {Tune: func(s *litefs.Store) { s.Retention = time.Nanosecond }}})
	if err != nil {
		c.Inconclusive(err.Error())
		return
	}
	defer cl.Close()
	installHooks := func(n *drv.Node) {
		watch.mu.Lock()
		watch.n = n
		watch.mu.Unlock()
		n.OS.SetHook(func(op, kind, path string) error {
			if op == "OPENLTX" {
				gateMu.Lock()
				park := gateArmed && !gateParked
				if park {
					gateParked = true
				}
				gateMu.Unlock()
				if park {
					gateParkedCh <- struct{}{}
					<-gateRelease
				}
			}
			return watch.hook(op, kind, path)
		})
	}
	cl.Nodes[0].PreOpen = installHooks
	if err := cl.Start(0); err != nil || cl.WaitPrimary(0, 10*time.Second) == nil {
		c.Inconclusive("primary start")
		return
	}
	P, R := cl.Nodes[0], cl.Nodes[1]
	led := newLedger()
	names := []string{"j", "w"}
	writers := map[string]*dbWriter{}
	openWriter := func(name string, img *ref.Image) bool {
		if old := writers[name]; old != nil {
			old.close()
		}
		w, err := newWriter(P.Node, name, ps, name == "w", jmode, img, c.SubRng(fmt.Sprintf("%s-%d", name, c.Counter("ops"))), led, uint64(10+len(name)))
		if err != nil {
			c.Violate("C09/setup", err.Error(), nil)
			return false
		}
		w.d.BusyRetries = 5000
		if err := w.ensure(uint32(3 + c.Rng.IntN(8))); err != nil {
			healthViolations(c, P.Node, "create", nil)
			if !c.Violated() {
				c.Violate("C09/setup", err.Error(), nil)
			}
			return false
		}
		writers[name] = w
		return true
	}
	for _, nm := range names {
		if !openWriter(nm, nil) {
			return
		}
	}
	var hist []string
	checkChains := func(ctx string) bool {
		for _, n := range cl.Nodes {
			if !n.Up {
				continue
			}
			for _, nm := range names {
				db := n.Store.DB(nm)
				if db == nil {
					continue
				}
				lctx, cancel := context.WithTimeout(context.Background(), 10*time.Second)
				g, err := db.AcquireWriteLock(lctx, nil)
				cancel()
				if err != nil {
					c.Count("quiesce_failed", 1)
					continue
				}
				pos := mon.PosOf(n.Node, nm)
				probs := mon.ChainProblems(filepath.Join(mon.DBDir(n.Node, nm), "ltx"), pos.TXID, pos.Chk)
				g.Unlock()
				c.Count("chain_checks", 1)
				if len(probs) > 0 {
					c.Violate("C09/chain-broken", fmt.Sprintf("%s/%s after %s: %s", n.Name, nm, ctx, strings.Join(probs, "; ")), map[string]any{"history": hist, "position": pos.String()})
					return false
				}
			}
		}
		watch.mu.Lock()
		probs := append([]string(nil), watch.problems...)
		watch.mu.Unlock()
		if len(probs) > 0 {
			c.Violate("C09/retention-removed-protected-file", probs[0], map[string]any{"history": hist, "all": probs})
			return false
		}
		return true
	}
	sweep := func(n *cluster.CNode) {
		time.Sleep(2 * time.Millisecond) // every file is now older than the 1 ns retention
		_ = n.Store.EnforceRetention(context.Background())
		c.Count("sweeps", 1)
	}
	replicaUp := false
	converge := func() {
		if replicaUp {
			if ok, _, timedOut := cl.WaitConverged(P, R, names, 5, 30*time.Second); !ok && !timedOut {
				c.Violate("C09/replica-not-converged", fmt.Sprintf("replica did not follow (primary j=%s w=%s, replica j=%s w=%s)", mon.PosOf(P.Node, "j"), mon.PosOf(P.Node, "w"), mon.PosOf(R.Node, "j"), mon.PosOf(R.Node, "w")), map[string]any{"history": hist})
			}
		}
	}

	for step := 0; step < 26 && !c.Violated(); step++ {
		c.Count("ops", 1)
		name := names[c.Rng.IntN(2)]
		w := writers[name]
		op := c.Rng.IntN(16)
		if step == 3 {
			op = 100
		}
		switch {
		case op == 100 || (op == 15 && !replicaUp):
			if err := cl.Start(1); err != nil {
				c.Violate("C09/replica-start", err.Error(), nil)
				return
			}
			replicaUp = true
			hist = append(hist, "replica joins")
			converge()
			// a snapshot join leaves exactly one file per database on the replica
			for _, nm := range names {
				files, _, _ := mon.ListLTXDir(filepath.Join(mon.DBDir(R.Node, nm), "ltx"))
				if len(files) == 1 && files[0].Min == 1 {
					c.Count("snapshot_replaced_chain", 1)
				}
			}
		case op <= 6:
			if _, err := w.txn(4); err != nil {
				healthViolations(c, P.Node, "commit", hist)
				if !c.Violated() {
					c.Violate("C09/commit-failed", err.Error(), map[string]any{"history": hist})
				}
				return
			}
			hist = append(hist, "commit "+name)
		case op == 7:
			// sweep in the middle of a commit
			fired := false
			at := 3 + c.Rng.IntN(12)
			k := 0
			w.d.Hook = func(string) error {
				k++
				if k == at {
					fired = true
					sweep(P)
				}
				return nil
			}
			_, err := w.txn(4)
			w.d.Hook = nil
			if err != nil {
				c.Violate("C09/commit-failed", err.Error(), map[string]any{"history": hist})
				return
			}
			if fired {
				c.Count("sweep_mid_commit", 1)
			}
			hist = append(hist, "commit "+name+" with a sweep inside")
		case op == 8 || op == 9:
			sweep(P)
			if replicaUp && c.Rng.IntN(2) == 0 {
				sweep(R)
			}
			hist = append(hist, "sweep")
		case op == 10 && replicaUp:
			// park the replica's stream on an open LTX file, commit, sweep, release
			converge()
			gateMu.Lock()
			gateArmed, gateParked = true, false
			gateMu.Unlock()
			for i := 0; i < 3; i++ {
				_, _ = w.txn(3)
			}
			select {
			case <-gateParkedCh:
				for i := 0; i < 2; i++ {
					_, _ = w.txn(3)
				}
				sweep(P)
				c.Count("sweep_with_parked_stream", 1)
				gateMu.Lock()
				gateArmed = false
				gateMu.Unlock()
				gateRelease <- struct{}{}
			case <-time.After(2 * time.Second):
				gateMu.Lock()
				gateArmed = false
				gateMu.Unlock()
			}
			hist = append(hist, "sweep while the stream holds an LTX file open ("+name+")")
			converge()
		case op == 11 && withBackup:
			if err := P.Store.SyncBackup(context.Background()); err != nil {
				c.Count("backup_sync_errors", 1)
			}
			hist = append(hist, "backup sync")
		case op == 12:
			// import
			target := uint32(2 + c.Rng.IntN(6))
			imp := ref.NewImage(ps)
			d2 := pager.NewDB(nil, "x", ps, c.SubRng(fmt.Sprintf("imp%d", step)))
			for q := uint32(2); q <= target; q++ {
				imp.Set(q, d2.RandPage())
			}
			imp.Set(1, ref.MakePage1(ps, target, name == "w", 0, nil))
			binaryZeroCounters(imp)
			imp.PageN = target
			w.close()
			if err := P.Store.DB(name).Import(context.Background(), bytes.NewReader(imp.Bytes())); err != nil {
				healthViolations(c, P.Node, "import", hist)
				if !c.Violated() {
					c.Violate("C09/import-failed", err.Error(), map[string]any{"history": hist})
				}
				return
			}
			led.put(name, mon.PosOf(P.Node, name), imp)
			c.Count("imports", 1)
			hist = append(hist, "import "+name)
			if !openWriter(name, imp) {
				return
			}
		case op == 13:
			w.close()
			if err := P.Node.Remove(name); err != nil {
				c.Violate("C09/drop-failed", err.Error(), map[string]any{"history": hist})
				return
			}
			led.put(name, mon.PosOf(P.Node, name), ref.NewImage(ps))
			c.Count("drops", 1)
			hist = append(hist, "drop "+name)
			if !checkChains("drop " + name) {
				return
			}
			if !openWriter(name, nil) {
				return
			}
			hist = append(hist, "recreate "+name)
		case op == 14:
			// restart the primary with decoys in the ltx directories
			imgs := map[string]*ref.Image{}
			for nm, ww := range writers {
				imgs[nm] = ww.d.M
				ww.close()
			}
			before := map[string]mon.PosKey{}
			for _, nm := range names {
				before[nm] = mon.PosOf(P.Node, nm)
				dir := filepath.Join(mon.DBDir(P.Node, nm), "ltx")
				_ = os.WriteFile(filepath.Join(dir, "00000000000000ff-00000000000000ff.ltx.tmp"), []byte("decoy"), 0o644)
				_ = os.WriteFile(filepath.Join(dir, "00000000000000fe-00000000000000fe.ltx.1234567.tmp"), bytes.Repeat([]byte{1}, 200), 0o644)
				_ = os.WriteFile(filepath.Join(dir, "README"), []byte("not a transaction"), 0o644)
				c.Count("decoys_planted", 3)
			}
			cl.Stop(0)
			if err := cl.Start(0); err != nil {
				c.Violate("C09/restart-failed", "restart with decoy temporary files in the ltx directory failed: "+err.Error(), map[string]any{"history": hist})
				return
			}
			if cl.WaitPrimary(0, 10*time.Second) == nil {
				c.Inconclusive("primary did not come back")
				return
			}
			c.Count("restarts", 1)
			hist = append(hist, "restart primary (decoys planted)")
			for _, nm := range names {
				if a := mon.PosOf(P.Node, nm); a != before[nm] {
					c.Violate("C09/decoy-influenced-position", fmt.Sprintf("%s: position %s -> %s across a restart with decoy files", nm, before[nm], a), map[string]any{"history": hist})
					return
				}
				if !openWriter(nm, imgs[nm]) {
					return
				}
			}
		default:
			if _, err := w.txn(4); err != nil {
				c.Violate("C09/commit-failed", err.Error(), map[string]any{"history": hist})
				return
			}
			hist = append(hist, "commit "+name)
		}
		if healthViolations(c, P.Node, "step", hist) {
			return
		}
		if replicaUp && healthViolations(c, R.Node, "step(replica)", hist) {
			return
		}
		if step%3 == 2 {
			converge()
			if !checkChains(hist[len(hist)-1]) {
				return
			}
		}
		files, _, _ := mon.ListLTXDir(filepath.Join(mon.DBDir(P.Node, name), "ltx"))
		c.Distinct(fmt.Sprintf("op%d/%s/ps%d/backup%v/len%d", op, name, ps, withBackup, minInt(len(files), 6)))
	}
	converge()
	checkChains("end")
	// epilogue with a backup service: the service falls back (it lost its newest
	// files); the next sync finds the primary ahead of a service that refuses
	// its upload and adopts the service's copy. From then on the service holds
	// less than it once confirmed: commits and sweeps that follow must keep every
	// file the service does not hold, and the next sync must lose nothing.
	if withBackup && !c.Violated() {
		name := names[c.Index%2]
		_ = P.Store.SyncBackup(context.Background())
		bdir := filepath.Join(c.Dir, "backup", name)
		var bfiles []string
		if ents, err := os.ReadDir(bdir); err == nil {
			for _, e := range ents {
				if filepath.Ext(e.Name()) == ".ltx" {
					bfiles = append(bfiles, e.Name())
				}
			}
		}
		sort.Strings(bfiles)
		if len(bfiles) >= 2 && P.Store.DB(name) != nil && P.Store.DB(name).PageN() > 0 {
			cut := 1 + c.Rng.IntN(minInt(2, len(bfiles)-1))
			for _, f := range bfiles[len(bfiles)-cut:] {
				_ = os.Remove(filepath.Join(bdir, f))
			}
			top := mon.PosOf(P.Node, name)
			svc, _ := watch.svcPos(name)
			hist = append(hist, fmt.Sprintf("backup service loses its newest %d files of %s: it holds txid %d, the primary is at %s", cut, name, svc, top))
			// one commit so that the database is dirty for the sync
			if w := writers[name]; w != nil {
				_, _ = w.txn(2)
			}
			_ = P.Store.SyncBackup(context.Background())
			after := mon.PosOf(P.Node, name)
			hist = append(hist, fmt.Sprintf("backup sync: primary at %s", after))
			if healthViolations(c, P.Node, "sync after the service fell back", hist) {
				return
			}
			if img, ok := led.get(name, after); ok && after.TXID == svc && after.TXID > 0 {
				c.Count("backup_fell_back_and_restored", 1)
				if openWriter(name, img) {
					w := writers[name]
					for i := 0; i < 3; i++ {
						if _, err := w.txn(2); err != nil {
							healthViolations(c, P.Node, "commit after the restore", hist)
							if !c.Violated() {
								c.Violate("C09/setup", "commit after the restore: "+err.Error(), hist)
							}
							return
						}
						sweep(P)
					}
					before := mon.PosOf(P.Node, name)
					hist = append(hist, fmt.Sprintf("3 commits with sweeps after the restore: primary at %s", before))
					if !checkChains("sweeps after a restore from a service that fell back") {
						return
					}
					err := P.Store.SyncBackup(context.Background())
					if healthViolations(c, P.Node, "sync after the sweeps", hist) {
						return
					}
					if now := mon.PosOf(P.Node, name); now != before {
						c.Violate("C09/sync-lost-transactions", fmt.Sprintf("the backup service held %s up to txid %d, the primary committed up to %s and swept; the next sync (%v) left the primary at %s: committed transactions are gone", name, svc, before, err, now), map[string]any{"history": hist})
						return
					}
					c.Count("sync_after_fallback_kept_position", 1)
					converge()
					checkChains("end of the fall-back epilogue")
				}
			} else {
				c.Count("backup_fell_back_other_outcome", 1)
			}
		}
	}
	watch.mu.Lock()
	c.Count("removals_checked_against_service", watch.svcChk)
	c.Count("files_removed_by_retention", watch.removed)
	c.Count("removals_checked_against_hwm", watch.hwmChk)
	watch.mu.Unlock()
	for _, w := range writers {
		w.close()
	}
	if c.Index < 4 {
		c.Sample(map[string]any{"page_size": ps, "backup": withBackup, "journal_mode": jmode, "history": hist})
	}
}
