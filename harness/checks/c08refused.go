//go:build verif

package checks

import (
	"context"
	"errors"
	"fmt"
	"sync"
	"time"

	"github.com/superfly/litefs"
	"github.com/superfly/litefs/consul"

	"verif/cluster"
	"verif/core"
	"verif/fakeconsul"
)

func init() {
	addFamily("C08", func(tier string) int {
		if tier == "thorough" {
			return 24
		}
		return 4
	}, runC08RefusedTakeover, " (+ a handed-over lease whose take-over the service refuses: the primary hands its lease to a connected replica and the lease service answers the replica's take-over with \"primary exists\" (the handed-over session no longer holds the key); through LiteFS's Consul leaser against the fake Consul endpoint in half of the cases. A node that was refused the lease is not primary, counters refused_*)")
	chk := Registry["C08"]
	base := chk.Floors
	chk.Floors = func(tier string) map[string]int {
		m := map[string]int{}
		if base != nil {
			for k, v := range base(tier) {
				m[k] = v
			}
		}
		m["refused_takeovers_observed"] = 3
		return m
	}
}

func runC08RefusedTakeover(c *core.Case, k int) {
	useConsul := k%2 == 0
	cl, err := cluster.New(c.Dir, []cluster.NodeOpts{{Candidate: true}, {Candidate: true}})
	if err != nil {
		c.Inconclusive(err.Error())
		return
	}
	defer cl.Close()
	cl.Svc.TTL = 600 * time.Millisecond
	if useConsul {
		fc := fakeconsul.New(cl.Svc)
		defer fc.Close()
		for _, cn := range cl.Nodes {
			cn.Opts.Leaser = func(name, host, adv string) (litefs.Leaser, error) {
				u, err := fc.URLFor(name, host, adv)
				if err != nil {
					return nil, err
				}
				l := consul.NewLeaser(u, "primary", host, adv)
				l.TTL = cl.Svc.TTL
				l.LockDelay = time.Millisecond
				if err := l.Open(); err != nil {
					return nil, err
				}
				return l, nil
			}
		}
		c.Count("consul_cases", 1)
	}
	var mu sync.Mutex
	block := map[string]error{"n1/acquire": errors.New("scripted: acquire unavailable")}
	cl.Svc.Inject = func(node, op string) error {
		mu.Lock()
		defer mu.Unlock()
		return block[node+"/"+op]
	}
	setBlock := func(key string, err error) { mu.Lock(); block[key] = err; mu.Unlock() }
	if err := cl.Start(0); err != nil || cl.WaitPrimary(0, 10*time.Second) == nil {
		c.Inconclusive("primary start")
		return
	}
	if err := cl.Start(1); err != nil || !cl.WaitConnected(1, 10*time.Second) {
		c.Inconclusive("replica did not connect")
		return
	}
	A, B := cl.Nodes[0], cl.Nodes[1]
	time.Sleep(20 * time.Millisecond)
	// the service will refuse whoever presents the handed-over lease, and A does
	// not get a new one either
	setBlock("n1/acquire-existing", litefs.ErrPrimaryExists)
	setBlock("n0/acquire", errors.New("scripted: acquire unavailable"))
	tried := func() bool {
		for _, call := range cl.Svc.Calls() {
			if call.Op == "acquire-existing" && call.Node == "n1" {
				return true
			}
		}
		return false
	}
	herr := A.Store.Handoff(context.Background(), B.Store.ID())
	detail := map[string]any{"consul_leaser": useConsul, "handoff_error": fmt.Sprint(herr)}
	if herr != nil {
		c.Inconclusive("the handoff was not accepted: " + herr.Error())
		return
	}
	for i := 0; !tried(); i++ {
		if i > 5000 {
			c.Inconclusive("the target never presented the handed-over lease")
			return
		}
		time.Sleep(time.Millisecond)
	}
	c.Count("refused_takeovers_observed", 1)
	// from now on B holds nothing: it must not call itself primary
	for i := 0; i < 200; i++ {
		if h, _ := cl.Svc.Holder(); B.Store.IsPrimary() && h != "n1" {
			calls := cl.Svc.Calls()
			if len(calls) > 12 {
				calls = calls[len(calls)-12:]
			}
			detail["service_calls_tail"] = calls
			c.Violate("C08/primary-without-the-lease", fmt.Sprintf("n0 handed its lease to n1 and the lease service refused n1's take-over (primary exists); n1 reports primary all the same (the service's holder: %q)", h), detail)
			return
		}
		time.Sleep(2 * time.Millisecond)
	}
	if healthViolations(c, B.Node, "refused take-over", detail) || healthViolations(c, A.Node, "refused take-over", detail) {
		return
	}
	c.Count("refused_takeover_target_stayed_replica", 1)
	c.Distinct(fmt.Sprintf("refused-takeover/consul%v", useConsul))
}
