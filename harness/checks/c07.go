package checks

import (
	"bytes"
	"context"
	"crypto/sha256"
	"errors"
	"fmt"
	"io"
	"net/http"
	"path/filepath"
	"strings"
	"sync/atomic"
	"syscall"
	"time"

	"github.com/superfly/litefs"
	"verif/cluster"
	"verif/core"
	"verif/drv"
	"verif/mon"
	"verif/pager"
	"verif/ref"
)

func init() {
	register(&core.Check{
		ID:    "C07",
		Level: "exploration",
		Rule: "(A) on a replica (connected, disconnected or never connected) every file operation kind an application can issue through the mount (page write, database truncate/unlink, journal create/write/truncate/unlink, WAL create/write/truncate/unlink, SHM create/write, fsync) is issued at every pager-protocol lock state of both journal modes, plus POST /import; around each single operation the logical image, position and LTX listing must be unchanged, operations that would change them must fail, and page/journal/WAL writes must fail with the read-only error (ErrReadOnlyReplica or EACCES); " +
			"(B) a primary loses its lease (expiry, renewal errors, manual demotion) at a PRNG-chosen step of an in-flight local transaction which then runs on to its commit step: nothing may be published; distinct = (part, mode, lock state, operation, outcome) tuples",
		Assumptions: []string{"'image' is the logical image (absent == empty), so creating an empty -wal/-shm on a replica is not a change", "in WAL mode a fatal exit at the commit step after authority loss is permitted (position and log must still be unchanged)"},
		NumCases: func(tier string) int {
			if tier == "thorough" {
				return 1200
			}
			return 120
		},
		EvalCounter: "ops_judged",
		CaseTimeout: 120 * time.Second,
		Run:         runC07,
		Floors: func(tier string) map[string]int {
			return map[string]int{"ops_judged": 1500, "refused_readonly": 300, "demotions_mid_tx": 10, "write_refused_after_loss": 5, "demotion_then_commit_refused": 8, "import_waiting_at_demotion": 4, "import_raced_by_demotion": 4, "import_refused": 10,
				"state_connected": 5, "state_disconnected": 5, "state_never-connected": 5, "state_former-halt-holder": 5, "state_former-primary-handoff": 5, "state_former-halt-holder-primary-gone": 4, "state_halt-acquire-failed": 3, "op_dbwrite": 50, "op_journal-create": 50, "op_wal-write": 30, "op_db-unlink": 30, "op_journal-unlink": 10}
		},
	})
}

type c07Snap struct {
	img  string
	pos  mon.PosKey
	ltx  string
	size int
}

func c07Snapshot(n *drv.Node, name string) c07Snap {
	img := mon.RawImage(mon.DBDir(n, name))
	files, _, _ := mon.ListLTXDir(filepath.Join(mon.DBDir(n, name), "ltx"))
	var names []string
	for _, f := range files {
		names = append(names, f.Name)
	}
	return c07Snap{img: fmt.Sprintf("%d/%x", img.PageN, sha256.Sum256(img.Bytes())), pos: mon.PosOf(n, name), ltx: strings.Join(names, ","), size: int(img.PageN)}
}

// c07StableSnapshot takes snapshots until two in a row agree. The raw files are
// read without locks, and a node that has just lost its lease runs its own
// recovery (checkpoint: pages copied into the database file, then the log
// truncated) in the background: one unlocked read may see the database file from
// before and the log from after. A real change is permanent and still shows.
func c07StableSnapshot(n *drv.Node, name string) c07Snap {
	prev := c07Snapshot(n, name)
	for i := 0; i < 300; i++ {
		time.Sleep(2 * time.Millisecond)
		cur := c07Snapshot(n, name)
		if cur == prev {
			return cur
		}
		prev = cur
	}
	return prev
}

func isReadOnlyErr(err error) bool {
	if err == nil {
		return false
	}
	return errors.Is(err, litefs.ErrReadOnlyReplica) || drv.Errno(err) == syscall.EACCES || strings.Contains(err.Error(), litefs.ErrReadOnlyReplica.Error())
}

func runC07(c *core.Case) {
	if c.Index%10 == 9 {
		c07C(c)
		return
	}
	if c.Index%3 == 2 {
		c07B(c)
		return
	}
	c07A(c)
}

func c07A(c *core.Case) {
	wal := (c.Index/3)%2 == 1
	state := []string{"connected", "disconnected", "never-connected", "former-halt-holder", "former-primary-handoff", "former-halt-holder-primary-gone", "halt-acquire-failed"}[(c.Index/6)%7]
	c.Count("state_"+state, 1)
	ps := uint32(1024)
	var tune func(*litefs.Store)
	if state == "halt-acquire-failed" {
		tune = func(s *litefs.Store) { s.HaltAcquireTimeout = 300 * time.Millisecond }
	}
	cl, err := cluster.New(c.Dir, []cluster.NodeOpts{{Candidate: true, Tune: tune}, {Candidate: state == "former-primary-handoff", Tune: tune}})
	if err != nil {
		c.Inconclusive(err.Error())
		return
	}
	defer cl.Close()
	var R *cluster.CNode
	led := newLedger()
	if state == "never-connected" {
		// a replica whose primary is unreachable and that never had the database
		if err := cl.Start(0); err != nil || cl.WaitPrimary(0, 10*time.Second) == nil {
			c.Inconclusive("primary start")
			return
		}
		cl.Nodes[0].Proxy.SetMode("refuse")
		if err := cl.Start(1); err != nil {
			c.Inconclusive(err.Error())
			return
		}
		R = cl.Nodes[1]
		time.Sleep(30 * time.Millisecond)
	} else {
		if err := cl.Start(0); err != nil || cl.WaitPrimary(0, 10*time.Second) == nil {
			c.Inconclusive("primary start")
			return
		}
		w, err := newWriter(cl.Nodes[0].Node, "db", ps, wal, pick(c, []string{"delete", "truncate", "persist"}), nil, c.SubRng("w"), led, 1)
		if err != nil {
			c.Violate("C07/setup", err.Error(), nil)
			return
		}
		if err := w.ensure(uint32(4 + c.Rng.IntN(5))); err != nil {
			c.Violate("C07/setup", err.Error(), nil)
			return
		}
		for i := 0; i < 3; i++ {
			_, _ = w.txn(2)
		}
		w.close()
		if err := cl.Start(1); err != nil {
			c.Inconclusive(err.Error())
			return
		}
		R = cl.Nodes[1]
		if ok, _, _ := cl.WaitConverged(cl.Nodes[0], R, []string{"db"}, 5, 30*time.Second); !ok {
			c.Inconclusive("replica did not converge")
			return
		}
		if state == "former-halt-holder" || state == "former-halt-holder-primary-gone" {
			// the replica held the database's halt lock, wrote through it and gave
			// it back (or let it lapse): it is an ordinary replica again
			lf, err := R.Node.Open("db-lock")
			if err != nil {
				c.Violate("C07/setup", "open lock file: "+err.Error(), nil)
				return
			}
			lctx, cancel := context.WithTimeout(context.Background(), 10*time.Second)
			err = lf.LockWait(lctx, 31, 72, 72, true)
			cancel()
			if err != nil {
				c.Violate("C07/setup", "halt acquire: "+err.Error(), nil)
				return
			}
			if img, ok := led.get("db", mon.PosOf(R.Node, "db")); ok {
				if rw, err := newWriter(R.Node, "db", ps, wal, "delete", img, c.SubRng("rw"), led, 32); err == nil {
					rw.d.BusyRetries = 500
					if rw.ensure(3) == nil {
						_, _ = rw.txn(2)
					}
					rw.close()
				}
			}
			if state == "former-halt-holder-primary-gone" {
				// the primary disappears while the replica holds the lock; the
				// application then gives the lock back (nobody is there to tell)
				cl.Stop(0)
				for dl := time.Now().Add(5 * time.Second); time.Now().Before(dl); time.Sleep(2 * time.Millisecond) {
					if _, info := R.Store.PrimaryInfo(); info == nil {
						break
					}
				}
				if _, info := R.Store.PrimaryInfo(); info != nil {
					c.Inconclusive("the replica still knows a primary after it was stopped")
					return
				}
			}
			if c.Rng.IntN(2) == 0 {
				_ = lf.Unlock(31, 72, 72)
			} else {
				_ = lf.Flush(31)
			}
			_ = lf.Release()
			if R.Store.DB("db").HasRemoteHaltLock() {
				c.Violate("C07/still-halt-holder-after-release", "the replica still holds the remote halt lock after releasing it", nil)
			}
		}
		if state == "halt-acquire-failed" {
			// the replica asked for the halt lock while it was behind and could not
			// catch up in time (its stream is stalled): the acquisition fails, and a
			// failed acquisition gives no write authority
			// (an application's read transaction on the replica keeps the replica from
			// applying what the primary commits meanwhile)
			const rdOwner = 7707
			rdf, err := R.Node.Open("db")
			if err != nil {
				c.Violate("C07/setup", "reader open: "+err.Error(), nil)
				return
			}
			if lockRetry(rdf, rdOwner, pager.PendingByte, pager.PendingByte, false, 2000) != nil ||
				lockRetry(rdf, rdOwner, pager.SharedFirst, pager.SharedFirst+pager.SharedSize-1, false, 2000) != nil {
				rdf.Close(rdOwner)
				c.Inconclusive("reader locks busy")
				return
			}
			_ = rdf.Unlock(rdOwner, pager.PendingByte, pager.PendingByte)
			var rdshm *drv.File
			if sf, serr := R.Node.Open("db-shm"); serr == nil {
				rdshm = sf
				_ = lockRetry(rdshm, rdOwner, pager.WalDMS, pager.WalDMS, false, 2000)
				_ = lockRetry(rdshm, rdOwner, pager.WalRead0, pager.WalRead0, false, 2000)
			}
			if img, ok := led.get("db", mon.PosOf(cl.Nodes[0].Node, "db")); ok {
				if pw, err := newWriter(cl.Nodes[0].Node, "db", ps, wal, "delete", img, c.SubRng("pw2"), led, 2); err == nil {
					if pw.ensure(3) == nil {
						_, _ = pw.txn(2)
					}
					pw.close()
				}
			}
			lf, err := R.Node.Open("db-lock")
			if err != nil {
				c.Violate("C07/setup", "open lock file: "+err.Error(), nil)
				return
			}
			// every other case: giving the lock back fails as well (the primary cannot
			// be reached for a moment, or the call was interrupted) - the lock then
			// ends on the primary with its TTL, and locally it must be gone all the same
			releaseFails := (c.Index/42)%2 == 1
			if releaseFails {
				R.Client.Before = func(op string) error {
					if op == "unhalt" {
						return errors.New("scripted: release request does not get through")
					}
					return nil
				}
			}
			lctx, cancel := context.WithTimeout(context.Background(), 10*time.Second)
			aerr := lf.LockWait(lctx, 33, 72, 72, true)
			cancel()
			if releaseFails {
				R.Client.Before = nil
				if aerr != nil {
					c.Count("halt_acquire_failed_and_release_failed", 1)
				}
			}
			if rdshm != nil {
				rdshm.Close(rdOwner)
			}
			rdf.Close(rdOwner)
			if aerr == nil {
				_ = lf.Unlock(33, 72, 72)
			}
			_ = lf.Release()
			if aerr == nil {
				// (the replica caught up in time after all - in WAL mode a reader without
				// a READ lock does not hold the apply back: an ordinary former holder)
				c.Count("halt_acquire_succeeded_after_all", 1)
			} else {
				c.Count("halt_acquire_failed", 1)
			}
			if ok, _, _ := cl.WaitConverged(cl.Nodes[0], R, []string{"db"}, 5, 30*time.Second); !ok {
				c.Inconclusive("replica did not converge after the failed acquisition")
				return
			}
		}
		if state == "former-primary-handoff" {
			// the node under test is the former primary: it handed its lease to the
			// other node and follows it now
			hctx, cancel := context.WithTimeout(context.Background(), 10*time.Second)
			err := cl.Nodes[0].Store.Handoff(hctx, cl.Nodes[1].Store.ID())
			cancel()
			if err != nil {
				c.Inconclusive("handoff: " + err.Error())
				return
			}
			// (the lease service's record decides who the primary is)
			for dl := time.Now().Add(10 * time.Second); time.Now().Before(dl); time.Sleep(2 * time.Millisecond) {
				if h, _ := cl.Svc.Holder(); h == "n1" {
					break
				}
			}
			if h, _ := cl.Svc.Holder(); h != "n1" {
				c.Inconclusive("the lease service does not record n1 as holder")
				return
			}
			for dl := time.Now().Add(10 * time.Second); !cl.Nodes[1].Store.IsPrimary() && time.Now().Before(dl); {
				time.Sleep(2 * time.Millisecond)
			}
			if !cl.Nodes[1].Store.IsPrimary() {
				c.Inconclusive("the handoff target did not become primary")
				return
			}
			R = cl.Nodes[0]
			_ = cl.WaitConnected(0, 3*time.Second)
		}
		if state == "disconnected" {
			cl.Nodes[0].Proxy.SetMode("refuse")
			cl.Nodes[0].Proxy.Cut()
			time.Sleep(20 * time.Millisecond)
		}
	}
	n := R.Node
	if n.Store.IsPrimary() && state != "former-primary-handoff" {
		// (after a handoff the lease service's record says who the primary is;
		// what the former primary then still accepts is judged below)
		c.Inconclusive("replica is primary?")
		return
	}
	owner := uint64(40)
	page := make([]byte, ps)
	for i := range page {
		page[i] = 0x5A
	}
	lockStates := []string{"none", "shared", "reserved", "exclusive"}
	if wal {
		lockStates = append(lockStates, "wal-read", "wal-write", "wal-ckpt")
	}
	type op struct {
		name     string
		mustFail bool // the operation would change database / position / log
		wantRO   bool // must fail with the read-only permission error
		run      func() error
	}
	openOr := func(name string) (*drv.File, error) { return n.OpenOrCreate(name) }
	jhdr := ref.JournalHeader(0, 7, 4, 512, ps)
	wh := (&ref.WALWriter{PageSize: ps, Salt1: 1, Salt2: 2}).Header()
	ops := []op{
		{"dbwrite", true, true, func() error {
			f, err := openOr("db")
			if err != nil {
				return err
			}
			defer f.Release()
			return f.WriteAt(owner, page, int64(ps)*int64(c.Rng.IntN(3)))
		}},
		{"db-truncate", false, false, func() error {
			f, err := n.Open("db")
			if err != nil {
				return err
			}
			defer f.Release()
			return f.Truncate(int64(ps) * int64(1+c.Rng.IntN(3)))
		}},
		{"db-unlink", true, false, func() error { return n.Remove("db") }},
		{"db-fsync", false, false, func() error {
			f, err := n.Open("db")
			if err != nil {
				return nil
			}
			defer f.Release()
			return f.Fsync()
		}},
		{"journal-create", true, true, func() error {
			f, err := n.Create("db-journal")
			if err != nil {
				return err
			}
			defer f.Release()
			return f.WriteAt(owner, jhdr, 0)
		}},
		{"journal-unlink", false, false, func() error { return n.Remove("db-journal") }},
		{"wal-create", false, false, func() error {
			f, err := openOr("db-wal")
			if err != nil {
				return err
			}
			return f.Release()
		}},
		{"wal-write", true, true, func() error {
			f, err := openOr("db-wal")
			if err != nil {
				return err
			}
			defer f.Release()
			return f.WriteAt(owner, wh, 0)
		}},
		{"wal-truncate", false, false, func() error {
			f, err := n.Open("db-wal")
			if err != nil {
				return nil
			}
			defer f.Release()
			return f.Truncate(0)
		}},
		{"wal-unlink", false, false, func() error {
			err := n.Remove("db-wal")
			// SQLite recreates the log when the next connection opens the database;
			// do the same so that later lock states find the file
			if f, e := n.OpenOrCreate("db-wal"); e == nil {
				_ = f.Release()
			}
			return err
		}},
		{"shm-write", false, false, func() error {
			f, err := openOr("db-shm")
			if err != nil {
				return err
			}
			defer f.Release()
			return f.WriteAt(owner, make([]byte, 64), 1024)
		}},
		{"import", true, false, func() error {
			img := ref.NewImage(ps)
			img.Set(1, ref.MakePage1(ps, 2, false, 0, nil))
			img.Set(2, page)
			img.PageN = 2
			resp, err := http.Post(R.URL()+"/import?name=db", "application/octet-stream", bytes.NewReader(img.Bytes()))
			if err != nil {
				return err
			}
			defer resp.Body.Close()
			_, _ = io.Copy(io.Discard, resp.Body)
			if resp.StatusCode != 200 {
				return fmt.Errorf("status %d", resp.StatusCode)
			}
			return nil
		}},
	}
	for _, ls := range lockStates {
		for _, o := range ops {
			owner++
			// establish the lock state as owner
			var dbf, shm *drv.File
			if f, err := n.Open("db"); err == nil {
				dbf = f
				switch ls {
				case "shared", "reserved", "exclusive", "wal-read", "wal-write", "wal-ckpt":
					_ = dbf.Lock(owner, pager.PendingByte, pager.PendingByte, false)
					_ = dbf.Lock(owner, pager.SharedFirst, pager.SharedFirst+509, false)
					_ = dbf.Unlock(owner, pager.PendingByte, pager.PendingByte)
				}
				if ls == "reserved" || ls == "exclusive" {
					_ = dbf.Lock(owner, pager.ReservedByte, pager.ReservedByte, true)
				}
				if ls == "exclusive" {
					_ = dbf.Lock(owner, pager.PendingByte, pager.PendingByte, true)
					_ = dbf.Lock(owner, pager.SharedFirst, pager.SharedFirst+509, true)
				}
				if strings.HasPrefix(ls, "wal-") {
					if s, err := n.Open("db-shm"); err == nil {
						shm = s
						_ = shm.Lock(owner, pager.WalDMS, pager.WalDMS, false)
						_ = shm.Lock(owner, pager.WalRead0, pager.WalRead0, false)
						if ls == "wal-write" {
							_ = shm.Lock(owner, pager.WalWrite, pager.WalWrite, true)
						}
						if ls == "wal-ckpt" {
							_ = shm.Lock(owner, pager.WalCkpt, pager.WalCkpt, true)
						}
					}
				}
			}
			before := c07Snapshot(n, "db")
			err := o.run()
			after := c07Snapshot(n, "db")
			if shm != nil {
				shm.Close(owner)
			}
			if dbf != nil {
				dbf.Close(owner)
			}
			c.Count("ops_judged", 1)
			c.Count("op_"+o.name, 1)
			detail := map[string]any{"replica_state": state, "wal": wal, "lock_state": ls, "operation": o.name, "error": fmt.Sprint(err), "before": fmt.Sprint(before), "after": fmt.Sprint(after)}
			if healthViolations(c, n, o.name, detail) {
				return
			}
			if before != after {
				// a stream apply may land between the two snapshots on a connected replica
				if (state == "connected" || state == "former-halt-holder") && after.pos != before.pos {
					if _, ok := led.get("db", after.pos); ok {
						continue
					}
				}
				c.Violate("C07/replica-changed/"+o.name, fmt.Sprintf("%s on a %s replica (lock state %s) changed the database, position or log: %v -> %v (returned %v)", o.name, state, ls, before, after, err), detail)
				return
			}
			if o.mustFail && err == nil {
				c.Violate("C07/write-accepted/"+o.name, fmt.Sprintf("%s on a %s replica (lock state %s) returned success", o.name, state, ls), detail)
				return
			}
			if o.wantRO && drv.Errno(err) != syscall.EACCES {
				// (without the database nothing can be written: ENOENT is a refusal too)
				if !(state == "never-connected" && drv.Errno(err) == syscall.ENOENT) {
					c.Violate("C07/not-readonly-error/"+o.name, fmt.Sprintf("%s on a %s replica (lock state %s) was refused with %v instead of the read-only permission error", o.name, state, ls, err), detail)
					return
				}
			}
			if o.wantRO {
				c.Count("refused_readonly", 1)
			}
			if o.name == "import" {
				c.Count("import_refused", 1)
			}
			c.Distinct(fmt.Sprintf("A/%s/wal%v/%s/%s/%v", state, wal, ls, o.name, err != nil))
		}
	}
	// the replica still follows the primary afterwards
	if state == "disconnected" || state == "never-connected" {
		cl.Nodes[0].Proxy.SetMode("pass")
	}
	if c.Index < 6 {
		c.Sample(map[string]any{"part": "A", "replica_state": state, "wal": wal, "lock_states": lockStates, "operations": len(ops)})
	}
}

// c07B: authority is lost in the middle of a local transaction.
func c07B(c *core.Case) {
	wal := (c.Index/3)%2 == 1
	how := []string{"expire", "demote", "renew-errors"}[(c.Index/6)%3]
	jmode := pick(c, []string{"delete", "truncate", "persist"})
	cl, err := cluster.New(c.Dir, []cluster.NodeOpts{{Candidate: true}})
	if err != nil {
		c.Inconclusive(err.Error())
		return
	}
	defer cl.Close()
	if err := cl.Start(0); err != nil || cl.WaitPrimary(0, 10*time.Second) == nil {
		c.Inconclusive("primary start")
		return
	}
	P := cl.Nodes[0]
	led := newLedger()
	w, err := newWriter(P.Node, "db", 1024, wal, jmode, nil, c.SubRng("w"), led, 1)
	if err != nil {
		c.Violate("C07/setup", err.Error(), nil)
		return
	}
	defer w.close()
	if err := w.ensure(uint32(5 + c.Rng.IntN(5))); err != nil {
		c.Violate("C07/setup", err.Error(), nil)
		return
	}
	for i := 0; i < 2; i++ {
		_, _ = w.txn(2)
	}
	// keep the node from re-acquiring
	var blocked atomic.Bool
	cl.Svc.SetInject(func(node, op string) error {
		if blocked.Load() && (op == "acquire" || (how == "renew-errors" && op == "renew")) {
			return errors.New("scripted: unavailable")
		}
		return nil
	})
	before := c07Snapshot(P.Node, "db")
	// lose authority right before the first step of a PRNG-chosen kind
	kinds := []string{"lock RESERVED", "journal open", "journal header", "journal record", "lock PENDING excl", "journal patch", "journal fsync", "db write", "fsync db", "journal finalize", "unlock:"}
	if wal {
		kinds = []string{"lock READ", "lock WRITE", "wal header", "wal frame 0", "wal frame 1", "wal fsync", "unlock WRITE", "unlock READ", "lock READ1..4"}
	}
	loseKind := kinds[c.Rng.IntN(len(kinds))]
	loseAt := -1
	steps := 0
	lostBefore := ""
	commitStepBegun := false
	lostAfterCommitStep := false
	w.d.Hook = func(step string) error {
		steps++
		if loseAt < 0 && strings.HasPrefix(step, loseKind) {
			loseAt = steps
		}
		if steps == loseAt && commitStepBegun {
			lostAfterCommitStep = true
		}
		if (step == "journal finalize" || step == "unlock WRITE") && steps != loseAt {
			commitStepBegun = true
		}
		if steps == loseAt {
			lostBefore = step
			blocked.Store(true)
			switch how {
			case "expire":
				cl.Svc.Expire()
			case "demote":
				P.Store.Demote()
			}
			deadline := time.Now().Add(15 * time.Second)
			for P.Store.IsPrimary() && time.Now().Before(deadline) {
				time.Sleep(2 * time.Millisecond)
			}
		}
		return nil
	}
	committed, txErr := w.txn(2)
	w.d.Hook = nil
	if lostBefore == "" {
		// the transaction was shorter than the chosen step: nothing to judge
		c.Count("tx_shorter_than_loss_point", 1)
		return
	}
	if P.Store.IsPrimary() {
		c.Inconclusive("node did not lose primary status")
		return
	}
	if lostAfterCommitStep {
		// authority was lost after the commit step had begun: out of the clause's scope
		c.Count("lost_after_commit_step", 1)
		return
	}
	c.Count("demotions_mid_tx", 1)
	c.Count("ops_judged", 1)
	after := c07StableSnapshot(P.Node, "db")
	detail := map[string]any{"wal": wal, "journal_mode": jmode, "how": how, "lost_before_step": lostBefore, "tx_error": fmt.Sprint(txErr), "before": fmt.Sprint(before), "after": fmt.Sprint(after), "exits": len(P.Node.Exits())}
	for _, pe := range P.Node.Panics() {
		c.Violate("C07/panic/"+siteOf(pe.Stack), fmt.Sprintf("panic after authority loss: %v", pe.Value), detail)
		return
	}
	if after.pos != before.pos || after.ltx != before.ltx {
		c.Violate("C07/published-after-authority-loss", fmt.Sprintf("the node lost its lease before step %q of a local transaction, yet position/log moved: %s %s -> %s %s", lostBefore, before.pos, before.ltx, after.pos, after.ltx), detail)
		return
	}
	if txErr == nil && committed && len(P.Node.Exits()) == 0 {
		c.Violate("C07/commit-succeeded-after-authority-loss", fmt.Sprintf("the transaction's commit returned success although authority was lost before step %q", lostBefore), detail)
		return
	}
	if len(P.Node.Exits()) > 0 && !wal {
		c.Violate("C07/exit-in-rollback-mode", "Store.Exit was called for a rollback-journal transaction after authority loss (only the WAL commit step may exit)", detail)
		return
	}
	// a page, journal or WAL write (or a journal creation) that is refused for lack
	// of authority must be refused with the read-only permission error
	switch w.lastStep {
	case "journal-rec", "journal-hdr", "journal-create", "commit-write", "spill-write", "wal-hdr", "wal-frame", "wal-frame-hdr", "wal-frame-body":
		if w.lastErr != nil {
			c.Count("write_refused_after_loss", 1)
			if drv.Errno(w.lastErr) != syscall.EACCES {
				c.Violate("C07/not-readonly-error/"+w.lastStep, fmt.Sprintf("after the node lost its lease the %s step was refused with %v (errno %d) instead of the read-only permission error", w.lastStep, w.lastErr, drv.Errno(w.lastErr)), detail)
				return
			}
		}
	default:
		if txErr != nil {
			c.Count("refused_with_other_error", 1)
		}
	}
	c.Count("demotion_then_commit_refused", 1)
	c.Distinct(fmt.Sprintf("B/wal%v/%s/%s/%s/exit%v", wal, jmode, how, stepClass(lostBefore), len(P.Node.Exits()) > 0))
	if c.Index < 12 {
		c.Sample(detail)
	}
	_ = context.Background
}

func unwrapAll(err error) error {
	for {
		u := errors.Unwrap(err)
		if u == nil {
			return err
		}
		err = u
	}
}

// c07C: a POST /import is waiting for the database's write lock (held by an
// in-flight local transaction) while the primary loses its lease. Once the lock
// is free the import must fail; nothing may be published or changed by it.
func c07C(c *core.Case) {
	wal := (c.Index/10)%2 == 1
	how := []string{"expire", "demote", "renew-errors"}[(c.Index/20)%3]
	cl, err := cluster.New(c.Dir, []cluster.NodeOpts{{Candidate: true}})
	if err != nil {
		c.Inconclusive(err.Error())
		return
	}
	defer cl.Close()
	if err := cl.Start(0); err != nil || cl.WaitPrimary(0, 10*time.Second) == nil {
		c.Inconclusive("primary start")
		return
	}
	P := cl.Nodes[0]
	led := newLedger()
	ps := uint32(1024)
	w, err := newWriter(P.Node, "db", ps, wal, "delete", nil, c.SubRng("w"), led, 1)
	if err != nil {
		c.Violate("C07/setup", err.Error(), nil)
		return
	}
	defer w.close()
	if err := w.ensure(uint32(5 + c.Rng.IntN(5))); err != nil {
		c.Violate("C07/setup", err.Error(), nil)
		return
	}
	_, _ = w.txn(2)
	var blocked atomic.Bool
	cl.Svc.SetInject(func(node, op string) error {
		if blocked.Load() && (op == "acquire" || (how == "renew-errors" && op == "renew")) {
			return errors.New("scripted: unavailable")
		}
		return nil
	})
	before := c07Snapshot(P.Node, "db")
	other := ref.NewImage(ps)
	other.Set(1, ref.MakePage1(ps, 3, false, 0, nil))
	pg := make([]byte, ps)
	for i := range pg {
		pg[i] = byte(c.Rng.IntN(256))
	}
	other.Set(2, pg)
	other.Set(3, pg)
	other.PageN = 3
	type impRes struct {
		status int
		err    error
	}
	resCh := make(chan impRes, 1)
	if (c.Index/60)%2 == 1 {
		// Steered variant without a writer: the lease is lost after the import has
		// checked that the node is primary and before its write lock is complete
		// (the gate is the first lock the import's internal writer takes). The
		// import then holds the lock on a node without authority: it must not publish.
		pdb := P.Store.DB("db")
		if how == "demote" {
			// the lease is lost while the request body is still arriving (a slow
			// upload): the import holds its lock and has read part of the image
			w.close()
			pr, pw := io.Pipe()
			go func() {
				data := other.Bytes()
				_, _ = pw.Write(data[:ps+ps/2])
				time.Sleep(30 * time.Millisecond) // (the handler is reading)
				blocked.Store(true)
				P.Store.Demote()
				for dl := time.Now().Add(10 * time.Second); P.Store.IsPrimary() && time.Now().Before(dl); {
					time.Sleep(time.Millisecond)
				}
				_, _ = pw.Write(data[ps+ps/2:])
				_ = pw.Close()
			}()
			resp, err := http.Post(P.URL()+"/import?name=db", "application/octet-stream", pr)
			r := impRes{0, err}
			if err == nil {
				_, _ = io.Copy(io.Discard, resp.Body)
				resp.Body.Close()
				r.status = resp.StatusCode
			}
			if P.Store.IsPrimary() {
				c.Inconclusive("node did not lose primary status")
				return
			}
			c.Count("ops_judged", 1)
			c.Count("import_demoted_during_upload", 1)
			after := c07StableSnapshot(P.Node, "db")
			detail := map[string]any{"wal": wal, "import_status": r.status, "import_err": fmt.Sprint(r.err), "before": fmt.Sprint(before), "after": fmt.Sprint(after)}
			if r.err == nil && r.status == 200 || after.pos != before.pos || after.ltx != before.ltx {
				c.Violate("C07/import-published-after-authority-loss", fmt.Sprintf("upload: the node lost its lease while the body of POST /import was still arriving; the import was answered %d and position/log went %s %s -> %s %s", r.status, before.pos, before.ltx, after.pos, after.ltx), detail)
				return
			}
			c.Count("import_refused_after_loss", 1)
			c.Distinct(fmt.Sprintf("C/upload/wal%v/status%d", wal, r.status))
			return
		}
		var armed, fired atomic.Bool
		pdb.VerifOnLockStateChange(func(lt litefs.LockType, prev, next litefs.RWMutexState) {
			if !armed.Load() || next == litefs.RWMutexStateUnlocked || fired.Swap(true) {
				return
			}
			blocked.Store(true)
			P.Store.Demote()
			for dl := time.Now().Add(10 * time.Second); P.Store.IsPrimary() && time.Now().Before(dl); {
				time.Sleep(time.Millisecond)
			}
		})
		w.close()
		armed.Store(true)
		resp, err := http.Post(P.URL()+"/import?name=db", "application/octet-stream", bytes.NewReader(other.Bytes()))
		armed.Store(false)
		pdb.VerifOnLockStateChange(nil)
		r := impRes{0, err}
		if err == nil {
			_, _ = io.Copy(io.Discard, resp.Body)
			resp.Body.Close()
			r.status = resp.StatusCode
		}
		if !fired.Load() {
			c.Inconclusive("the import took no lock")
			return
		}
		if P.Store.IsPrimary() {
			c.Inconclusive("node did not lose primary status")
			return
		}
		c.Count("ops_judged", 1)
		c.Count("import_raced_by_demotion", 1)
		after := c07StableSnapshot(P.Node, "db")
		detail := map[string]any{"wal": wal, "import_status": r.status, "import_err": fmt.Sprint(r.err), "before": fmt.Sprint(before), "after": fmt.Sprint(after)}
		if r.err == nil && r.status == 200 || after.pos != before.pos || after.ltx != before.ltx {
			c.Violate("C07/import-published-after-authority-loss", fmt.Sprintf("the node lost its lease after POST /import had checked that it is primary and before its write lock was complete; the import was answered %d and position/log went %s %s -> %s %s", r.status, before.pos, before.ltx, after.pos, after.ltx), detail)
			return
		}
		c.Count("import_refused_after_loss", 1)
		c.Distinct(fmt.Sprintf("C/raced/wal%v/status%d", wal, r.status))
		return
	}
	holdStep := "journal header"
	if wal {
		holdStep = "wal frame 0"
	}
	fired := false
	w.d.Hook = func(step string) error {
		if fired || !strings.HasPrefix(step, holdStep) {
			return nil
		}
		fired = true
		go func() {
			resp, err := http.Post(P.URL()+"/import?name=db", "application/octet-stream", bytes.NewReader(other.Bytes()))
			if err != nil {
				resCh <- impRes{0, err}
				return
			}
			defer resp.Body.Close()
			_, _ = io.Copy(io.Discard, resp.Body)
			resCh <- impRes{resp.StatusCode, nil}
		}()
		// let the import reach its wait for the write lock
		time.Sleep(time.Duration(30+c.Rng.IntN(120)) * time.Millisecond)
		select {
		case r := <-resCh:
			resCh <- r
			return nil // the import did not wait: judged below
		default:
		}
		blocked.Store(true)
		switch how {
		case "expire":
			cl.Svc.Expire()
		case "demote":
			P.Store.Demote()
		}
		deadline := time.Now().Add(15 * time.Second)
		for P.Store.IsPrimary() && time.Now().Before(deadline) {
			time.Sleep(2 * time.Millisecond)
		}
		return nil
	}
	_, txErr := w.txn(2)
	w.d.Hook = nil
	w.close()
	if !fired {
		c.Inconclusive("transaction never reached " + holdStep)
		return
	}
	if P.Store.IsPrimary() {
		c.Inconclusive("node did not lose primary status")
		return
	}
	var r impRes
	select {
	case r = <-resCh:
	case <-time.After(30 * time.Second):
		c.Inconclusive("import did not return within 30s")
		return
	}
	c.Count("ops_judged", 1)
	c.Count("import_waiting_at_demotion", 1)
	after := c07StableSnapshot(P.Node, "db")
	detail := map[string]any{"wal": wal, "how": how, "tx_error": fmt.Sprint(txErr), "import_status": r.status, "import_err": fmt.Sprint(r.err), "before": fmt.Sprint(before), "after": fmt.Sprint(after)}
	if r.err == nil && r.status == 200 {
		c.Violate("C07/import-succeeded-after-authority-loss", fmt.Sprintf("POST /import that was waiting for the write lock when the node lost its lease (%s) returned 200", how), detail)
		return
	}
	if after.pos != before.pos || after.ltx != before.ltx || after.img != before.img {
		if _, ok := led.get("db", after.pos); !ok || after.pos == before.pos {
			c.Violate("C07/import-published-after-authority-loss", fmt.Sprintf("POST /import that was waiting for the write lock when the node lost its lease (%s) changed the database: %v -> %v (import: status %d, err %v)", how, before, after, r.status, r.err), detail)
			return
		}
	}
	c.Count("import_refused_after_loss", 1)
	c.Distinct(fmt.Sprintf("C/wal%v/%s/status%d", wal, how, r.status))
}
