package checks

import (
	"bytes"
	"context"
	"fmt"
	"io"
	"net/http"
	"time"

	"github.com/superfly/litefs"
	lhttp "github.com/superfly/litefs/http"
	"verif/cluster"
	"verif/core"
	"verif/drv"
	"verif/mon"
	"verif/pager"
	"verif/ref"
)

func init() {
	register(&core.Check{
		ID:    "C16",
		Level: "exploration",
		Rule: "each case imports a generated SQLite image (page sizes 512..65536, page counts around the 256-page block edges, rollback or WAL header) through DB.Import or POST /import into a target that is absent, empty, dropped or populated (same or different page size, rollback or WAL mode, with a pending journal or committed un-checkpointed WAL frames) on a primary with a replica, or offers an unusable input (empty, truncated at several points, garbage, bad header fields); " +
			"valid imports: export (DB.Export and GET /export) equals the imported bytes except change counter and schema cookie, exactly one new transaction, replica reads the identical image; unusable imports: image, position and log unchanged, no Store.Exit, a fresh Store opens the directory at the old position; exports after ordinary commits equal the ledger image; distinct = (target state, page sizes, modes, input class, path) tuples",
		Assumptions: []string{"generated images keep the lock page zero (none reaches it in the quick tier)"},
		NumCases: func(tier string) int {
			if tier == "thorough" {
				return 1600
			}
			return 96
		},
		EvalCounter: "imports",
		CaseTimeout: 120 * time.Second,
		Run:         runC16,
		Floors: func(tier string) map[string]int {
			return map[string]int{"imports": 200, "valid_imports_roundtrip": 80, "failing_imports_unchanged": 60, "exports_after_commits": 80, "replica_matches_import": 40,
				"target_absent": 10, "target_populated": 20, "target_dropped": 5, "target_pending_wal": 5, "different_page_size": 10, "via_http": 40, "reopen_after_failed_import": 30,
				"fault_injected": 30, "fault_import_refused_unchanged": 20, "fault_node_stopped": 1}
		},
	})
}

func genImage(c *core.Case, ps, n uint32, wal bool) *ref.Image {
	img := ref.NewImage(ps)
	d := pager.NewDB(nil, "x", ps, c.Rng)
	for q := uint32(2); q <= n; q++ {
		img.Set(q, d.RandPage())
	}
	img.Set(1, ref.MakePage1(ps, n, wal, uint32(1+c.Rng.IntN(1000)), d.RandPage()))
	// a nonzero schema cookie so that the reset is observable
	p1 := append([]byte(nil), img.Page(1)...)
	p1[40], p1[43] = 0x12, 0x34
	img.Set(1, p1)
	img.PageN = n
	return img
}

func maskImportBytes(b []byte) []byte {
	o := append([]byte(nil), b...)
	if len(o) >= 44 {
		for i := 24; i < 28; i++ {
			o[i] = 0
		}
		for i := 40; i < 44; i++ {
			o[i] = 0
		}
	}
	return o
}

func runC16(c *core.Case) {
	viaHTTP := c.Index%2 == 1
	target := []string{"absent", "populated", "populated", "dropped", "populated-pending-wal", "empty"}[(c.Index/2)%6]
	psT := []uint32{1024, 4096, 512}[(c.Index/12)%3]
	walT := (c.Index/4)%2 == 1 || target == "populated-pending-wal"
	cl, err := cluster.New(c.Dir, []cluster.NodeOpts{{Candidate: true}, {}})
	if err != nil {
		c.Inconclusive(err.Error())
		return
	}
	defer cl.Close()
	if err := cl.Start(0); err != nil || cl.WaitPrimary(0, 10*time.Second) == nil {
		c.Inconclusive("primary start")
		return
	}
	P, R := cl.Nodes[0], cl.Nodes[1]
	led := newLedger()
	cli := lhttp.NewClient()
	owner := uint64(500)
	var hist []string
	var w *dbWriter
	closeW := func() {
		if w != nil {
			w.close()
			w = nil
		}
	}
	defer closeW()
	exportBoth := func(ctx string, want *ref.Image) bool {
		db := P.Store.DB("db")
		var buf bytes.Buffer
		pos, err := db.Export(context.Background(), &buf)
		if err != nil {
			c.Violate("C16/export-failed", fmt.Sprintf("DB.Export failed (%s): %v", ctx, err), hist)
			return false
		}
		rc, err := cli.Export(context.Background(), P.URL(), "db")
		if err != nil {
			c.Violate("C16/export-failed", fmt.Sprintf("GET /export failed (%s): %v", ctx, err), hist)
			return false
		}
		hb, _ := io.ReadAll(rc)
		rc.Close()
		if !bytes.Equal(hb, buf.Bytes()) {
			c.Violate("C16/export-paths-differ", fmt.Sprintf("GET /export and DB.Export returned different bytes (%d vs %d) (%s)", len(hb), buf.Len(), ctx), hist)
			return false
		}
		wantB := want.Bytes()
		if !bytes.Equal(buf.Bytes(), wantB) {
			got := ref.ImageFromBytes(want.PageSize, buf.Bytes())
			c.Violate("C16/export-not-current-image", fmt.Sprintf("export at %s (%d bytes) differs from the current committed image (%d bytes): %s (%s)", pos, buf.Len(), len(wantB), got.Diff(want), ctx), hist)
			return false
		}
		if pk := (mon.PosKey{TXID: uint64(pos.TXID), Chk: uint64(pos.PostApplyChecksum)}); pk != mon.PosOf(P.Node, "db") {
			c.Violate("C16/export-position", fmt.Sprintf("export reports %s, the database is at %s", pk, mon.PosOf(P.Node, "db")), hist)
			return false
		}
		return true
	}

	// ---- prepare the target ---------------------------------------------------
	var cur *ref.Image
	switch target {
	case "absent":
		c.Count("target_absent", 1)
	case "empty":
		if _, err := P.Store.CreateDBIfNotExists("db"); err != nil {
			c.Inconclusive(err.Error())
			return
		}
	default:
		w, err = newWriter(P.Node, "db", psT, walT, pick(c, []string{"delete", "truncate", "persist"}), nil, c.SubRng("w"), led, 1)
		if err != nil {
			c.Violate("C16/setup", err.Error(), nil)
			return
		}
		w.d.BusyRetries = 5000
		if err := w.ensure(uint32(3 + c.Rng.IntN(10))); err != nil {
			c.Violate("C16/setup", err.Error(), nil)
			return
		}
		for i := 0; i < 3; i++ {
			if _, err := w.txn(3); err != nil {
				c.Violate("C16/setup", err.Error(), nil)
				return
			}
			c.Count("exports_after_commits", 1)
			if !exportBoth(fmt.Sprintf("after commit %d (wal=%v)", i, walT), w.d.M) {
				return
			}
		}
		cur = w.d.M
		hist = append(hist, fmt.Sprintf("populated ps=%d wal=%v pages=%d", psT, walT, cur.PageN))
		c.Count("target_populated", 1)
		if target == "populated-pending-wal" {
			if w.d.WalEnd <= 32 {
				_, _ = w.txn(2)
				cur = w.d.M
			}
			c.Count("target_pending_wal", 1)
		}
		closeW()
		if target == "dropped" {
			if err := P.Node.Remove("db"); err != nil {
				c.Violate("C16/setup", "drop: "+err.Error(), nil)
				return
			}
			cur = ref.NewImage(psT)
			led.put("db", mon.PosOf(P.Node, "db"), cur)
			c.Count("target_dropped", 1)
			hist = append(hist, "dropped")
		}
	}
	if err := cl.Start(1); err != nil {
		c.Inconclusive(err.Error())
		return
	}
	doImport := func(body []byte) error {
		if viaHTTP {
			c.Count("via_http", 1)
			return cli.Import(context.Background(), P.URL(), "db", bytes.NewReader(body))
		}
		db, err := P.Store.CreateDBIfNotExists("db")
		if err != nil {
			return err
		}
		return db.Import(context.Background(), bytes.NewReader(body))
	}

	for round := 0; round < 3 && !c.Violated(); round++ {
		// ---- an unusable input first: nothing may change ------------------------
		before := c07Snapshot(P.Node, "db")
		psBad := pick(c, []uint32{512, 1024, 4096})
		good := genImage(c, psBad, uint32(2+c.Rng.IntN(6)), c.Rng.IntN(2) == 0).Bytes()
		kind := pick(c, []string{"empty", "short-header", "truncated-mid-page", "truncated-page-boundary", "garbage", "bad-magic", "bad-page-size", "count-too-large"})
		var bad []byte
		switch kind {
		case "empty":
		case "short-header":
			bad = good[:50]
		case "truncated-mid-page":
			bad = good[:len(good)-int(psBad)/2]
		case "truncated-page-boundary":
			bad = good[:len(good)-int(psBad)]
		case "garbage":
			bad = bytes.Repeat([]byte{0xC3, 0x01}, 700)
		case "bad-magic":
			bad = append([]byte(nil), good...)
			bad[3] ^= 0xFF
		case "bad-page-size":
			bad = append([]byte(nil), good...)
			bad[16], bad[17] = 0x03, 0x21
		case "count-too-large":
			bad = append([]byte(nil), good...)
			bad[28], bad[29], bad[30], bad[31] = 0, 0, 1, 0
		}
		err := doImport(bad)
		c.Count("imports", 1)
		detail := map[string]any{"target": target, "via_http": viaHTTP, "input": kind, "history": hist, "error": fmt.Sprint(err)}
		if healthViolations(c, P.Node, "import of unusable input ("+kind+")", detail) {
			return
		}
		if err == nil {
			c.Violate("C16/unusable-import-accepted/"+kind, fmt.Sprintf("import of an unusable input (%s) returned success", kind), detail)
			return
		}
		after := c07Snapshot(P.Node, "db")
		if after != before {
			c.Violate("C16/failed-import-changed-database/"+kind, fmt.Sprintf("a failing import (%s) changed the database, position or log: %v -> %v", kind, before, after), detail)
			return
		}
		c.Count("failing_imports_unchanged", 1)
		// a later restart must not be prevented: open a copy of the directory
		if round == 0 {
			cp := c.Dir + fmt.Sprintf("/reopen%d", round)
			if err := copyTree(P.Dir, cp); err == nil {
				n2, err := drv.NewNode(drv.Config{Dir: cp, Candidate: true, Leaser: litefs.NewStaticLeaser(true, "localhost", "http://127.0.0.1:1")})
				if err != nil {
					c.Violate("C16/restart-prevented-by-failed-import/"+kind, fmt.Sprintf("after a failing import (%s) a restart on the data directory fails: %v", kind, err), detail)
					return
				}
				if p2 := mon.PosOf(n2, "db"); p2 != before.pos {
					c.Violate("C16/restart-position-after-failed-import", fmt.Sprintf("restart after a failing import recovered to %s, expected %s", p2, before.pos), detail)
				}
				n2.Close()
				c.Count("reopen_after_failed_import", 1)
			}
		}
		// ---- a valid import -----------------------------------------------------
		psI := psT
		if c.Rng.IntN(3) == 0 {
			psI = pick(c, []uint32{512, 1024, 4096, 8192, 65536})
		}
		nI := pick(c, []uint32{1, 2, 5, 17, 255, 256, 257, 300})
		if psI >= 8192 && nI > 20 {
			nI = 9
		}
		walI := c.Rng.IntN(2) == 0
		img := genImage(c, psI, nI, walI)
		prev := mon.PosOf(P.Node, "db")
		samePS := cur == nil || cur.PageN == 0 || cur.PageSize == psI
		if !samePS {
			c.Count("different_page_size", 1)
		}
		err = doImport(img.Bytes())
		c.Count("imports", 1)
		detail = map[string]any{"target": target, "via_http": viaHTTP, "import_page_size": psI, "import_pages": nI, "import_wal_header": walI, "same_page_size": samePS, "history": hist, "error": fmt.Sprint(err)}
		if healthViolations(c, P.Node, "valid import", detail) {
			return
		}
		if err != nil {
			if samePS {
				c.Violate("C16/valid-import-failed", fmt.Sprintf("import of a valid %d-page image (page size %d) failed: %v", nI, psI, err), detail)
				return
			}
			// a different page size may be refused, but then nothing may have changed
			if a := c07Snapshot(P.Node, "db"); a.pos != prev {
				c.Violate("C16/failed-import-changed-database/page-size", fmt.Sprintf("import with another page size failed (%v) but the position moved %s -> %s", err, prev, a.pos), detail)
				return
			}
			c.Count("different_page_size_refused", 1)
			hist = append(hist, fmt.Sprintf("import ps=%d refused", psI))
			continue
		}
		pos := mon.PosOf(P.Node, "db")
		if pos.TXID != prev.TXID+1 {
			c.Violate("C16/import-not-one-transaction", fmt.Sprintf("import moved the position %s -> %s, expected exactly one new transaction", prev, pos), detail)
			return
		}
		want := ref.ImageFromBytes(psI, maskImportBytes(img.Bytes()))
		led.put("db", pos, want)
		hist = append(hist, fmt.Sprintf("import ps=%d pages=%d wal=%v", psI, nI, walI))
		if !exportBoth("after import", want) {
			return
		}
		c.Count("valid_imports_roundtrip", 1)
		judgeRawChecksum(c, P.Node, "db", "after import", detail)
		cur = want
		// replica reaches the identical image
		ok, _, timedOut := cl.WaitConverged(P, R, []string{"db"}, 5, 30*time.Second)
		if healthViolations(c, R.Node, "replica after import", detail) {
			return
		}
		if timedOut {
			c.Inconclusive("replica convergence watchdog")
		} else if !ok {
			c.Violate("C16/import-not-replicated", fmt.Sprintf("replica did not reach the import's position %s (it is at %s)", pos, mon.PosOf(R.Node, "db")), detail)
			return
		} else {
			owner++
			if res, err := mountRead(c, R.Node, "db", owner); err == nil {
				judgeReplicaRead(c, led, R.Name, "db", res, "after import", detail)
				c.Count("replica_matches_import", 1)
			}
		}
		// ordinary commits on top of the imported image, then export again
		w, err = newWriter(P.Node, "db", psI, walI, "delete", want, c.SubRng(fmt.Sprintf("w%d", round)), led, 1)
		if err == nil {
			w.d.BusyRetries = 5000
			if err := w.ensure(3); err == nil {
				for i := 0; i < 2; i++ {
					if _, err := w.txn(3); err != nil {
						healthViolations(c, P.Node, "commit after import", detail)
						if !c.Violated() {
							c.Violate("C16/commit-after-import-failed", err.Error(), detail)
						}
						return
					}
					c.Count("exports_after_commits", 1)
					if !exportBoth("after a commit on the imported image", w.d.M) {
						return
					}
				}
				cur = w.d.M
				psT = psI
			} else {
				healthViolations(c, P.Node, "open after import", detail)
				if !c.Violated() {
					c.Violate("C16/commit-after-import-failed", err.Error(), detail)
				}
				return
			}
			closeW()
		}
		c.Distinct(fmt.Sprintf("%s/http%v/ps%d->%d/n%d/wal%v/%s", target, viaHTTP, psT, psI, nI, walI, kind))
	}
	if c.Index < 4 {
		c.Sample(map[string]any{"target": target, "via_http": viaHTTP, "history": hist})
	}
	_ = http.StatusOK
}
