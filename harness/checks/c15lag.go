//go:build verif

package checks

import (
	"context"
	"errors"
	"fmt"
	"sync"
	"time"

	"github.com/superfly/litefs"

	"verif/cluster"
	"verif/core"
	"verif/mon"
	"verif/pager"
	"verif/ref"
)

func init() {
	addFamily("C15", func(tier string) int {
		if tier == "thorough" {
			return 96
		}
		return 8
	}, runC15Lag, " (+ a replica that is down across a drop AND the recreation, with the primary's retention having removed the tombstone in between: it rejoins holding live pages of the old incarnation and is brought to the new one by snapshot - other page size, other journal mode - counters lag_*)")
}

// runC15Lag: the replica misses the whole drop/recreate: it is stopped while it
// holds the old incarnation, the primary drops the database, recreates it under
// the same name with another page size (and possibly journal mode), commits, and
// its retention sweep removes every transaction file but the newest - the
// tombstone included. The replica restarts, cannot be served incrementally and
// receives a snapshot of the new incarnation over its old files. It must end up
// with exactly the new database, without stopping.
func runC15Lag(c *core.Case, k int) {
	tune := func(s *litefs.Store) { s.Retention = time.Nanosecond }
	cl, err := cluster.New(c.Dir, []cluster.NodeOpts{{Candidate: true, Tune: tune}, {Tune: tune}})
	if err != nil {
		c.Inconclusive(err.Error())
		return
	}
	defer cl.Close()
	if err := cl.Start(0); err != nil || cl.WaitPrimary(0, 10*time.Second) == nil {
		c.Inconclusive("primary start")
		return
	}
	if err := cl.Start(1); err != nil || !cl.WaitConnected(1, 10*time.Second) {
		c.Inconclusive("replica start")
		return
	}
	P, R := cl.Nodes[0], cl.Nodes[1]
	led := newLedger()
	sizes := []uint32{4096, 1024, 512, 8192}
	ps1 := sizes[k%4]
	ps2 := sizes[(k+1+(k/4)%3)%4]
	wal1, wal2 := (k/2)%2 == 0, (k/4)%2 == 0
	var hist []string
	detail := func() map[string]any {
		return map[string]any{"history": hist, "primary": mon.PosOf(P.Node, "db").String(), "replica": mon.PosOf(R.Node, "db").String()}
	}
	write := func(ps uint32, wal bool, tag string, n int) bool {
		var img *ref.Image
		if pos := mon.PosOf(P.Node, "db"); pos.TXID > 0 && pos.Chk != ref.ChecksumFlag {
			img, _ = led.get("db", pos)
		}
		w, err := newWriter(P.Node, "db", ps, wal, "delete", img, c.SubRng("w"+tag), led, 1)
		if err != nil {
			c.Violate("C15/writer", err.Error(), detail())
			return false
		}
		defer w.close()
		w.d.BusyRetries = 5000
		if err := w.ensure(uint32(4 + c.Rng.IntN(8))); err != nil {
			healthViolations(c, P.Node, "create "+tag, detail())
			if !c.Violated() {
				c.Violate("C15/recreate-failed", fmt.Sprintf("creating the database (%s, page size %d, wal=%v) failed: %v", tag, ps, wal, err), detail())
			}
			return false
		}
		for i := 0; i < n; i++ {
			if _, err := w.txn(3); err != nil {
				healthViolations(c, P.Node, "write "+tag, detail())
				if !c.Violated() {
					c.Violate("C15/write-failed", err.Error(), detail())
				}
				return false
			}
		}
		hist = append(hist, fmt.Sprintf("%s: page size %d wal=%v, %d transactions", tag, ps, wal, n+1))
		return true
	}
	follow := func(ctx string) bool {
		ok, _, timedOut := cl.WaitConverged(P, R, []string{"db"}, 8, 30*time.Second)
		if healthViolations(c, R.Node, ctx, detail()) || healthViolations(c, P.Node, ctx, detail()) {
			return false
		}
		if timedOut {
			c.Inconclusive("convergence watchdog (" + ctx + ")")
			return false
		}
		if !ok {
			c.Violate("C15/recreated-db-not-replicated", fmt.Sprintf("%s: the replica is at %s, the primary at %s", ctx, mon.PosOf(R.Node, "db"), mon.PosOf(P.Node, "db")), detail())
			return false
		}
		res, err := mountRead(c, R.Node, "db", uint64(900+len(hist)))
		if err != nil {
			c.Violate("C15/replica-read-error", ctx+": "+err.Error(), detail())
			return false
		}
		judgeReplicaRead(c, led, R.Name, "db", res, ctx, detail())
		return !c.Violated()
	}
	if !write(ps1, wal1, "first incarnation", 2) || !follow("first incarnation") {
		return
	}
	cl.Stop(1)
	hist = append(hist, "replica stopped")
	prev := mon.PosOf(P.Node, "db")
	if err := P.Node.Remove("db"); err != nil {
		healthViolations(c, P.Node, "drop", detail())
		if !c.Violated() {
			c.Violate("C15/drop-failed", err.Error(), detail())
		}
		return
	}
	hist = append(hist, "drop")
	if !write(ps2, wal2, "second incarnation", 2+c.Rng.IntN(3)) {
		return
	}
	time.Sleep(2 * time.Millisecond)
	if err := P.Store.EnforceRetention(context.Background()); err != nil {
		c.Violate("C15/retention-error", err.Error(), detail())
		return
	}
	hist = append(hist, fmt.Sprintf("retention sweep on the primary (tombstone %d removed with the rest)", prev.TXID+1))
	if err := cl.Start(1); err != nil {
		healthViolations(c, R.Node, "replica restart", detail())
		if !c.Violated() {
			c.Violate("C15/replica-restart-failed", err.Error(), detail())
		}
		return
	}
	hist = append(hist, "replica restarted")
	if !follow("after rejoining across the recreation") {
		return
	}
	// and it keeps following
	if !write(ps2, wal2, "second incarnation, more writes", 1) {
		return
	}
	// (write() reopens the existing database: ensure() is a no-op then)
	if !follow("after further writes") {
		return
	}
	c.Count("lag_rejoined_across_recreate", 1)
	c.Distinct(fmt.Sprintf("lag/ps%d->%d/wal%v->%v", ps1, ps2, wal1, wal2))
}

func init() {
	addFamily("C15", func(tier string) int {
		if tier == "thorough" {
			return 64
		}
		return 6
	}, runC15Promote, " (+ the replica that applied the drop becomes primary and the database is recreated THERE, smaller or with another page size; the former primary follows, counters promote_*)")
}

// runC15Promote: a drop replicated to a replica, then a primary change, then the
// recreation on the new primary. What the new primary remembers of the dropped
// database (it learnt the drop from a tombstone, not from its own unlink) must
// not leak into the recreated one.
func runC15Promote(c *core.Case, k int) {
	var mu sync.Mutex
	blocked := map[string]bool{"n1": true}
	cl, err := cluster.New(c.Dir, []cluster.NodeOpts{{Candidate: true}, {Candidate: true}})
	if err != nil {
		c.Inconclusive(err.Error())
		return
	}
	defer cl.Close()
	cl.Svc.SetInject(func(node, op string) error {
		mu.Lock()
		defer mu.Unlock()
		if blocked[node] && op == "acquire" {
			return errors.New("scripted: acquire unavailable")
		}
		return nil
	})
	if err := cl.Start(0); err != nil || cl.WaitPrimary(0, 10*time.Second) == nil {
		c.Inconclusive("primary start")
		return
	}
	if err := cl.Start(1); err != nil || !cl.WaitConnected(1, 10*time.Second) {
		c.Inconclusive("replica start")
		return
	}
	A, B := cl.Nodes[0], cl.Nodes[1]
	led := newLedger()
	sizes := []uint32{4096, 1024, 512}
	ps1 := sizes[k%3]
	ps2 := ps1
	if (k/3)%2 == 1 {
		ps2 = sizes[(k+1)%3]
	}
	wal1, wal2 := k%2 == 0, (k/2)%2 == 0
	var hist []string
	detail := func() map[string]any {
		return map[string]any{"history": hist, "n0": mon.PosOf(A.Node, "db").String(), "n1": mon.PosOf(B.Node, "db").String()}
	}
	create := func(P *cluster.CNode, ps uint32, wal bool, pages uint32, tag string) bool {
		w, err := newWriter(P.Node, "db", ps, wal, "delete", nil, c.SubRng("w"+tag), led, 1)
		if err != nil {
			c.Violate("C15/writer", err.Error(), detail())
			return false
		}
		defer w.close()
		w.d.BusyRetries = 5000
		if err := w.ensure(pages); err != nil {
			healthViolations(c, P.Node, "create "+tag, detail())
			if !c.Violated() {
				c.Violate("C15/recreate-failed", fmt.Sprintf("creating the database (%s, %d pages of %d bytes, wal=%v) on %s failed: %v", tag, pages, ps, wal, P.Name, err), detail())
			}
			return false
		}
		for i := 0; i < 2; i++ {
			if _, err := w.txn(2); err != nil {
				healthViolations(c, P.Node, "write "+tag, detail())
				if !c.Violated() {
					c.Violate("C15/write-failed", err.Error(), detail())
				}
				return false
			}
		}
		hist = append(hist, fmt.Sprintf("%s on %s: %d+ pages of %d bytes, wal=%v", tag, P.Name, pages, ps, wal))
		return true
	}
	follow := func(P, R *cluster.CNode, ctx string) bool {
		ok, _, timedOut := cl.WaitConverged(P, R, []string{"db"}, 8, 30*time.Second)
		if healthViolations(c, R.Node, ctx, detail()) || healthViolations(c, P.Node, ctx, detail()) {
			return false
		}
		if timedOut {
			c.Inconclusive("convergence watchdog (" + ctx + ")")
			return false
		}
		if !ok {
			c.Violate("C15/recreated-db-not-replicated", fmt.Sprintf("%s: %s is at %s, the primary %s at %s", ctx, R.Name, mon.PosOf(R.Node, "db"), P.Name, mon.PosOf(P.Node, "db")), detail())
			return false
		}
		res, err := mountRead(c, R.Node, "db", uint64(700+len(hist)))
		if err != nil {
			c.Violate("C15/replica-read-error", ctx+": "+err.Error(), detail())
			return false
		}
		judgeReplicaRead(c, led, R.Name, "db", res, ctx, detail())
		return !c.Violated()
	}
	big := uint32(9 + c.Rng.IntN(8))
	if !create(A, ps1, wal1, big, "first incarnation") || !follow(A, B, "first incarnation") {
		return
	}
	prev := mon.PosOf(A.Node, "db")
	if err := A.Node.Remove("db"); err != nil {
		healthViolations(c, A.Node, "drop", detail())
		if !c.Violated() {
			c.Violate("C15/drop-failed", err.Error(), detail())
		}
		return
	}
	led.put("db", mon.PosKey{TXID: prev.TXID + 1, Chk: ref.ChecksumFlag}, ref.NewImage(ps1))
	hist = append(hist, "drop on n0")
	if ok, _, _ := cl.WaitConverged(A, B, []string{"db"}, 8, 30*time.Second); !ok {
		c.Inconclusive("the replica did not apply the drop")
		return
	}
	// ---- primary change: n0 steps down, n1 takes over
	mu.Lock()
	blocked["n0"], blocked["n1"] = true, false
	mu.Unlock()
	A.Store.Demote()
	if cl.WaitPrimary(1, 20*time.Second) == nil {
		c.Inconclusive("n1 did not become primary")
		return
	}
	hist = append(hist, "n1 is primary")
	_ = cl.WaitConnected(0, 10*time.Second)
	small := uint32(2 + c.Rng.IntN(3))
	if !create(B, ps2, wal2, small, "second incarnation") {
		return
	}
	if !follow(B, A, "after the recreation on the new primary") {
		return
	}
	judgeRawChecksum(c, B.Node, "db", "new primary after recreation", detail())
	if c.Violated() {
		return
	}
	c.Count("promote_recreated_on_new_primary", 1)
	c.Distinct(fmt.Sprintf("promote/ps%d->%d/wal%v->%v", ps1, ps2, wal1, wal2))
}

func init() {
	addFamily("C15", func(tier string) int {
		if tier == "thorough" {
			return 24
		}
		return 4
	}, runC15Empty, " (+ a database that was created but never written (an application opened it and stopped, `touch`): deleting it succeeds like any other deletion - position one with the empty checksum, files and name gone on the primary and the replica - and the name can be used again, counters empty_*)")
	chk := Registry["C15"]
	base := chk.Floors
	chk.Floors = func(tier string) map[string]int {
		m := map[string]int{}
		if base != nil {
			for k, v := range base(tier) {
				m[k] = v
			}
		}
		m["empty_database_dropped"] = 2
		return m
	}
}

// runC15Empty: create a database file through the mount, write nothing, delete it.
func runC15Empty(c *core.Case, k int) {
	cl, err := cluster.New(c.Dir, []cluster.NodeOpts{{Candidate: true}, {}})
	if err != nil {
		c.Inconclusive(err.Error())
		return
	}
	defer cl.Close()
	if err := cl.Start(0); err != nil || cl.WaitPrimary(0, 10*time.Second) == nil {
		c.Inconclusive("primary start")
		return
	}
	if err := cl.Start(1); err != nil || !cl.WaitConnected(1, 10*time.Second) {
		c.Inconclusive("replica start")
		return
	}
	P, R := cl.Nodes[0], cl.Nodes[1]
	led := newLedger()
	var hist []string
	detail := func() map[string]any {
		return map[string]any{"history": hist, "primary": mon.PosOf(P.Node, "db").String(), "replica": mon.PosOf(R.Node, "db").String()}
	}
	f, err := P.Node.Create("db")
	if err != nil {
		c.Violate("C15/create-failed", "creating an empty database file: "+err.Error(), detail())
		return
	}
	_ = f.Release()
	hist = append(hist, "created, nothing written")
	if k%2 == 1 {
		// (an application that opened it, looked and closed)
		if g, err := P.Node.Open("db"); err == nil {
			_ = lockRetry(g, 5, pager.PendingByte, pager.PendingByte, false, 100)
			_ = lockRetry(g, 5, pager.SharedFirst, pager.SharedFirst+pager.SharedSize-1, false, 100)
			_ = g.Unlock(5, pager.PendingByte, pager.SharedFirst+pager.SharedSize-1)
			g.Close(5)
		}
	}
	if err := P.Node.Remove("db"); err != nil {
		healthViolations(c, P.Node, "drop of a never-written database", detail())
		if !c.Violated() {
			c.Violate("C15/drop-failed", fmt.Sprintf("never-written: a database file that was created and never written cannot be deleted: %v", err), detail())
		}
		return
	}
	hist = append(hist, "deleted")
	if pos := mon.PosOf(P.Node, "db"); pos.TXID != 1 || pos.Chk != ref.ChecksumFlag {
		c.Violate("C15/drop-position", fmt.Sprintf("never-written: after the deletion the position is %s, expected transaction 1 with the empty checksum", pos), detail())
		return
	}
	if !dropGone(c, P, "db", "never-written database", detail()) {
		return
	}
	if ok, _, timedOut := cl.WaitConverged(P, R, []string{"db"}, 8, 30*time.Second); !ok {
		if healthViolations(c, R.Node, "tombstone of a never-written database", detail()) {
			return
		}
		if timedOut {
			c.Inconclusive("convergence watchdog")
			return
		}
		c.Violate("C15/drop-not-replicated", fmt.Sprintf("never-written: the replica is at %s, the primary at %s", mon.PosOf(R.Node, "db"), mon.PosOf(P.Node, "db")), detail())
		return
	}
	if healthViolations(c, R.Node, "tombstone of a never-written database", detail()) || !dropGone(c, R, "db", "never-written database, replica", detail()) {
		return
	}
	c.Count("empty_database_dropped", 1)
	// the name is used again, with some page size
	ps := []uint32{1024, 4096, 512, 8192}[k%4]
	w, err := newWriter(P.Node, "db", ps, k%3 == 0, "delete", nil, c.SubRng("w"), led, 1)
	if err != nil {
		c.Violate("C15/writer", err.Error(), detail())
		return
	}
	defer w.close()
	w.d.BusyRetries = 5000
	if err := w.ensure(uint32(3 + c.Rng.IntN(5))); err != nil {
		healthViolations(c, P.Node, "recreate", detail())
		if !c.Violated() {
			c.Violate("C15/recreate-failed", fmt.Sprintf("never-written: creating the database after the deletion (page size %d) failed: %v", ps, err), detail())
		}
		return
	}
	if _, err := w.txn(2); err != nil {
		c.Violate("C15/write-failed", err.Error(), detail())
		return
	}
	hist = append(hist, fmt.Sprintf("recreated with page size %d", ps))
	if pos := mon.PosOf(P.Node, "db"); pos.TXID < 2 {
		c.Violate("C15/txid-sequence-restarted", fmt.Sprintf("the recreated database is at %s: the sequence did not continue after the tombstone", pos), detail())
		return
	}
	ok, _, timedOut := cl.WaitConverged(P, R, []string{"db"}, 8, 30*time.Second)
	if healthViolations(c, R.Node, "after the recreation", detail()) {
		return
	}
	if timedOut {
		c.Inconclusive("convergence watchdog")
		return
	}
	if !ok {
		c.Violate("C15/recreated-db-not-replicated", fmt.Sprintf("never-written: the replica is at %s, the primary at %s", mon.PosOf(R.Node, "db"), mon.PosOf(P.Node, "db")), detail())
		return
	}
	res, err := mountRead(c, R.Node, "db", 808)
	if err != nil {
		c.Violate("C15/replica-read-error", err.Error(), detail())
		return
	}
	judgeReplicaRead(c, led, R.Name, "db", res, "recreated after the deletion of a never-written database", detail())
	c.Distinct(fmt.Sprintf("never-written/ps%d/opened%v", ps, k%2 == 1))
}
