package checks

// Extra C13 cases: the primary changes while a replica holds the halt lock.
// Three nodes: n0 (primary), n1 (replica, takes the halt lock and forwards a
// transaction), n2 (candidate that takes over). After the change the holder
// still believes in its lock; its next transaction must not be published
// anywhere (not by the new primary, not by the former one), its lock must go,
// and everybody must end up on the new primary's chain.

import (
	"context"
	"errors"
	"fmt"
	"sync"
	"time"

	"github.com/superfly/litefs"
	"verif/cluster"
	"verif/core"
	"verif/mon"
)

func init() {
	chk := Registry["C13"]
	if chk == nil {
		return
	}
	baseN, baseRun := chk.NumCases, chk.Run
	extra := func(tier string) int {
		if tier == "thorough" {
			return 96
		}
		return 8
	}
	chk.NumCases = func(tier string) int { return baseN(tier) + extra(tier) }
	chk.Run = func(c *core.Case) {
		if b := baseN(c.Tier); c.Index >= b {
			runC13PrimaryChange(c, c.Index-b)
			return
		}
		baseRun(c)
	}
	baseFloors := chk.Floors
	chk.Floors = func(tier string) map[string]int {
		m := map[string]int{}
		if baseFloors != nil {
			for k, v := range baseFloors(tier) {
				m[k] = v
			}
		}
		m["primary_changes_while_halted"] = 4
		return m
	}
	chk.Rule += "; (+ primary-change cases: the lease moves to another node while a replica holds the halt lock; the holder's next transaction must be published nowhere and all nodes must end on the new primary's chain; counter primary_changes_while_halted)"
}

func runC13PrimaryChange(c *core.Case, k int) {
	wal := k%2 == 1
	how := []string{"expire", "demote"}[(k/2)%2]
	ps := []uint32{1024, 4096, 512}[c.Rng.IntN(3)]
	var mu sync.Mutex
	blocked := map[string]bool{"n2": true}
	// (a halt lock granted by a node that then loses its lease stays on that node
	// until its TTL runs out - nobody can release it there any more - and keeps that
	// node from rejoining until then: a short TTL keeps the case short)
	tune := func(s *litefs.Store) {
		s.HaltLockTTL = 1500 * time.Millisecond
		s.HaltLockMonitorInterval = 50 * time.Millisecond
	}
	cl, err := cluster.New(c.Dir, []cluster.NodeOpts{{Candidate: true, Tune: tune}, {Tune: tune}, {Candidate: true, Tune: tune}})
	if err != nil {
		c.Inconclusive(err.Error())
		return
	}
	defer cl.Close()
	cl.Svc.SetInject(func(node, op string) error {
		mu.Lock()
		defer mu.Unlock()
		if op == "acquire" && blocked[node] {
			return errors.New("scripted: acquire unavailable")
		}
		return nil
	})
	setBlocked := func(n string, v bool) { mu.Lock(); blocked[n] = v; mu.Unlock() }
	if err := cl.Start(0); err != nil || cl.WaitPrimary(0, 10*time.Second) == nil {
		c.Inconclusive("primary start")
		return
	}
	A, R, B := cl.Nodes[0], cl.Nodes[1], cl.Nodes[2]
	led := newLedger()
	var hist []string
	detail := func() map[string]any {
		return map[string]any{"wal": wal, "how": how, "page_size": ps, "history": hist,
			"n0": mon.PosOf(A.Node, "db").String(), "n1": mon.PosOf(R.Node, "db").String(), "n2": mon.PosOf(B.Node, "db").String(), "holder_client_calls": R.Client.Calls()}
	}
	wA, err := newWriter(A.Node, "db", ps, wal, "delete", nil, c.SubRng("wa"), led, 1)
	if err != nil {
		c.Violate("C13/setup", err.Error(), nil)
		return
	}
	if err := wA.ensure(uint32(5 + c.Rng.IntN(5))); err != nil {
		c.Violate("C13/setup", err.Error(), nil)
		return
	}
	_, _ = wA.txn(2)
	wA.close()
	for i := 1; i <= 2; i++ {
		if err := cl.Start(i); err != nil {
			c.Inconclusive(err.Error())
			return
		}
	}
	for _, n := range []*cluster.CNode{R, B} {
		if ok, _, _ := cl.WaitConverged(A, n, []string{"db"}, 5, 30*time.Second); !ok {
			c.Inconclusive("replicas did not converge before the script")
			return
		}
	}
	// ---- R takes the halt lock and forwards one transaction
	lf, err := R.Node.Open("db-lock")
	if err != nil {
		c.Violate("C13/setup", "open lock file: "+err.Error(), detail())
		return
	}
	defer lf.Release()
	lctx, cancel := context.WithTimeout(context.Background(), 10*time.Second)
	err = lf.LockWait(lctx, 41, 72, 72, true)
	cancel()
	if err != nil {
		c.Violate("C13/acquire-failed", err.Error(), detail())
		return
	}
	hist = append(hist, "n1 holds the halt lock")
	grantAt := time.Now()
	var haltID int64
	if hl := R.Store.DB("db").RemoteHaltLock(); hl != nil {
		haltID = hl.ID
	}
	img, _ := led.get("db", mon.PosOf(R.Node, "db"))
	rw, err := newWriter(R.Node, "db", ps, wal, "delete", img, c.SubRng("rw"), led, 32)
	if err != nil {
		c.Violate("C13/setup", "writer on the holder: "+err.Error(), detail())
		return
	}
	defer rw.close()
	rw.d.BusyRetries = 2000
	if err := rw.ensure(0); err != nil {
		c.Violate("C13/forwarded-commit-failed", err.Error(), detail())
		return
	}
	for try := 0; try < 10; try++ {
		if ok, err := rw.txn(2); err != nil {
			healthViolations(c, R.Node, "forwarded write", detail())
			if !c.Violated() {
				c.Violate("C13/forwarded-commit-failed", err.Error(), detail())
			}
			return
		} else if ok {
			break
		}
	}
	if mon.PosOf(A.Node, "db") != mon.PosOf(R.Node, "db") {
		c.Violate("C13/holder-and-primary-differ", "after a forwarded commit holder and primary are at different positions", detail())
		return
	}
	if ok, _, _ := cl.WaitConverged(A, B, []string{"db"}, 5, 30*time.Second); !ok {
		c.Inconclusive("n2 did not receive the forwarded transaction before the change")
		return
	}
	hist = append(hist, "forwarded transaction committed everywhere")
	// ---- the lease moves to n2 while n1 still holds the halt lock
	setBlocked("n0", true)
	setBlocked("n2", false)
	if how == "expire" {
		cl.Svc.Expire()
	} else {
		A.Store.Demote()
	}
	if cl.WaitPrimary(2, 20*time.Second) == nil {
		c.Inconclusive("n2 did not become primary")
		return
	}
	c.Count("primary_changes_while_halted", 1)
	hist = append(hist, "lease moved to n2 ("+how+")")
	before := map[string]mon.PosKey{"n0": mon.PosOf(A.Node, "db"), "n2": mon.PosOf(B.Node, "db")}
	// ---- a forwarded transaction of the holder that was on its way to n0 when n0
	// lost the lease arrives there now: well-formed, the next of n0's history, with
	// the id of the lock n0 granted. n0 is no primary any more.
	if imgA, ok := led.get("db", before["n0"]); ok && haltID != 0 && !A.Exited() {
		snap := c07StableSnapshot(A.Node, "db")
		code, perr := postTx(A.URL(), R.Store.ID(), fmt.Sprint(haltID), forgeLTX(A, imgA, R.Store.ID()))
		time.Sleep(10 * time.Millisecond)
		snap2 := c07StableSnapshot(A.Node, "db")
		hist = append(hist, fmt.Sprintf("late forwarded transaction sent to n0: status %d err %v", code, perr))
		if code == 200 || snap2.pos != snap.pos || snap2.ltx != snap.ltx {
			c.Violate("C13/former-primary-accepted-forwarded-tx", fmt.Sprintf("late-forward: n0 lost its lease (%s) and n2 is primary; a forwarded transaction with the id of the halt lock n0 had granted was answered %d by n0 and its position went %s -> %s: a node without the lease published a transaction", how, code, snap.pos, snap2.pos), detail())
			return
		}
		c.Count("late_forward_to_former_primary_refused", 1)
		before["n0"] = mon.PosOf(A.Node, "db")
	}
	// ---- the holder writes again
	rb := mon.PosOf(R.Node, "db")
	_, werr := rw.txn(2)
	hist = append(hist, fmt.Sprintf("holder's next transaction: %v", werr))
	time.Sleep(20 * time.Millisecond)
	after := map[string]mon.PosKey{"n0": mon.PosOf(A.Node, "db"), "n2": mon.PosOf(B.Node, "db")}
	if after["n2"] != before["n2"] {
		c.Violate("C13/holder-published-on-new-primary", fmt.Sprintf("after the primary change the halt-lock holder's transaction moved the new primary %s -> %s (it never granted a halt lock)", before["n2"], after["n2"]), detail())
		return
	}
	if after["n0"] != before["n0"] {
		if _, onChain := led.get("db", after["n0"]); !onChain || after["n0"] != mon.PosOf(B.Node, "db") {
			c.Violate("C13/former-primary-accepted-forwarded-tx", fmt.Sprintf("the former primary (no lease) accepted the holder's transaction: %s -> %s", before["n0"], after["n0"]), detail())
			return
		}
	}
	if werr == nil && len(R.Node.Exits()) == 0 && mon.PosOf(R.Node, "db") != rb {
		if mon.PosOf(R.Node, "db") != mon.PosOf(B.Node, "db") {
			c.Violate("C13/holder-committed-without-primary", fmt.Sprintf("the holder's transaction returned success and moved the holder %s -> %s although no primary applied it", rb, mon.PosOf(R.Node, "db")), detail())
			return
		}
	}
	c.Count("holder_write_after_change_judged", 1)
	rw.close()
	_ = lf.Unlock(41, 72, 72)
	// ---- the grant of the former primary ends with its TTL (the holder's release
	// went to the new primary). The TTL is 1.5 s and the monitor ticks every 50 ms;
	// a grant that is still in force after twenty TTLs has not expired.
	if haltID != 0 && !A.Exited() {
		ttl := 1500 * time.Millisecond
		for A.Store.DB("db").HoldsHaltLock(haltID) && time.Since(grantAt) < 20*ttl {
			time.Sleep(10 * time.Millisecond)
		}
		if A.Store.DB("db").HoldsHaltLock(haltID) {
			c.Violate("C13/halt-lock-never-expired", fmt.Sprintf("the former primary still honours halt lock %d %s after granting it (TTL %s, monitor interval 50 ms): the lock does not expire on a node that lost its lease", haltID, time.Since(grantAt).Round(time.Second), ttl), detail())
			return
		}
		c.Count("former_primary_grant_expired", 1)
	}
	// ---- everybody ends on the new primary's chain
	img2, ok := led.get("db", mon.PosOf(B.Node, "db"))
	if !ok {
		c.Violate("C13/primary-position-unknown", "n2 is at a position nobody committed: "+mon.PosOf(B.Node, "db").String(), detail())
		return
	}
	wB, err := newWriter(B.Node, "db", ps, wal, "delete", img2, c.SubRng("wb"), led, 5)
	if err != nil {
		c.Violate("C13/primary-writer", err.Error(), detail())
		return
	}
	defer wB.close()
	wB.d.BusyRetries = 2000
	if err := wB.ensure(0); err == nil {
		for try := 0; try < 10; try++ {
			if ok, err := wB.txn(2); err != nil {
				healthViolations(c, B.Node, "new primary write", detail())
				if !c.Violated() {
					c.Violate("C13/primary-cannot-write-after-halt", "the new primary cannot commit: "+err.Error(), detail())
				}
				return
			} else if ok {
				break
			}
		}
	}
	for _, n := range []*cluster.CNode{A, R} {
		if n.Exited() {
			continue // a dead process (fatal exit after a failed WAL commit step)
		}
		ok, _, timedOut := cl.WaitConverged(B, n, []string{"db"}, 8, 30*time.Second)
		if timedOut {
			c.Inconclusive("convergence watchdog")
			return
		}
		if !ok {
			c.Violate("C13/replica-diverged-after-halt", fmt.Sprintf("%s did not reach the new primary's position (primary %s, it is at %s)", n.Name, mon.PosOf(B.Node, "db"), mon.PosOf(n.Node, "db")), detail())
			return
		}
		res, err := mountRead(c, n.Node, "db", 7100+uint64(n.Index))
		if err == nil {
			judgeReplicaRead(c, led, n.Name, "db", res, "after primary change during halt", nil)
		}
	}
	if !R.Exited() && R.Store.DB("db").HasRemoteHaltLock() {
		c.Violate("C13/replica-still-holder", "the replica still believes it holds a halt lock of a node that is no longer primary, after releasing it and converging to the new primary", detail())
		return
	}
	c.Distinct(fmt.Sprintf("primary-change/wal%v/%s/ps%d", wal, how, ps))
	if k < 2 {
		c.Sample(detail())
	}
}
