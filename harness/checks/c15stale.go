//go:build verif

package checks

import (
	"fmt"
	"strings"

	"verif/core"
	"verif/mon"
	"verif/pager"
	"verif/ref"
)

func init() {
	addFamily("C15", func(tier string) int {
		if tier == "thorough" {
			return 72
		}
		return 12
	}, runC15StaleEntries, " (+ recreate while the kernel still caches the dropped database's companion entries: the -journal/-wal/-shm files exist at the drop, their directory entries are cached (driver A's model of the kernel's entry cache), the database is dropped and recreated at once in rollback or WAL mode; the opens of the companion files go to the old nodes first and the recreated database must work and continue the sequence, counters stale_*)")
	chk := Registry["C15"]
	base := chk.Floors
	chk.Floors = func(tier string) map[string]int {
		m := map[string]int{}
		if base != nil {
			for k, v := range base(tier) {
				m[k] = v
			}
		}
		m["stale_recreates"] = 8
		m["stale_entries_opened"] = 8
		return m
	}
}

// runC15StaleEntries: a database in PERSIST/TRUNCATE journal mode or in WAL mode
// (its companion files stay on disk between transactions) is dropped while the
// kernel holds directory entries for the companion files. LiteFS tells the
// kernel about them only after the unlink has been answered, so an application
// that recreates the database at once has its open(O_CREAT) of db-journal /
// db-wal / db-shm delivered as an OPEN of the OLD node. Only an answer that makes
// the VFS look the name up again lets the application go on; whatever LiteFS
// answers, the recreated database must accept its first transactions, continue
// the transaction ID sequence and be read back as written.
func runC15StaleEntries(c *core.Case, k int) {
	ps := []uint32{1024, 4096, 512}[k%3]
	mode := []string{"wal", "persist", "wal", "truncate"}[k%4]
	n, err := newPrimary(c.Dir+"/data", nil)
	if err != nil {
		c.Inconclusive("node start: " + err.Error())
		return
	}
	defer n.Close()
	detail := map[string]any{"page_size": ps, "mode": mode}
	var hist []string
	detail["history"] = &hist
	// one incarnation: create, a few transactions in the mode, leave the companion files behind
	holes := uint32(0)
	life := func(d *pager.DB, tag string) (*pager.Conn, bool) {
		A, err := d.Open(1)
		if err != nil {
			c.Violate("C15/recreate-failed", fmt.Sprintf("%s: open: %v", tag, err), detail)
			return nil, false
		}
		jm := mode
		if mode == "wal" {
			jm = "delete"
		}
		first := pager.RollbackSpec{Mode: jm, Outcome: "commit", NewPageN: uint32(4 + c.Rng.IntN(6)), WALHeader: mode == "wal"}
		if holes > 0 {
			// pages allocated and freed again inside the first transaction: SQLite
			// never writes them, they are holes below the last page
			first.NewPageN, first.UnwrittenNew = 7, holes
		}
		if res := A.RunRollbackTx(first); res.Err != nil {
			healthViolations(c, n, tag, detail)
			if !c.Violated() {
				c.Violate("C15/recreate-failed", fmt.Sprintf("%s: the first transaction failed at %q: %v", tag, res.ErrStep, res.Err), detail)
			}
			return nil, false
		}
		hist = append(hist, fmt.Sprintf("%s: created (%d pages, page size %d)", tag, d.M.PageN, d.PageSize))
		if mode == "wal" {
			if err := A.OpenWAL(); err != nil {
				healthViolations(c, n, tag, detail)
				if !c.Violated() {
					c.Violate("C15/recreate-failed", fmt.Sprintf("%s: opening the write-ahead log and its index failed: %v", tag, err), detail)
				}
				return nil, false
			}
		}
		for i := 0; i < 1+c.Rng.IntN(2); i++ {
			var res pager.TxResult
			if mode == "wal" {
				res = A.RunWALTx(pager.WALSpec{NewPageN: d.M.PageN, Outcome: "commit", Frames: []pager.FrameSpec{{Pgno: 2}, {Pgno: 3}, {Pgno: 1}}})
			} else {
				res = A.RunRollbackTx(pager.RollbackSpec{Mode: jm, Outcome: "commit", NewPageN: d.M.PageN, Dirty: []uint32{2, 3}})
			}
			if res.Err != nil {
				healthViolations(c, n, tag, detail)
				if !c.Violated() {
					c.Violate("C15/recreate-failed", fmt.Sprintf("%s: a transaction failed at %q: %v", tag, res.ErrStep, res.Err), detail)
				}
				return nil, false
			}
		}
		hist = append(hist, fmt.Sprintf("%s: transactions in %s mode, position %s", tag, mode, mon.PosOf(n, "db")))
		return A, true
	}
	d1 := pager.NewDB(n, "db", ps, c.SubRng("d1"))
	A, ok := life(d1, "first incarnation")
	if !ok {
		return
	}
	deadWriter := mode != "wal" && k%8 >= 4
	if deadWriter {
		// the application dies inside a transaction, all of its pages written to
		// the file and the journal about to be finalised: a hot journal and the
		// transaction's pages are what the drop finds
		spec := pager.RollbackSpec{Mode: mode, Outcome: "commit", NewPageN: d1.M.PageN, Dirty: []uint32{2, 3, 4}}
		writes := 0
		d1.Hook = func(step string) error {
			if strings.HasPrefix(step, "db write page") {
				writes++
			}
			if strings.HasPrefix(step, "journal finalize") {
				return pager.ErrAbort
			}
			return nil
		}
		res := A.RunRollbackTx(spec)
		d1.Hook = nil
		if !res.Aborted || writes == 0 {
			c.Inconclusive(fmt.Sprintf("the transaction was not interrupted as planned (aborted %v, %d page writes, err %v)", res.Aborted, writes, res.Err))
			return
		}
		hist = append(hist, fmt.Sprintf("an application dies inside a transaction (%d pages written, journal hot)", writes))
		c.Count("stale_dead_writer_before_drop", 1)
	}
	A.Close() // (the simulated pager leaves -wal/-shm and a PERSIST/TRUNCATE journal on disk)
	cached := 0
	for _, suffix := range []string{"-journal", "-wal", "-shm"} {
		if err := n.CacheDentry("db" + suffix); err == nil {
			cached++
		}
	}
	defer n.DropDentries()
	if cached == 0 {
		c.Inconclusive("no companion file existed at the drop")
		return
	}
	c.Count("stale_entries_opened", cached)
	prev := mon.PosOf(n, "db")
	if err := n.Remove("db"); err != nil {
		c.Violate("C15/drop-failed", err.Error(), detail)
		return
	}
	c.Count("drops", 1)
	pos := mon.PosOf(n, "db")
	if pos.TXID != prev.TXID+1 || pos.Chk != ref.ChecksumFlag {
		c.Violate("C15/drop-position", fmt.Sprintf("after the drop the position is %s, expected txid %d with the empty checksum", pos, prev.TXID+1), detail)
		return
	}
	hist = append(hist, fmt.Sprintf("rm db at %s; %d companion entries still cached by the kernel; recreate at once", pos, cached))
	ps2 := ps
	if k%2 == 1 {
		ps2 = map[uint32]uint32{512: 1024, 1024: 4096, 4096: 512}[ps]
	}
	if deadWriter {
		holes = 4 // pages 3..6 of the new database are never written; the dead transaction wrote 2..4 of the old one
	}
	d2 := pager.NewDB(n, "db", ps2, c.SubRng("d2"))
	B, ok := life(d2, "recreated while the old companion entries are cached")
	if !ok {
		return
	}
	defer B.Close()
	after := mon.PosOf(n, "db")
	if after.TXID <= pos.TXID {
		c.Violate("C15/recreate-sequence", fmt.Sprintf("the recreated database is at %s, the drop was %s", after, pos), detail)
		return
	}
	if after.Chk != d2.M.Checksum() {
		c.Violate("C15/recreate-checksum", fmt.Sprintf("the recreated database reports checksum %x, its image has %x", after.Chk, d2.M.Checksum()), detail)
		return
	}
	judgeSeen(c, n, "db", 1, d2.M, "recreated while the old companion entries were cached", detail)
	if healthViolations(c, n, "recreate over stale entries", detail) {
		return
	}
	c.Count("recreates", 1)
	c.Count("stale_recreates", 1)
	c.Distinct(fmt.Sprintf("stale/%s/ps%d-%d/cached%d", mode, ps, ps2, cached))
}
