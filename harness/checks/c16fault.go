//go:build verif

package checks

import (
	"bytes"
	"context"
	"errors"
	"fmt"
	"io"
	"os"
	"strings"
	"sync"
	"time"

	"github.com/superfly/litefs"
	lhttp "github.com/superfly/litefs/http"

	"verif/cluster"
	"verif/core"
	"verif/drv"
	"verif/mon"
	"verif/ref"
)

func init() {
	addFamily("C16", func(tier string) int {
		if tier == "thorough" {
			return 600
		}
		return 80
	}, runC16Fault, " (+ import under an I/O fault: the k-th OS-layer call of a valid import fails; whatever the node then does - refuse, stop, or finish - export, position and a restart agree on one committed image, counters fault_*)")
}

// addFamily appends n(tier) cases of another case family to a registered check.
func addFamily(id string, n func(tier string) int, run func(c *core.Case, k int), rule string) {
	chk := Registry[id]
	if chk == nil {
		return
	}
	baseN, baseRun := chk.NumCases, chk.Run
	chk.NumCases = func(tier string) int { return baseN(tier) + n(tier) }
	chk.Run = func(c *core.Case) {
		if b := baseN(c.Tier); c.Index >= b {
			run(c, c.Index-b)
			return
		}
		baseRun(c)
	}
	chk.Rule += rule
}

// runC16Fault: a VALID import meets an I/O fault. The k-th OS-layer call LiteFS
// makes on behalf of the import (create, open, rename, remove, truncate, sync of
// the directory ...) fails. Three outcomes are legitimate: the import is refused
// and nothing changed; the node stops (Store.Exit - a fault after the
// transaction file was published is fatal by design) and a restart on the data
// directory recovers to the old or the new position; or the fault was harmless
// and the import completed. In every outcome the export is exactly the image of
// the position the node reports - the old one or the imported one, never a
// mixture, and never an error answer over a replaced database.
func runC16Fault(c *core.Case, k int) {
	viaHTTP := k%2 == 1
	wal := (k/2)%2 == 1
	failAt := 1 + (k/4)%14
	ps := []uint32{1024, 4096, 512}[c.Rng.IntN(3)]
	cl, err := cluster.New(c.Dir, []cluster.NodeOpts{{Candidate: true}})
	if err != nil {
		c.Inconclusive(err.Error())
		return
	}
	defer cl.Close()
	if err := cl.Start(0); err != nil || cl.WaitPrimary(0, 10*time.Second) == nil {
		c.Inconclusive("primary start")
		return
	}
	P := cl.Nodes[0]
	led := newLedger()
	w, err := newWriter(P.Node, "db", ps, wal, pick(c, []string{"delete", "truncate", "persist"}), nil, c.SubRng("w"), led, 1)
	if err != nil {
		c.Violate("C16/setup", err.Error(), nil)
		return
	}
	w.d.BusyRetries = 5000
	if err := w.ensure(uint32(4 + c.Rng.IntN(8))); err != nil {
		c.Violate("C16/setup", err.Error(), nil)
		return
	}
	for i := 0; i < 2; i++ {
		if _, err := w.txn(3); err != nil {
			c.Violate("C16/setup", err.Error(), nil)
			return
		}
	}
	imgA := w.d.M.Clone()
	pendingWAL := wal && w.d.WalEnd > 32
	w.close()
	posA := mon.PosOf(P.Node, "db")
	// the image to import: same page size, other size and content
	nB := pick(c, []uint32{2, 5, 17, 3, 30})
	imgIn := genImage(c, ps, nB, c.Rng.IntN(2) == 0)
	imgB := ref.ImageFromBytes(ps, maskImportBytes(imgIn.Bytes()))

	var mu sync.Mutex
	calls, failedOp := 0, ""
	var opsSeen []string
	armed := true
	P.Node.OS.SetHook(func(op, kind, path string) error {
		mu.Lock()
		defer mu.Unlock()
		if P.Node.Exited() {
			return os.ErrClosed // the process is gone
		}
		if !armed || !strings.Contains(path, "/dbs/db/") {
			return nil
		}
		calls++
		opsSeen = append(opsSeen, op+":"+kind)
		if calls == failAt {
			failedOp = op + ":" + kind
			return errors.New("scripted I/O error")
		}
		return nil
	})
	var ierr error
	if viaHTTP {
		ierr = lhttp.NewClient().Import(context.Background(), P.URL(), "db", bytes.NewReader(imgIn.Bytes()))
	} else {
		ierr = P.Store.DB("db").Import(context.Background(), bytes.NewReader(imgIn.Bytes()))
	}
	mu.Lock()
	armed = false
	hit, ops := failedOp, append([]string(nil), opsSeen...)
	mu.Unlock()
	c.Count("imports", 1)
	c.Count("fault_imports", 1)
	detail := map[string]any{"page_size": ps, "wal": wal, "pending_wal": pendingWAL, "via_http": viaHTTP, "fail_at_call": failAt, "failed_op": hit, "os_calls": ops, "import_error": fmt.Sprint(ierr), "pos_before": posA.String(), "import_pages": nB}
	for _, p := range P.Node.Panics() {
		c.Violate("C16/panic/"+siteOf(p.Stack), fmt.Sprintf("panic during an import under an I/O fault: %v", p.Value), detail)
		return
	}
	if hit == "" {
		c.Count("fault_not_reached", 1)
	} else {
		c.Count("fault_injected", 1)
	}
	classify := func(n *drv.Node, ctx string) (string, bool) {
		pos := mon.PosOf(n, "db")
		var buf bytes.Buffer
		epos, err := n.Store.DB("db").Export(context.Background(), &buf)
		if err != nil {
			c.Violate("C16/export-failed", fmt.Sprintf("export failed %s: %v", ctx, err), detail)
			return "", false
		}
		if ek := (mon.PosKey{TXID: uint64(epos.TXID), Chk: uint64(epos.PostApplyChecksum)}); ek != pos {
			c.Violate("C16/export-position", fmt.Sprintf("export reports %s, the database is at %s (%s)", ek, pos, ctx), detail)
			return "", false
		}
		var want *ref.Image
		side := ""
		switch {
		case pos == posA:
			want, side = imgA, "old"
		case pos.TXID == posA.TXID+1 && pos.Chk == imgB.Checksum():
			want, side = imgB, "new"
		default:
			c.Violate("C16/fault-import-position", fmt.Sprintf("%s the node reports %s: neither the position before the import (%s) nor the imported image one transaction later (checksum %x)", ctx, pos, posA, imgB.Checksum()), detail)
			return "", false
		}
		if !bytes.Equal(buf.Bytes(), want.Bytes()) {
			got := ref.ImageFromBytes(ps, buf.Bytes())
			c.Violate("C16/export-not-current-image", fmt.Sprintf("%s the node reports %s (the %s image) but its export differs from that image: %s", ctx, pos, side, got.Diff(want)), detail)
			return "", false
		}
		if raw := mon.RawImage(mon.DBDir(n, "db")); raw.Checksum() != pos.Chk {
			c.Violate("C04/raw-checksum-mismatch", fmt.Sprintf("%s reported checksum %x != from-scratch checksum %x over raw files", ctx, pos.Chk, raw.Checksum()), detail)
			return "", false
		}
		return side, true
	}
	if P.Node.Exited() {
		// fatal by design once the transaction file is published: restart
		c.Count("fault_node_stopped", 1)
		if hit == "" {
			c.Violate("C16/store-exit-without-fault", "the node stopped during a valid import although no fault was injected", detail)
			return
		}
		dir := P.Dir
		cl.Stop(0)
		P.Node.OS.SetHook(nil)
		n2, err := drv.NewNode(drv.Config{Dir: dir, Candidate: true, Leaser: litefs.NewStaticLeaser(true, "localhost", "http://127.0.0.1:1")})
		if err != nil {
			c.Violate("C16/restart-prevented-by-failed-import/io-fault", fmt.Sprintf("after an import that met an I/O fault at %s stopped the node, a restart on the data directory fails: %v", hit, err), detail)
			return
		}
		defer n2.Close()
		if !n2.WaitReady(10 * time.Second) {
			c.Inconclusive("restarted node not ready")
			return
		}
		side, ok := classify(n2, "after the restart that followed a fatal import fault,")
		if !ok {
			return
		}
		c.Count("fault_restart_"+side, 1)
		c.Distinct(fmt.Sprintf("fault/%s/exit/%s/wal%v", hit, side, wal))
		return
	}
	P.Node.OS.SetHook(nil)
	side, ok := classify(P.Node, "after an import that met an I/O fault,")
	if !ok {
		return
	}
	switch {
	case ierr == nil && side != "new":
		c.Violate("C16/import-success-without-effect", fmt.Sprintf("the import returned success but the node still is at the old position %s", posA), detail)
		return
	case ierr != nil && side == "new":
		c.Violate("C16/failed-import-changed-database/io-fault", fmt.Sprintf("the import returned an error (%v) but the database was replaced (now at %s)", ierr, mon.PosOf(P.Node, "db")), detail)
		return
	}
	if ierr != nil {
		c.Count("fault_import_refused_unchanged", 1)
		// the refused import must stay refused: a restart brings the node back
		// with the old image (nothing the failed attempt left behind is applied)
		target := P.Node
		if (k/4)%2 == 0 || c.Tier == "thorough" {
			dir := P.Dir
			cl.Stop(0)
			n2, err := drv.NewNode(drv.Config{Dir: dir, Candidate: true, Leaser: litefs.NewStaticLeaser(true, "localhost", "http://127.0.0.1:1")})
			if err != nil {
				c.Violate("C16/restart-prevented-by-failed-import/io-fault", fmt.Sprintf("after an import was refused on an I/O fault at %s (node up, database unchanged), a restart on the data directory fails: %v", hit, err), detail)
				return
			}
			defer n2.Close()
			if !n2.WaitReady(10 * time.Second) {
				c.Inconclusive("restarted node not ready")
				return
			}
			s2, ok := classify(n2, "after a restart that followed a refused import,")
			if !ok {
				return
			}
			if s2 != "old" {
				c.Violate("C16/failed-import-applied-at-restart", fmt.Sprintf("the import met an I/O fault at %s and was answered with an error (%v), the database was unchanged; after a restart the node holds the imported image (%s)", hit, ierr, mon.PosOf(n2, "db")), detail)
				return
			}
			c.Count("fault_refused_then_restart_old", 1)
			target = n2
		}
		// the failed attempt must not block the next one
		if err := target.Store.DB("db").Import(context.Background(), bytes.NewReader(imgIn.Bytes())); err != nil {
			c.Violate("C16/valid-import-failed", fmt.Sprintf("after an import failed on an I/O fault at %s the same import, repeated without fault, fails: %v", hit, err), detail)
			return
		}
		if s2, ok := classify(target, "after repeating the import without fault,"); !ok {
			return
		} else if s2 != "new" {
			c.Violate("C16/import-success-without-effect", "the repeated import returned success but the node still is at the old position", detail)
			return
		}
		c.Count("fault_import_retried_ok", 1)
	} else {
		c.Count("fault_import_completed", 1)
	}
	c.Distinct(fmt.Sprintf("fault/%s/up/%s/wal%v", hit, side, wal))
	if k < 2 {
		c.Sample(detail)
	}
	_ = io.Discard
}
