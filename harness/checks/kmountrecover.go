//go:build verif

package checks

import (
	"errors"
	"fmt"
	"os"
	"path/filepath"
	"sync"
	"time"

	"verif/cluster"
	"verif/core"
	"verif/mon"
	"verif/ref"
)

func init() {
	addKMount("C04", func(tier string) int {
		if tier == "thorough" {
			return 96
		}
		return 8
	}, runKMountRecover)
	addMountFloors(Registry["C04"], func(tier string) map[string]int {
		return map[string]int{"recover_rounds_judged": 8, "recover_hot_journals": 4, "recover_db_file_dirty_before_recovery": 4, "recover_wal_nonempty_before_recovery": 2, "recover_unjournaled_free_page_overwrites": 1}
	})
}

// runKMountRecover: LiteFS's OWN recovery over what a dead REAL SQLite client
// left behind. The application process is killed inside a transaction whose
// cache already spilled into the database file (rollback modes: hot journal
// written by SQLite itself - persistent journals with stale segments, several
// segments, truncated journals; WAL mode: uncommitted frames at the log's end).
// No new client opens the database; instead the node loses and regains its
// lease, so Store.Recover (journal rollback / checkpoint) runs on those files.
// Afterwards the position is unchanged, nothing new was published, the raw
// files are the image of the position (C04: reported checksum = from-scratch
// checksum), no hot journal is left, a new SQLite client reads the content
// from before the dead transaction and its next commit chains on.
func runKMountRecover(c *core.Case, k int) {
	if ok, why := kmountAvailable(); !ok {
		c.Count("kmount_unavailable", 1)
		if k == 0 {
			c.Sample(map[string]any{"kmount": "unavailable", "why": why})
		}
		return
	}
	c.Count("kmount_cases", 1)
	mode := []string{"truncate", "wal", "persist", "delete"}[k%4]
	ps := []int{1024, 4096, 512, 2048, 8192}[c.Rng.IntN(5)]
	autoVac := []int{0, 1, 2}[c.Rng.IntN(3)]
	// case 0 is the fixed witness of the known finding (DESIGN 5.3b, second
	// manifestation): free-list leaf pages made by a DELETE, reused by an INSERT
	// that spills before the client dies
	witness := k == 0
	if witness {
		mode, ps, autoVac = "truncate", 1024, 2
	}
	var mu sync.Mutex
	blocked := false
	cl, err := cluster.New(c.Dir, []cluster.NodeOpts{{Candidate: true, KernelMount: true}})
	if err != nil {
		c.Inconclusive(err.Error())
		return
	}
	defer cl.Close()
	cl.Svc.SetInject(func(node, op string) error {
		mu.Lock()
		defer mu.Unlock()
		if blocked && op == "acquire" {
			return errors.New("scripted: acquire unavailable")
		}
		return nil
	})
	if err := cl.Start(0); err != nil || cl.WaitPrimary(0, 10*time.Second) == nil {
		c.Inconclusive(fmt.Sprintf("primary start: %v", err))
		return
	}
	P := cl.Nodes[0]
	var hist []string
	detail := func() map[string]any {
		h := hist
		if len(h) > 60 {
			h = h[len(h)-60:]
		}
		return map[string]any{"driver": "B (kernel mount + real SQLite)", "journal_mode": mode, "page_size": ps, "auto_vacuum": autoVac, "sql_tail": h}
	}
	fail := func(fp, what string) { c.Violate("C04/kmount/"+fp, what, detail()) }
	dbPath := filepath.Join(P.MountDir(), "db")
	dbDir := mon.DBDir(P.Node, "db")
	chain := &ltxChain{dir: filepath.Join(dbDir, "ltx")}

	var proc *sqlProc
	var w *sqlDB
	defer func() {
		if proc != nil {
			proc.stop()
		}
	}()
	openClient := func() bool {
		var err error
		if proc, err = startSQLProc(); err != nil {
			c.Inconclusive("SQL child: " + err.Error())
			return false
		}
		if w, err = proc.open(dbPath, false); err != nil {
			fail("open", "cannot open the database through the mount: "+err.Error())
			return false
		}
		return true
	}
	exec := func(q string) bool {
		hist = append(hist, q)
		if _, err := w.queryStringOrExec(q); err != nil {
			if !healthViolations(c, P.Node, q, detail()) {
				fail("sql-error", fmt.Sprintf("statement failed on a healthy primary: %q: %v", q, err))
			}
			return false
		}
		if healthViolations(c, P.Node, q, detail()) {
			return false
		}
		if _, prob := chain.advance(); prob != "" {
			fail("ltx-chain", "after "+q+": "+prob)
			return false
		}
		if p := mon.PosOf(P.Node, "db"); p != chain.pos {
			fail("position", fmt.Sprintf("after %q the node reports %s, its newest transaction file ends at %s", q, p, chain.pos))
			return false
		}
		return true
	}
	if !openClient() {
		return
	}
	for _, q := range []string{fmt.Sprintf("PRAGMA page_size=%d", ps), fmt.Sprintf("PRAGMA auto_vacuum=%d", autoVac), "PRAGMA journal_mode=" + mode} {
		if !exec(q) {
			return
		}
	}
	_ = w.exec("PRAGMA cache_size=5")
	if !exec("CREATE TABLE t0(id INTEGER PRIMARY KEY, k INTEGER, v BLOB)") {
		return
	}
	for i := 1; i <= 6; i++ {
		size := []int{100, 3000, 20000, 500}[c.Rng.IntN(4)]
		if witness {
			size = []int{500, 500, 20000, 20000, 3000, 3000}[i-1]
		}
		if !exec(fmt.Sprintf("INSERT INTO t0 VALUES(%d,%d,randomblob(%d))", i, i, size)) {
			return
		}
	}
	rounds := 2
	if c.Tier == "thorough" {
		rounds = 4
	}
	nextID := 100
	for round := 0; round < rounds; round++ {
		// a committed transaction between the rounds (persistent journals keep its records)
		nextID++
		if !exec(fmt.Sprintf("INSERT INTO t0 VALUES(%d,%d,randomblob(%d))", nextID, round, 200+c.Rng.IntN(6000))) {
			return
		}
		if mode == "wal" && c.Rng.IntN(3) == 0 {
			if !exec(fmt.Sprintf("PRAGMA wal_checkpoint(%s)", pick(c, []string{"PASSIVE", "FULL", "RESTART", "TRUNCATE"}))) {
				return
			}
		}
		h0, err := w.contentHash()
		if err != nil {
			fail("read-error", err.Error())
			return
		}
		img0 := chain.img.Clone()
		pos0 := chain.pos
		// ---- the transaction the client will die in
		var stmts []string
		stmts = append(stmts, "BEGIN IMMEDIATE")
		if witness && round == 0 {
			stmts = append(stmts, "DELETE FROM t0 WHERE id%3=0", "COMMIT", "BEGIN IMMEDIATE",
				"INSERT INTO t0 VALUES(102,1,zeroblob(6583))", "UPDATE t0 SET k=k+1")
		} else {
			for i, n := 0, 1+c.Rng.IntN(3); i < n; i++ {
				nextID++
				switch c.Rng.IntN(4) {
				case 0:
					stmts = append(stmts, fmt.Sprintf("DELETE FROM t0 WHERE id%%%d=%d", 2+c.Rng.IntN(3), c.Rng.IntN(2)))
				case 1:
					stmts = append(stmts, fmt.Sprintf("UPDATE t0 SET v=randomblob(%d), k=k+1 WHERE id%%2=%d", 50+c.Rng.IntN(4000), c.Rng.IntN(2)))
				default:
					stmts = append(stmts, fmt.Sprintf("INSERT INTO t0 VALUES(%d,%d,randomblob(%d))", nextID, round, 3000+c.Rng.IntN(40000)))
				}
			}
			stmts = append(stmts, "UPDATE t0 SET k=k+1")
		}
		if witness && round == 0 {
			// the DELETE is committed first so that its pages are on the free list
			for _, q := range stmts[:3] {
				if !exec(q) {
					return
				}
			}
			stmts = stmts[3:]
			if h0, err = w.contentHash(); err != nil {
				fail("read-error", err.Error())
				return
			}
			img0, pos0 = chain.img.Clone(), chain.pos
		}
		for _, q := range stmts {
			hist = append(hist, q)
			_ = w.exec(q)
		}
		proc.killNow()
		proc.stop()
		proc = nil
		hist = append(hist, "application process killed inside the transaction; the node loses and regains its lease")
		if healthViolations(c, P.Node, "client killed", detail()) {
			return
		}
		// what the dead client left
		jb, _ := os.ReadFile(filepath.Join(dbDir, "journal"))
		pb := ref.PlayJournal(jb, uint32(ps))
		if mode != "wal" && pb.Valid {
			c.Count("recover_hot_journals", 1)
		}
		dbb, _ := os.ReadFile(filepath.Join(dbDir, "database"))
		if mode != "wal" && string(dbb) != string(img0.Bytes()) {
			c.Count("recover_db_file_dirty_before_recovery", 1)
		}
		if st, err := os.Stat(filepath.Join(dbDir, "wal")); err == nil && st.Size() > 0 {
			c.Count("recover_wal_nonempty_before_recovery", 1)
		}
		// ---- LiteFS recovers by itself: role change
		mu.Lock()
		blocked = true
		mu.Unlock()
		P.Store.Demote()
		for dl := time.Now().Add(10 * time.Second); P.Store.IsPrimary() && time.Now().Before(dl); {
			time.Sleep(time.Millisecond)
		}
		time.Sleep(20 * time.Millisecond)
		mu.Lock()
		blocked = false
		mu.Unlock()
		if cl.WaitPrimary(0, 20*time.Second) == nil {
			c.Inconclusive("node did not become primary again")
			return
		}
		if healthViolations(c, P.Node, "role-change recovery over a dead client's files", detail()) {
			return
		}
		if n, prob := chain.advance(); prob != "" || n != 0 {
			fail("recovery-published", fmt.Sprintf("role-change recovery over a dead client's uncommitted transaction produced %d transaction files (%s)", n, prob))
			return
		}
		if p := mon.PosOf(P.Node, "db"); p != pos0 {
			fail("position-moved-by-recovery", fmt.Sprintf("recovery moved the position %s -> %s", pos0, p))
			return
		}
		if jb2, err := os.ReadFile(filepath.Join(dbDir, "journal")); err == nil && ref.PlayJournal(jb2, uint32(ps)).Valid {
			fail("hot-journal-left", "a hot journal is still present after the node's own recovery")
			return
		}
		raw := mon.RawImage(dbDir)
		if d := img0.Diff(raw); d != "" {
			// pages SQLite overwrote without journaling them (free-list leaves of the
			// pre-transaction image): no journal playback can bring their bytes back
			leaves := freeListLeaves(img0)
			var unj, other []uint32
			if raw.PageN != img0.PageN {
				other = append(other, 0)
			}
			for p := uint32(1); p <= img0.PageN && p <= raw.PageN; p++ {
				if p == ref.LockPgno(uint32(ps)) || string(raw.Page(p)) == string(img0.Page(p)) {
					continue
				}
				if _, journaled := pb.Pages[p]; leaves[p] && !journaled && mode != "wal" {
					unj = append(unj, p)
				} else {
					other = append(other, p)
				}
			}
			if len(other) == 0 && len(unj) > 0 {
				c.Count("recover_unjournaled_free_page_overwrites", 1)
				c.Violate("C04/kmount/checksum-after-rollback(unjournaled-free-page-overwrite)",
					fmt.Sprintf("after the node rolled a dead client's hot journal back the database differs from the image of its position %s in pages %v (free-list leaf pages of that image which SQLite overwrote without journaling them): reported checksum %x, from-scratch checksum %x", pos0, unj, pos0.Chk, raw.Checksum()), detail())
				return
			}
			fail("recovery-changed-image", fmt.Sprintf("after the node's own recovery the database files differ from the image of position %s: %s (reported checksum %x, from-scratch %x)", pos0, d, pos0.Chk, raw.Checksum()))
			return
		}
		c.Count("c04_raw_checks", 1)
		c.Count("recover_rounds_judged", 1)
		c.Distinct(fmt.Sprintf("kmount/recover/%s/ps%d/hot=%v", mode, ps, pb.Valid))
		// ---- a new client
		if !openClient() {
			return
		}
		if mode != "wal" {
			_, _ = w.queryStringOrExec("PRAGMA journal_mode=" + mode)
		}
		_ = w.exec("PRAGMA cache_size=5")
		h1, err := w.contentHash()
		if healthViolations(c, P.Node, "new client after recovery", detail()) {
			return
		}
		if err != nil {
			fail("read-after-recovery", fmt.Sprintf("the new client cannot read the database: %v", err))
			return
		}
		if h1 != h0 {
			fail("recovery-changed-content", fmt.Sprintf("the new client reads %s, before the dead transaction the content was %s", h1, h0))
			return
		}
		if integ, err := w.queryString("PRAGMA integrity_check"); err != nil || integ != "ok" {
			fail("integrity-after-recovery", fmt.Sprintf("integrity_check through the mount: %q %v", integ, err))
			return
		}
	}
	nextID++
	if !exec(fmt.Sprintf("INSERT INTO t0 VALUES(%d,0,randomblob(900))", nextID)) {
		return
	}
	if raw := mon.RawImage(dbDir); chain.img.Diff(raw) != "" {
		fail("raw-image", "after the closing commit the database files differ from the image rebuilt from the transaction files: "+chain.img.Diff(raw))
		return
	}
	c.Count("recover_commits_after", 1)
	if k < 2 {
		c.Sample(map[string]any{"detail": detail()})
	}
}
