package checks

import (
	"bytes"
	"context"
	"crypto/sha256"
	"encoding/json"
	"errors"
	"fmt"
	"io"
	"net"
	"net/http"
	"net/url"
	"os"
	"path/filepath"
	"sort"
	"strings"
	"sync"
	"sync/atomic"
	"time"

	"github.com/superfly/litefs"
	"github.com/superfly/litefs/lfsc"
	"github.com/superfly/ltx"
	"verif/cluster"
	"verif/core"
	"verif/drv"
	"verif/mon"
	"verif/ref"
)

var c14Relations = []string{"behind", "equal", "ahead", "fork-ahead", "fork-same-txid", "fork-behind", "missing", "rolled-back", "big-batch", "after-drop", "after-retention", "restart-retention"}
var c14FaultsExtra = []string{"wrap-corrupt-snapshot"}
var c14Faults = []string{"wrap-before", "wrap-mid", "wrap-lost-ack", "srv-503-before", "srv-500-after-store", "srv-close-after-store"}

func init() {
	register(&core.Check{
		ID:          "C14",
		Level:       "exploration",
		Rule:        "a primary with a backup service (the file-based client on a directory, or the LiteFS Cloud client against a harness-run LiteFS Cloud server that enforces contiguity itself) runs PRNG histories of commits, drops+recreates, retention sweeps, >256-file batches, service manipulations (a second store restores from the service and extends it => ahead / forked longer, equal, shorter; service emptied; service rolled back) and upload faults (failing before the body, mid-body, after the service stored the file but before the acknowledgement reached LiteFS; injected at the client boundary and, for the cloud protocol, in the server), each followed by Store.SyncBackup rounds (some cases use the background loop). A recording wrapper around the real BackupClient sees every PosMap/WriteTx/FetchSnapshot with the value returned to LiteFS; the service's own files are the ground truth. After every sync: the service's files must decode, verify and form a contiguous chain from a snapshot; the service position must be on the recorded history (ledger of every committed image by position) and the image restored from the service's files must equal the ledger image; DB.HWM() on the primary and on replicas (sampled continuously) must never exceed the largest value the service acknowledged; on an idle primary repeated syncs must reach service position == primary position with the restored image byte-identical to the primary's; when the service is ahead/forked the service's files must be unchanged by the sync and the primary must end at the service's position and image; with an on-chain service nothing may be restored and the primary's position may not move; a writer must still be able to commit after a failed upload; distinct = (client, mode, relation, fault, outcome)",
		Assumptions: []string{"the harness LiteFS Cloud server speaks the protocol as the client expects it (/pos, /db/tx, /db/snapshot, Litefs-Hwm, EPOSMISMATCH) and acknowledges a high-water mark that lags its position by 0..4 transactions", "a rolled-back service (lost its newest files) may legitimately cause either an extension or an adoption; only the end state is judged"},
		NumCases: func(tier string) int {
			if tier == "thorough" {
				return 1600
			}
			return 88
		},
		EvalCounter: "syncs_judged",
		CaseTimeout: 240 * time.Second,
		Run:         runC14,
		Floors: func(tier string) map[string]int {
			m := map[string]int{"syncs_judged": 300, "uploads_seen": 150, "restores_seen": 20, "converged_identical": 80, "adopted_service": 20, "hwm_samples": 1000, "client_file": 20, "client_cloud": 20, "batches_over_256": 2, "lost_ack_then_converged": 4, "snapshot_uploads": 20, "background_converged": 4, "fresh_primary_adopted_existing_service": 2, "background_outage_batches": 2, "commit_inside_snapshot_upload": 1, "rel_stale-hwm": 4, "replica_hwm_followed_restore": 2, "background_lost_ack": 1}
			for _, r := range c14Relations {
				m["rel_"+r] = 3
			}
			for _, f := range c14Faults {
				m["fault_"+f] = 2
			}
			m["fault_wrap-corrupt-snapshot"] = 4
			return m
		},
	})
}

// ---------------------------------------------------------------------------
// service side (ground truth)

type c14Service interface {
	client(s *litefs.Store) litefs.BackupClient
	files(db string) [][]byte // the service's transaction files, in chain order
	wipe(db string)
	dropNewest(db string, n int)
	setFault(f string) // server-side fault for the next /db/tx (cloud only)
	close()
}

// file-based: the directory FileBackupClient writes is the service
type c14FileSvc struct{ dir string }

func (s *c14FileSvc) client(st *litefs.Store) litefs.BackupClient {
	c := litefs.NewFileBackupClient(s.dir)
	_ = c.Open()
	return c
}
func (s *c14FileSvc) names(db string) []string {
	ents, _ := os.ReadDir(filepath.Join(s.dir, db))
	var out []string
	for _, e := range ents {
		if !e.IsDir() && filepath.Ext(e.Name()) == ".ltx" {
			out = append(out, e.Name())
		}
	}
	sort.Strings(out)
	return out
}
func (s *c14FileSvc) files(db string) [][]byte {
	var out [][]byte
	for _, n := range s.names(db) {
		b, _ := os.ReadFile(filepath.Join(s.dir, db, n))
		out = append(out, b)
	}
	return out
}
func (s *c14FileSvc) wipe(db string) { _ = os.RemoveAll(filepath.Join(s.dir, db)) }
func (s *c14FileSvc) dropNewest(db string, n int) {
	names := s.names(db)
	for i := 0; i < n && len(names) > 1; i++ {
		_ = os.Remove(filepath.Join(s.dir, db, names[len(names)-1]))
		names = names[:len(names)-1]
	}
}
func (s *c14FileSvc) setFault(string) {}
func (s *c14FileSvc) close()          {}

// harness LiteFS Cloud server
type c14Cloud struct {
	mu    sync.Mutex
	dbs   map[string][][]byte
	lag   uint64
	fault string
	ln    net.Listener
	srv   *http.Server
	lz4   bool
	// observations
	rejected int
}

func newC14Cloud(lag uint64, lz4 bool) (*c14Cloud, error) {
	ln, err := net.Listen("tcp", "127.0.0.1:0")
	if err != nil {
		return nil, err
	}
	s := &c14Cloud{dbs: map[string][][]byte{}, lag: lag, ln: ln, lz4: lz4}
	mux := http.NewServeMux()
	mux.HandleFunc("/pos", s.handlePos)
	mux.HandleFunc("/db/tx", s.handleTx)
	mux.HandleFunc("/db/snapshot", s.handleSnapshot)
	s.srv = &http.Server{Handler: mux}
	go func() { _ = s.srv.Serve(ln) }()
	return s, nil
}
func (s *c14Cloud) close() { _ = s.srv.Close() }
func (s *c14Cloud) client(st *litefs.Store) litefs.BackupClient {
	u, _ := url.Parse("http://" + s.ln.Addr().String())
	c := lfsc.NewBackupClient(st, *u)
	_ = c.Open()
	return c
}
func (s *c14Cloud) files(db string) [][]byte {
	s.mu.Lock()
	defer s.mu.Unlock()
	return append([][]byte{}, s.dbs[db]...)
}
func (s *c14Cloud) wipe(db string) { s.mu.Lock(); delete(s.dbs, db); s.mu.Unlock() }
func (s *c14Cloud) dropNewest(db string, n int) {
	s.mu.Lock()
	defer s.mu.Unlock()
	f := s.dbs[db]
	for i := 0; i < n && len(f) > 1; i++ {
		f = f[:len(f)-1]
	}
	s.dbs[db] = f
}
func (s *c14Cloud) setFault(f string) { s.mu.Lock(); s.fault = f; s.mu.Unlock() }

func c14PosOfFiles(files [][]byte) ltx.Pos {
	if len(files) == 0 {
		return ltx.Pos{}
	}
	f, err := mon.DecodeLTXReader(bytes.NewReader(files[len(files)-1]), "")
	if err != nil {
		return ltx.Pos{}
	}
	return ltx.Pos{TXID: f.Header.MaxTXID, PostApplyChecksum: f.Trailer.PostApplyChecksum}
}

func (s *c14Cloud) handlePos(w http.ResponseWriter, r *http.Request) {
	s.mu.Lock()
	m := map[string]ltx.Pos{}
	for name, files := range s.dbs {
		m[name] = c14PosOfFiles(files)
	}
	s.mu.Unlock()
	w.Header().Set("Lfsc-Instance-Id", "harness-1")
	_ = json.NewEncoder(w).Encode(m)
}

func (s *c14Cloud) writeErr(w http.ResponseWriter, status int, code, msg string, pos ltx.Pos) {
	w.WriteHeader(status)
	_ = json.NewEncoder(w).Encode(map[string]any{"code": code, "error": msg, "pos": pos})
}

func (s *c14Cloud) handleTx(w http.ResponseWriter, r *http.Request) {
	if r.Method != http.MethodPost {
		s.writeErr(w, 405, "EMETHOD", "method not allowed", ltx.Pos{})
		return
	}
	name := r.URL.Query().Get("db")
	s.mu.Lock()
	fault := s.fault
	s.fault = ""
	s.mu.Unlock()
	if fault == "srv-503-before" {
		s.writeErr(w, 503, "EUNAVAILABLE", "scripted: unavailable", ltx.Pos{})
		return
	}
	body, err := io.ReadAll(r.Body)
	if err != nil {
		s.writeErr(w, 400, "EBADREQUEST", "body: "+err.Error(), ltx.Pos{})
		return
	}
	f, err := mon.DecodeLTXReader(bytes.NewReader(body), "")
	if err != nil {
		s.writeErr(w, 400, "EBADREQUEST", "ltx: "+err.Error(), ltx.Pos{})
		return
	}
	s.mu.Lock()
	pos := c14PosOfFiles(s.dbs[name])
	if pos.TXID+1 != f.Header.MinTXID || pos.PostApplyChecksum != f.Header.PreApplyChecksum {
		s.rejected++
		s.mu.Unlock()
		s.writeErr(w, 409, "EPOSMISMATCH", "position mismatch", pos)
		return
	}
	s.dbs[name] = append(s.dbs[name], body)
	hwm := uint64(0)
	if uint64(f.Header.MaxTXID) > s.lag {
		hwm = uint64(f.Header.MaxTXID) - s.lag
	}
	s.mu.Unlock()
	switch fault {
	case "srv-500-after-store":
		s.writeErr(w, 500, "EINTERNAL", "scripted: stored but failed", ltx.Pos{})
		return
	case "srv-close-after-store":
		if hj, ok := w.(http.Hijacker); ok {
			if conn, _, err := hj.Hijack(); err == nil {
				_ = conn.Close()
				return
			}
		}
		s.writeErr(w, 500, "EINTERNAL", "scripted", ltx.Pos{})
		return
	}
	w.Header().Set("Litefs-Hwm", ltx.TXID(hwm).String())
	w.Header().Set("Lfsc-Instance-Id", "harness-1")
	w.WriteHeader(200)
}

func (s *c14Cloud) handleSnapshot(w http.ResponseWriter, r *http.Request) {
	name := r.URL.Query().Get("db")
	files := s.files(name)
	if len(files) == 0 {
		s.writeErr(w, 404, "ENOTFOUND", "no such database", ltx.Pos{})
		return
	}
	// (a database deleted and recreated with another page size: the snapshot is
	// built from the first file of the newest page size on, which holds every page)
	start, lastPS := 0, uint32(0)
	for i, b := range files {
		var h ltx.Header
		if len(b) >= ltx.HeaderSize && h.UnmarshalBinary(b[:ltx.HeaderSize]) == nil {
			if i > 0 && h.PageSize != lastPS {
				start = i
			}
			lastPS = h.PageSize
		}
	}
	var rdrs []io.Reader
	for _, b := range files[start:] {
		rdrs = append(rdrs, bytes.NewReader(b))
	}
	var buf bytes.Buffer
	comp := ltx.NewCompactor(&buf, rdrs)
	if s.lz4 {
		comp.HeaderFlags = ltx.HeaderFlagCompressLZ4
	}
	if err := comp.Compact(r.Context()); err != nil {
		s.writeErr(w, 500, "EINTERNAL", err.Error(), ltx.Pos{})
		return
	}
	out := buf.Bytes()
	if start > 0 {
		// as a snapshot: first transaction ID 1, no pre-apply checksum
		dec := ltx.NewDecoder(bytes.NewReader(out))
		var sb bytes.Buffer
		enc := ltx.NewEncoder(&sb)
		err := dec.DecodeHeader()
		if err == nil {
			h := dec.Header()
			h.MinTXID, h.PreApplyChecksum = 1, 0
			err = enc.EncodeHeader(h)
			page := make([]byte, h.PageSize)
			for err == nil {
				var ph ltx.PageHeader
				if err = dec.DecodePage(&ph, page); err != nil {
					break
				}
				err = enc.EncodePage(ph, page)
			}
			if err == io.EOF {
				if err = dec.Close(); err == nil {
					enc.SetPostApplyChecksum(dec.Trailer().PostApplyChecksum)
					err = enc.Close()
				}
			}
		}
		if err != nil {
			s.writeErr(w, 500, "EINTERNAL", "snapshot across a page size change: "+err.Error(), ltx.Pos{})
			return
		}
		out = sb.Bytes()
	}
	w.WriteHeader(200)
	_, _ = w.Write(out)
}

// ---------------------------------------------------------------------------
// recording wrapper at the BackupClient boundary

type c14Event struct {
	Op       string `json:"op"`
	DB       string `json:"db,omitempty"`
	Min      uint64 `json:"min,omitempty"`
	Max      uint64 `json:"max,omitempty"`
	Snapshot bool   `json:"snapshot,omitempty"`
	Fault    string `json:"fault,omitempty"`
	HWM      uint64 `json:"hwm,omitempty"`
	Err      string `json:"err,omitempty"`
	PosMap   string `json:"posmap,omitempty"`
}

type c14Rec struct {
	inner    litefs.BackupClient
	mu       sync.Mutex
	events   []c14Event
	maxAcked map[string]uint64
	fault    string
	outage   atomic.Bool // the service is unreachable: every call fails at once
	// afterSnapshot, if set, runs once inside WriteTx after the service has stored
	// and acknowledged a snapshot upload and before LiteFS sees the answer
	afterSnapshot func()
	beforeFetch   func() // runs once at the start of the next FetchSnapshot
}

func (r *c14Rec) URL() string { return r.inner.URL() }
func (r *c14Rec) add(e c14Event) {
	r.mu.Lock()
	r.events = append(r.events, e)
	r.mu.Unlock()
}
func (r *c14Rec) setFault(f string) { r.mu.Lock(); r.fault = f; r.mu.Unlock() }
func (r *c14Rec) acked(db string) uint64 {
	r.mu.Lock()
	defer r.mu.Unlock()
	return r.maxAcked[db]
}
func (r *c14Rec) mark() int { r.mu.Lock(); defer r.mu.Unlock(); return len(r.events) }
func (r *c14Rec) since(i int) []c14Event {
	r.mu.Lock()
	defer r.mu.Unlock()
	return append([]c14Event{}, r.events[i:]...)
}

func (r *c14Rec) PosMap(ctx context.Context) (map[string]ltx.Pos, error) {
	if r.outage.Load() {
		r.add(c14Event{Op: "PosMap", Err: "scripted: service unreachable"})
		return nil, errors.New("scripted: service unreachable")
	}
	m, err := r.inner.PosMap(ctx)
	e := c14Event{Op: "PosMap", PosMap: fmt.Sprint(m)}
	if err != nil {
		e.Err = err.Error()
	}
	r.add(e)
	return m, err
}

type c14ErrReader struct{ err error }

func (e c14ErrReader) Read([]byte) (int, error) { return 0, e.err }

func (r *c14Rec) WriteTx(ctx context.Context, name string, rd io.Reader) (ltx.TXID, error) {
	r.mu.Lock()
	fault := r.fault
	if fault == "wrap-before" || fault == "wrap-mid" || fault == "wrap-lost-ack" {
		r.fault = ""
	} else {
		fault = "" // (other kinds belong to other calls)
	}
	r.mu.Unlock()
	e := c14Event{Op: "WriteTx", DB: name, Fault: fault}
	if r.outage.Load() {
		fault = "wrap-before"
	}
	if fault == "wrap-before" {
		e.Err = "scripted: upload failed before the body"
		r.add(e)
		return 0, errors.New(e.Err)
	}
	var tee bytes.Buffer
	src := io.Reader(io.TeeReader(rd, &tee))
	if fault == "wrap-mid" {
		src = io.MultiReader(io.LimitReader(src, int64(ltx.HeaderSize+40)), c14ErrReader{errors.New("scripted: connection lost mid-body")})
	}
	hwm, err := r.inner.WriteTx(ctx, name, src)
	if tee.Len() >= ltx.HeaderSize {
		var h ltx.Header
		if h.UnmarshalBinary(tee.Bytes()[:ltx.HeaderSize]) == nil {
			e.Min, e.Max, e.Snapshot = uint64(h.MinTXID), uint64(h.MaxTXID), h.IsSnapshot()
		}
	}
	if err == nil && fault == "wrap-lost-ack" {
		err = errors.New("scripted: acknowledgement lost")
		hwm = 0
	}
	if err == nil && e.Snapshot {
		r.mu.Lock()
		f := r.afterSnapshot
		r.afterSnapshot = nil
		r.mu.Unlock()
		if f != nil {
			f()
		}
	}
	if err != nil {
		e.Err = err.Error()
	} else {
		e.HWM = uint64(hwm)
		r.mu.Lock()
		if uint64(hwm) > r.maxAcked[name] {
			r.maxAcked[name] = uint64(hwm)
		}
		r.mu.Unlock()
	}
	r.add(e)
	return hwm, err
}

func (r *c14Rec) FetchSnapshot(ctx context.Context, name string) (io.ReadCloser, error) {
	r.mu.Lock()
	bf := r.beforeFetch
	r.beforeFetch = nil
	r.mu.Unlock()
	if bf != nil {
		bf() // (the fetch takes its time: whatever happens to the node meanwhile happens here)
	}
	rc, err := r.inner.FetchSnapshot(ctx, name)
	e := c14Event{Op: "FetchSnapshot", DB: name}
	r.mu.Lock()
	corrupt := r.fault == "wrap-corrupt-snapshot"
	if corrupt {
		r.fault = ""
	}
	r.mu.Unlock()
	if err == nil && corrupt {
		// the snapshot arrives damaged: full length, one byte flipped in a page
		b, rerr := io.ReadAll(rc)
		_ = rc.Close()
		if rerr == nil && len(b) > ltx.HeaderSize+64 {
			b[ltx.HeaderSize+40] ^= 0x5a
			e.Fault = "wrap-corrupt-snapshot"

			r.add(e)
			return io.NopCloser(bytes.NewReader(b)), nil
		}
		err = rerr
	}
	if err != nil {
		e.Err = err.Error()
	}
	r.add(e)
	return rc, err
}

// ---------------------------------------------------------------------------

type c14Chain struct {
	pos      mon.PosKey
	img      *ref.Image
	problems []string
	n        int
	digest   string
}

// c14ChainOf decodes the service's files and restores the image they describe.
func c14ChainOf(files [][]byte) c14Chain {
	var ch c14Chain
	h := sha256.New()
	var img *ref.Image
	var prev *mon.LTXFile
	for i, b := range files {
		h.Write(b)
		f, err := mon.DecodeLTXReader(bytes.NewReader(b), fmt.Sprintf("file %d", i))
		if err != nil {
			ch.problems = append(ch.problems, fmt.Sprintf("file %d does not decode/verify: %v", i, err))
			break
		}
		if prev == nil {
			if f.Header.MinTXID != 1 {
				ch.problems = append(ch.problems, fmt.Sprintf("first file starts at txid %d, not a snapshot", f.Header.MinTXID))
			}
		} else {
			if f.Header.MinTXID != prev.Header.MaxTXID+1 {
				ch.problems = append(ch.problems, fmt.Sprintf("file %d covers %d-%d after a file ending at %d (gap or overlap)", i, f.Header.MinTXID, f.Header.MaxTXID, prev.Header.MaxTXID))
			}
			if f.Header.PreApplyChecksum != prev.Trailer.PostApplyChecksum {
				ch.problems = append(ch.problems, fmt.Sprintf("file %d pre-apply checksum %x != previous post-apply %x", i, uint64(f.Header.PreApplyChecksum), uint64(prev.Trailer.PostApplyChecksum)))
			}
		}
		ch.problems = append(ch.problems, f.StructuralProblems()...)
		img = f.Apply(img)
		if got := img.Checksum(); got != uint64(f.Trailer.PostApplyChecksum) {
			ch.problems = append(ch.problems, fmt.Sprintf("restoring through file %d gives checksum %x, its trailer says %x", i, got, uint64(f.Trailer.PostApplyChecksum)))
		}
		prev = f
		ch.pos = mon.PosKey{TXID: uint64(f.Header.MaxTXID), Chk: uint64(f.Trailer.PostApplyChecksum)}
	}
	ch.img, ch.n = img, len(files)
	ch.digest = fmt.Sprintf("%d/%x", len(files), h.Sum(nil)[:8])
	return ch
}

type c14Node struct {
	n   *drv.Node
	w   *dbWriter
	rec *c14Rec
	tag string
}

func runC14(c *core.Case) {
	kind := []string{"file", "cloud"}[c.Index%2]
	wal := (c.Index/2)%2 == 1
	withReplica := c.Index%8 >= 6
	background := c.Index%11 == 10
	bigBackground := c.Index%22 == 21 // background loop + an outage that leaves >256 files pending
	ps := []uint32{1024, 512, 4096}[c.Rng.IntN(3)]
	c.Count("client_"+kind, 1)
	lag := uint64([]int{0, 1, 4}[c.Rng.IntN(3)])
	var svc c14Service
	if kind == "file" {
		svc = &c14FileSvc{dir: filepath.Join(c.Dir, "backup")}
		_ = os.MkdirAll(filepath.Join(c.Dir, "backup"), 0o755)
	} else {
		cs, err := newC14Cloud(lag, c.Rng.IntN(2) == 0)
		if err != nil {
			c.Inconclusive(err.Error())
			return
		}
		svc = cs
	}
	defer svc.close()
	led := newLedger()
	led.put("db", mon.PosKey{}, ref.NewImage(ps))
	tuningShadow := false // shadows are always driven by explicit syncs
	mkTune := func(rec *c14Rec) func(*litefs.Store) {
		return func(s *litefs.Store) {
			rec.inner = svc.client(s)
			if rec.maxAcked == nil { // (kept across a restart: the service did acknowledge those)
				rec.maxAcked = map[string]uint64{}
			}
			s.BackupClient = rec
			s.BackupDelay = 0
			if background && !tuningShadow {
				s.BackupDelay = 5 * time.Millisecond
				s.BackupFullSyncInterval = 60 * time.Millisecond
				if c.Index%44 == 32 {
					// (the lost-acknowledgement burst below needs the cached position map
					// to live long enough to matter)
					s.BackupFullSyncInterval = time.Second
				}
				if bigBackground {
					s.BackupFullSyncInterval = litefs.DefaultBackupFullSyncInterval
				}
			}
			s.Retention = time.Nanosecond
		}
	}
	recP := &c14Rec{}
	opts := []cluster.NodeOpts{{Candidate: true, Tune: mkTune(recP)}}
	if withReplica {
		opts = append(opts, cluster.NodeOpts{})
	}
	cl, err := cluster.New(c.Dir, opts)
	if err != nil {
		c.Inconclusive(err.Error())
		return
	}
	defer cl.Close()
	if err := cl.Start(0); err != nil || cl.WaitPrimary(0, 10*time.Second) == nil {
		c.Inconclusive("primary start")
		return
	}
	if withReplica {
		if err := cl.Start(1); err != nil || !cl.WaitConnected(1, 10*time.Second) {
			c.Inconclusive("replica start")
			return
		}
	}
	P := &c14Node{n: cl.Nodes[0].Node, rec: recP, tag: "primary"}
	var hist []string
	detail := func(extra map[string]any) map[string]any {
		d := map[string]any{"client": kind, "wal": wal, "page_size": ps, "hwm_lag": lag, "history": hist, "replica": withReplica, "background": background}
		ev := P.rec.since(0)
		if len(ev) > 40 {
			ev = ev[len(ev)-40:]
		}
		d["client_events_tail"] = ev
		for k, v := range extra {
			d[k] = v
		}
		return d
	}

	// continuous HWM sampler: the published mark never exceeds what was acknowledged
	var stop atomic.Bool
	var samples atomic.Int64
	var hwmBad atomic.Value
	var swg sync.WaitGroup
	swg.Add(1)
	var nodesMu sync.RWMutex // held exclusively while a node is restarted
	go func() {
		defer swg.Done()
		for !stop.Load() {
			nodesMu.RLock()
			for i, cn := range cl.Nodes {
				if !cn.Up || cn.Node == nil || cn.Node.Store == nil {
					continue
				}
				if db := cn.Node.Store.DB("db"); db != nil {
					h := uint64(db.HWM())
					// read the acknowledged mark after the published one
					if a := recP.acked("db"); h > a {
						hwmBad.CompareAndSwap(nil, fmt.Sprintf("node n%d publishes high-water mark %d but the service has acknowledged at most %d", i, h, a))
					}
					samples.Add(1)
				}
			}
			nodesMu.RUnlock()
			time.Sleep(200 * time.Microsecond)
		}
	}()
	defer func() {
		stop.Store(true)
		swg.Wait()
		c.Count("hwm_samples", int(samples.Load()))
	}()
	checkHWM := func() bool {
		if v := hwmBad.Load(); v != nil {
			c.Violate("C14/hwm-exceeds-acknowledged", v.(string), detail(nil))
			return true
		}
		return false
	}

	// writers
	openWriter := func(nd *c14Node, fresh bool) error {
		if nd.w != nil {
			nd.w.close()
			nd.w = nil
		}
		var img *ref.Image
		if !fresh {
			img = mon.RawImage(mon.DBDir(nd.n, "db"))
		}
		w, err := newWriter(nd.n, "db", ps, wal, "delete", img, c.SubRng(fmt.Sprintf("w-%s-%d", nd.tag, len(hist))), led, 1)
		if err != nil {
			return err
		}
		w.d.BusyRetries = 4000
		nd.w = w
		return nil
	}
	commitN := func(nd *c14Node, k int) error {
		if nd.w == nil {
			if err := openWriter(nd, false); err != nil {
				return err
			}
		}
		if nd.w.d.M.PageN == 0 {
			if err := nd.w.ensure(uint32(3 + c.Rng.IntN(4))); err != nil {
				return err
			}
			k--
		} else if err := nd.w.ensure(0); err != nil {
			return err
		}
		for done, tries := 0, 0; done < k && tries < 3*k+10; tries++ {
			ok, err := nd.w.txn(2)
			if err != nil {
				return err
			}
			if ok {
				done++
			}
		}
		return nil
	}
	defer func() {
		if P.w != nil {
			P.w.close()
		}
	}()

	// one judged sync of node nd; returns the events it caused
	syncOnce := func(nd *c14Node) ([]c14Event, error) {
		m := nd.rec.mark()
		ctx, cancel := context.WithTimeout(context.Background(), 20*time.Second)
		err := nd.n.Store.SyncBackup(ctx)
		cancel()
		return nd.rec.since(m), err
	}
	// once a sync has returned nothing of it may still hold database locks: the
	// lock table must be what it was before the sync (the application is idle;
	// an open WAL-mode connection keeps its own SHARED/DMS locks throughout)
	lockTable := func(nd *c14Node) string {
		db := nd.n.Store.DB("db")
		if db == nil {
			return ""
		}
		st := mon.LockStates(db)
		var keys []string
		for k, v := range st {
			if v != "unlocked" && v != "" {
				keys = append(keys, k+"="+v)
			}
		}
		sort.Strings(keys)
		return strings.Join(keys, ",")
	}
	// stableLocks samples the lock table until it stops changing (a replica
	// fetching a snapshot from this node holds read locks for a moment)
	stableLocks := func(nd *c14Node) string {
		cur, same := lockTable(nd), 0
		for i := 0; i < 400 && same < 3; i++ {
			time.Sleep(time.Millisecond)
			if n := lockTable(nd); n == cur {
				same++
			} else {
				cur, same = n, 0
			}
		}
		return cur
	}
	subset := func(a, b string) bool {
		have := map[string]bool{}
		for _, x := range strings.Split(b, ",") {
			have[x] = true
		}
		for _, x := range strings.Split(a, ",") {
			if x != "" && !have[x] {
				return false
			}
		}
		return true
	}
	locksFree := func(nd *c14Node, ctx, before string) bool {
		after := lockTable(nd)
		// a leak is permanent, so wait out transient holders
		for i := 0; i < 1500 && !subset(after, before); i++ {
			time.Sleep(2 * time.Millisecond)
			after = lockTable(nd)
		}
		if !subset(after, before) {
			c.Violate("C14/locks-held-after-sync", fmt.Sprintf("%s: the sync has returned but it left database locks held (before: [%s], after: [%s]): local transactions and restores block from here on", ctx, before, after), detail(nil))
			return false
		}
		return true
	}
	judgeService := func(ctx string) (c14Chain, bool) {
		ch := c14ChainOf(svc.files("db"))
		if len(ch.problems) > 0 {
			c.Violate("C14/service-chain-broken", fmt.Sprintf("%s: the service's files are not a contiguous verified chain: %s", ctx, strings.Join(ch.problems, "; ")), detail(map[string]any{"service_pos": ch.pos.String()}))
			return ch, false
		}
		if ch.n > 0 {
			want, ok := led.get("db", ch.pos)
			if !ok {
				c.Violate("C14/service-off-history", fmt.Sprintf("%s: the service is at %s, which no committed transaction ever produced", ctx, ch.pos), detail(nil))
				return ch, false
			}
			if d := ch.img.Diff(want); d != "" {
				c.Violate("C14/restored-image-wrong", fmt.Sprintf("%s: the image restored from the service's files at %s differs from the committed image at that position: %s", ctx, ch.pos, d), detail(nil))
				return ch, false
			}
		}
		return ch, true
	}
	primaryState := func(nd *c14Node) (mon.PosKey, *ref.Image) {
		return mon.PosOf(nd.n, "db"), mon.RawImage(mon.DBDir(nd.n, "db"))
	}

	// converge: repeated syncs on an idle node must reach the node's position
	converge := func(nd *c14Node, ctx string, maxSyncs int, expectRestore string) bool {
		restored := false
		uploads := 0
		var lastErr error
		for i := 0; i < maxSyncs; i++ {
			before, _ := primaryState(nd)
			svcBefore := c14ChainOf(svc.files("db"))
			locksBefore := stableLocks(nd)
			evs, err := syncOnce(nd)
			lastErr = err
			c.Count("syncs_judged", 1)
			for _, e := range evs {
				if e.Op == "WriteTx" {
					c.Count("uploads_seen", 1)
					if e.Err == "" {
						uploads++
						if e.Snapshot {
							c.Count("snapshot_uploads", 1)
						}
					}
				}
				if e.Op == "FetchSnapshot" && e.Err == "" {
					restored = true
					c.Count("restores_seen", 1)
				}
			}
			if healthViolations(c, nd.n, ctx, detail(nil)) || !locksFree(nd, ctx, locksBefore) {
				return false
			}
			ch, ok := judgeService(ctx)
			if !ok || checkHWM() {
				return false
			}
			after, img := primaryState(nd)
			if want, ok := led.get("db", after); !ok {
				c.Violate("C14/node-off-history", fmt.Sprintf("%s: after the sync the node is at %s, which no committed transaction ever produced", ctx, after), detail(nil))
				return false
			} else if d := img.Diff(want); d != "" {
				c.Violate("C14/node-image-wrong", fmt.Sprintf("%s: after the sync the node's database at %s differs from the committed image at that position: %s", ctx, after, d), detail(nil))
				return false
			}
			switch expectRestore {
			case "never":
				for _, e := range evs {
					if e.Op == "FetchSnapshot" {
						c.Violate("C14/spurious-restore", fmt.Sprintf("%s: the service (%s) was on the node's own history and could be extended from its log, yet the node fetched the service's snapshot (node %s -> %s)", ctx, svcBefore.pos, before, after), detail(nil))
						return false
					}
				}
				if after != before {
					c.Violate("C14/position-moved-by-sync", fmt.Sprintf("%s: a sync against an on-chain service moved the node from %s to %s", ctx, before, after), detail(nil))
					return false
				}
			case "must":
				if i == 0 {
					if svcBefore.digest != ch.digest {
						c.Violate("C14/service-overwritten", fmt.Sprintf("%s: the service was ahead of / forked from the node (service %s, node %s) and the sync changed the service's files (%s -> %s)", ctx, svcBefore.pos, before, svcBefore.digest, ch.digest), detail(nil))
						return false
					}
					if err == nil && after != ch.pos {
						c.Violate("C14/service-not-adopted", fmt.Sprintf("%s: the service was ahead of / forked from the node (service %s, node %s); after a successful sync the node is at %s", ctx, svcBefore.pos, before, after), detail(nil))
						return false
					}
				}
			}
			if after == ch.pos && ch.n > 0 {
				if d := ch.img.Diff(img); d != "" {
					c.Violate("C14/restored-differs-from-primary", fmt.Sprintf("%s: positions agree at %s but the image restored from the service differs from the node's: %s", ctx, after, d), detail(nil))
					return false
				}
				c.Count("converged_identical", 1)
				if expectRestore == "must" {
					if !restored {
						c.Violate("C14/service-not-adopted", fmt.Sprintf("%s: positions agree but the node never fetched the service's snapshot", ctx), detail(nil))
						return false
					}
					c.Count("adopted_service", 1)
				}
				c.Distinct(fmt.Sprintf("%s/wal%v/%s/restored%v/uploads%d", kind, wal, strings.SplitN(ctx, " ", 2)[0], restored, min(uploads, 3)))
				return true
			}
			if after.TXID == 0 && ch.n == 0 {
				return true // nothing anywhere
			}
		}
		after, _ := primaryState(nd)
		ch := c14ChainOf(svc.files("db"))
		c.Violate("C14/not-converged", fmt.Sprintf("%s: after %d syncs on an idle node the service is at %s and the node at %s (last sync error: %v)", ctx, maxSyncs, ch.pos, after, lastErr), detail(nil))
		return false
	}

	// shadow: a second store that restores from the service and extends it
	var shadow *c14Node
	shadowSeq := 0
	closeShadow := func() {
		if shadow != nil {
			if shadow.w != nil {
				shadow.w.close()
			}
			shadow.n.Close()
			shadow = nil
		}
	}
	defer closeShadow()
	extendViaShadow := func(k int) bool {
		closeShadow()
		shadowSeq++
		rec := &c14Rec{}
		tuningShadow = true
		n, err := newPrimary(filepath.Join(c.Dir, fmt.Sprintf("shadow%d", shadowSeq)), mkTune(rec))
		tuningShadow = false
		if err != nil {
			c.Inconclusive("shadow: " + err.Error())
			return false
		}
		shadow = &c14Node{n: n, rec: rec, tag: fmt.Sprintf("shadow%d", shadowSeq)}
		// the shadow has no local copy: it must restore from the service
		if !converge(shadow, "shadow-restore (no local copy)", 3, "") {
			return false
		}
		if err := commitN(shadow, k); err != nil {
			c.Violate("C14/setup", "shadow commit: "+err.Error(), detail(nil))
			return false
		}
		if !converge(shadow, "shadow-upload", 4, "never") {
			return false
		}
		closeShadow()
		return true
	}

	snapRace := background && c.Index%44 == 32 // a commit lands inside the acknowledged snapshot upload
	if snapRace {
		P.rec.outage.Store(true) // nothing is uploaded before the race is armed
	}
	if background && c.Index%22 == 10 && !snapRace {
		// A service that already holds a chain for the database (left by an earlier
		// primary) and a fresh primary running the background loop: the application
		// creates the (still empty) file, a stream round runs, then the first local
		// commit arrives. The service's chain must stay intact and the primary must
		// end up adopting it.
		c.Count("background_cases", 1)
		if !extendViaShadow(2 + c.Rng.IntN(3)) {
			return
		}
		svcBefore := c14ChainOf(svc.files("db"))
		hist = append(hist, fmt.Sprintf("service holds a chain up to %s from an earlier primary", svcBefore.pos))
		f, err := P.n.OpenOrCreate("db")
		if err != nil {
			c.Violate("C14/setup", "create: "+err.Error(), detail(nil))
			return
		}
		_ = f.Release()
		m0 := P.rec.mark()
		for dl := time.Now().Add(10 * time.Second); time.Now().Before(dl); {
			n := 0
			for _, e := range P.rec.since(m0) {
				if e.Op == "PosMap" && e.Err == "" {
					n++
				}
			}
			if n >= 2 { // one whole round has run since the file exists
				break
			}
			time.Sleep(5 * time.Millisecond)
		}
		time.Sleep(20 * time.Millisecond)
		if c.Index%44 == 10 {
			// the application only looks (its file stays empty): the service is
			// ahead of the primary, which has to adopt it without any local commit
			for dl := time.Now().Add(20 * time.Second); mon.PosOf(P.n, "db").TXID == 0 && time.Now().Before(dl); {
				time.Sleep(5 * time.Millisecond)
			}
			if mon.PosOf(P.n, "db").TXID == 0 {
				refreshes := 0
				for _, e := range P.rec.since(m0) {
					if e.Op == "PosMap" && e.Err == "" {
						refreshes++
					}
				}
				if refreshes < 8 {
					c.Inconclusive("background loop made too few rounds within the watchdog")
					return
				}
				c.Violate("C14/service-not-adopted", fmt.Sprintf("empty-local: the service holds a chain up to %s for a database whose local file exists but was never written (position zero); after %d position-map refreshes on the idle primary the service's snapshot has not been adopted", svcBefore.pos, refreshes), detail(nil))
				return
			}
			c.Count("fresh_idle_primary_adopted_existing_service", 1)
		}
		if mon.PosOf(P.n, "db").TXID == 0 {
			// not restored yet: the application commits its first transaction
			if err := openWriter(P, true); err == nil {
				_ = P.w.ensure(uint32(3 + c.Rng.IntN(3)))
				P.w.close()
				P.w = nil
			}
			hist = append(hist, "first local commit on the fresh primary")
		} else {
			hist = append(hist, "the fresh primary restored from the service before the application wrote")
		}
		deadline := time.Now().Add(30 * time.Second)
		for {
			ch, ok := judgeService("fresh primary over an existing service")
			if !ok || checkHWM() {
				return
			}
			if ch.n < svcBefore.n || c14ChainOf(svc.files("db")[:svcBefore.n]).digest != svcBefore.digest {
				c.Violate("C14/service-overwritten", fmt.Sprintf("the service held a chain up to %s; the fresh primary's uploads changed those files (now %d files ending at %s)", svcBefore.pos, ch.n, ch.pos), detail(nil))
				return
			}
			if pos := mon.PosOf(P.n, "db"); pos == ch.pos && pos.TXID >= svcBefore.pos.TXID {
				img := mon.RawImage(mon.DBDir(P.n, "db"))
				if d := ch.img.Diff(img); d != "" {
					c.Violate("C14/restored-differs-from-primary", "fresh primary over an existing service: "+d, detail(nil))
					return
				}
				c.Count("converged_identical", 1)
				c.Count("adopted_service", 1)
				c.Count("background_converged", 1)
				c.Count("fresh_primary_adopted_existing_service", 1)
				c.Distinct("background/fresh-over-existing")
				return
			}
			if time.Now().After(deadline) {
				pos := mon.PosOf(P.n, "db")
				refreshes := 0
				for _, e := range P.rec.since(m0) {
					if e.Op == "PosMap" && e.Err == "" {
						refreshes++
					}
				}
				if refreshes >= 8 {
					c.Violate("C14/not-converged", fmt.Sprintf("fresh primary over an existing service: after %d position-map refreshes the service is at %s and the primary at %s", refreshes, ch.pos, pos), detail(nil))
				} else {
					c.Inconclusive("background loop made too few rounds within the watchdog")
				}
				return
			}
			time.Sleep(10 * time.Millisecond)
		}
	}
	// ---- initial history: create, commit, first sync (snapshot upload)
	if err := commitN(P, 2+c.Rng.IntN(3)); err != nil {
		c.Violate("C14/setup", err.Error(), detail(nil))
		return
	}
	hist = append(hist, "create+commits")
	if background && c.Index%44 == 43 {
		// Somebody else moves the service while the background loop runs with its
		// cached position map (a late upload of a former primary): the primary's
		// next upload is refused by the SERVICE, the primary adopts the service's
		// state - and from then on its commits must reach the service again, without
		// another restore and without being lost.
		c.Count("background_cases", 1)
		waitEqual := func(ctx string) bool {
			for dl := time.Now().Add(40 * time.Second); time.Now().Before(dl); time.Sleep(5 * time.Millisecond) {
				if ch := c14ChainOf(svc.files("db")); len(ch.problems) == 0 && ch.pos == mon.PosOf(P.n, "db") && ch.pos.TXID > 0 {
					return true
				}
			}
			c.Inconclusive("background loop (" + ctx + "): service and primary did not meet within the watchdog")
			return false
		}
		if !waitEqual("first upload") {
			return
		}
		if !extendViaShadow(1 + c.Rng.IntN(2)) {
			return
		}
		hist = append(hist, "another uploader extended the service to "+c14ChainOf(svc.files("db")).pos.String())
		if err := commitN(P, 1); err != nil {
			c.Violate("C14/commit-failed", err.Error(), detail(nil))
			return
		}
		hist = append(hist, "local commit on the stale position (refused by the service, the primary adopts the service)")
		if !waitEqual("adoption after the service refused an upload") {
			return
		}
		if P.w != nil {
			P.w.close()
			P.w = nil
		}
		m1 := P.rec.mark()
		if err := openWriter(P, false); err != nil {
			c.Violate("C14/setup", "reopen: "+err.Error(), detail(nil))
			return
		}
		if err := commitN(P, 1+c.Rng.IntN(2)); err != nil {
			c.Violate("C14/commit-failed", "after the adoption: "+err.Error(), detail(nil))
			return
		}
		want := mon.PosKey{TXID: mon.PosOf(P.n, "db").TXID, Chk: P.w.d.M.Checksum()}
		hist = append(hist, "commits after the adoption, up to "+want.String())
		deadline := time.Now().Add(40 * time.Second)
		for {
			pos := mon.PosOf(P.n, "db")
			ch := c14ChainOf(svc.files("db"))
			restores := 0
			for _, e := range P.rec.since(m1) {
				if e.Op == "FetchSnapshot" {
					restores++
				}
			}
			if restores > 0 || pos != want {
				c.Violate("C14/spurious-restore", fmt.Sprintf("refused-upload: after the service refused an upload and the primary adopted the service's state, the primary committed up to %s; the service held a strict prefix of that, yet the primary fetched the service's snapshot %d time(s) and is at %s now: acknowledged commits are gone", want, restores, pos), detail(nil))
				return
			}
			if len(ch.problems) == 0 && ch.pos == want {
				break
			}
			if time.Now().After(deadline) {
				c.Inconclusive("background loop (refused-upload): too few rounds within the watchdog")
				return
			}
			time.Sleep(5 * time.Millisecond)
		}
		if _, ok := judgeService("refused-upload"); !ok || checkHWM() {
			return
		}
		c.Count("background_converged", 1)
		c.Count("converged_identical", 1)
		c.Count("background_refused_upload_then_commits_kept", 1)
		c.Distinct("background/refused-upload")
		return
	}
	if background {
		c14Background(c, cl, P, svc, led, commitN, judgeService, checkHWM, detail, bigBackground, snapRace)
		return
	}
	if !converge(P, "initial (service empty)", 3, "never") {
		return
	}

	rounds := 3 + c.Rng.IntN(3)
	if c.Tier == "thorough" {
		rounds = 4 + c.Rng.IntN(5)
	}
	for round := 0; round < rounds; round++ {
		rel := c14Relations[(c.Index/2+round*5+c.Rng.IntN(2)*3)%len(c14Relations)]
		// big batches are expensive: one per 8 cases in quick
		if round == 0 && c.Index%16 < 2 {
			rel = "big-batch"
		} else if rel == "big-batch" && c.Tier != "thorough" {
			rel = "behind"
		}
		if round == 1 && (c.Index%8 == 3 || c.Index%8 == 6) {
			rel = "stale-hwm"
		}
		hist = append(hist, rel)
		expect := "never"
		maxSyncs := 4
		switch rel {
		case "stale-hwm":
			// Four single-transaction uploads (the high-water mark follows), then the
			// service loses the newest three and another primary extends it by one:
			// this node is restored to a position two below its high-water mark. Its
			// next commits have IDs at or below that stale mark; a retention sweep
			// must not take them for backed up.
			for i := 0; i < 4; i++ {
				if err := commitN(P, 1); err != nil {
					c.Violate("C14/commit-failed", fmt.Sprintf("%s: %v", rel, err), detail(nil))
					return
				}
				if !converge(P, "stale-hwm (upload)", maxSyncs, "never") {
					return
				}
			}
			svc.dropNewest("db", 3)
			if !extendViaShadow(1) {
				return
			}
			if !converge(P, "stale-hwm (restore)", maxSyncs, "must") {
				return
			}
			if err := openWriter(P, false); err != nil {
				c.Violate("C14/setup", "reattach writer: "+err.Error(), detail(nil))
				return
			}
			replicaCaughtUp := false
			if withReplica {
				// (the replica first follows the restore - by snapshot, which carries no
				// high-water mark - so that the next commits reach it as ordinary
				// transaction frames, each followed by the primary's current mark)
				replicaCaughtUp, _, _ = cl.WaitConverged(cl.Nodes[0], cl.Nodes[1], []string{"db"}, 12, 30*time.Second)
			}
			if err := commitN(P, 2); err != nil {
				c.Violate("C14/commit-failed", fmt.Sprintf("%s: %v", rel, err), detail(nil))
				return
			}
			if withReplica && replicaCaughtUp {
				// the primary lowered its high-water mark when it was restored; once the
				// replica has received the transactions committed since, the mark it holds
				// must not be above what the service holds either (a replica is the next
				// primary, and retention works from that mark)
				if ok, _, _ := cl.WaitConverged(cl.Nodes[0], cl.Nodes[1], []string{"db"}, 12, 30*time.Second); ok {
					svcPos := c14ChainOf(svc.files("db")).pos
					var rh uint64
					for i := 0; i < 400; i++ {
						if rdb := cl.Nodes[1].Store.DB("db"); rdb != nil {
							rh = uint64(rdb.HWM())
						}
						if rh <= svcPos.TXID {
							break
						}
						time.Sleep(5 * time.Millisecond)
					}
					if rh > svcPos.TXID {
						c.Violate("C14/replica-hwm-above-service", fmt.Sprintf("the replica's high-water mark is %d while the service holds the database only up to %s (the primary publishes %d)", rh, svcPos, uint64(P.n.Store.DB("db").HWM())), detail(nil))
						return
					}
					c.Count("replica_hwm_followed_restore", 1)
				}
			}
			time.Sleep(2 * time.Millisecond)
			_ = P.n.Store.EnforceRetention(context.Background())
		case "behind":
			if err := commitN(P, 1+c.Rng.IntN(6)); err != nil {
				c.Violate("C14/commit-failed", fmt.Sprintf("%s: %v", rel, err), detail(nil))
				return
			}
		case "equal":
		case "big-batch":
			k := 257 + c.Rng.IntN(80)
			if err := commitN(P, k); err != nil {
				c.Violate("C14/commit-failed", fmt.Sprintf("%s: %v", rel, err), detail(nil))
				return
			}
			c.Count("batches_over_256", 1)
			maxSyncs = 5
		case "after-drop":
			if err := commitN(P, 1+c.Rng.IntN(3)); err != nil {
				c.Violate("C14/commit-failed", fmt.Sprintf("%s: %v", rel, err), detail(nil))
				return
			}
			if P.w != nil {
				P.w.close()
				P.w = nil
			}
			prev := mon.PosOf(P.n, "db")
			if err := P.n.Remove("db"); err != nil {
				c.Violate("C14/setup", "drop: "+err.Error(), detail(nil))
				return
			}
			led.put("db", mon.PosKey{TXID: prev.TXID + 1, Chk: ref.ChecksumFlag}, ref.NewImage(ps))
			if c.Rng.IntN(2) == 0 {
				if !converge(P, "after-drop (dropped, not recreated)", maxSyncs, expect) {
					return
				}
			}
			if c.Rng.IntN(2) == 0 {
				// the new incarnation has another page size
				ps = map[uint32]uint32{1024: 4096, 512: 1024, 4096: 512}[ps]
				hist = append(hist, fmt.Sprintf("recreated with page size %d", ps))
				c.Count("recreated_with_other_page_size", 1)
			}
			if err := openWriter(P, true); err != nil {
				c.Violate("C14/setup", "recreate: "+err.Error(), detail(nil))
				return
			}
			if err := commitN(P, 1+c.Rng.IntN(3)); err != nil {
				c.Violate("C14/commit-failed", fmt.Sprintf("%s: %v", rel, err), detail(nil))
				return
			}
		case "after-retention":
			if err := commitN(P, 2+c.Rng.IntN(5)); err != nil {
				c.Violate("C14/commit-failed", fmt.Sprintf("%s: %v", rel, err), detail(nil))
				return
			}
			if c.Rng.IntN(2) == 0 {
				if !converge(P, "after-retention (pre-sync)", maxSyncs, expect) {
					return
				}
				_ = commitN(P, 1+c.Rng.IntN(4))
			}
			time.Sleep(2 * time.Millisecond)
			_ = P.n.Store.EnforceRetention(context.Background())
		case "restart-retention":
			// commits the service has not seen, a restart (the high-water mark is
			// back to zero until the next acknowledgement), then a retention sweep:
			// nothing the service lacks may be swept, so the next sync extends it
			if err := commitN(P, 2+c.Rng.IntN(4)); err != nil {
				c.Violate("C14/commit-failed", fmt.Sprintf("%s: %v", rel, err), detail(nil))
				return
			}
			if P.w != nil {
				P.w.close()
				P.w = nil
			}
			nodesMu.Lock()
			cl.Stop(0)
			err := cl.Start(0)
			nodesMu.Unlock()
			if err != nil || cl.WaitPrimary(0, 10*time.Second) == nil {
				c.Inconclusive(fmt.Sprintf("primary restart: %v", err))
				return
			}
			P.n = cl.Nodes[0].Node
			if healthViolations(c, P.n, "restart", detail(nil)) {
				return
			}
			time.Sleep(3 * time.Millisecond)
			_ = P.n.Store.EnforceRetention(context.Background())
			if c.Rng.IntN(2) == 0 {
				if err := commitN(P, 1+c.Rng.IntN(2)); err != nil {
					c.Violate("C14/commit-failed", fmt.Sprintf("%s: %v", rel, err), detail(nil))
					return
				}
			}
		case "ahead":
			if !extendViaShadow(1 + c.Rng.IntN(4)) {
				return
			}
			expect = "must"
		case "fork-ahead", "fork-same-txid", "fork-behind":
			j := 1 + c.Rng.IntN(3)
			k := j
			switch rel {
			case "fork-ahead":
				k = j + 1 + c.Rng.IntN(3)
			case "fork-behind":
				j = 2 + c.Rng.IntN(3)
				k = 1 + c.Rng.IntN(j-1)
			}
			if !extendViaShadow(k) {
				return
			}
			if err := commitN(P, j); err != nil {
				c.Violate("C14/commit-failed", fmt.Sprintf("%s: %v", rel, err), detail(nil))
				return
			}
			expect = "must"
		case "missing":
			if err := commitN(P, c.Rng.IntN(3)); err != nil {
				c.Violate("C14/commit-failed", fmt.Sprintf("%s: %v", rel, err), detail(nil))
				return
			}
			svc.wipe("db")
		case "rolled-back":
			if err := commitN(P, c.Rng.IntN(3)); err != nil {
				c.Violate("C14/commit-failed", fmt.Sprintf("%s: %v", rel, err), detail(nil))
				return
			}
			if c.Rng.IntN(2) == 0 {
				time.Sleep(2 * time.Millisecond)
				_ = P.n.Store.EnforceRetention(context.Background())
			}
			svc.dropNewest("db", 1+c.Rng.IntN(2))
			expect = ""
		}
		c.Count("rel_"+rel, 1)

		// an upload fault on the first sync of some rounds
		fault := ""
		if (c.Index/2+round)%2 == 0 && expect != "must" && rel != "equal" {
			// fixed rotation (not the PRNG) so that every fault kind is met in every run
			fs := c14Faults
			if kind != "cloud" {
				fs = c14Faults[:3]
			}
			fault = fs[(c.Index/4+round)%len(fs)]
			hist = append(hist, "fault:"+fault)
			before, _ := primaryState(P)
			locksBefore := stableLocks(P)
			P.rec.setFault(fault)
			svc.setFault(fault)
			evs, err := syncOnce(P)
			P.rec.setFault("")
			svc.setFault("")
			c.Count("syncs_judged", 1)
			hit := false
			for _, e := range evs {
				if e.Op == "WriteTx" {
					c.Count("uploads_seen", 1)
					if e.Err != "" {
						hit = true
					}
				}
			}
			if hit {
				c.Count("fault_"+fault, 1)
				if err == nil {
					c.Violate("C14/failed-upload-reported-success", fmt.Sprintf("the upload failed (%s) but SyncBackup returned success", fault), detail(nil))
					return
				}
			}
			if _, ok := judgeService("after fault " + fault); !ok || checkHWM() || !locksFree(P, "after fault "+fault, locksBefore) {
				return
			}
			if after, _ := primaryState(P); after != before && expect == "never" {
				c.Violate("C14/position-moved-by-sync", fmt.Sprintf("a failed sync (%s) moved the node from %s to %s", fault, before, after), detail(nil))
				return
			}
			// the node must remain writable after a failed upload
			if hit {
				if err := commitN(P, 1); err != nil {
					c.Violate("C14/writer-stuck-after-failed-upload", fmt.Sprintf("after the failed upload (%s) a local transaction could not commit: %v", fault, err), detail(map[string]any{"locks": fmt.Sprint(mon.LockStates(P.n.Store.DB("db")))}))
					return
				}
			}
			if hit && strings.Contains(fault, "lost-ack") || strings.Contains(fault, "after-store") {
				defer c.Count("lost_ack_then_converged", 1)
			}
		}
		if expect == "must" && (c.Index/2+round)%2 == 1 {
			// the service's snapshot arrives damaged once: the restore must fail
			// without touching the node's database, position or log
			hist = append(hist, "fault:wrap-corrupt-snapshot")
			before, bimg := primaryState(P)
			ltxDir := filepath.Join(mon.DBDir(P.n, "db"), "ltx")
			P.rec.setFault("wrap-corrupt-snapshot")
			evs, err := syncOnce(P)
			P.rec.setFault("")
			c.Count("syncs_judged", 1)
			hit := false
			for _, e := range evs {
				if e.Fault == "wrap-corrupt-snapshot" {
					hit = true
				}
			}
			if hit {
				c.Count("fault_wrap-corrupt-snapshot", 1)
				if healthViolations(c, P.n, "damaged snapshot", detail(nil)) {
					return
				}
				after, aimg := primaryState(P)
				if err == nil {
					c.Violate("C14/damaged-snapshot-accepted", fmt.Sprintf("the service's snapshot arrived with a flipped byte and the sync reported success (node %s -> %s)", before, after), detail(nil))
					return
				}
				if after != before || aimg.Diff(bimg) != "" {
					c.Violate("C14/damaged-snapshot-changed-node", fmt.Sprintf("a damaged snapshot from the service was refused but changed the node: %s -> %s (%s)", before, after, aimg.Diff(bimg)), detail(nil))
					return
				}
				if before.TXID > 0 {
					if probs := mon.ChainProblems(ltxDir, before.TXID, before.Chk); len(probs) > 0 {
						c.Violate("C14/damaged-snapshot-broke-log", fmt.Sprintf("a damaged snapshot from the service was refused but the node's transaction log no longer ends at its position %s: %s", before, strings.Join(probs, "; ")), detail(nil))
						return
					}
				}
			}
		}
		if !converge(P, rel+" round", maxSyncs, expect) {
			return
		}
		if expect != "never" || rel == "after-drop" {
			// the node's image may have been replaced: reattach the writer
			if err := openWriter(P, false); err != nil {
				c.Violate("C14/setup", "reattach writer: "+err.Error(), detail(nil))
				return
			}
		}
		// replica follows and its high-water mark obeys the same bound
		if withReplica {
			ok, _, timedOut := cl.WaitConverged(cl.Nodes[0], cl.Nodes[1], []string{"db"}, 12, 30*time.Second)
			if !ok && !timedOut {
				c.Count("replica_not_converged", 1)
			}
			if checkHWM() {
				return
			}
			c.Count("replica_rounds", 1)
		}
	}
	if c.Index < 8 {
		c.Sample(detail(nil))
	}
}

// c14Background: the store's own backup loop (BackupDelay > 0) instead of
// explicit syncs: commits arrive while it runs; the service is judged after
// every burst and at the end must reach the primary's position. The service is
// on the primary's own history throughout, so nothing may ever be restored and
// no committed transaction may be lost.
func c14Background(c *core.Case, cl *cluster.Cluster, P *c14Node, svc c14Service, led *ledger,
	commitN func(*c14Node, int) error, judgeService func(string) (c14Chain, bool), checkHWM func() bool, detail func(map[string]any) map[string]any, big, snapRace bool) {
	c.Count("background_cases", 1)
	noRestore := func(ctx string) bool {
		for _, e := range P.rec.since(0) {
			if e.Op == "FetchSnapshot" {
				c.Violate("C14/spurious-restore", fmt.Sprintf("background loop (%s): the service was on the primary's own history all along, yet the primary fetched the service's snapshot", ctx), detail(nil))
				return false
			}
		}
		if P.w != nil {
			want := mon.PosKey{TXID: 0}
			if p := mon.PosOf(P.n, "db"); P.w.d.M != nil {
				want = mon.PosKey{TXID: p.TXID, Chk: P.w.d.M.Checksum()}
				if p != want {
					c.Violate("C14/committed-transactions-lost", fmt.Sprintf("background loop (%s): the primary is at %s but its application last committed an image with checksum %x", ctx, p, want.Chk), detail(nil))
					return false
				}
			}
		}
		return true
	}
	// waitService waits (watchdog only) until the service reaches a position
	waitService := func(ctx string, reached func(ch c14Chain, pos mon.PosKey) bool, maxRefreshes int) (ok, inconclusive bool) {
		start := P.rec.mark()
		deadline := time.Now().Add(40 * time.Second)
		for {
			pos := mon.PosOf(P.n, "db")
			ch := c14ChainOf(svc.files("db"))
			if len(ch.problems) == 0 && reached(ch, pos) {
				return true, false
			}
			refreshes := 0
			for _, e := range P.rec.since(start) {
				if e.Op == "PosMap" && e.Err == "" {
					refreshes++
				}
			}
			if maxRefreshes > 0 && refreshes >= maxRefreshes {
				c.Violate("C14/not-converged", fmt.Sprintf("background loop (%s): %d position-map refreshes after the last commit the service is at %s and the primary at %s", ctx, refreshes, ch.pos, pos), detail(nil))
				return false, false
			}
			if time.Now().After(deadline) {
				c.Inconclusive("background loop (" + ctx + ") made too few rounds within the watchdog")
				return false, true
			}
			time.Sleep(5 * time.Millisecond)
		}
	}
	atPrimary := func(ch c14Chain, pos mon.PosKey) bool { return ch.pos == pos }
	finish := func(ctx string) {
		if _, ok := judgeService(ctx); !ok || checkHWM() || !noRestore(ctx) {
			return
		}
		ch := c14ChainOf(svc.files("db"))
		img := mon.RawImage(mon.DBDir(P.n, "db"))
		if d := ch.img.Diff(img); d != "" {
			c.Violate("C14/restored-differs-from-primary", "background: "+d, detail(nil))
			return
		}
		c.Count("converged_identical", 1)
		c.Count("background_converged", 1)
		c.Distinct("background/converged/" + ctx)
	}
	if big {
		// the first snapshot reaches the service, then an outage during a write burst
		if ok, _ := waitService("first upload", atPrimary, 0); !ok {
			return
		}
		base := mon.PosOf(P.n, "db")
		P.rec.outage.Store(true)
		k := 257 + c.Rng.IntN(60)
		if err := commitN(P, k); err != nil {
			c.Violate("C14/commit-failed", "background outage: "+err.Error(), detail(nil))
			return
		}
		P.rec.outage.Store(false)
		c.Count("batches_over_256", 1)
		// the loop uploads the first 256 files and then waits for the next change
		if ok, _ := waitService("first batch after outage", func(ch c14Chain, pos mon.PosKey) bool { return ch.pos.TXID >= base.TXID+256 }, 0); !ok {
			return
		}
		c.Count("syncs_judged", 1)
		if _, ok := judgeService("background after outage"); !ok || checkHWM() || !noRestore("first batch after outage") {
			return
		}
		// one more commit arrives before the periodic position-map refresh
		if err := commitN(P, 1); err != nil {
			c.Violate("C14/commit-failed", "background after outage: "+err.Error(), detail(nil))
			return
		}
		if ok, _ := waitService("remainder after outage", atPrimary, 3); !ok {
			return
		}
		c.Count("syncs_judged", 1)
		c.Count("background_outage_batches", 1)
		finish("outage-batch")
		return
	}
	if snapRace {
		// The database is not on the service yet. The loop uploads a snapshot; after
		// the service stored and acknowledged it, and before LiteFS sees the answer,
		// the application commits one more transaction. The position LiteFS records
		// for the service must be the snapshot's, not the database's newest.
		done := make(chan error, 1)
		P.rec.mu.Lock()
		P.rec.afterSnapshot = func() { done <- commitN(P, 1) }
		P.rec.mu.Unlock()
		P.rec.outage.Store(false)
		select {
		case err := <-done:
			if err != nil {
				c.Violate("C14/commit-failed", "commit inside the acknowledged snapshot upload: "+err.Error(), detail(nil))
				return
			}
		case <-time.After(40 * time.Second):
			c.Inconclusive("background loop uploaded no snapshot within the watchdog")
			return
		}
		c.Count("commit_inside_snapshot_upload", 1)
	}
	for burst := 0; burst < 4; burst++ {
		if snapRace && burst == 1 {
			// the service stores the next upload but its answer is lost, and the
			// application commits again before the position map is refreshed: the
			// loop must find out where the service is, not guess from its cached map
			m0 := P.rec.mark()
			P.rec.setFault("wrap-lost-ack")
			if err := commitN(P, 1); err != nil {
				c.Violate("C14/commit-failed", "background: "+err.Error(), detail(nil))
				return
			}
			for dl := time.Now().Add(10 * time.Second); time.Now().Before(dl); time.Sleep(time.Millisecond) {
				hit := false
				for _, e := range P.rec.since(m0) {
					if e.Fault == "wrap-lost-ack" {
						hit = true
					}
				}
				if hit {
					c.Count("background_lost_ack", 1)
					break
				}
			}
			P.rec.setFault("")
		}
		if err := commitN(P, 1+c.Rng.IntN(5)); err != nil {
			c.Violate("C14/commit-failed", "background: "+err.Error(), detail(nil))
			return
		}
		time.Sleep(time.Duration(c.Rng.IntN(30)) * time.Millisecond)
		// the service's files are only appended to by one uploader: judging them
		// between uploads is safe because files appear atomically
		if _, ok := judgeService("background"); !ok || checkHWM() || !noRestore("burst") {
			return
		}
		c.Count("syncs_judged", 1)
	}
	// bounded progress: after writes stop, within 8 full position-map refreshes
	// (and a generous wall-clock watchdog) the service must be at the primary's position
	if ok, _ := waitService("end", atPrimary, 8); !ok {
		return
	}
	finish("bursts")
}
