//go:build verif

package checks

import (
	"context"
	"fmt"
	"path/filepath"
	"time"

	"github.com/superfly/litefs"

	"verif/cluster"
	"verif/core"
	"verif/mon"
)

func init() {
	addFamily("C14", func(tier string) int {
		if tier == "thorough" {
			return 24
		}
		return 4
	}, runC14RestoreAfterDemotion, " (+ a restore that outlives the node's primary status: the service holds another history of the database, the primary's sync decides to adopt it, and while the snapshot is being fetched the node leaves the primary role; as a replica it must not replace its database, position or log with the service's copy, counters demoted_*)")
	chk := Registry["C14"]
	base := chk.Floors
	chk.Floors = func(tier string) map[string]int {
		m := map[string]int{}
		if base != nil {
			for k, v := range base(tier) {
				m[k] = v
			}
		}
		m["demoted_during_restore_fetch"] = 3
		return m
	}
}

// runC14RestoreAfterDemotion: two nodes of two lives of one cluster share a
// backup directory. Node A fills the service. Node B starts on a fresh data
// directory with its own, different content under the same name and syncs: the
// service is ahead on another history, so B adopts the service's copy - that
// is the primary's duty. B loses its primary status while the snapshot is on
// its way. What a replica's database holds is decided by the new primary.
func runC14RestoreAfterDemotion(c *core.Case, k int) {
	ps := []uint32{1024, 4096, 512}[k%3]
	bdir := filepath.Join(c.Dir, "backup")
	recA, recB := &c14Rec{maxAcked: map[string]uint64{}}, &c14Rec{maxAcked: map[string]uint64{}}
	tune := func(rec *c14Rec) func(s *litefs.Store) {
		return func(s *litefs.Store) {
			rec.inner = litefs.NewFileBackupClient(bdir)
			s.BackupClient = rec
			s.BackupDelay = 0
			s.BackupFullSyncInterval = time.Hour
		}
	}
	fill := func(dir string, rec *c14Rec, commits int, tag string) (*cluster.Cluster, bool) {
		cl, err := cluster.New(dir, []cluster.NodeOpts{{Candidate: true, Tune: tune(rec)}})
		if err != nil {
			c.Inconclusive(err.Error())
			return nil, false
		}
		if err := cl.Start(0); err != nil || cl.WaitPrimary(0, 10*time.Second) == nil {
			cl.Close()
			c.Inconclusive("primary start")
			return nil, false
		}
		led := newLedger()
		w, err := newWriter(cl.Nodes[0].Node, "db", ps, k%2 == 1, "delete", nil, c.SubRng(tag), led, 1)
		if err != nil {
			cl.Close()
			c.Violate("C14/setup", err.Error(), nil)
			return nil, false
		}
		w.d.BusyRetries = 5000
		if err := w.ensure(uint32(4 + c.Rng.IntN(4))); err != nil {
			cl.Close()
			c.Violate("C14/setup", err.Error(), nil)
			return nil, false
		}
		for i := 0; i < commits; i++ {
			if _, err := w.txn(2); err != nil {
				cl.Close()
				c.Violate("C14/setup", err.Error(), nil)
				return nil, false
			}
		}
		w.close()
		return cl, true
	}
	clA, ok := fill(filepath.Join(c.Dir, "a"), recA, 4+c.Rng.IntN(3), "wa")
	if !ok {
		return
	}
	if err := clA.Nodes[0].Store.SyncBackup(context.Background()); err != nil {
		clA.Close()
		c.Inconclusive("first node's sync: " + err.Error())
		return
	}
	svcPos := mon.PosOf(clA.Nodes[0].Node, "db")
	clA.Close()
	clB, ok := fill(filepath.Join(c.Dir, "b"), recB, 1+c.Rng.IntN(2), "wb")
	if !ok {
		return
	}
	defer clB.Close()
	B := clB.Nodes[0]
	before := mon.PosOf(B.Node, "db")
	beforeLog, _, _ := mon.ListLTXDir(filepath.Join(mon.DBDir(B.Node, "db"), "ltx"))
	detail := map[string]any{"page_size": ps, "service_position": svcPos.String(), "node_position_before": before.String()}
	demoted := false
	recB.mu.Lock()
	recB.beforeFetch = func() {
		B.Store.Demote()
		for i := 0; B.Store.IsPrimary() && i < 10000; i++ {
			time.Sleep(time.Millisecond)
		}
		demoted = !B.Store.IsPrimary()
	}
	recB.mu.Unlock()
	serr := B.Store.SyncBackup(context.Background())
	detail["sync_error"] = fmt.Sprint(serr)
	if !demoted {
		c.Inconclusive(fmt.Sprintf("no snapshot was fetched or the node stayed primary (sync: %v)", serr))
		return
	}
	c.Count("demoted_during_restore_fetch", 1)
	if healthViolations(c, B.Node, "restore across a demotion", detail) {
		return
	}
	after := mon.PosOf(B.Node, "db")
	afterLog, _, _ := mon.ListLTXDir(filepath.Join(mon.DBDir(B.Node, "db"), "ltx"))
	detail["node_position_after"] = after.String()
	if !B.Store.IsPrimary() && (after != before || len(afterLog) != len(beforeLog)) {
		c.Violate("C14/restored-while-not-primary", fmt.Sprintf("the node left the primary role while the service's snapshot was being fetched; it then replaced its database all the same: position %s -> %s (the service's: %s), %d -> %d transaction files", before, after, svcPos, len(beforeLog), len(afterLog)), detail)
		return
	}
	judgeRawChecksum(c, B.Node, "db", "after the abandoned restore", detail)
	c.Count("demoted_restore_abandoned", 1)
	c.Distinct(fmt.Sprintf("restore-after-demotion/ps%d/wal%v", ps, k%2 == 1))
}
