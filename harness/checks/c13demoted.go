//go:build verif

package checks

import (
	"context"
	"fmt"
	"time"

	"github.com/superfly/litefs"
	lhttp "github.com/superfly/litefs/http"

	"verif/cluster"
	"verif/core"
	"verif/mon"
	"verif/pager"
)

func init() {
	addFamily("C13", func(tier string) int {
		if tier == "thorough" {
			return 36
		}
		return 6
	}, runC13GrantAfterDemotion, " (+ the primary is demoted while an acquire request waits: a local writer holds the write lock, POST /halt waits behind it, the node gives up its lease, the writer ends; the lock must not be handed out by a node that is no longer primary, counters demoted_*)")
	chk := Registry["C13"]
	base := chk.Floors
	chk.Floors = func(tier string) map[string]int {
		m := map[string]int{}
		if base != nil {
			for k, v := range base(tier) {
				m[k] = v
			}
		}
		m["demoted_while_acquire_waited"] = 4
		return m
	}
}

// runC13GrantAfterDemotion: the halt lock is the primary's to give. A request
// that waits for the database's write lock can outlive the node's primary
// status; when it finally gets the write lock the node must look again. A lock
// granted by a node that is no longer primary tells the caller it may write
// (its forwarded transactions are then refused) and keeps the former primary's
// database locked - against its own recovery and against following the new
// primary - until the TTL ends.
func runC13GrantAfterDemotion(c *core.Case, k int) {
	tune := func(s *litefs.Store) { s.HaltAcquireTimeout = 20 * time.Second; s.HaltLockTTL = time.Hour }
	cl, err := cluster.New(c.Dir, []cluster.NodeOpts{{Candidate: true, Tune: tune}})
	if err != nil {
		c.Inconclusive(err.Error())
		return
	}
	defer cl.Close()
	if err := cl.Start(0); err != nil || cl.WaitPrimary(0, 10*time.Second) == nil {
		c.Inconclusive("primary start")
		return
	}
	P := cl.Nodes[0]
	led := newLedger()
	wal := k%2 == 1
	w, err := newWriter(P.Node, "db", []uint32{1024, 4096, 512}[k%3], wal, "delete", nil, c.SubRng("w"), led, 1)
	if err != nil {
		c.Violate("C13/setup", err.Error(), nil)
		return
	}
	w.d.BusyRetries = 5000
	if err := w.ensure(4); err != nil {
		c.Violate("C13/setup", err.Error(), nil)
		return
	}
	if _, err := w.txn(2); err != nil {
		c.Violate("C13/setup", err.Error(), nil)
		return
	}
	defer w.close()
	const owner = 9912
	fname := "db"
	if wal {
		fname = "db-shm"
	}
	f, err := P.Node.Open(fname)
	if err != nil {
		c.Inconclusive(err.Error())
		return
	}
	defer f.Close(owner)
	var lerr error
	if wal {
		lerr = lockRetry(f, owner, pager.WalWrite, pager.WalWrite, true, 2000)
	} else {
		if lerr = lockRetry(f, owner, pager.SharedFirst, pager.SharedFirst+pager.SharedSize-1, false, 2000); lerr == nil {
			lerr = lockRetry(f, owner, pager.ReservedByte, pager.ReservedByte, true, 2000)
		}
	}
	if lerr != nil {
		c.Inconclusive("local writer lock: " + lerr.Error())
		return
	}
	id := int64(200000 + c.Rng.IntN(900000))
	type res struct {
		hl  *litefs.HaltLock
		err error
	}
	out := make(chan res, 1)
	go func() {
		hl, err := lhttp.NewClient().AcquireHaltLock(context.Background(), P.URL(), 0xC13C14, "db", id)
		out <- res{hl, err}
	}()
	// the request is inside the handler, waiting (it was not answered at once)
	select {
	case r := <-out:
		c.Inconclusive(fmt.Sprintf("the acquire request did not wait behind the local writer (%v)", r.err))
		return
	case <-time.After(time.Duration(60+c.Rng.IntN(60)) * time.Millisecond):
	}
	how := []string{"demote", "expire"}[k/2%2]
	if how == "demote" {
		P.Store.Demote()
	} else {
		cl.Svc.Expire()
	}
	for i := 0; P.Store.IsPrimary(); i++ {
		if i > 10000 {
			c.Inconclusive("the node did not leave the primary role")
			return
		}
		time.Sleep(time.Millisecond)
	}
	c.Count("demoted_while_acquire_waited", 1)
	// the local transaction ends
	if wal {
		_ = f.Unlock(owner, pager.WalWrite, pager.WalWrite)
	} else {
		_ = f.Unlock(owner, pager.ReservedByte, pager.ReservedByte)
		_ = f.Unlock(owner, pager.SharedFirst, pager.SharedFirst+pager.SharedSize-1)
	}
	var r res
	select {
	case r = <-out:
	case <-time.After(40 * time.Second):
		c.Inconclusive("watchdog: the acquire request was not answered")
		return
	}
	detail := map[string]any{"wal": wal, "how": how, "answer_error": fmt.Sprint(r.err), "position": mon.PosOf(P.Node, "db").String()}
	if healthViolations(c, P.Node, "acquire across a demotion", detail) {
		return
	}
	primaryNow := P.Store.IsPrimary()
	held := P.Store.DB("db").VerifHaltLockID()
	if r.err == nil && !primaryNow {
		c.Violate("C13/halt-granted-by-non-primary", fmt.Sprintf("POST /halt waited behind a local writer; the node left the primary role (%s) before the writer ended; the request was then answered with lock %d although the node is not primary (lock held on the node: %d)", how, r.hl.ID, held), detail)
		return
	}
	if r.err != nil && held == id && !primaryNow {
		c.Violate("C13/halt-lock-left-behind", fmt.Sprintf("POST /halt was refused (%v) but the node still holds lock %d", r.err, id), detail)
		return
	}
	if r.err != nil {
		c.Count("demoted_acquire_refused", 1)
	} else {
		c.Count("demoted_acquire_granted_by_primary_again", 1)
	}
	c.Distinct(fmt.Sprintf("grant-after-demotion/%s/wal%v/refused%v", how, wal, r.err != nil))
}
