package checks

// Driver C: the real `litefs` binary (cmd/litefs, built from the same tree by
// ./check) runs as a child process with a generated litefs.yml, mounts the file
// system through the kernel, and real SQLite (the SQL child process) works on
// the mount. The harness kills the litefs process with SIGKILL at PRNG-chosen
// instants in the middle of the workload - a real process death, not a copied
// directory - and then judges the data directory it leaves and the restarted
// process. These cases are appended to C05.
//
// If the binary or mounting is unavailable the cases count drvc_unavailable
// and decide nothing.

import (
	"bytes"
	"encoding/json"
	"errors"
	"fmt"
	"net"
	"net/http"
	"os"
	"os/exec"
	"path/filepath"
	"strings"
	"sync"
	"sync/atomic"
	"syscall"
	"time"

	"github.com/superfly/litefs"
	"verif/core"
	"verif/drv"
	"verif/fakeconsul"
	"verif/lease"
	"verif/mon"
)

func init() {
	addKMountCounter("C05", func(tier string) int {
		if tier == "thorough" {
			return 64
		}
		return 6
	}, runDrvC05, "drvc_cases")
	addKMountCounter("C08", func(tier string) int {
		if tier == "thorough" {
			return 48
		}
		return 6
	}, runDrvC08, "drvc_cases")
	addKMountCounter("C01", func(tier string) int {
		if tier == "thorough" {
			return 48
		}
		return 4
	}, runDrvC01, "drvc_cases")
}

type infoJSON struct {
	ClusterID string `json:"clusterID"`
	IsPrimary bool   `json:"isPrimary"`
	Candidate bool   `json:"candidate"`
	Primary   struct {
		Hostname string `json:"hostname"`
	} `json:"primary"`
}

func (p *litefsProc) info() (infoJSON, error) {
	var out infoJSON
	resp, err := http.Get("http://" + p.addr + "/info")
	if err != nil {
		return out, err
	}
	defer resp.Body.Close()
	err = json.NewDecoder(resp.Body).Decode(&out)
	return out, err
}

// runDrvC08: the configuration wiring of the real binary (cmd/litefs
// mount_linux.go): lease.type consul against the fake Consul, lease.candidate,
// lease.hostname, lease.advertise-url and lease.promote must reach the store
// as configured. The lease service behind the fake Consul is the ground truth.
func runDrvC08(c *core.Case, k int) {
	if ok, why := kmountAvailable(); !ok || os.Getenv("VERIF_LITEFS_BIN") == "" {
		c.Count("drvc_unavailable", 1)
		if k == 0 {
			c.Sample(map[string]any{"drvc": "unavailable", "why": why})
		}
		return
	}
	scenario := []string{"candidate-and-non-candidate", "promote", "expire"}[k%3]
	svc := lease.NewService(2 * time.Second)
	fc := fakeconsul.New(svc)
	defer fc.Close()
	var hist []string
	detail := func() map[string]any {
		calls := svc.Calls()
		if len(calls) > 40 {
			calls = calls[len(calls)-40:]
		}
		return map[string]any{"driver": "C (litefs binary + fake Consul)", "scenario": scenario, "events": hist, "lease_calls_tail": calls}
	}
	leaseBlock := func(node string, candidate, promote bool) (string, error) {
		u, err := fc.URLFor(node, node, "http://PLACEHOLDER")
		if err != nil {
			return "", err
		}
		return fmt.Sprintf("  type: \"consul\"\n  candidate: %v\n  promote: %v\n  hostname: %q\n  advertise-url: \"http://%%ADDR%%\"\n  reconnect-delay: \"50ms\"\n  demote-delay: \"50ms\"\n  consul:\n    url: %q\n    key: \"primary\"\n    ttl: \"2s\"\n    lock-delay: \"1ms\"\n", candidate, promote, node, u), nil
	}
	start := func(node string, candidate, promote bool) *litefsProc {
		lb, err := leaseBlock(node, candidate, promote)
		if err != nil {
			c.Inconclusive(err.Error())
			return nil
		}
		d := filepath.Join(c.Dir, node)
		_ = os.MkdirAll(d, 0o755)
		p, err := startLitefsLease(d, lb, "")
		if err != nil {
			c.Count("drvc_unavailable", 1)
			c.Sample(map[string]any{"drvc": "start failed", "why": err.Error()})
			return nil
		}
		return p
	}
	waitFor := func(d time.Duration, f func() bool) bool {
		for dl := time.Now().Add(d); time.Now().Before(dl); {
			if f() {
				return true
			}
			time.Sleep(10 * time.Millisecond)
		}
		return f()
	}
	acquiresBy := func(node string) int {
		n := 0
		for _, call := range svc.Calls() {
			if call.Node == node && (call.Op == "acquire" || call.Op == "acquire-existing") {
				n++
			}
		}
		return n
	}
	n0 := start("n0", true, false)
	if n0 == nil {
		return
	}
	defer n0.stop()
	c.Count("drvc_cases", 1)
	if !waitFor(10*time.Second, func() bool { i, err := n0.info(); return err == nil && i.IsPrimary }) {
		c.Violate("C08/drvc/candidate-never-primary", "a node configured lease.candidate=true on a free Consul lease did not become primary: "+n0.logTail(), detail())
		return
	}
	if h, _ := svc.Holder(); h != "n0" {
		c.Violate("C08/drvc/primary-without-lease", fmt.Sprintf("the process reports primary but the lease service records holder %q", h), detail())
		return
	}
	// what the lease advertises must be what was configured
	var pi litefs.PrimaryInfo
	err := json.Unmarshal(fc.PrimaryValue(), &pi)
	if err != nil || pi.Hostname != "n0" || pi.AdvertiseURL != "http://"+n0.addr {
		c.Violate("C08/drvc/advertised-info-differs", fmt.Sprintf("configured hostname n0 / advertise-url http://%s, the lease carries %+v (%v)", n0.addr, pi, err), detail())
		return
	}
	hist = append(hist, "n0 (candidate) is primary with the configured hostname and advertise-url")
	switch scenario {
	case "candidate-and-non-candidate":
		n1 := start("n1", false, false)
		if n1 == nil {
			return
		}
		defer n1.stop()
		if !waitFor(10*time.Second, func() bool { i, err := n1.info(); return err == nil && !i.IsPrimary && i.Primary.Hostname == "n0" }) {
			i, _ := n1.info()
			c.Violate("C08/drvc/replica-does-not-see-primary", fmt.Sprintf("the second node reports %+v", i), detail())
			return
		}
		if i, _ := n1.info(); i.Candidate {
			c.Violate("C08/drvc/candidate-flag-not-wired", "lease.candidate=false in the configuration, the store reports candidate=true", detail())
			return
		}
		// the primary goes away: the non-candidate must never try to take the lease
		n0.stop()
		svc.Expire()
		time.Sleep(1500 * time.Millisecond)
		if n := acquiresBy("n1"); n > 0 {
			c.Violate("C08/non-candidate-acquire", fmt.Sprintf("the node configured lease.candidate=false called acquire %d times after the primary went away", n), detail())
			return
		}
		if i, err := n1.info(); err == nil && i.IsPrimary {
			c.Violate("C08/drvc/non-candidate-primary", "the node configured lease.candidate=false reports primary", detail())
			return
		}
		c.Count("noncandidate_never_acquired", 1)
	case "promote":
		n1 := start("n1", true, true)
		if n1 == nil {
			return
		}
		defer n1.stop()
		// lease.promote: the new node asks the current primary to hand the lease over
		if !waitFor(15*time.Second, func() bool { i, err := n1.info(); return err == nil && i.IsPrimary }) {
			c.Violate("C08/drvc/promote-not-wired", "lease.promote=true on a candidate that joined a running primary: it never became primary: "+n1.logTail(), detail())
			return
		}
		if h, _ := svc.Holder(); h != "n1" {
			c.Violate("C08/drvc/primary-without-lease", fmt.Sprintf("n1 reports primary after promotion but the lease service records holder %q", h), detail())
			return
		}
		if !waitFor(5*time.Second, func() bool { i, err := n0.info(); return err == nil && !i.IsPrimary }) {
			c.Violate("C08/still-primary-after-loss", "n0 still reports primary after handing its lease to the promoted node", detail())
			return
		}
		sawExisting := false
		for _, call := range svc.Calls() {
			if call.Op == "acquire-existing" && call.Node == "n1" {
				sawExisting = true
			}
			if call.Op == "acquire-existing" && call.Node != "n1" {
				c.Violate("C08/handoff-to-wrong-node", call.Node+" used the handed-off lease", detail())
				return
			}
		}
		if !sawExisting {
			c.Violate("C08/drvc/promote-without-handoff", "n1 became primary without taking over the existing lease (two leases?)", detail())
			return
		}
		c.Count("loss_by_handoff", 1)
	case "expire":
		blocked := atomic.Bool{}
		blocked.Store(true)
		svc.SetInject(func(node, op string) error {
			if blocked.Load() && op == "acquire" {
				return errors.New("scripted: acquire unavailable")
			}
			return nil
		})
		svc.Expire()
		if !waitFor(10*time.Second, func() bool { i, err := n0.info(); return err == nil && !i.IsPrimary }) {
			c.Violate("C08/still-primary-after-loss", "the lease expired (session gone) but the process still reports primary", detail())
			return
		}
		c.Count("loss_by_expiry", 1)
		blocked.Store(false)
		if !waitFor(10*time.Second, func() bool { i, err := n0.info(); return err == nil && i.IsPrimary }) {
			c.Violate("C08/drvc/never-primary-again", "after the lease became free again the candidate did not re-acquire it", detail())
			return
		}
	}
	c.Distinct("drvc/c08/" + scenario)
	if k < 3 {
		c.Sample(detail())
	}
}

type litefsProc struct {
	cmd  *exec.Cmd
	dir  string // holds mnt/, data/, litefs.yml, log
	mnt  string
	data string
	addr string
	done chan struct{}
}

func freePort() (int, error) {
	ln, err := net.Listen("tcp", "127.0.0.1:0")
	if err != nil {
		return 0, err
	}
	defer ln.Close()
	return ln.Addr().(*net.TCPAddr).Port, nil
}

// startLitefs writes a configuration and starts `litefs mount` on dir.
func startLitefs(dir string, extraYAML string) (*litefsProc, error) {
	return startLitefsLease(dir, "", extraYAML)
}

// startLitefsLease starts the binary with a caller-supplied lease block (YAML,
// indented by two spaces, "%ADDR%" = this node's API address); "" = static primary.
func startLitefsLease(dir, leaseYAML, extraYAML string) (*litefsProc, error) {
	// The API port is chosen by binding :0 and closing it again; another worker
	// can take it before the child binds it. That (and only that) is retried.
	var p *litefsProc
	var err error
	for attempt := 0; attempt < 4; attempt++ {
		p, err = startLitefsLeaseOnce(dir, leaseYAML, extraYAML)
		if err == nil || !strings.Contains(err.Error(), "address already in use") {
			return p, err
		}
	}
	return p, err
}

func startLitefsLeaseOnce(dir, leaseYAML, extraYAML string) (*litefsProc, error) {
	bin := os.Getenv("VERIF_LITEFS_BIN")
	if bin == "" {
		return nil, fmt.Errorf("VERIF_LITEFS_BIN not set")
	}
	if _, err := os.Stat(bin); err != nil {
		return nil, err
	}
	port, err := freePort()
	if err != nil {
		return nil, err
	}
	p := &litefsProc{dir: dir, mnt: filepath.Join(dir, "mnt"), data: filepath.Join(dir, "data"), addr: fmt.Sprintf("127.0.0.1:%d", port), done: make(chan struct{})}
	_ = os.MkdirAll(p.mnt, 0o755)
	_ = os.MkdirAll(p.data, 0o755)
	staticPrimary := leaseYAML == ""
	if leaseYAML == "" {
		leaseYAML = "  type: \"static\"\n  candidate: true\n  hostname: \"n0\"\n  advertise-url: \"http://%ADDR%\"\n"
	}
	leaseYAML = strings.ReplaceAll(leaseYAML, "%ADDR%", p.addr)
	yml := fmt.Sprintf(`fuse:
  dir: %q
data:
  dir: %q
exit-on-error: true
http:
  addr: %q
lease:
%s%s`, p.mnt, p.data, p.addr, leaseYAML, extraYAML)
	cfg := filepath.Join(dir, "litefs.yml")
	if err := os.WriteFile(cfg, []byte(yml), 0o644); err != nil {
		return nil, err
	}
	logf, err := os.OpenFile(filepath.Join(dir, "litefs.log"), os.O_CREATE|os.O_WRONLY|os.O_APPEND, 0o644)
	if err != nil {
		return nil, err
	}
	p.cmd = exec.Command(bin, "mount", "-config", cfg)
	p.cmd.Stdout, p.cmd.Stderr = logf, logf
	p.cmd.Dir = dir
	p.cmd.SysProcAttr = &syscall.SysProcAttr{Setpgid: true}
	if err := p.cmd.Start(); err != nil {
		logf.Close()
		return nil, err
	}
	go func() { _ = p.cmd.Wait(); logf.Close(); close(p.done) }()
	// ready = the mount answers and the API server answers
	deadline := time.Now().Add(15 * time.Second)
	for time.Now().Before(deadline) {
		select {
		case <-p.done:
			return nil, fmt.Errorf("litefs exited during start-up: %s", p.logTail())
		default:
		}
		if p.mounted() {
			if resp, err := http.Get("http://" + p.addr + "/info"); err == nil {
				var info struct {
					IsPrimary bool `json:"isPrimary"`
				}
				_ = json.NewDecoder(resp.Body).Decode(&info)
				resp.Body.Close()
				// (mount and API answer before the lease loop has run: a node that
				// is configured as the static primary is ready once it IS primary)
				if !staticPrimary || info.IsPrimary {
					return p, nil
				}
			}
		}
		time.Sleep(10 * time.Millisecond)
	}
	p.kill9()
	return nil, fmt.Errorf("litefs did not become ready: %s", p.logTail())
}

func (p *litefsProc) mounted() bool {
	b, err := os.ReadFile("/proc/self/mountinfo")
	return err == nil && bytes.Contains(b, []byte(" "+p.mnt+" "))
}

func (p *litefsProc) logTail() string {
	b, _ := os.ReadFile(filepath.Join(p.dir, "litefs.log"))
	// the end of the log names the reason; violation texts are cut after a few
	// hundred characters, so the last lines come first
	lines := strings.Split(strings.TrimSpace(string(b)), "\n")
	var out []string
	for i := len(lines) - 1; i >= 0 && len(out) < 12; i-- {
		out = append(out, lines[i])
	}
	return "(newest line first) " + strings.Join(out, " | ")
}

// kill9 ends the process the hard way and detaches the dead mount.
func (p *litefsProc) kill9() {
	if p.cmd.Process != nil {
		_ = syscall.Kill(-p.cmd.Process.Pid, syscall.SIGKILL)
	}
	select {
	case <-p.done:
	case <-time.After(10 * time.Second):
	}
	core.CleanFuseMounts(p.dir)
}

// stop ends the process cleanly (SIGTERM), falling back to kill9.
func (p *litefsProc) stop() {
	if p.cmd.Process != nil {
		_ = p.cmd.Process.Signal(syscall.SIGTERM)
	}
	select {
	case <-p.done:
		core.CleanFuseMounts(p.dir)
	case <-time.After(8 * time.Second):
		p.kill9()
	}
}

func copyDataDir(src, dst string) error { return copyTree(src, dst) }

func runDrvC05(c *core.Case, k int) {
	if ok, why := kmountAvailable(); !ok || os.Getenv("VERIF_LITEFS_BIN") == "" {
		c.Count("drvc_unavailable", 1)
		if k == 0 {
			c.Sample(map[string]any{"drvc": "unavailable", "why": why})
		}
		return
	}
	mode := []string{"delete", "wal", "truncate", "wal", "persist", "delete"}[k%6]
	ps := []int{1024, 4096, 512, 2048}[c.Rng.IntN(4)]
	autoVac := []int{0, 1, 2}[c.Rng.IntN(3)]
	dir := filepath.Join(c.Dir, "node")
	_ = os.MkdirAll(dir, 0o755)
	var hist []string
	detail := func(extra map[string]any) map[string]any {
		h := hist
		if len(h) > 40 {
			h = h[len(h)-40:]
		}
		d := map[string]any{"driver": "C (litefs binary as a child process + real SQLite, SIGKILL)", "journal_mode": mode, "page_size": ps, "auto_vacuum": autoVac, "events": h}
		for k, v := range extra {
			d[k] = v
		}
		return d
	}
	p, err := startLitefs(dir, "")
	if err != nil {
		c.Count("drvc_unavailable", 1)
		c.Sample(map[string]any{"drvc": "start failed", "why": err.Error()})
		return
	}
	c.Count("drvc_cases", 1)
	defer func() {
		if p != nil {
			p.stop()
		}
	}()
	ltxDir := filepath.Join(p.data, "dbs", "db", "ltx")
	chain := &ltxChain{dir: ltxDir}
	led := newLedger()
	proc, err := startSQLProc()
	if err != nil {
		c.Inconclusive("SQL child: " + err.Error())
		return
	}
	defer func() { proc.stop() }()
	dbPath := filepath.Join(p.mnt, "db")
	w, err := proc.open(dbPath, false)
	if err != nil {
		c.Violate("C05/drvc/open", err.Error(), detail(nil))
		return
	}
	for _, q := range []string{fmt.Sprintf("PRAGMA page_size=%d", ps), fmt.Sprintf("PRAGMA auto_vacuum=%d", autoVac), "PRAGMA journal_mode=" + mode,
		"CREATE TABLE t0(id INTEGER PRIMARY KEY, k INTEGER, v BLOB)", "INSERT INTO t0 VALUES(1,1,randomblob(3000))", "INSERT INTO t0 VALUES(2,1,randomblob(9000))"} {
		if _, err := w.queryStringOrExec(q); err != nil {
			c.Violate("C05/drvc/setup", fmt.Sprintf("%q: %v (litefs log: %s)", q, err, p.logTail()), detail(nil))
			return
		}
	}
	if mode == "wal" {
		_ = w.exec(fmt.Sprintf("PRAGMA wal_autocheckpoint=%d", 2+c.Rng.IntN(6)))
	}
	if c.Rng.IntN(2) == 0 {
		_ = w.exec("PRAGMA cache_size=5")
	}
	rounds := 3
	if c.Tier == "thorough" {
		rounds = 5
	}
	nextID := 100
	for round := 0; round < rounds; round++ {
		// ---- a writer that commits as fast as it can, recording what was acknowledged
		var ackedTXID atomic.Uint64
		var mu sync.Mutex
		if _, prob := chain.advance(); prob != "" {
			c.Violate("C05/drvc/ltx-chain", prob, detail(nil))
			return
		}
		ackedTXID.Store(chain.pos.TXID) // everything so far was acknowledged
		stopW := make(chan struct{})
		var wg sync.WaitGroup
		wg.Add(1)
		wrng := c.SubRng(fmt.Sprintf("writer-%d", round))
		go func() {
			defer wg.Done()
			for i := 0; ; i++ {
				select {
				case <-stopW:
					return
				default:
				}
				nextID++
				q := ""
				switch wrng.IntN(6) {
				case 0:
					q = fmt.Sprintf("INSERT INTO t0 VALUES(%d,%d,randomblob(%d))", nextID, i, 10000+wrng.IntN(30000))
				case 1:
					q = fmt.Sprintf("UPDATE t0 SET v=randomblob(%d), k=k+1 WHERE id%%3=%d", 50+wrng.IntN(3000), wrng.IntN(3))
				case 2:
					q = fmt.Sprintf("DELETE FROM t0 WHERE id%%5=%d AND id>2", wrng.IntN(5))
				default:
					q = fmt.Sprintf("INSERT INTO t0 VALUES(%d,%d,randomblob(%d))", nextID, i, 10+wrng.IntN(2500))
				}
				if err := w.exec(q); err != nil {
					return // the file system is gone (or going)
				}
				// acknowledged to SQLite: the newest transaction file names the position
				mu.Lock()
				if _, prob := chain.advance(); prob == "" {
					ackedTXID.Store(chain.pos.TXID)
				}
				mu.Unlock()
			}
		}()
		time.Sleep(time.Duration(5+c.Rng.IntN(120)) * time.Millisecond)
		// ---- the litefs process dies
		p.kill9()
		proc.killNow()
		close(stopW)
		wg.Wait()
		proc.stop()
		acked := ackedTXID.Load()
		hist = append(hist, fmt.Sprintf("round %d: SIGKILL with %d transactions acknowledged", round, acked))
		c.Count("drvc_kills", 1)
		mu.Lock()
		if want := chain.imageAt(chain.pos); want != nil {
			led.put("db", chain.pos, want)
		}
		ackPos := chain.pos
		mu.Unlock()
		// ---- judge a copy of what the death left (in-process reopen)
		cp := filepath.Join(c.Dir, fmt.Sprintf("image-%d", round))
		if err := copyDataDir(p.data, cp); err != nil {
			c.Inconclusive("copy: " + err.Error())
			return
		}
		d := detail(map[string]any{"acknowledged_position": ackPos.String()})
		if why := unjournaledFreePages(cp, "db", uint32(ps), led, ackPos); why != "" {
			nn, err := drv.NewNode(drv.Config{Dir: cp, Candidate: true, Leaser: litefs.NewStaticLeaser(true, "localhost", "http://127.0.0.1:1")})
			if err != nil {
				d["analysis"] = why
				c.Violate("C05/kmount/reopen-failed(unjournaled-free-page-overwrite)", fmt.Sprintf("restart after SIGKILL failed: %v; %s", err, why), d)
				_ = os.RemoveAll(cp)
				return // the data directory cannot be restarted: nothing more to drive in this case
			}
			nn.Close()
		}
		nn, err := drv.NewNode(drv.Config{Dir: cp, Candidate: true, Leaser: litefs.NewStaticLeaser(true, "localhost", "http://127.0.0.1:1")})
		if err != nil {
			c.Violate("C05/drvc/reopen-failed", fmt.Sprintf("restart on the data directory left by SIGKILL failed: %v", err), d)
			return
		}
		pos := mon.PosOf(nn, "db")
		raw := mon.RawImage(mon.DBDir(nn, "db"))
		healthy := !healthViolations(c, nn, "reopen after SIGKILL", d)
		nn.Close()
		if !healthy {
			return
		}
		cchain := &ltxChain{dir: filepath.Join(cp, "dbs", "db", "ltx")}
		if _, prob := cchain.advance(); prob != "" {
			c.Violate("C05/drvc/ltx-chain", "transaction files left by SIGKILL: "+prob, d)
			return
		}
		if pos != cchain.pos {
			c.Violate("C05/drvc/position-not-newest-ltx", fmt.Sprintf("recovered position %s, newest transaction file ends at %s", pos, cchain.pos), d)
			return
		}
		if pos.TXID < acked {
			c.Violate("C05/drvc/acknowledged-commit-lost", fmt.Sprintf("%d transactions had been acknowledged to SQLite before the process died; after restart the database is at %s", acked, pos), d)
			return
		}
		if pos.TXID > acked+1 {
			c.Violate("C05/drvc/position-beyond-in-flight", fmt.Sprintf("%d transactions acknowledged, one in flight at most, yet the restarted node is at %s", acked, pos), d)
			return
		}
		if dd := cchain.img.Diff(raw); dd != "" {
			c.Violate("C05/drvc/image-mismatch", fmt.Sprintf("after restart the database at %s differs from the image rebuilt from the transaction files: %s", pos, dd), d)
			return
		}
		if _, integ, err := plainHash(c.Dir, cchain.img, fmt.Sprintf("k%d", round)); err != nil || integ != "ok" {
			c.Violate("C05/drvc/integrity", fmt.Sprintf("SQLite integrity_check of the recovered database at %s: %q (%v)", pos, integ, err), d)
			return
		}
		_ = os.RemoveAll(cp)
		c.Count("drvc_images_judged", 1)
		if pos.TXID == acked {
			c.Count("recovered_before", 1)
		} else {
			c.Count("recovered_after", 1)
		}
		// ---- the real process restarts on the real directory and serves the same state
		p, err = startLitefs(dir, "")
		if err != nil {
			p = nil
			c.Violate("C05/drvc/restart-failed", fmt.Sprintf("the litefs process does not come back on the data directory left by SIGKILL: %v", err), d)
			return
		}
		proc, err = startSQLProc()
		if err != nil {
			c.Inconclusive("SQL child: " + err.Error())
			return
		}
		w, err = proc.open(dbPath, false)
		if err != nil {
			c.Violate("C05/drvc/open-after-restart", err.Error(), d)
			return
		}
		got, err := w.contentHash()
		want, _, werr := plainHash(c.Dir, cchain.img, fmt.Sprintf("w%d", round))
		if err != nil || werr != nil || got != want {
			c.Violate("C05/drvc/content-after-restart", fmt.Sprintf("after the restart SQLite reads %s (%v) through the mount; the recovered image holds %s (%v)", got, err, want, werr), d)
			return
		}
		if err := w.exec(fmt.Sprintf("INSERT INTO t0 VALUES(%d,0,randomblob(100))", 900000+round)); err != nil {
			c.Violate("C05/drvc/write-after-restart", fmt.Sprintf("the restarted node cannot commit: %v (log: %s)", err, p.logTail()), d)
			return
		}
		// follow the live chain again from the recovered state
		chain = &ltxChain{dir: ltxDir}
		if _, prob := chain.advance(); prob != "" {
			c.Violate("C05/drvc/ltx-chain", "after restart: "+prob, d)
			return
		}
		c.Count("drvc_restarts_ok", 1)
		if mode == "wal" {
			_ = w.exec(fmt.Sprintf("PRAGMA wal_autocheckpoint=%d", 2+c.Rng.IntN(6)))
		}
	}
	c.Distinct(fmt.Sprintf("drvc/c05/%s/ps%d/av%d", mode, ps, autoVac))
	if k < 2 {
		c.Sample(detail(nil))
	}
}

// runDrvC01: two real litefs processes (static lease: one primary, one replica
// following it). Real SQLite commits on the primary's mount while the REPLICA
// process is killed with SIGKILL in the middle of receiving the stream and then
// restarted on its data directory. After every restart it must converge, and
// what real SQLite reads through the replica's mount must be what it reads
// through the primary's; the replica's data directory, judged on a copy, must
// reopen to a position on the primary's chain with that position's image.
func runDrvC01(c *core.Case, k int) {
	if ok, why := kmountAvailable(); !ok || os.Getenv("VERIF_LITEFS_BIN") == "" {
		c.Count("drvc_unavailable", 1)
		if k == 0 {
			c.Sample(map[string]any{"drvc": "unavailable", "why": why})
		}
		return
	}
	mode := []string{"delete", "wal", "truncate", "wal"}[k%4]
	ps := []int{1024, 4096, 512}[c.Rng.IntN(3)]
	var hist []string
	detail := func(extra map[string]any) map[string]any {
		d := map[string]any{"driver": "C (two litefs processes + real SQLite, SIGKILL of the replica)", "journal_mode": mode, "page_size": ps, "events": hist}
		for k, v := range extra {
			d[k] = v
		}
		return d
	}
	pdir, rdir := filepath.Join(c.Dir, "p"), filepath.Join(c.Dir, "r")
	_ = os.MkdirAll(pdir, 0o755)
	_ = os.MkdirAll(rdir, 0o755)
	P, err := startLitefs(pdir, "")
	if err != nil {
		c.Count("drvc_unavailable", 1)
		c.Sample(map[string]any{"drvc": "start failed", "why": err.Error()})
		return
	}
	defer P.stop()
	replicaLease := fmt.Sprintf("  type: \"static\"\n  candidate: false\n  hostname: \"n0\"\n  advertise-url: \"http://%s\"\n  reconnect-delay: \"20ms\"\n", P.addr)
	R, err := startLitefsLease(rdir, replicaLease, "")
	if err != nil {
		c.Count("drvc_unavailable", 1)
		c.Sample(map[string]any{"drvc": "replica start failed", "why": err.Error()})
		return
	}
	defer func() {
		if R != nil {
			R.stop()
		}
	}()
	c.Count("drvc_cases", 1)
	proc, err := startSQLProc()
	if err != nil {
		c.Inconclusive("SQL child: " + err.Error())
		return
	}
	defer proc.stop()
	w, err := proc.open(filepath.Join(P.mnt, "db"), false)
	if err != nil {
		c.Violate("C01/drvc/open", err.Error(), detail(nil))
		return
	}
	for _, q := range []string{fmt.Sprintf("PRAGMA page_size=%d", ps), "PRAGMA journal_mode=" + mode,
		"CREATE TABLE t0(id INTEGER PRIMARY KEY, k INTEGER, v BLOB)", "INSERT INTO t0 VALUES(1,1,randomblob(3000))"} {
		if _, err := w.queryStringOrExec(q); err != nil {
			c.Violate("C01/drvc/setup", fmt.Sprintf("%q: %v", q, err), detail(nil))
			return
		}
	}
	chain := &ltxChain{dir: filepath.Join(P.data, "dbs", "db", "ltx")}
	// posOfDir reads a node's position from its newest transaction file
	posOfDir := func(data string) mon.PosKey {
		p, _ := newestLTXPos(filepath.Join(data, "dbs", "db"))
		return p
	}
	converged := func(ctx string) bool {
		if _, prob := chain.advance(); prob != "" {
			c.Violate("C01/drvc/ltx-chain", ctx+": "+prob, detail(nil))
			return false
		}
		deadline := time.Now().Add(40 * time.Second)
		for time.Now().Before(deadline) {
			if posOfDir(R.data) == chain.pos {
				return true
			}
			time.Sleep(10 * time.Millisecond)
		}
		// a wall-clock watchdog, not a verdict (bounded convergence is decided by the
		// in-process cases, which count heartbeats)
		c.Inconclusive(fmt.Sprintf("%s: replica process still at %s after the watchdog, primary at %s", ctx, posOfDir(R.data), chain.pos))
		return false
	}
	sameContent := func(ctx string) bool {
		ph, err := w.contentHash()
		if err != nil {
			c.Violate("C01/drvc/read-error", ctx+": primary: "+err.Error(), detail(nil))
			return false
		}
		// the replica's position file is served only once the apply is complete
		var rh string
		for i := 0; i < 200; i++ {
			r, err := proc.open(filepath.Join(R.mnt, "db"), true)
			if err == nil {
				rh, err = r.contentHash()
				r.close()
			}
			if err == nil && rh == ph {
				c.Count("drvc_replica_reads_equal", 1)
				return true
			}
			if err != nil && isCorruptionErr(err) {
				c.Violate("C01/drvc/replica-read-corrupt", fmt.Sprintf("%s: reading through the replica's mount: %v", ctx, err), detail(nil))
				return false
			}
			time.Sleep(10 * time.Millisecond)
		}
		c.Violate("C01/drvc/replica-content-differs", fmt.Sprintf("%s: the replica reads %s, the primary %s, although both are at %s", ctx, rh, ph, chain.pos), detail(nil))
		return false
	}
	if !converged("initial") || !sameContent("initial") {
		return
	}
	rounds := 3
	if c.Tier == "thorough" {
		rounds = 5
	}
	nextID := 100
	for round := 0; round < rounds; round++ {
		stopW := make(chan struct{})
		var wg sync.WaitGroup
		var werr atomic.Value
		wrng := c.SubRng(fmt.Sprintf("writer-%d", round))
		wg.Add(1)
		go func() {
			defer wg.Done()
			for i := 0; ; i++ {
				select {
				case <-stopW:
					return
				default:
				}
				nextID++
				q := fmt.Sprintf("INSERT INTO t0 VALUES(%d,%d,randomblob(%d))", nextID, i, 10+wrng.IntN(6000))
				switch wrng.IntN(5) {
				case 0:
					q = fmt.Sprintf("UPDATE t0 SET v=randomblob(%d), k=k+1 WHERE id%%3=%d", 50+wrng.IntN(3000), wrng.IntN(3))
				case 1:
					q = fmt.Sprintf("DELETE FROM t0 WHERE id%%7=%d AND id>1", wrng.IntN(7))
				}
				if err := w.exec(q); err != nil {
					werr.Store(fmt.Sprintf("%q: %v", q, err))
					return
				}
			}
		}()
		time.Sleep(time.Duration(10+c.Rng.IntN(150)) * time.Millisecond)
		R.kill9()
		hist = append(hist, fmt.Sprintf("round %d: replica process killed while the primary was writing", round))
		c.Count("drvc_kills", 1)
		// judge a copy of what the replica's death left
		cp := filepath.Join(c.Dir, fmt.Sprintf("rimage-%d", round))
		_ = copyDataDir(R.data, cp)
		time.Sleep(time.Duration(c.Rng.IntN(60)) * time.Millisecond)
		close(stopW)
		wg.Wait()
		if v := werr.Load(); v != nil {
			c.Violate("C01/drvc/primary-write-failed", "a write on the primary failed while its replica was being killed: "+v.(string), detail(nil))
			return
		}
		if _, prob := chain.advance(); prob != "" {
			c.Violate("C01/drvc/ltx-chain", prob, detail(nil))
			return
		}
		if _, err := os.Stat(filepath.Join(cp, "dbs", "db")); err == nil {
			nn, err := drv.NewNode(drv.Config{Dir: cp, Candidate: false, Leaser: litefs.NewStaticLeaser(false, "localhost", "http://127.0.0.1:1")})
			if err != nil {
				c.Violate("C05/drvc/replica-reopen-failed", fmt.Sprintf("the data directory a killed replica left cannot be opened: %v", err), detail(nil))
				return
			}
			pos := mon.PosOf(nn, "db")
			raw := mon.RawImage(mon.DBDir(nn, "db"))
			nn.Close()
			if pos.TXID > 0 {
				want := chain.imageAt(pos)
				if want == nil {
					c.Violate("C01/drvc/replica-off-history", fmt.Sprintf("the killed replica's directory reopens at %s, which the primary never committed", pos), detail(nil))
					return
				}
				if d := want.Diff(raw); d != "" {
					c.Violate("C01/drvc/replica-image-mismatch", fmt.Sprintf("the killed replica's directory reopens at %s but its database differs from the primary's image at that position: %s", pos, d), detail(nil))
					return
				}
			}
			c.Count("drvc_images_judged", 1)
		}
		_ = os.RemoveAll(cp)
		// the replica process comes back
		R, err = startLitefsLease(rdir, replicaLease, "")
		if err != nil {
			R = nil
			c.Violate("C05/drvc/replica-restart-failed", fmt.Sprintf("the replica process does not come back on the directory SIGKILL left: %v", err), detail(nil))
			return
		}
		if !converged(fmt.Sprintf("after restart %d", round)) || !sameContent(fmt.Sprintf("after restart %d", round)) {
			return
		}
		c.Count("drvc_restarts_ok", 1)
	}
	c.Distinct(fmt.Sprintf("drvc/c01/%s/ps%d", mode, ps))
	if k < 2 {
		c.Sample(detail(nil))
	}
}
