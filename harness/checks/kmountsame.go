//go:build verif

package checks

import (
	"fmt"
	"path/filepath"
	"time"

	"verif/cluster"
	"verif/core"
	"verif/mon"
)

func init() {
	addKMountCounter("C03", func(tier string) int {
		if tier == "thorough" {
			return 48
		}
		return 4
	}, runKMountSameProcess, "kmount_same_process_cases")
	if chk := Registry["C03"]; chk != nil {
		chk.Rule += " (+ driver B, two connections of ONE process - one POSIX lock owner: one runs a checkpoint in the background while the other commits; every commit must advance the position by exactly one and the transaction files must replay to what SQLite reads on a replica, counters same_process_*)"
		addMountFloors(chk, func(tier string) map[string]int {
			return map[string]int{"same_process_commits_judged": 40, "same_process_commits_inside_checkpoint": 5}
		})
	}
}

// runKMountSameProcess: POSIX locks belong to the process, not to the
// connection. Two SQLite connections of one process share one lock owner as far
// as LiteFS can see: while connection 1 holds WAL_CKPT_LOCK for a checkpoint,
// connection 2 takes WAL_WRITE_LOCK, commits and releases it - under the same
// owner. SQLite arbitrates between the two inside the process; LiteFS sees one
// owner holding CKPT and WRITE at once and a release of WRITE alone. Each such
// release ends a transaction: the position advances by one per commit.
func runKMountSameProcess(c *core.Case, k int) {
	if ok, why := kmountAvailable(); !ok {
		c.Count("kmount_unavailable", 1)
		if k == 0 {
			c.Sample(map[string]any{"kmount": "unavailable", "why": why})
		}
		return
	}
	c.Count("kmount_same_process_cases", 1)
	ps := []int{1024, 4096, 512}[k%3]
	ckpt := []string{"PASSIVE", "PASSIVE", "FULL", "PASSIVE", "RESTART", "TRUNCATE"}[k%6]
	cl, err := cluster.New(c.Dir, []cluster.NodeOpts{{Candidate: true, KernelMount: true}, {KernelMount: true}})
	if err != nil {
		c.Inconclusive(err.Error())
		return
	}
	defer cl.Close()
	if err := cl.Start(0); err != nil || cl.WaitPrimary(0, 10*time.Second) == nil {
		c.Inconclusive(fmt.Sprintf("primary start: %v", err))
		return
	}
	if err := cl.Start(1); err != nil {
		c.Inconclusive(err.Error())
		return
	}
	P, R := cl.Nodes[0], cl.Nodes[1]
	var hist []string
	detail := map[string]any{"driver": "B (kernel mount + real SQLite)", "page_size": ps, "checkpoint": ckpt, "history": &hist}
	proc, err := startSQLProc()
	if err != nil {
		c.Inconclusive("SQL child: " + err.Error())
		return
	}
	defer proc.stop()
	pdb := filepath.Join(P.MountDir(), "db")
	h1, err := proc.open(pdb, false)
	if err != nil {
		c.Violate("C03/kmount/open", err.Error(), detail)
		return
	}
	for _, q := range []string{fmt.Sprintf("PRAGMA page_size=%d", ps), "PRAGMA journal_mode=wal", "PRAGMA wal_autocheckpoint=0",
		"CREATE TABLE t0(id INTEGER PRIMARY KEY, k INTEGER, v BLOB)", "INSERT INTO t0 VALUES(1,1,randomblob(3000))"} {
		if _, err := h1.queryStringOrExec(q); err != nil {
			healthViolations(c, P.Node, q, detail)
			if !c.Violated() {
				c.Violate("C03/kmount/setup", q+": "+err.Error(), detail)
			}
			return
		}
	}
	h2, err := proc.open(pdb, false)
	if err != nil {
		c.Violate("C03/kmount/open", "second connection of the same process: "+err.Error(), detail)
		return
	}
	if _, err := h2.queryStringOrExec("PRAGMA wal_autocheckpoint=0"); err != nil {
		c.Violate("C03/kmount/setup", err.Error(), detail)
		return
	}
	chain := &ltxChain{dir: filepath.Join(mon.DBDir(P.Node, "db"), "ltx")}
	fail := func(fp, what string) {
		healthViolations(c, P.Node, what, detail)
		if !c.Violated() {
			c.Violate("C03/kmount/"+fp, what, detail)
		}
	}
	rounds := 5
	if c.Tier == "thorough" {
		rounds = 10
	}
	nextID := 10
	for round := 0; round < rounds && !c.Violated(); round++ {
		// grow the log so that the checkpoint has work to do
		n := 150 + c.Rng.IntN(250)
		if err := h2.exec("BEGIN"); err != nil {
			fail("sql-error", "BEGIN: "+err.Error())
			return
		}
		for i := 0; i < n; i++ {
			nextID++
			if err := h2.exec(fmt.Sprintf("INSERT INTO t0 VALUES(%d,%d,randomblob(%d))", nextID, round, 500+c.Rng.IntN(2500))); err != nil {
				fail("sql-error", "bulk insert: "+err.Error())
				return
			}
		}
		if err := h2.exec("COMMIT"); err != nil {
			fail("sql-error", "COMMIT of the bulk insert: "+err.Error())
			return
		}
		before := mon.PosOf(P.Node, "db")
		if _, err := proc.call(sqlReq{Op: "exec_bg", H: h1.h, Q: "PRAGMA wal_checkpoint(" + ckpt + ")"}); err != nil {
			c.Inconclusive("exec_bg: " + err.Error())
			return
		}
		m := 3 + c.Rng.IntN(4)
		inside := 0
		for j := 0; j < m; j++ {
			nextID++
			q := fmt.Sprintf("INSERT INTO t0 VALUES(%d,%d,randomblob(%d))", nextID, round, 100+c.Rng.IntN(3000))
			if j%3 == 2 {
				// (a row that exists for certain: an UPDATE that matches nothing writes
				// no frame and is no transaction)
				q = fmt.Sprintf("UPDATE t0 SET k=k+1, v=randomblob(%d) WHERE id=1", 100+c.Rng.IntN(2000))
			}
			if err := h2.exec(q); err != nil {
				fail("sql-error", fmt.Sprintf("round %d: %q on the second connection while the first one checkpoints (%s): %v", round, q, ckpt, err))
				return
			}
			if r, err := proc.call(sqlReq{Op: "poll_bg", H: h1.h}); err == nil && r.Val == "running" {
				inside++
			}
		}
		if _, err := proc.call(sqlReq{Op: "wait_bg", H: h1.h}); err != nil {
			// a checkpoint that finds the log busy reports it; that is SQLite's business
			c.Count("same_process_checkpoint_errors", 1)
		}
		after := mon.PosOf(P.Node, "db")
		hist = append(hist, fmt.Sprintf("round %d: %d rows in one transaction, then wal_checkpoint(%s) on connection 1 in the background and %d single-statement commits on connection 2 (%d returned while the checkpoint was still running): position %s -> %s", round, n, ckpt, m, inside, before, after))
		c.Count("same_process_commits_judged", m)
		c.Count("same_process_commits_inside_checkpoint", inside)
		c.Count("programs", m)
		if healthViolations(c, P.Node, "same-process round", detail) {
			return
		}
		if after.TXID != before.TXID+uint64(m) {
			c.Violate("C03/kmount/commit-not-captured", fmt.Sprintf("same process, two connections: %d commits on connection 2 while connection 1 ran wal_checkpoint(%s); the position went from %s to %s instead of advancing by %d", m, ckpt, before, after, m), detail)
			return
		}
		if _, problem := chain.advance(); problem != "" {
			c.Violate("C03/kmount/ltx-chain", "same process, two connections: "+problem, detail)
			return
		}
		if chain.pos != after {
			c.Violate("C03/kmount/ltx-chain", fmt.Sprintf("the transaction files end at %s, the node reports %s", chain.pos, after), detail)
			return
		}
	}
	want, err := h2.contentHash()
	if err != nil {
		fail("read-error", err.Error())
		return
	}
	ok, _, timedOut := cl.WaitConverged(P, R, []string{"db"}, 10, 60*time.Second)
	if healthViolations(c, R.Node, "replica", detail) {
		return
	}
	if timedOut {
		c.Inconclusive("convergence watchdog")
		return
	}
	if !ok {
		c.Violate("C03/kmount/replica-not-converged", fmt.Sprintf("the replica stays at %s, the primary is at %s", mon.PosOf(R.Node, "db"), mon.PosOf(P.Node, "db")), detail)
		return
	}
	r, err := proc.open(filepath.Join(R.MountDir(), "db"), true)
	if err != nil {
		c.Violate("C03/kmount/replica-open", err.Error(), detail)
		return
	}
	got, err := r.contentHash()
	r.close()
	if err != nil || got != want {
		c.Violate("C03/kmount/replica-content-differs", fmt.Sprintf("same process, two connections: the replica (built from the transaction files) reads %s (%v), SQLite on the primary reads %s", got, err, want), detail)
		return
	}
	h1.close()
	h2.close()
	c.Count("same_process_replica_reads", 1)
	c.Distinct(fmt.Sprintf("kmount/same-process/ps%d/%s", ps, ckpt))
	if k < 2 {
		c.Sample(detail)
	}
}
