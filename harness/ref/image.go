// Package ref holds reference ("oracle") code that is written independently of
// LiteFS: SQLite file formats, the page-image model, the CRC64 rolling checksum,
// and a POSIX byte-range lock table. Nothing in here imports litefs.
package ref

import (
	"bytes"
	"encoding/binary"
	"fmt"
	"hash/crc64"
	"sort"
)

// ChecksumFlag is the always-set top bit of a LiteFS database checksum.
const ChecksumFlag = uint64(1) << 63

var isoTable = crc64.MakeTable(crc64.ISO)

// PageChecksum is CRC64-ISO over be32(pgno) || page, with the top bit set.
func PageChecksum(pgno uint32, data []byte) uint64 {
	var b [4]byte
	binary.BigEndian.PutUint32(b[:], pgno)
	h := crc64.New(isoTable)
	h.Write(b[:])
	h.Write(data)
	return ChecksumFlag | h.Sum64()
}

// LockPgno is the page that contains SQLite's lock bytes (never read or written).
func LockPgno(pageSize uint32) uint32 {
	return uint32(0x40000000/int64(pageSize)) + 1
}

// Image is the logical content of a SQLite database: page size, page count and
// the bytes of every page. Absent pages are zero pages.
type Image struct {
	PageSize uint32
	PageN    uint32
	Pages    map[uint32][]byte
}

func NewImage(pageSize uint32) *Image {
	return &Image{PageSize: pageSize, Pages: map[uint32][]byte{}}
}

func (m *Image) Clone() *Image {
	if m == nil {
		return nil
	}
	o := &Image{PageSize: m.PageSize, PageN: m.PageN, Pages: make(map[uint32][]byte, len(m.Pages))}
	for k, v := range m.Pages {
		o.Pages[k] = v // page slices are immutable by convention
	}
	return o
}

var zeroPages = map[uint32][]byte{}

func zeroPage(sz uint32) []byte {
	if p, ok := zeroPages[sz]; ok {
		return p
	}
	return make([]byte, sz)
}

func init() {
	for _, sz := range []uint32{512, 1024, 2048, 4096, 8192, 16384, 32768, 65536} {
		zeroPages[sz] = make([]byte, sz)
	}
}

// Page returns the bytes of page pgno (zeros if never written).
func (m *Image) Page(pgno uint32) []byte {
	if p, ok := m.Pages[pgno]; ok {
		return p
	}
	return zeroPage(m.PageSize)
}

// Set stores an immutable copy of data as page pgno.
func (m *Image) Set(pgno uint32, data []byte) {
	if uint32(len(data)) != m.PageSize {
		panic(fmt.Sprintf("ref.Image.Set: page %d has %d bytes, page size %d", pgno, len(data), m.PageSize))
	}
	m.Pages[pgno] = append([]byte(nil), data...)
}

// Truncate sets the page count and drops pages beyond it.
func (m *Image) Truncate(n uint32) {
	for k := range m.Pages {
		if k > n {
			delete(m.Pages, k)
		}
	}
	m.PageN = n
}

// Checksum is the LiteFS database checksum computed from nothing.
func (m *Image) Checksum() uint64 {
	if m == nil || m.PageN == 0 {
		return ChecksumFlag
	}
	lock := LockPgno(m.PageSize)
	var c uint64
	for p := uint32(1); p <= m.PageN; p++ {
		if p == lock {
			continue
		}
		c ^= PageChecksum(p, m.Page(p))
	}
	return ChecksumFlag | c
}

// Diff returns a description of the first differences between two images
// (lock page excluded), or "" if they are equal.
func (m *Image) Diff(o *Image) string {
	mn, on := uint32(0), uint32(0)
	if m != nil {
		mn = m.PageN
	}
	if o != nil {
		on = o.PageN
	}
	if mn == 0 && on == 0 {
		return ""
	}
	if mn != on {
		return fmt.Sprintf("page count %d != %d", mn, on)
	}
	if m.PageSize != o.PageSize {
		return fmt.Sprintf("page size %d != %d", m.PageSize, o.PageSize)
	}
	lock := LockPgno(m.PageSize)
	var bad []uint32
	for p := uint32(1); p <= mn; p++ {
		if p == lock {
			continue
		}
		if !bytes.Equal(m.Page(p), o.Page(p)) {
			bad = append(bad, p)
			if len(bad) >= 8 {
				break
			}
		}
	}
	if len(bad) == 0 {
		return ""
	}
	return fmt.Sprintf("pages differ: %v", bad)
}

// Bytes renders the image as a database file (lock page zero unless stored).
func (m *Image) Bytes() []byte {
	if m == nil {
		return nil
	}
	b := make([]byte, int(m.PageN)*int(m.PageSize))
	for p := uint32(1); p <= m.PageN; p++ {
		copy(b[int(p-1)*int(m.PageSize):], m.Page(p))
	}
	return b
}

// ImageFromBytes parses a database file image using the given page size.
func ImageFromBytes(pageSize uint32, b []byte) *Image {
	m := NewImage(pageSize)
	n := uint32(len(b) / int(pageSize))
	for p := uint32(1); p <= n; p++ {
		pg := b[int(p-1)*int(pageSize) : int(p)*int(pageSize)]
		if !bytes.Equal(pg, zeroPage(pageSize)) {
			m.Set(p, pg)
		}
	}
	m.PageN = n
	return m
}

// SortedPgnos returns the stored page numbers in order.
func (m *Image) SortedPgnos() []uint32 {
	a := make([]uint32, 0, len(m.Pages))
	for k := range m.Pages {
		a = append(a, k)
	}
	sort.Slice(a, func(i, j int) bool { return a[i] < a[j] })
	return a
}

// ---- SQLite database header -------------------------------------------------

const DBHeaderMagic = "SQLite format 3\x00"

// EncodePageSize returns the 2-byte header encoding of a page size.
func EncodePageSize(sz uint32) uint16 {
	if sz == 65536 {
		return 1
	}
	return uint16(sz)
}

// MakePage1 builds a first page with a valid 100-byte SQLite header.
// wal selects file-format versions 2/2 (WAL) instead of 1/1.
func MakePage1(pageSize, pageN uint32, wal bool, changeCounter uint32, fill []byte) []byte {
	p := make([]byte, pageSize)
	copy(p, fill)
	copy(p[0:16], DBHeaderMagic)
	binary.BigEndian.PutUint16(p[16:], EncodePageSize(pageSize))
	v := byte(1)
	if wal {
		v = 2
	}
	p[18], p[19] = v, v
	p[20] = 0
	p[21], p[22], p[23] = 64, 32, 32
	binary.BigEndian.PutUint32(p[24:], changeCounter)
	binary.BigEndian.PutUint32(p[28:], pageN)
	binary.BigEndian.PutUint32(p[92:], changeCounter) // version-valid-for
	binary.BigEndian.PutUint32(p[96:], 3039000)
	return p
}

// HeaderInfo reads page size, page count and mode out of a first page.
func HeaderInfo(p []byte) (pageSize, pageN uint32, wal bool, ok bool) {
	if len(p) < 100 || string(p[:16]) != DBHeaderMagic {
		return 0, 0, false, false
	}
	pageSize = uint32(binary.BigEndian.Uint16(p[16:]))
	if pageSize == 1 {
		pageSize = 65536
	}
	pageN = binary.BigEndian.Uint32(p[28:])
	return pageSize, pageN, p[18] == 2 && p[19] == 2, true
}
