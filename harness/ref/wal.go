package ref

import (
	"encoding/binary"
)

// SQLite WAL format, written from the SQLite file-format document.

const (
	WALHeaderSize      = 32
	WALFrameHeaderSize = 24
	WALMagicLE         = 0x377f0682
	WALMagicBE         = 0x377f0683
)

// WALChecksum advances SQLite's WAL running checksum over b (len multiple of 8).
func WALChecksum(bigEndian bool, s0, s1 uint32, b []byte) (uint32, uint32) {
	for i := 0; i+8 <= len(b); i += 8 {
		var x0, x1 uint32
		if bigEndian {
			x0, x1 = binary.BigEndian.Uint32(b[i:]), binary.BigEndian.Uint32(b[i+4:])
		} else {
			x0, x1 = binary.LittleEndian.Uint32(b[i:]), binary.LittleEndian.Uint32(b[i+4:])
		}
		s0 += x0 + s1
		s1 += x1 + s0
	}
	return s0, s1
}

// WALWriter produces WAL bytes exactly as a SQLite writer would.
type WALWriter struct {
	BigEndian    bool
	PageSize     uint32
	Seq          uint32
	Salt1, Salt2 uint32
	C0, C1       uint32 // running checksum after the last appended frame
}

// Header renders the 32-byte WAL header and seeds the running checksum.
func (w *WALWriter) Header() []byte {
	b := make([]byte, WALHeaderSize)
	magic := uint32(WALMagicLE)
	if w.BigEndian {
		magic = WALMagicBE
	}
	binary.BigEndian.PutUint32(b[0:], magic)
	binary.BigEndian.PutUint32(b[4:], 3007000)
	binary.BigEndian.PutUint32(b[8:], w.PageSize)
	binary.BigEndian.PutUint32(b[12:], w.Seq)
	binary.BigEndian.PutUint32(b[16:], w.Salt1)
	binary.BigEndian.PutUint32(b[20:], w.Salt2)
	w.C0, w.C1 = WALChecksum(w.BigEndian, 0, 0, b[:24])
	binary.BigEndian.PutUint32(b[24:], w.C0)
	binary.BigEndian.PutUint32(b[28:], w.C1)
	return b
}

// Frame renders the 24-byte frame header for (pgno, commit, page) and advances
// the running checksum.
func (w *WALWriter) Frame(pgno, commit uint32, page []byte) []byte {
	h := make([]byte, WALFrameHeaderSize)
	binary.BigEndian.PutUint32(h[0:], pgno)
	binary.BigEndian.PutUint32(h[4:], commit)
	binary.BigEndian.PutUint32(h[8:], w.Salt1)
	binary.BigEndian.PutUint32(h[12:], w.Salt2)
	w.C0, w.C1 = WALChecksum(w.BigEndian, w.C0, w.C1, h[:8])
	w.C0, w.C1 = WALChecksum(w.BigEndian, w.C0, w.C1, page)
	binary.BigEndian.PutUint32(h[16:], w.C0)
	binary.BigEndian.PutUint32(h[20:], w.C1)
	return h
}

// WALFrame is one valid frame as seen by the reference reader.
type WALFrame struct {
	Pgno, Commit uint32
	Offset       int64 // file offset of the frame header
}

// WALScan is the result of reading a WAL byte string with SQLite's rules.
type WALScan struct {
	HeaderOK  bool
	PageSize  uint32
	BigEndian bool
	Salt1     uint32
	Salt2     uint32
	Frames    []WALFrame // longest valid prefix
	// LastCommit is the index+1 in Frames of the last commit frame (0 if none).
	LastCommit int
	// Pages holds the last committed version of each page; Size the commit size.
	Pages map[uint32][]byte
	Size  uint32
	// running checksum and end offset after the last commit frame
	C0, C1    uint32
	CommitEnd int64
	Seq       uint32
}

// ScanWAL reads wal with SQLite's validity rules: header magic, version and
// checksum; frames valid while salts equal the header's and the cumulative
// checksum matches; only frames up to the last commit frame count.
func ScanWAL(wal []byte) WALScan { return scanWAL(wal, true) }

// ScanWALChecksumsOnly is ScanWAL without SQLite's additional rule that a frame
// for page number 0 ends the valid prefix: validity by salts and cumulative
// checksums alone.
func ScanWALChecksumsOnly(wal []byte) WALScan { return scanWAL(wal, false) }

func scanWAL(wal []byte, rejectPage0 bool) WALScan {
	var s WALScan
	s.Pages = map[uint32][]byte{}
	if len(wal) < WALHeaderSize {
		return s
	}
	magic := binary.BigEndian.Uint32(wal[0:])
	if magic != WALMagicLE && magic != WALMagicBE {
		return s
	}
	s.BigEndian = magic == WALMagicBE
	if binary.BigEndian.Uint32(wal[4:]) != 3007000 {
		return s
	}
	ps := binary.BigEndian.Uint32(wal[8:])
	if ps&(ps-1) != 0 || ps < 512 || ps > 65536 {
		return s
	}
	c0, c1 := WALChecksum(s.BigEndian, 0, 0, wal[:24])
	if c0 != binary.BigEndian.Uint32(wal[24:]) || c1 != binary.BigEndian.Uint32(wal[28:]) {
		return s
	}
	s.HeaderOK = true
	s.PageSize = ps
	s.Seq = binary.BigEndian.Uint32(wal[12:])
	s.C0, s.C1, s.CommitEnd = c0, c1, WALHeaderSize
	s.Salt1 = binary.BigEndian.Uint32(wal[16:])
	s.Salt2 = binary.BigEndian.Uint32(wal[20:])
	frameSize := int64(WALFrameHeaderSize) + int64(ps)
	pending := map[uint32]int64{}
	for off := int64(WALHeaderSize); off+frameSize <= int64(len(wal)); off += frameSize {
		h := wal[off : off+WALFrameHeaderSize]
		page := wal[off+WALFrameHeaderSize : off+frameSize]
		if binary.BigEndian.Uint32(h[8:]) != s.Salt1 || binary.BigEndian.Uint32(h[12:]) != s.Salt2 {
			break
		}
		pgno := binary.BigEndian.Uint32(h[0:])
		if pgno == 0 && rejectPage0 {
			break // SQLite: walDecodeFrame rejects page 0
		}
		c0, c1 = WALChecksum(s.BigEndian, c0, c1, h[:8])
		c0, c1 = WALChecksum(s.BigEndian, c0, c1, page)
		if c0 != binary.BigEndian.Uint32(h[16:]) || c1 != binary.BigEndian.Uint32(h[20:]) {
			break
		}
		commit := binary.BigEndian.Uint32(h[4:])
		s.Frames = append(s.Frames, WALFrame{Pgno: pgno, Commit: commit, Offset: off})
		pending[pgno] = off
		if commit != 0 {
			s.LastCommit = len(s.Frames)
			s.C0, s.C1, s.CommitEnd = c0, c1, off+frameSize
			s.Size = commit
			for p, o := range pending {
				s.Pages[p] = wal[o+WALFrameHeaderSize : o+frameSize]
			}
			pending = map[uint32]int64{}
		}
	}
	return s
}

// LogicalImage overlays the committed WAL content on a database file image:
// what a SQLite reader sees for (database bytes, wal bytes).
func LogicalImage(dbFile []byte, wal []byte) *Image {
	var pageSize, pageN uint32
	if ps, n, _, ok := HeaderInfo(dbFile); ok {
		pageSize, pageN = ps, n
	}
	s := ScanWAL(wal)
	if pageSize == 0 {
		if !s.HeaderOK || s.LastCommit == 0 {
			return &Image{Pages: map[uint32][]byte{}}
		}
		pageSize = s.PageSize
	}
	if pageN == 0 && len(dbFile) > 0 {
		pageN = uint32(len(dbFile) / int(pageSize))
	}
	m := ImageFromBytes(pageSize, dbFile)
	if s.HeaderOK && s.PageSize == pageSize && s.LastCommit > 0 {
		for p, b := range s.Pages {
			if p <= s.Size {
				m.Set(p, b)
			}
		}
		pageN = s.Size
	}
	// grow/shrink to the logical size
	if pageN < m.PageN {
		m.Truncate(pageN)
	} else {
		m.PageN = pageN
	}
	return m
}
