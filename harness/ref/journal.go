package ref

import (
	"bytes"
	"encoding/binary"
)

// SQLite rollback-journal format, written from the SQLite file-format document.

var JournalMagic = []byte{0xd9, 0xd5, 0x05, 0xf9, 0x20, 0xa1, 0x63, 0xd7}

const JournalHeaderSize = 28

// JournalChecksum is SQLite's pager_cksum: nonce plus every 200th byte counting
// down from pageSize-200.
func JournalChecksum(data []byte, nonce uint32) uint32 {
	c := nonce
	for i := len(data) - 200; i > 0; i -= 200 {
		c += uint32(data[i])
	}
	return c
}

// JournalHeader renders one segment header padded to the sector size.
func JournalHeader(nRec uint32, nonce, origPages, sector, pageSize uint32) []byte {
	b := make([]byte, sector)
	copy(b, JournalMagic)
	binary.BigEndian.PutUint32(b[8:], nRec)
	binary.BigEndian.PutUint32(b[12:], nonce)
	binary.BigEndian.PutUint32(b[16:], origPages)
	binary.BigEndian.PutUint32(b[20:], sector)
	binary.BigEndian.PutUint32(b[24:], pageSize)
	return b
}

// JournalRecord renders pgno || page || checksum.
func JournalRecord(pgno uint32, page []byte, nonce uint32) []byte {
	b := make([]byte, 4+len(page)+4)
	binary.BigEndian.PutUint32(b, pgno)
	copy(b[4:], page)
	binary.BigEndian.PutUint32(b[4+len(page):], JournalChecksum(page, nonce))
	return b
}

// JournalPlayback describes what SQLite's hot-journal rollback would do.
type JournalPlayback struct {
	Valid     bool              // a usable first header was found
	OrigPages uint32            // database size to restore
	Pages     map[uint32][]byte // page images to write back (first occurrence wins)
	Order     []uint32
}

// PlayJournal applies SQLite's hot-journal playback rules (pager_playback) to a
// journal byte string. pageSize is the database's page size (used when the
// header's page size field is zero). dbPages is the current size of the
// database file in pages, used only for the nRec==0 "size-derived" rule.
func PlayJournal(j []byte, pageSize uint32) JournalPlayback {
	out := JournalPlayback{Pages: map[uint32][]byte{}}
	off := int64(0)
	sector := uint32(0)
	size := int64(len(j))
	first := true
	for {
		// headers live on sector boundaries
		if !first && sector > 0 {
			off = ((off-1)/int64(sector) + 1) * int64(sector)
		}
		if off+JournalHeaderSize > size {
			return out
		}
		hdr := j[off : off+JournalHeaderSize]
		if !bytes.Equal(hdr[:8], JournalMagic) {
			return out
		}
		nRec := binary.BigEndian.Uint32(hdr[8:])
		nonce := binary.BigEndian.Uint32(hdr[12:])
		orig := binary.BigEndian.Uint32(hdr[16:])
		if first {
			sector = binary.BigEndian.Uint32(hdr[20:])
			ps := binary.BigEndian.Uint32(hdr[24:])
			if ps == 0 {
				ps = pageSize
			}
			if ps < 512 || ps > 65536 || ps&(ps-1) != 0 || sector < 32 || sector > 65536 || sector&(sector-1) != 0 {
				return out // SQLITE_DONE: invalid header
			}
			if ps != pageSize {
				return out
			}
		}
		// readJournalHdr: a header counts only if the file holds its whole sector
		// (journalOff + JOURNAL_HDR_SZ > journalSize is SQLITE_DONE)
		if off+int64(sector) > size {
			return out
		}
		if first {
			out.Valid = true
			out.OrigPages = orig
		}
		off += int64(sector)
		recSize := int64(pageSize) + 8
		if nRec == 0xFFFFFFFF {
			nRec = uint32((size - int64(sector)) / recSize)
		}
		// Hot journal: nRec==0 always means the segment holds no pages to roll
		// back (it was never synced, so none of its pages reached the database).
		for i := uint32(0); i < nRec; i++ {
			if off+recSize > size {
				return out
			}
			pgno := binary.BigEndian.Uint32(j[off:])
			page := j[off+4 : off+4+int64(pageSize)]
			ck := binary.BigEndian.Uint32(j[off+4+int64(pageSize):])
			off += recSize
			if pgno == 0 || pgno == LockPgno(pageSize) {
				return out // SQLITE_DONE per pager_playback_one_page
			}
			if pgno > orig {
				continue // skipped before the checksum is looked at
			}
			if ck != JournalChecksum(page, nonce) {
				return out
			}
			// (records are written to the database in the order they are read: of two
			// records for one page - which only a stale later segment of a persistent
			// journal can supply - the later one is what the page ends up with)
			if _, seen := out.Pages[pgno]; !seen {
				out.Order = append(out.Order, pgno)
			}
			out.Pages[pgno] = append([]byte(nil), page...)
		}
		first = false
	}
}
