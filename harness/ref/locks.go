package ref

import "sort"

// LockTable is a reference POSIX byte-range lock table restricted to the named
// single-byte locks SQLite uses. Per lock: a set of shared owners xor one
// exclusive owner. Same-owner upgrade succeeds iff it is the sole holder.
type LockTable struct {
	Shared map[string]map[uint64]bool
	Excl   map[string]uint64 // 0 = none (owner ids are non-zero)
}

func NewLockTable() *LockTable {
	return &LockTable{Shared: map[string]map[uint64]bool{}, Excl: map[string]uint64{}}
}

func (t *LockTable) Clone() *LockTable {
	o := NewLockTable()
	for k, m := range t.Shared {
		o.Shared[k] = map[uint64]bool{}
		for w := range m {
			o.Shared[k][w] = true
		}
	}
	for k, v := range t.Excl {
		o.Excl[k] = v
	}
	return o
}

// TryShared: acquire/downgrade to shared.
func (t *LockTable) TryShared(lock string, owner uint64) bool {
	if e := t.Excl[lock]; e != 0 {
		if e != owner {
			return false
		}
		delete(t.Excl, lock) // downgrade
	}
	if t.Shared[lock] == nil {
		t.Shared[lock] = map[uint64]bool{}
	}
	t.Shared[lock][owner] = true
	return true
}

// TryExcl: acquire/upgrade to exclusive.
func (t *LockTable) TryExcl(lock string, owner uint64) bool {
	if e := t.Excl[lock]; e != 0 {
		return e == owner
	}
	for w := range t.Shared[lock] {
		if w != owner {
			return false
		}
	}
	delete(t.Shared, lock)
	t.Excl[lock] = owner
	return true
}

func (t *LockTable) Unlock(lock string, owner uint64) {
	if t.Excl[lock] == owner {
		delete(t.Excl, lock)
	}
	if m := t.Shared[lock]; m != nil {
		delete(m, owner)
		if len(m) == 0 {
			delete(t.Shared, lock)
		}
	}
}

// Holds returns "", "shared" or "exclusive" for owner on lock.
func (t *LockTable) Holds(lock string, owner uint64) string {
	if t.Excl[lock] == owner && owner != 0 {
		return "exclusive"
	}
	if t.Shared[lock][owner] {
		return "shared"
	}
	return ""
}

// State returns "unlocked", "shared" or "exclusive" for the lock as a whole.
func (t *LockTable) State(lock string) string {
	if t.Excl[lock] != 0 {
		return "exclusive"
	}
	if len(t.Shared[lock]) > 0 {
		return "shared"
	}
	return "unlocked"
}

// Key returns a canonical string of the whole table (for state hashing).
func (t *LockTable) Key() string {
	var ks []string
	for k, e := range t.Excl {
		if e != 0 {
			ks = append(ks, k+"=X"+itoa(e))
		}
	}
	for k, m := range t.Shared {
		var os []uint64
		for w := range m {
			os = append(os, w)
		}
		sort.Slice(os, func(i, j int) bool { return os[i] < os[j] })
		s := k + "=S"
		for _, w := range os {
			s += itoa(w) + ","
		}
		ks = append(ks, s)
	}
	sort.Strings(ks)
	out := ""
	for _, k := range ks {
		out += k + ";"
	}
	return out
}

func itoa(v uint64) string {
	if v == 0 {
		return "0"
	}
	var b [20]byte
	i := len(b)
	for v > 0 {
		i--
		b[i] = byte('0' + v%10)
		v /= 10
	}
	return string(b[i:])
}
