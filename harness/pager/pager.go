// Package pager is a SQLite pager simulator: it performs rollback-journal and
// WAL transactions against a LiteFS node through the driver, following
// SQLite's I/O and locking protocol step by step, and maintains the reference
// image M of what SQLite sees.
package pager

import (
	"encoding/binary"
	"errors"
	"fmt"
	"math/rand/v2"
	"syscall"
	"time"

	"verif/drv"
	"verif/ref"
)

// Lock byte constants (SQLite).
const (
	PendingByte  = 0x40000000
	ReservedByte = PendingByte + 1
	SharedFirst  = PendingByte + 2
	SharedSize   = 510

	WalWrite   = 120
	WalCkpt    = 121
	WalRecover = 122
	WalRead0   = 123
	WalDMS     = 128
)

// StepHook is called before every externally visible step (I/O or lock call)
// with a label; returning an error aborts the transaction at that step as if
// the SQLite process had died there (no further steps, nothing unlocked).
type StepHook func(step string) error

var ErrAbort = errors.New("aborted by step hook")

// DB is the simulator's per-database state shared by all its connections on
// one node (what SQLite processes share through the file system and SHM).
type DB struct {
	N        *drv.Node
	Name     string
	PageSize uint32
	Sector   uint32
	M        *ref.Image // committed image as SQLite sees it
	Change   uint32

	// WAL state
	WALMode     bool
	W           *ref.WALWriter // salts + running checksum at end of committed log
	WalEnd      int64          // end offset of committed frames (0 = no header yet)
	Backfilled  bool           // all committed frames are checkpointed
	WalContent  map[uint32][]byte
	BigEndian   bool
	nextSalt    uint32
	JournalMode string // delete | truncate | persist (rollback modes)

	Hook StepHook
	Rng  *rand.Rand
	// OnIntent, if set, is called with the image a committing transaction is
	// about to produce, before its first commit-related I/O.
	OnIntent func(newImage *ref.Image)

	// Split controls delivery of journal/WAL writes: "whole" or "split4k".
	Split string

	// BusyRetries is the number of times a refused lock is retried (SQLite's
	// busy handler); 0 = fail at once.
	BusyRetries int
}

// lock takes a lock, retrying on EAGAIN like SQLite's busy handler.
func (d *DB) lock(f *drv.File, owner, start, end uint64, excl bool) error {
	err := f.Lock(owner, start, end, excl)
	for i := 0; err == drv.ErrBusy && i < d.BusyRetries; i++ {
		time.Sleep(200 * time.Microsecond)
		err = f.Lock(owner, start, end, excl)
	}
	return err
}

func NewDB(n *drv.Node, name string, pageSize uint32, rng *rand.Rand) *DB {
	return &DB{N: n, Name: name, PageSize: pageSize, Sector: 512, M: ref.NewImage(pageSize),
		JournalMode: "delete", Rng: rng, WalContent: map[uint32][]byte{}, nextSalt: rng.Uint32()}
}

func (d *DB) step(label string) error {
	if d.Hook != nil {
		return d.Hook(label)
	}
	return nil
}

// RandPage fills a page with pseudo-random bytes (sometimes sparse/zero).
func (d *DB) RandPage() []byte {
	p := make([]byte, d.PageSize)
	switch d.Rng.IntN(10) {
	case 0:
		return p // zero page
	case 1:
		p[d.Rng.IntN(len(p))] = byte(1 + d.Rng.IntN(255))
		return p
	}
	for i := 0; i+8 <= len(p); i += 8 {
		binary.LittleEndian.PutUint64(p[i:], d.Rng.Uint64())
	}
	return p
}

// Conn is one SQLite connection (one POSIX lock owner).
type Conn struct {
	D     *DB
	Owner uint64
	dbf   *drv.File
	shm   *drv.File
	wal   *drv.File
	// lock bookkeeping so abort paths know what is held (informational)
	readMark int
}

// Open opens (creating if necessary) the database file.
func (d *DB) Open(owner uint64) (*Conn, error) {
	if err := d.step("open-db"); err != nil {
		return nil, err
	}
	f, err := d.N.OpenOrCreate(d.Name)
	if err != nil {
		return nil, fmt.Errorf("open db: %w", err)
	}
	return &Conn{D: d, Owner: owner, dbf: f, readMark: -1}, nil
}

// Close closes all handles (releases all of the owner's locks like close(2)).
func (c *Conn) Close() {
	if c.wal != nil {
		c.wal.Close(c.Owner)
		c.wal = nil
	}
	if c.shm != nil {
		c.shm.Close(c.Owner)
		c.shm = nil
	}
	if c.dbf != nil {
		c.dbf.Close(c.Owner)
		c.dbf = nil
	}
}

func (c *Conn) DBFile() *drv.File { return c.dbf }

func (c *Conn) write(f *drv.File, p []byte, off int64) error {
	if c.D.Split == "split4k" {
		return f.WriteSplit4K(c.Owner, p, off)
	}
	return f.WriteAt(c.Owner, p, off)
}

// ---- rollback-journal protocol -----------------------------------------------

// SharedLock takes SQLite's SHARED lock: PENDING(r) → SHARED(r) → unlock PENDING.
func (c *Conn) SharedLock() error {
	if err := c.D.step("lock PENDING shared"); err != nil {
		return err
	}
	if err := c.D.lock(c.dbf, c.Owner, PendingByte, PendingByte, false); err != nil {
		return err
	}
	if err := c.D.step("lock SHARED shared"); err != nil {
		return err
	}
	if err := c.D.lock(c.dbf, c.Owner, SharedFirst, SharedFirst+SharedSize-1, false); err != nil {
		_ = c.dbf.Unlock(c.Owner, PendingByte, PendingByte)
		return err
	}
	if err := c.D.step("unlock PENDING"); err != nil {
		return err
	}
	return c.dbf.Unlock(c.Owner, PendingByte, PendingByte)
}

func (c *Conn) ReservedLock() error {
	if err := c.D.step("lock RESERVED excl"); err != nil {
		return err
	}
	return c.D.lock(c.dbf, c.Owner, ReservedByte, ReservedByte, true)
}

func (c *Conn) ExclusiveLock() error {
	if err := c.D.step("lock PENDING excl"); err != nil {
		return err
	}
	if err := c.D.lock(c.dbf, c.Owner, PendingByte, PendingByte, true); err != nil {
		return err
	}
	if err := c.D.step("lock SHARED excl"); err != nil {
		return err
	}
	return c.D.lock(c.dbf, c.Owner, SharedFirst, SharedFirst+SharedSize-1, true)
}

// UnlockAll performs SQLite's downgrade-to-SHARED then NO_LOCK sequence.
func (c *Conn) UnlockAll() error {
	if err := c.D.step("unlock: SHARED→shared"); err != nil {
		return err
	}
	_ = c.D.lock(c.dbf, c.Owner, SharedFirst, SharedFirst+SharedSize-1, false)
	_ = c.dbf.Unlock(c.Owner, PendingByte, ReservedByte)
	if err := c.D.step("unlock: all"); err != nil {
		return err
	}
	return c.dbf.Unlock(c.Owner, 0, 0x7fffffffffffffff)
}

// RollbackSpec describes one rollback-journal transaction.
type RollbackSpec struct {
	NewPageN uint32   `json:"new_page_n"` // size after the transaction's writes
	Dirty    []uint32 `json:"dirty"`      // existing pages to modify (page 1 is always rewritten)
	// SpillAfter > 0: after that many pages have been modified the cache spills
	// (journal synced, next segment header written, dirty pages written out).
	// May repeat every SpillAfter pages if MultiSpill.
	SpillAfter int  `json:"spill_after,omitempty"`
	MultiSpill bool `json:"multi_spill,omitempty"`
	// SpillBeyond > 0: the first spill also writes that many freshly allocated
	// pages beyond NewPageN to the database file (the transaction grows the file
	// and later frees those pages again, so the commit cuts them off).
	SpillBeyond uint32 `json:"spill_beyond,omitempty"`
	// UnwrittenNew > 0: that many of the freshly allocated pages just below
	// NewPageN are never written (SQLite does not write pages it allocated and
	// freed again in the same transaction; only the last page is written to
	// extend the file). They exist as zero-filled holes.
	UnwrittenNew uint32 `json:"unwritten_new,omitempty"`
	// DirtyCut > 0 (shrinking transactions): that many of the pages the transaction
	// is going to cut off are first modified and written out by a cache spill (a row
	// updated on a tail page, then deleted and vacuumed away in the same
	// transaction). Their journal records are what a rollback restores them from.
	DirtyCut  uint32 `json:"dirty_cut,omitempty"`
	NRec      string `json:"nrec,omitempty"`       // "" (synced count) | "nosync" (0xFFFFFFFF, single segment)
	Outcome   string `json:"outcome"`              // commit | rollback | lockonly
	Mode      string `json:"mode"`                 // delete | truncate | persist
	WALHeader bool   `json:"wal_header,omitempty"` // commit page 1 with file-format 2/2 (switch to WAL)
	// ExclusiveFirst: EXCLUSIVE is taken straight from SHARED (PENDING, then the
	// shared range) and RESERVED is never locked - what SQLite does when it
	// leaves WAL mode (pagerExclusiveLock in sqlite3PagerCloseWal; the header
	// rewrite that follows finds the lock already at EXCLUSIVE).
	ExclusiveFirst bool `json:"exclusive_first,omitempty"`
	// JournalSizeLimit > 0 (persist mode): PRAGMA journal_size_limit - the
	// finalised journal is truncated to that size when it is larger.
	JournalSizeLimit int64 `json:"journal_size_limit,omitempty"`
}

// Result of a transaction step sequence.
type TxResult struct {
	Err          error // first error returned by LiteFS at a step SQLite would fail on
	ErrStep      string
	Finalized    bool // the finalisation step returned success
	Aborted      bool // the step hook aborted the program
	NewImage     *ref.Image
	JournalLen   int64
	StaleHdrZaps int // stale segment headers of an earlier transaction zeroed (persistent journal)
}

// RunRollbackTx executes spec. On success the model image is updated.
func (c *Conn) RunRollbackTx(spec RollbackSpec) (res TxResult) {
	d := c.D
	fail := func(step string, err error) TxResult {
		if errors.Is(err, ErrAbort) {
			res.Aborted = true
			return res
		}
		res.Err, res.ErrStep = err, step
		return res
	}
	old := d.M
	origPages := old.PageN

	if err := c.SharedLock(); err != nil {
		return fail("shared-lock", err)
	}
	if spec.ExclusiveFirst {
		if err := c.ExclusiveLock(); err != nil {
			_ = c.UnlockAll()
			return fail("exclusive-lock", err)
		}
	} else if err := c.ReservedLock(); err != nil {
		_ = c.UnlockAll()
		return fail("reserved-lock", err)
	}
	if spec.Outcome == "lockonly" {
		if err := c.UnlockAll(); err != nil {
			return fail("unlock", err)
		}
		res.NewImage = old
		return res
	}

	// Build the new image.
	nm := old.Clone()
	nm.PageSize = d.PageSize
	dirtySet := map[uint32]bool{1: true}
	for _, p := range spec.Dirty {
		if p >= 1 && p <= origPages && p <= spec.NewPageN {
			dirtySet[p] = true
		}
	}
	holes := map[uint32]bool{}
	for p := origPages + 1; p <= spec.NewPageN; p++ {
		if spec.UnwrittenNew > 0 && p < spec.NewPageN && p+spec.UnwrittenNew >= spec.NewPageN {
			holes[p] = true
			continue
		}
		dirtySet[p] = true
	}
	lock := ref.LockPgno(d.PageSize)
	delete(dirtySet, lock)
	nm.Truncate(spec.NewPageN)
	nm.PageN = spec.NewPageN
	for p := range holes {
		nm.Set(p, make([]byte, d.PageSize))
	}
	order := make([]uint32, 0, len(dirtySet))
	for p := range dirtySet {
		order = append(order, p)
	}
	// deterministic shuffled order (map iteration is random): sort then shuffle by rng
	sortU32(order)
	d.Rng.Shuffle(len(order), func(i, j int) { order[i], order[j] = order[j], order[i] })
	d.Change++
	for _, p := range order {
		if p == 1 {
			continue
		}
		nm.Set(p, d.RandPage())
	}
	nm.Set(1, ref.MakePage1(d.PageSize, spec.NewPageN, spec.WALHeader, d.Change, d.RandPage()))
	if d.OnIntent != nil && spec.Outcome == "commit" {
		d.OnIntent(nm)
	} else if d.OnIntent != nil && spec.Outcome == "rollback" {
		d.OnIntent(old) // a rolled back journal transaction may consume a TXID with the same image
	}

	// Journal: create or open.
	var jf *drv.File
	var err error
	jname := d.Name + "-journal"
	if err := d.step("journal open/create"); err != nil {
		return fail("journal-open", err)
	}
	switch spec.Mode {
	case "delete":
		jf, err = d.N.Create(jname)
	default:
		jf, err = d.N.Open(jname)
		if err != nil && drv.Errno(err) == syscall.ENOENT {
			jf, err = d.N.Create(jname)
		}
	}
	if err != nil {
		_ = c.UnlockAll()
		return fail("journal-create", err)
	}
	defer func() {
		if jf != nil {
			_ = jf.Release()
		}
	}()

	sector := int64(d.Sector)
	segOff := int64(0)
	nonce := d.Rng.Uint32()
	nrecInit := uint32(0)
	if spec.NRec == "nosync" {
		nrecInit = 0xFFFFFFFF
	}
	if err := d.step("journal header"); err != nil {
		return fail("journal-hdr", err)
	}
	if err := c.write(jf, ref.JournalHeader(nrecInit, nonce, origPages, d.Sector, d.PageSize), segOff); err != nil {
		_ = c.UnlockAll()
		return fail("journal-hdr", err)
	}
	joff := segOff + sector
	segRecs := uint32(0)
	exclusive := spec.ExclusiveFirst
	pending := []uint32{} // modified in cache, not yet written to the database file
	journaled := map[uint32]bool{}
	cutDirty := map[uint32][]byte{} // see RollbackSpec.DirtyCut

	syncJournal := func(newHdr bool) error {
		if !exclusive {
			if err := c.ExclusiveLock(); err != nil {
				return err
			}
			exclusive = true
		}
		if spec.NRec != "nosync" {
			// SQLite's syncJournal: a persistent journal may still hold a segment
			// header of an earlier transaction right after this segment; its
			// first byte is zeroed before nRec is patched so that a hot-journal
			// playback cannot run on into the stale segment.
			nextHdr := ((joff-1)/sector + 1) * sector
			magic := make([]byte, 8)
			if n, rerr := jf.ReadAt(c.Owner, magic, nextHdr); rerr == nil && n == 8 && string(magic) == string(ref.JournalMagic) {
				if err := d.step("journal zap stale header"); err != nil {
					return err
				}
				if err := c.write(jf, []byte{0}, nextHdr); err != nil {
					return err
				}
				res.StaleHdrZaps++
			}
			if err := d.step("journal patch nRec"); err != nil {
				return err
			}
			b := make([]byte, 12)
			copy(b, ref.JournalMagic)
			binary.BigEndian.PutUint32(b[8:], segRecs)
			if err := c.write(jf, b, segOff); err != nil {
				return err
			}
			if err := d.step("journal fsync"); err != nil {
				return err
			}
			if err := jf.Fsync(); err != nil {
				return err
			}
		}
		if newHdr && spec.NRec != "nosync" {
			segOff = ((joff-1)/sector + 1) * sector
			nonce = d.Rng.Uint32()
			segRecs = 0
			if err := d.step("journal next header"); err != nil {
				return err
			}
			if err := c.write(jf, ref.JournalHeader(0, nonce, origPages, d.Sector, d.PageSize), segOff); err != nil {
				return err
			}
			joff = segOff + sector
		}
		return nil
	}
	beyondDone := false
	wroteBeyond := false
	flushPages := func() error {
		if spec.SpillBeyond > 0 && !beyondDone && spec.Outcome != "lockonly" {
			beyondDone = true
			hi := spec.NewPageN
			if origPages > hi {
				hi = origPages
			}
			for q := hi + 1; q <= hi+spec.SpillBeyond; q++ {
				if q == lock {
					continue
				}
				if err := d.step(fmt.Sprintf("db write page %d (beyond commit)", q)); err != nil {
					return err
				}
				if err := c.dbf.WriteAt(c.Owner, d.RandPage(), int64(q-1)*int64(d.PageSize)); err != nil {
					return err
				}
				wroteBeyond = true
			}
		}
		for _, p := range pending {
			if err := d.step(fmt.Sprintf("db write page %d", p)); err != nil {
				return err
			}
			data := nm.Page(p)
			if cd, isCut := cutDirty[p]; isCut {
				data = cd
			}
			if err := c.dbf.WriteAt(c.Owner, data, int64(p-1)*int64(d.PageSize)); err != nil {
				return err
			}
		}
		pending = pending[:0]
		return nil
	}

	// Pages being cut off by a shrink are journalled too (SQLite does this so a
	// rollback can restore them).
	var touch []uint32
	if spec.DirtyCut > 0 && spec.NewPageN < origPages {
		for p := spec.NewPageN + 1; p <= origPages && uint32(len(cutDirty)) < spec.DirtyCut; p++ {
			if p != lock {
				cutDirty[p] = d.RandPage()
				touch = append(touch, p) // modified early: journalled and spilled first
			}
		}
	}
	touch = append(touch, order...)
	if spec.NewPageN < origPages {
		for p := spec.NewPageN + 1; p <= origPages; p++ {
			if p != lock {
				touch = append(touch, p)
			}
		}
	}
	modified := 0
	for _, p := range touch {
		if p <= origPages && !journaled[p] {
			if err := d.step(fmt.Sprintf("journal record page %d", p)); err != nil {
				return fail("journal-rec", err)
			}
			rec := ref.JournalRecord(p, old.Page(p), nonce)
			// SQLite issues three writes: pgno, page, checksum
			if err := c.write(jf, rec[:4], joff); err != nil {
				return fail("journal-rec", err)
			}
			if err := c.write(jf, rec[4:4+d.PageSize], joff+4); err != nil {
				return fail("journal-rec", err)
			}
			if err := c.write(jf, rec[4+d.PageSize:], joff+4+int64(d.PageSize)); err != nil {
				return fail("journal-rec", err)
			}
			joff += int64(len(rec))
			segRecs++
			journaled[p] = true
		}
		if _, isCut := cutDirty[p]; p <= spec.NewPageN || isCut {
			pending = append(pending, p)
			modified++
			if spec.SpillAfter > 0 && modified%spec.SpillAfter == 0 && (spec.MultiSpill || modified == spec.SpillAfter) && spec.NRec != "nosync" {
				if err := syncJournal(true); err != nil {
					return fail("spill-sync", err)
				}
				if err := flushPages(); err != nil {
					return fail("spill-write", err)
				}
			}
		}
	}
	res.JournalLen = joff

	finalize := func() error {
		if err := d.step("journal finalize"); err != nil {
			return err
		}
		switch spec.Mode {
		case "delete":
			_ = jf.Release()
			jf = nil
			return d.N.Remove(jname)
		case "truncate":
			return jf.Truncate(0)
		case "persist":
			if err := c.write(jf, make([]byte, 28), 0); err != nil {
				return err
			}
			if err := jf.Fsync(); err != nil {
				return err
			}
			// PRAGMA journal_size_limit: zeroJournalHdr() cuts the file down to the
			// limit once the header is zeroed (the transaction is committed by then)
			if spec.JournalSizeLimit > 0 {
				if sz, err := jf.Size(); err == nil && sz > spec.JournalSizeLimit {
					if err := d.step("journal size limit"); err != nil {
						return err
					}
					return jf.Truncate(spec.JournalSizeLimit)
				}
			}
			return nil
		}
		return fmt.Errorf("bad mode %q", spec.Mode)
	}

	if spec.Outcome == "rollback" {
		// ROLLBACK in the same process: truncate back, restore journalled pages
		// that were already written out, sync, finalise.
		if exclusive {
			if err := d.step("rollback truncate"); err != nil {
				return fail("rb-trunc", err)
			}
			// (pager_truncate: the file is cut back to the original size, zero pages
			// for the first transaction of a new database, if it is larger)
			if sz, err := c.dbf.Size(); err != nil || sz > int64(origPages)*int64(d.PageSize) {
				if err := c.dbf.Truncate(int64(origPages) * int64(d.PageSize)); err != nil {
					return fail("rb-trunc", err)
				}
			}
			var jl []uint32
			for p := range journaled {
				jl = append(jl, p)
			}
			sortU32(jl)
			for _, p := range jl {
				if p == lock {
					continue
				}
				if err := d.step(fmt.Sprintf("rollback restore page %d", p)); err != nil {
					return fail("rb-restore", err)
				}
				if err := c.dbf.WriteAt(c.Owner, old.Page(p), int64(p-1)*int64(d.PageSize)); err != nil {
					return fail("rb-restore", err)
				}
			}
			if err := d.step("rollback fsync db"); err != nil {
				return fail("rb-sync", err)
			}
			if err := c.dbf.Fsync(); err != nil {
				return fail("rb-sync", err)
			}
		}
		if err := finalize(); err != nil {
			return fail("finalize", err)
		}
		res.Finalized = true
		if err := c.UnlockAll(); err != nil {
			return fail("unlock", err)
		}
		d.Change-- // not committed
		res.NewImage = old
		return res
	}

	// COMMIT
	if err := syncJournal(false); err != nil {
		return fail("commit-sync", err)
	}
	if err := flushPages(); err != nil {
		return fail("commit-write", err)
	}
	if err := d.step("fsync db"); err != nil {
		return fail("commit-fsync", err)
	}
	if err := c.dbf.Fsync(); err != nil {
		return fail("commit-fsync", err)
	}
	if err := finalize(); err != nil {
		return fail("finalize", err)
	}
	res.Finalized = true
	// The transaction is now committed from SQLite's point of view.
	d.M = nm
	res.NewImage = nm
	if spec.WALHeader {
		d.WALMode = true
	}
	if spec.NewPageN < origPages || wroteBeyond {
		if err := d.step("late truncate"); err != nil {
			return fail("late-trunc", err)
		}
		if err := c.dbf.Truncate(int64(spec.NewPageN) * int64(d.PageSize)); err != nil {
			return fail("late-trunc", err)
		}
	}
	if err := c.UnlockAll(); err != nil {
		return fail("unlock", err)
	}
	return res
}

func sortU32(a []uint32) {
	for i := 1; i < len(a); i++ {
		for j := i; j > 0 && a[j-1] > a[j]; j-- {
			a[j-1], a[j] = a[j], a[j-1]
		}
	}
}
