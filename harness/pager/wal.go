package pager

import (
	"errors"
	"fmt"
	"syscall"

	"verif/drv"
	"verif/ref"
)

// OpenWAL opens the connection for WAL mode: holds the database SHARED lock for
// the life of the connection, opens/creates -wal and -shm, takes DMS shared.
func (c *Conn) OpenWAL() error {
	d := c.D
	if err := c.SharedLock(); err != nil {
		return fmt.Errorf("wal open shared lock: %w", err)
	}
	if err := d.step("open wal"); err != nil {
		return err
	}
	var err error
	if c.wal, err = d.N.OpenOrCreate(d.Name + "-wal"); err != nil {
		return fmt.Errorf("open wal: %w", err)
	}
	if err := d.step("open shm"); err != nil {
		return err
	}
	if c.shm, err = d.N.Open(d.Name + "-shm"); err != nil {
		if drv.Errno(err) != syscall.ENOENT {
			return fmt.Errorf("open shm: %w", err)
		}
		if c.shm, err = d.N.Create(d.Name + "-shm"); err != nil {
			return fmt.Errorf("create shm: %w", err)
		}
		// SQLite maps (and thereby writes) the first 32 KiB index block.
		if err := c.shm.WriteAt(c.Owner, make([]byte, 32768), 0); err != nil {
			return fmt.Errorf("init shm: %w", err)
		}
	}
	if err := d.step("lock DMS shared"); err != nil {
		return err
	}
	if err := c.D.lock(c.shm, c.Owner, WalDMS, WalDMS, false); err != nil {
		return fmt.Errorf("dms lock: %w", err)
	}
	return nil
}

func (c *Conn) WALFile() *drv.File { return c.wal }
func (c *Conn) SHMFile() *drv.File { return c.shm }

// FrameSpec is one frame a WAL writer appends.
type FrameSpec struct {
	Pgno uint32 `json:"pgno"`
}

// WALSpec describes one WAL write transaction.
type WALSpec struct {
	NewPageN uint32 `json:"new_page_n"`
	// ReleaseByClose: the locks are not released by explicit unlock calls; the
	// connection's descriptors are closed instead (the connection is unusable
	// afterwards and must be reopened).
	ReleaseByClose bool        `json:"release_by_close,omitempty"`
	Frames         []FrameSpec `json:"frames"`  // in append order; pages may repeat and may exceed NewPageN (spill then shrink)
	Outcome        string      `json:"outcome"` // commit | rollback | lockonly
	// SplitFrame: deliver header and body as separate writes (SQLite's normal
	// behaviour); false = one combined write per frame.
	SplitFrame bool `json:"split_frame"`
	// SyncSplit: additionally split the body of the commit frame in two.
	SyncSplit bool `json:"sync_split,omitempty"`
	// PadCommit: after the commit frame that frame is appended again n times.
	// SQLite does this (walWriteToLog, "sector padding") with synchronous=FULL on
	// a device without powersafe overwrite (URI parameter psow=0) so that the
	// commit frame's sector is not shared with later writes.
	PadCommit int `json:"pad_commit,omitempty"`
	// TornTail (rollback only): after the listed frames one more frame is begun
	// and not finished - SQLite writes a frame as header then body, and a failing
	// body write (disk full, I/O error) makes it roll the transaction back with
	// the log ending in a partial frame. 1 = the 24-byte header only, 2 = header
	// and half of the page.
	TornTail int `json:"torn_tail,omitempty"`
}

// ReadLock takes WAL read mark 0 (log empty or fully backfilled) or 1.
func (c *Conn) walReadLock() error {
	d := c.D
	mark := 1
	if d.WalEnd <= ref.WALHeaderSize || d.Backfilled {
		mark = 0
	}
	if err := d.step(fmt.Sprintf("lock READ%d shared", mark)); err != nil {
		return err
	}
	if err := c.D.lock(c.shm, c.Owner, uint64(WalRead0+mark), uint64(WalRead0+mark), false); err != nil {
		return err
	}
	c.readMark = mark
	return nil
}

func (c *Conn) walReadUnlock() error {
	if c.readMark < 0 {
		return nil
	}
	if err := c.D.step("unlock READ"); err != nil {
		return err
	}
	err := c.shm.Unlock(c.Owner, uint64(WalRead0+c.readMark), uint64(WalRead0+c.readMark))
	c.readMark = -1
	return err
}

// ResyncWAL re-reads the log the way a SQLite connection does when the
// wal-index header changed under it (LiteFS rewrites the SHM after its own
// checkpoints and applies): it adopts the salts, the running checksum and the
// end of the last committed frame found in the file.
func (c *Conn) ResyncWAL() error {
	d := c.D
	if c.wal == nil {
		return nil
	}
	size, err := c.wal.Size()
	if err != nil {
		return err
	}
	if size < ref.WALHeaderSize {
		if d.WalEnd != 0 {
			d.WalEnd, d.Backfilled, d.WalContent = 0, true, map[uint32][]byte{}
		}
		return nil
	}
	buf := make([]byte, size)
	for off := int64(0); off < size; {
		n, err := c.wal.ReadAt(c.Owner, buf[off:minI64(size, off+1<<17)], off)
		if err != nil {
			return err
		}
		if n == 0 {
			break
		}
		off += int64(n)
	}
	sc := ref.ScanWAL(buf)
	if !sc.HeaderOK {
		d.WalEnd, d.Backfilled, d.WalContent = 0, true, map[uint32][]byte{}
		return nil
	}
	if d.W != nil && d.W.Salt1 == sc.Salt1 && d.W.Salt2 == sc.Salt2 && d.WalEnd == sc.CommitEnd {
		return nil // nothing changed under us
	}
	d.W = &ref.WALWriter{BigEndian: sc.BigEndian, PageSize: sc.PageSize, Seq: sc.Seq, Salt1: sc.Salt1, Salt2: sc.Salt2, C0: sc.C0, C1: sc.C1}
	d.BigEndian = sc.BigEndian
	d.WalEnd = sc.CommitEnd
	d.Backfilled = sc.LastCommit == 0
	d.WalContent = map[uint32][]byte{}
	for p, b := range sc.Pages {
		d.WalContent[p] = b
	}
	return nil
}

func minI64(a, b int64) int64 {
	if a < b {
		return a
	}
	return b
}

// RunWALTx executes spec on an opened WAL connection.
func (c *Conn) RunWALTx(spec WALSpec) (res TxResult) {
	d := c.D
	fail := func(step string, err error) TxResult {
		if errors.Is(err, ErrAbort) {
			res.Aborted = true
			return res
		}
		res.Err, res.ErrStep = err, step
		return res
	}
	old := d.M
	if err := c.walReadLock(); err != nil {
		return fail("read-lock", err)
	}
	if err := d.step("lock WRITE excl"); err != nil {
		return fail("write-lock", err)
	}
	if err := c.D.lock(c.shm, c.Owner, WalWrite, WalWrite, true); err != nil {
		_ = c.walReadUnlock()
		return fail("write-lock", err)
	}
	unlockWrite := func() error {
		if err := d.step("unlock WRITE"); err != nil {
			return err
		}
		return c.shm.Unlock(c.Owner, WalWrite, WalWrite)
	}
	if spec.Outcome == "lockonly" {
		if err := unlockWrite(); err != nil {
			return fail("write-unlock", err)
		}
		if err := c.walReadUnlock(); err != nil {
			return fail("read-unlock", err)
		}
		res.NewImage = old
		return res
	}
	if err := c.ResyncWAL(); err != nil {
		_ = unlockWrite()
		_ = c.walReadUnlock()
		return fail("wal-resync", err)
	}

	// Restart the log if it is fully backfilled (or absent).
	w := d.W
	off := d.WalEnd
	restarted := false
	canRestart := w == nil || off < ref.WALHeaderSize
	if !canRestart && d.Backfilled {
		// SQLite restarts a fully backfilled log only if it can lock READ1..4
		// exclusively (no reader is using the log); otherwise it keeps appending.
		if err := d.step("lock READ1..4 excl (restart probe)"); err != nil {
			return fail("restart-probe", err)
		}
		if err := c.shm.Lock(c.Owner, WalRead0+1, WalRead0+4, true); err == nil {
			canRestart = true
			_ = c.shm.Unlock(c.Owner, WalRead0+1, WalRead0+4)
		} else if err != drv.ErrBusy {
			return fail("restart-probe", err)
		}
		// (a refused fcntl holds nothing: SQLite does not unlock after SQLITE_BUSY)
	}
	if canRestart {
		nw := &ref.WALWriter{BigEndian: d.BigEndian, PageSize: d.PageSize}
		if w != nil {
			nw.Seq = w.Seq + 1
			nw.Salt1 = w.Salt1 + 1
		} else {
			nw.Salt1 = d.nextSalt
		}
		nw.Salt2 = d.Rng.Uint32()
		hdr := nw.Header()
		if err := d.step("wal header"); err != nil {
			return fail("wal-hdr", err)
		}
		if err := c.write(c.wal, hdr, 0); err != nil {
			_ = unlockWrite()
			_ = c.walReadUnlock()
			return fail("wal-hdr", err)
		}
		if err := d.step("wal fsync (header)"); err != nil {
			return fail("wal-hdr-sync", err)
		}
		if err := c.wal.Fsync(); err != nil {
			return fail("wal-hdr-sync", err)
		}
		w = nw
		off = ref.WALHeaderSize
		restarted = true
	} else {
		cp := *w
		w = &cp
	}

	nm := old.Clone()
	nm.PageSize = d.PageSize
	txPages := map[uint32][]byte{}
	lock := ref.LockPgno(d.PageSize)
	d.Change++
	nframes := len(spec.Frames)
	// generate page contents first so the intended image is known up front
	pages := make([][]byte, nframes)
	for i, fs := range spec.Frames {
		if fs.Pgno == 1 {
			pages[i] = ref.MakePage1(d.PageSize, spec.NewPageN, true, d.Change, d.RandPage())
		} else {
			pages[i] = d.RandPage()
		}
	}
	if d.OnIntent != nil && spec.Outcome == "commit" {
		im := old.Clone()
		im.PageSize = d.PageSize
		for i, fs := range spec.Frames {
			if fs.Pgno <= spec.NewPageN && fs.Pgno != lock {
				im.Set(fs.Pgno, pages[i])
			}
		}
		im.Truncate(spec.NewPageN)
		im.PageN = spec.NewPageN
		d.OnIntent(im)
	}
	for i, fs := range spec.Frames {
		last := i == nframes-1
		commit := uint32(0)
		if last && spec.Outcome == "commit" {
			commit = spec.NewPageN
		}
		page := pages[i]
		txPages[fs.Pgno] = page
		fh := w.Frame(fs.Pgno, commit, page)
		if err := d.step(fmt.Sprintf("wal frame %d pgno %d commit %d", i, fs.Pgno, commit)); err != nil {
			return fail("wal-frame", err)
		}
		if spec.SplitFrame {
			if err := c.write(c.wal, fh, off); err != nil {
				return fail("wal-frame-hdr", err)
			}
			if last && spec.SyncSplit && len(page) > 512 {
				if err := c.write(c.wal, page[:512], off+ref.WALFrameHeaderSize); err != nil {
					return fail("wal-frame-body", err)
				}
				if err := c.write(c.wal, page[512:], off+ref.WALFrameHeaderSize+512); err != nil {
					return fail("wal-frame-body", err)
				}
			} else if err := c.write(c.wal, page, off+ref.WALFrameHeaderSize); err != nil {
				return fail("wal-frame-body", err)
			}
		} else {
			buf := append(append([]byte{}, fh...), page...)
			if err := c.write(c.wal, buf, off); err != nil {
				return fail("wal-frame", err)
			}
		}
		off += ref.WALFrameHeaderSize + int64(d.PageSize)
	}
	if spec.Outcome == "commit" && spec.PadCommit > 0 && nframes > 0 {
		last := spec.Frames[nframes-1]
		for j := 0; j < spec.PadCommit; j++ {
			fh := w.Frame(last.Pgno, spec.NewPageN, pages[nframes-1])
			if err := d.step(fmt.Sprintf("wal padding frame %d", j)); err != nil {
				return fail("wal-frame", err)
			}
			buf := append(append([]byte{}, fh...), pages[nframes-1]...)
			if err := c.write(c.wal, buf, off); err != nil {
				return fail("wal-frame", err)
			}
			off += ref.WALFrameHeaderSize + int64(d.PageSize)
		}
	}
	if spec.Outcome == "commit" {
		if err := d.step("wal fsync"); err != nil {
			return fail("wal-sync", err)
		}
		if err := c.wal.Fsync(); err != nil {
			return fail("wal-sync", err)
		}
		// committed from SQLite's point of view once the commit frame is durable
		for p, b := range txPages {
			if p <= spec.NewPageN && p != lock {
				nm.Set(p, b)
			}
		}
		nm.Truncate(spec.NewPageN)
		nm.PageN = spec.NewPageN
		d.M = nm
		d.W = w
		d.WalEnd = off
		d.Backfilled = false
		for p, b := range txPages {
			d.WalContent[p] = b
		}
		res.Finalized = true
		res.NewImage = nm
	} else {
		if spec.TornTail > 0 {
			pg := d.RandPage()
			fh := w.Frame(2, 0, pg)
			if err := d.step("wal torn frame header"); err != nil {
				return fail("wal-frame", err)
			}
			if err := c.write(c.wal, fh, off); err != nil {
				return fail("wal-frame-hdr", err)
			}
			if spec.TornTail > 1 {
				if err := c.write(c.wal, pg[:len(pg)/2], off+ref.WALFrameHeaderSize); err != nil {
					return fail("wal-frame-body", err)
				}
			}
		}
		// rollback: frames stay in the file beyond WalEnd; the next writer
		// overwrites them. If we restarted the log the new header stays.
		d.Change--
		if restarted {
			// the log now has a fresh header and no committed frames
			hw := &ref.WALWriter{BigEndian: w.BigEndian, PageSize: w.PageSize, Seq: w.Seq, Salt1: w.Salt1, Salt2: w.Salt2}
			hw.Header()
			d.W = hw
			d.WalEnd = ref.WALHeaderSize
			d.Backfilled = false
			d.WalContent = map[uint32][]byte{}
		}
		res.NewImage = old
	}
	if spec.ReleaseByClose {
		// the process ends (or the connection is closed) while it still holds the
		// write lock: the kernel sends FLUSH with the lock owner for each of its
		// descriptors, which releases every lock of that owner, and RELEASE
		if err := d.step("close while holding WRITE"); err != nil {
			return fail("close", err)
		}
		c.Close()
		return res
	}
	if err := unlockWrite(); err != nil {
		return fail("write-unlock", err)
	}
	if err := c.walReadUnlock(); err != nil {
		return fail("read-unlock", err)
	}
	return res
}

// CheckpointSpec describes an application checkpoint.
type CheckpointSpec struct {
	Kind string `json:"kind"` // passive | full | restart | truncate
}

// RunCheckpoint performs a SQLite checkpoint of the whole committed log.
func (c *Conn) RunCheckpoint(spec CheckpointSpec) (res TxResult) {
	d := c.D
	fail := func(step string, err error) TxResult {
		if errors.Is(err, ErrAbort) {
			res.Aborted = true
			return res
		}
		res.Err, res.ErrStep = err, step
		return res
	}
	lk := func(b uint64, excl bool, label string) error {
		if err := d.step("lock " + label); err != nil {
			return err
		}
		return c.D.lock(c.shm, c.Owner, b, b, excl)
	}
	ul := func(b uint64, label string) error {
		if err := d.step("unlock " + label); err != nil {
			return err
		}
		return c.shm.Unlock(c.Owner, b, b)
	}
	if err := lk(WalCkpt, true, "CKPT excl"); err != nil {
		return fail("ckpt-lock", err)
	}
	heldWrite := false
	if spec.Kind != "passive" {
		if err := lk(WalWrite, true, "WRITE excl"); err != nil {
			_ = ul(WalCkpt, "CKPT")
			return fail("ckpt-write-lock", err)
		}
		heldWrite = true
	}
	release := func() {
		if heldWrite {
			_ = ul(WalWrite, "WRITE")
		}
		_ = ul(WalCkpt, "CKPT")
	}
	if d.WalEnd > ref.WALHeaderSize && !d.Backfilled {
		if err := lk(WalRead0, true, "READ0 excl"); err != nil {
			release()
			return fail("ckpt-read0", err)
		}
		if err := d.step("ckpt wal fsync"); err != nil {
			return fail("ckpt-wal-sync", err)
		}
		if err := c.wal.Fsync(); err != nil {
			return fail("ckpt-wal-sync", err)
		}
		pgs := make([]uint32, 0, len(d.WalContent))
		for p := range d.WalContent {
			if p <= d.M.PageN {
				pgs = append(pgs, p)
			}
		}
		sortU32(pgs)
		for _, p := range pgs {
			if err := d.step(fmt.Sprintf("ckpt db write page %d", p)); err != nil {
				return fail("ckpt-write", err)
			}
			if err := c.dbf.WriteAt(c.Owner, d.M.Page(p), int64(p-1)*int64(d.PageSize)); err != nil {
				_ = ul(WalRead0, "READ0")
				release()
				return fail("ckpt-write", err)
			}
		}
		if err := d.step("ckpt db truncate"); err != nil {
			return fail("ckpt-trunc", err)
		}
		if sz, err := c.dbf.Size(); err == nil && sz != int64(d.M.PageN)*int64(d.PageSize) {
			if err := c.dbf.Truncate(int64(d.M.PageN) * int64(d.PageSize)); err != nil {
				_ = ul(WalRead0, "READ0")
				release()
				return fail("ckpt-trunc", err)
			}
		}
		if err := d.step("ckpt db fsync"); err != nil {
			return fail("ckpt-db-sync", err)
		}
		if err := c.dbf.Fsync(); err != nil {
			return fail("ckpt-db-sync", err)
		}
		d.Backfilled = true
		d.WalContent = map[uint32][]byte{}
		if err := ul(WalRead0, "READ0"); err != nil {
			return fail("ckpt-read0-unlock", err)
		}
	}
	if spec.Kind == "restart" || spec.Kind == "truncate" {
		for i := 1; i <= 4; i++ {
			if err := lk(uint64(WalRead0+i), true, fmt.Sprintf("READ%d excl", i)); err != nil {
				release()
				return fail("ckpt-readn", err)
			}
		}
		if spec.Kind == "truncate" {
			if err := d.step("wal truncate"); err != nil {
				return fail("wal-trunc", err)
			}
			if err := c.wal.Truncate(0); err != nil {
				release()
				return fail("wal-trunc", err)
			}
			d.WalEnd = 0
		}
		for i := 4; i >= 1; i-- {
			_ = ul(uint64(WalRead0+i), fmt.Sprintf("READ%d", i))
		}
	}
	release()
	res.Finalized = true
	res.NewImage = d.M
	return res
}

// CloseLast does what closing the LAST connection of a WAL-mode database does
// (sqlite3WalClose): checkpoint everything, delete the log and the shared-memory
// file, release the locks. The connection is closed afterwards.
func (c *Conn) CloseLast() (res TxResult) {
	d := c.D
	fail := func(step string, err error) TxResult {
		res.Err, res.ErrStep = err, step
		return res
	}
	if !d.WALMode || c.wal == nil {
		c.Close()
		return res
	}
	// (sqlite3WalClose: a PASSIVE checkpoint under the exclusive lock - it backfills
	// everything as nobody else is connected - and then the log is deleted, not
	// truncated)
	if r := c.RunCheckpoint(CheckpointSpec{Kind: "passive"}); r.Err != nil {
		return fail("close-ckpt/"+r.ErrStep, r.Err)
	}
	if c.wal != nil {
		c.wal.Close(c.Owner)
		c.wal = nil
	}
	if err := d.step("remove wal"); err != nil {
		return fail("close-rm-wal", err)
	}
	if err := d.N.Remove(d.Name + "-wal"); err != nil && drv.Errno(err) != syscall.ENOENT {
		return fail("close-rm-wal", err)
	}
	if c.shm != nil {
		c.shm.Close(c.Owner)
		c.shm = nil
	}
	if err := d.N.Remove(d.Name + "-shm"); err != nil && drv.Errno(err) != syscall.ENOENT {
		return fail("close-rm-shm", err)
	}
	d.WalEnd, d.Backfilled, d.WalContent, d.W = 0, true, map[uint32][]byte{}, nil
	c.readMark = -1
	c.Close()
	return res
}

// SwitchToRollback does what `PRAGMA journal_mode=<mode>` does on a WAL-mode
// database with a single connection: checkpoint everything, close and delete
// the shared-memory file and the log, then rewrite page 1 (file-format
// versions 1/1) inside an ordinary rollback-journal transaction.
func (c *Conn) SwitchToRollback(mode string) (res TxResult) {
	return c.switchToRollback(mode, false)
}

// SwitchToRollbackExclusive: as SwitchToRollback, with the lock sequence SQLite
// uses for the header rewrite (EXCLUSIVE straight from SHARED, no RESERVED).
func (c *Conn) SwitchToRollbackExclusive(mode string) (res TxResult) {
	return c.switchToRollback(mode, true)
}

func (c *Conn) switchToRollback(mode string, exclusiveFirst bool) (res TxResult) {
	d := c.D
	fail := func(step string, err error) TxResult {
		res.Err, res.ErrStep = err, step
		return res
	}
	if r := c.RunCheckpoint(CheckpointSpec{Kind: "truncate"}); r.Err != nil {
		return fail("switch-ckpt/"+r.ErrStep, r.Err)
	}
	if err := d.step("close shm"); err != nil {
		return fail("switch-close", err)
	}
	if c.shm != nil {
		c.shm.Close(c.Owner)
		c.shm = nil
	}
	if err := d.N.Remove(d.Name + "-shm"); err != nil && drv.Errno(err) != syscall.ENOENT {
		return fail("switch-rm-shm", err)
	}
	if c.wal != nil {
		c.wal.Close(c.Owner)
		c.wal = nil
	}
	if err := d.step("remove wal"); err != nil {
		return fail("switch-rm-wal", err)
	}
	if err := d.N.Remove(d.Name + "-wal"); err != nil && drv.Errno(err) != syscall.ENOENT {
		return fail("switch-rm-wal", err)
	}
	d.WalEnd, d.Backfilled, d.WalContent = 0, true, map[uint32][]byte{}
	_ = c.UnlockAll()
	d.WALMode = false
	c.readMark = -1
	return c.RunRollbackTx(RollbackSpec{Mode: mode, Outcome: "commit", NewPageN: d.M.PageN, ExclusiveFirst: exclusiveFirst})
}
