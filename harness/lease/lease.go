// Package lease is a scriptable lease service ("simlease") that implements
// litefs.Leaser / litefs.Lease and keeps the ground truth about who holds the
// lease. Expiry is driven by explicit script steps, never by wall clock.
package lease

import (
	"context"
	"fmt"
	"sync"
	"sync/atomic"
	"time"

	"github.com/superfly/litefs"
)

// Call is one recorded call into the lease service.
type Call struct {
	Seq    uint64 `json:"seq"`
	Node   string `json:"node"`
	Op     string `json:"op"`
	Arg    string `json:"arg,omitempty"`
	Result string `json:"result"`
}

type rec struct {
	id       string
	holder   string // node name
	info     litefs.PrimaryInfo
	expired  bool
	released bool
}

// Service is the shared lease service.
type Service struct {
	mu        sync.Mutex
	Seq       atomic.Uint64 // global sequence counter shared with probes
	cur       *rec
	clusterID string
	counter   int
	calls     []Call
	TTL       time.Duration

	// Inject, if set, is consulted at every call; a non-nil error is returned to
	// LiteFS instead of performing the operation.
	Inject func(node, op string) error
	// Probe, if set, is called at entry of every call (before anything else)
	// with the sequence number assigned to the call.
	Probe func(seq uint64, node, op string)
	// After, if set, is called when a call has been decided, with its result.
	After func(seq uint64, node, op, arg, result string)

	hangMu sync.Mutex
	hang   map[string]chan struct{} // node+"/"+op -> closed when the service answers again
}

// SetHang makes the service leave calls op of node unanswered (a lease service
// that accepts the connection and says nothing) until ClearHang; a call gives up
// only with its own context.
func (s *Service) SetHang(node, op string) {
	s.hangMu.Lock()
	defer s.hangMu.Unlock()
	if s.hang == nil {
		s.hang = map[string]chan struct{}{}
	}
	if s.hang[node+"/"+op] == nil {
		s.hang[node+"/"+op] = make(chan struct{})
	}
}

func (s *Service) ClearHang(node, op string) {
	s.hangMu.Lock()
	defer s.hangMu.Unlock()
	if ch := s.hang[node+"/"+op]; ch != nil {
		close(ch)
		delete(s.hang, node+"/"+op)
	}
}

// waitHang blocks while calls op of node are left unanswered.
func (s *Service) waitHang(ctx context.Context, node, op string) error {
	s.hangMu.Lock()
	ch := s.hang[node+"/"+op]
	s.hangMu.Unlock()
	if ch == nil {
		return nil
	}
	select {
	case <-ch:
		return nil
	case <-ctx.Done():
		return ctx.Err()
	}
}

func NewService(ttl time.Duration) *Service { return &Service{TTL: ttl} }

func (s *Service) enter(node, op string) (uint64, error) {
	seq := s.Seq.Add(1)
	if p := s.Probe; p != nil {
		p(seq, node, op)
	}
	s.mu.Lock()
	f := s.Inject
	s.mu.Unlock()
	if f != nil {
		if err := f(node, op); err != nil {
			s.record(seq, node, op, "", "injected:"+err.Error())
			return seq, err
		}
	}
	return seq, nil
}

// Note lets a front end (the fake Consul) account for a call it answered itself:
// the call is probed and recorded like any other.
func (s *Service) Note(node, op, arg, result string) {
	seq := s.Seq.Add(1)
	if p := s.Probe; p != nil {
		p(seq, node, op)
	}
	s.record(seq, node, op, arg, result)
}

func (s *Service) record(seq uint64, node, op, arg, result string) {
	s.mu.Lock()
	s.calls = append(s.calls, Call{Seq: seq, Node: node, Op: op, Arg: arg, Result: result})
	s.mu.Unlock()
	if f := s.After; f != nil {
		f(seq, node, op, arg, result)
	}
}

// Calls returns a copy of the call log.
func (s *Service) Calls() []Call {
	s.mu.Lock()
	defer s.mu.Unlock()
	return append([]Call(nil), s.calls...)
}

// Holder returns the node holding a live lease ("" if none) and the lease id.
func (s *Service) Holder() (string, string) {
	s.mu.Lock()
	defer s.mu.Unlock()
	if s.cur == nil || s.cur.expired || s.cur.released {
		return "", ""
	}
	return s.cur.holder, s.cur.id
}

// Expire marks the current lease as expired/deleted on the service side.
func (s *Service) Expire() string {
	s.mu.Lock()
	defer s.mu.Unlock()
	if s.cur == nil {
		return ""
	}
	s.cur.expired = true
	id := s.cur.id
	s.record2("script", "expire", id, "ok")
	return id
}

func (s *Service) record2(node, op, arg, result string) {
	s.calls = append(s.calls, Call{Seq: s.Seq.Add(1), Node: node, Op: op, Arg: arg, Result: result})
}

// SetClusterIDDirect scripts the service-side cluster ID.
func (s *Service) SetClusterIDDirect(id string) {
	s.mu.Lock()
	s.clusterID = id
	s.mu.Unlock()
}

func (s *Service) ClusterIDDirect() string {
	s.mu.Lock()
	defer s.mu.Unlock()
	return s.clusterID
}

// Leaser returns the litefs.Leaser a node uses.
func (s *Service) Leaser(node, hostname, advertiseURL string) *NodeLeaser {
	return &NodeLeaser{svc: s, node: node, hostname: hostname, advertiseURL: advertiseURL}
}

// NodeLeaser implements litefs.Leaser for one node.
type NodeLeaser struct {
	svc          *Service
	node         string
	hostname     string
	advertiseURL string
}

var _ litefs.Leaser = (*NodeLeaser)(nil)

func (l *NodeLeaser) Close() error         { return nil }
func (l *NodeLeaser) Type() string         { return "sim" }
func (l *NodeLeaser) Hostname() string     { return l.hostname }
func (l *NodeLeaser) AdvertiseURL() string { return l.advertiseURL }

func (l *NodeLeaser) Acquire(ctx context.Context) (litefs.Lease, error) {
	seq, err := l.svc.enter(l.node, "acquire")
	if err != nil {
		return nil, err
	}
	s := l.svc
	s.mu.Lock()
	if s.cur != nil && !s.cur.expired && !s.cur.released {
		s.mu.Unlock()
		s.record(seq, l.node, "acquire", "", "primary-exists")
		return nil, litefs.ErrPrimaryExists
	}
	s.counter++
	r := &rec{id: fmt.Sprintf("lease-%d", s.counter), holder: l.node, info: litefs.PrimaryInfo{Hostname: l.hostname, AdvertiseURL: l.advertiseURL}}
	s.cur = r
	s.mu.Unlock()
	s.record(seq, l.node, "acquire", "", "ok:"+r.id)
	return &Lease{svc: s, rec: r, node: l.node, renewedAt: time.Now(), handoffCh: make(chan uint64)}, nil
}

func (l *NodeLeaser) AcquireExisting(ctx context.Context, leaseID string) (litefs.Lease, error) {
	seq, err := l.svc.enter(l.node, "acquire-existing")
	if err != nil {
		return nil, err
	}
	s := l.svc
	s.mu.Lock()
	if s.cur == nil || s.cur.id != leaseID || s.cur.expired || s.cur.released {
		s.mu.Unlock()
		s.record(seq, l.node, "acquire-existing", leaseID, "gone")
		return nil, litefs.ErrLeaseExpired
	}
	s.cur.holder = l.node
	s.cur.info = litefs.PrimaryInfo{Hostname: l.hostname, AdvertiseURL: l.advertiseURL}
	r := s.cur
	s.mu.Unlock()
	s.record(seq, l.node, "acquire-existing", leaseID, "ok")
	return &Lease{svc: s, rec: r, node: l.node, renewedAt: time.Now(), handoffCh: make(chan uint64)}, nil
}

func (l *NodeLeaser) PrimaryInfo(ctx context.Context) (litefs.PrimaryInfo, error) {
	seq, err := l.svc.enter(l.node, "primary-info")
	if err != nil {
		return litefs.PrimaryInfo{}, err
	}
	s := l.svc
	s.mu.Lock()
	if s.cur == nil || s.cur.expired || s.cur.released {
		s.mu.Unlock()
		s.record(seq, l.node, "primary-info", "", "no-primary")
		return litefs.PrimaryInfo{}, litefs.ErrNoPrimary
	}
	info, holder := s.cur.info, s.cur.holder
	s.mu.Unlock()
	s.record(seq, l.node, "primary-info", "", "ok:"+holder)
	return info, nil
}

func (l *NodeLeaser) ClusterID(ctx context.Context) (string, error) {
	seq, err := l.svc.enter(l.node, "cluster-id")
	if err != nil {
		return "", err
	}
	s := l.svc
	s.mu.Lock()
	id := s.clusterID
	s.mu.Unlock()
	s.record(seq, l.node, "cluster-id", "", id)
	return id, nil
}

func (l *NodeLeaser) SetClusterID(ctx context.Context, clusterID string) error {
	seq, err := l.svc.enter(l.node, "set-cluster-id")
	if err != nil {
		return err
	}
	s := l.svc
	s.mu.Lock()
	s.clusterID = clusterID
	s.mu.Unlock()
	s.record(seq, l.node, "set-cluster-id", clusterID, "ok")
	return nil
}

// Lease implements litefs.Lease.
type Lease struct {
	svc       *Service
	rec       *rec
	node      string
	mu        sync.Mutex
	renewedAt time.Time
	handoffCh chan uint64
}

var _ litefs.Lease = (*Lease)(nil)

func (l *Lease) ID() string { return l.rec.id }
func (l *Lease) RenewedAt() time.Time {
	l.mu.Lock()
	defer l.mu.Unlock()
	return l.renewedAt
}
func (l *Lease) TTL() time.Duration { return l.svc.TTL }

func (l *Lease) Renew(ctx context.Context) error {
	seq, err := l.svc.enter(l.node, "renew")
	if err != nil {
		return err
	}
	if err := l.svc.waitHang(ctx, l.node, "renew"); err != nil {
		l.svc.record(seq, l.node, "renew", l.rec.id, "unanswered:"+err.Error())
		return err
	}
	s := l.svc
	s.mu.Lock()
	gone := s.cur != l.rec || l.rec.expired || l.rec.released || l.rec.holder != l.node
	s.mu.Unlock()
	if gone {
		s.record(seq, l.node, "renew", l.rec.id, "expired")
		return litefs.ErrLeaseExpired
	}
	l.mu.Lock()
	l.renewedAt = time.Now()
	l.mu.Unlock()
	s.record(seq, l.node, "renew", l.rec.id, "ok")
	return nil
}

func (l *Lease) Handoff(ctx context.Context, nodeID uint64) error {
	seq, err := l.svc.enter(l.node, "handoff")
	if err != nil {
		return err
	}
	select {
	case <-ctx.Done():
		l.svc.record(seq, l.node, "handoff", litefs.FormatNodeID(nodeID), "ctx-done")
		return ctx.Err()
	case l.handoffCh <- nodeID:
		l.svc.record(seq, l.node, "handoff", litefs.FormatNodeID(nodeID), "ok")
		return nil
	case <-time.After(2 * time.Second):
		l.svc.record(seq, l.node, "handoff", litefs.FormatNodeID(nodeID), "timeout")
		return fmt.Errorf("handoff timeout")
	}
}

func (l *Lease) HandoffCh() <-chan uint64 { return l.handoffCh }

func (l *Lease) Close() error {
	seq, err := l.svc.enter(l.node, "lease-close")
	if err != nil {
		return err
	}
	s := l.svc
	s.mu.Lock()
	res := "not-current"
	if s.cur == l.rec && l.rec.holder == l.node {
		l.rec.released = true
		res = "released"
	}
	s.mu.Unlock()
	s.record(seq, l.node, "lease-close", l.rec.id, res)
	return nil
}

// SetInject installs the injection callback while nodes may already be calling in.
func (s *Service) SetInject(f func(node, op string) error) {
	s.mu.Lock()
	s.Inject = f
	s.mu.Unlock()
}
