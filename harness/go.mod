module verif

go 1.23

require (
	bazil.org/fuse v0.0.0-20230120002735-62a210ff1fd5
	github.com/anishathalye/porcupine v1.3.0
	github.com/mattn/go-sqlite3 v1.14.16-0.20220918133448-90900be5db1a
	github.com/superfly/litefs v0.0.0
	github.com/superfly/ltx v0.3.14
	golang.org/x/net v0.17.0
)

require (
	github.com/armon/go-metrics v0.3.10 // indirect
	github.com/beorn7/perks v1.0.1 // indirect
	github.com/cespare/xxhash/v2 v2.1.2 // indirect
	github.com/fatih/color v1.9.0 // indirect
	github.com/golang/protobuf v1.5.2 // indirect
	github.com/hashicorp/consul/api v1.11.0 // indirect
	github.com/hashicorp/go-cleanhttp v0.5.1 // indirect
	github.com/hashicorp/go-hclog v0.14.1 // indirect
	github.com/hashicorp/go-immutable-radix v1.3.0 // indirect
	github.com/hashicorp/go-rootcerts v1.0.2 // indirect
	github.com/hashicorp/golang-lru v0.5.4 // indirect
	github.com/hashicorp/serf v0.9.7 // indirect
	github.com/mattn/go-colorable v0.1.6 // indirect
	github.com/mattn/go-isatty v0.0.12 // indirect
	github.com/matttproud/golang_protobuf_extensions v1.0.1 // indirect
	github.com/mitchellh/mapstructure v1.4.1 // indirect
	github.com/pierrec/lz4/v4 v4.1.17 // indirect
	github.com/prometheus/client_golang v1.13.0 // indirect
	github.com/prometheus/client_model v0.2.0 // indirect
	github.com/prometheus/common v0.37.0 // indirect
	github.com/prometheus/procfs v0.8.0 // indirect
	golang.org/x/exp v0.0.0-20230515195305-f3d0a9c9a5cc // indirect
	golang.org/x/sync v0.4.0 // indirect
	golang.org/x/sys v0.13.0 // indirect
	golang.org/x/text v0.13.0 // indirect
	google.golang.org/protobuf v1.28.1 // indirect
)

replace github.com/superfly/litefs => /repo
