// Package mon holds the monitors (oracles over observations) shared by checks.
package mon

import (
	"fmt"
	"io"
	"os"
	"path/filepath"
	"sort"
	"strings"

	"github.com/superfly/ltx"
	"verif/ref"
)

// LTXFile is a decoded transaction file. The ltx module is trusted base.
type LTXFile struct {
	Path    string
	Header  ltx.Header
	Trailer ltx.Trailer
	Pages   map[uint32][]byte
	Order   []uint32
}

// DecodeLTX fully decodes and verifies an LTX file.
func DecodeLTX(path string) (*LTXFile, error) {
	f, err := os.Open(path)
	if err != nil {
		return nil, err
	}
	defer f.Close()
	return DecodeLTXReader(f, path)
}

func DecodeLTXReader(r io.Reader, path string) (*LTXFile, error) {
	dec := ltx.NewDecoder(r)
	if err := dec.DecodeHeader(); err != nil {
		return nil, fmt.Errorf("decode header: %w", err)
	}
	out := &LTXFile{Path: path, Header: dec.Header(), Pages: map[uint32][]byte{}}
	for {
		var ph ltx.PageHeader
		buf := make([]byte, out.Header.PageSize)
		if err := dec.DecodePage(&ph, buf); err == io.EOF {
			break
		} else if err != nil {
			return nil, fmt.Errorf("decode page: %w", err)
		}
		if _, dup := out.Pages[ph.Pgno]; dup {
			return nil, fmt.Errorf("page %d appears twice", ph.Pgno)
		}
		out.Pages[ph.Pgno] = buf
		out.Order = append(out.Order, ph.Pgno)
	}
	if err := dec.Close(); err != nil {
		return nil, fmt.Errorf("close: %w", err)
	}
	out.Trailer = dec.Trailer()
	return out, nil
}

// Apply applies the transaction file to an image, returning the new image.
func (l *LTXFile) Apply(m *ref.Image) *ref.Image {
	var o *ref.Image
	if l.Header.IsSnapshot() || m == nil || m.PageN == 0 {
		o = ref.NewImage(l.Header.PageSize)
	} else {
		o = m.Clone()
	}
	if l.Header.Commit == 0 {
		return ref.NewImage(l.Header.PageSize)
	}
	o.PageSize = l.Header.PageSize
	for p, b := range l.Pages {
		o.Set(p, b)
	}
	o.Truncate(l.Header.Commit)
	o.PageN = l.Header.Commit
	return o
}

// StructuralProblems returns property-relevant defects of the file itself:
// pages beyond commit, the lock page, unsorted pages.
func (l *LTXFile) StructuralProblems() []string {
	var out []string
	lock := ref.LockPgno(l.Header.PageSize)
	prev := uint32(0)
	for _, p := range l.Order {
		if p > l.Header.Commit {
			out = append(out, fmt.Sprintf("page %d beyond commit %d", p, l.Header.Commit))
		}
		if p == lock {
			out = append(out, fmt.Sprintf("lock page %d present", p))
		}
		if p <= prev {
			out = append(out, fmt.Sprintf("pages not ascending at %d", p))
		}
		prev = p
	}
	return out
}

// LTXEntry is one directory entry of an ltx/ directory.
type LTXEntry struct {
	Name     string
	Min, Max uint64
	IsLTX    bool
}

// ListLTXDir lists an ltx directory: parsed *.ltx files sorted by min TXID, and
// every other name separately.
func ListLTXDir(dir string) (files []LTXEntry, others []string, err error) {
	ents, err := os.ReadDir(dir)
	if os.IsNotExist(err) {
		return nil, nil, nil
	} else if err != nil {
		return nil, nil, err
	}
	for _, e := range ents {
		name := e.Name()
		if strings.HasSuffix(name, ".ltx") {
			if mn, mx, perr := ltx.ParseFilename(name); perr == nil {
				files = append(files, LTXEntry{Name: name, Min: uint64(mn), Max: uint64(mx), IsLTX: true})
				continue
			}
		}
		others = append(others, name)
	}
	sort.Slice(files, func(i, j int) bool { return files[i].Min < files[j].Min })
	sort.Strings(others)
	return files, others, nil
}

// ChainProblems checks that the files of dir form one contiguous,
// self-verifying chain ending at (txid, chk). It returns the problems found.
func ChainProblems(dir string, txid uint64, chk uint64) []string {
	files, _, err := ListLTXDir(dir)
	if err != nil {
		return []string{"list: " + err.Error()}
	}
	if len(files) == 0 {
		if txid != 0 {
			return []string{fmt.Sprintf("no ltx files but position is %d", txid)}
		}
		return nil
	}
	var out []string
	var prev *LTXFile
	for i, e := range files {
		l, err := DecodeLTX(filepath.Join(dir, e.Name))
		if err != nil {
			out = append(out, fmt.Sprintf("%s: fails integrity check: %v", e.Name, err))
			prev = nil
			continue
		}
		if uint64(l.Header.MinTXID) != e.Min || uint64(l.Header.MaxTXID) != e.Max {
			out = append(out, fmt.Sprintf("%s: header txids %d-%d do not match name", e.Name, l.Header.MinTXID, l.Header.MaxTXID))
		}
		if i > 0 {
			if e.Min != files[i-1].Max+1 {
				out = append(out, fmt.Sprintf("%s: gap/overlap after %s", e.Name, files[i-1].Name))
			} else if prev != nil && l.Header.PreApplyChecksum != prev.Trailer.PostApplyChecksum {
				out = append(out, fmt.Sprintf("%s: pre-apply checksum %x != previous post-apply %x", e.Name, uint64(l.Header.PreApplyChecksum), uint64(prev.Trailer.PostApplyChecksum)))
			}
		}
		prev = l
	}
	last := files[len(files)-1]
	if last.Max != txid {
		out = append(out, fmt.Sprintf("newest file %s does not end at position txid %d", last.Name, txid))
	} else if prev != nil && uint64(prev.Trailer.PostApplyChecksum) != chk {
		out = append(out, fmt.Sprintf("newest file %s post-apply %x != position checksum %x", last.Name, uint64(prev.Trailer.PostApplyChecksum), chk))
	}
	return out
}

// RawImage rebuilds the logical image of a database directory from the raw
// files (database overlaid with committed WAL frames) with the reference reader.
func RawImage(dbDir string) *ref.Image {
	dbb, _ := os.ReadFile(filepath.Join(dbDir, "database"))
	wal, _ := os.ReadFile(filepath.Join(dbDir, "wal"))
	return ref.LogicalImage(dbb, wal)
}
