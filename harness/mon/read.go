package mon

import (
	"fmt"
	"os"
	"path/filepath"
	"strconv"
	"strings"

	"github.com/superfly/litefs"
	"verif/drv"
	"verif/ref"
)

// PosKey identifies a replication position.
type PosKey struct {
	TXID uint64
	Chk  uint64
}

func (p PosKey) String() string { return fmt.Sprintf("%016x/%016x", p.TXID, p.Chk) }

// PosOf returns the node's reported position for a database (zero if absent).
func PosOf(n *drv.Node, name string) PosKey {
	db := n.Store.DB(name)
	if db == nil {
		return PosKey{}
	}
	p := db.Pos()
	return PosKey{uint64(p.TXID), uint64(p.PostApplyChecksum)}
}

// ReadAll reads a whole file through an open handle, optionally through the
// simulated page cache.
func ReadAll(n *drv.Node, f *drv.File, owner uint64, cached bool) ([]byte, error) {
	size, err := f.Size()
	if err != nil {
		return nil, err
	}
	buf := make([]byte, size)
	const chunk = 1 << 17
	for off := int64(0); off < size; off += chunk {
		end := off + chunk
		if end > size {
			end = size
		}
		var got int
		if cached {
			got, err = n.Cache.Read(f, owner, buf[off:end], off)
		} else {
			got, err = f.ReadAt(owner, buf[off:end], off)
		}
		if err != nil {
			return nil, err
		}
		if int64(got) != end-off {
			return nil, fmt.Errorf("short read at %d: %d of %d", off, got, end-off)
		}
	}
	return buf, nil
}

// SeenImage returns the logical image an application sees through the mount
// for database name: database file bytes overlaid with the committed WAL
// frames, both read through the handlers.
func SeenImage(n *drv.Node, name string, owner uint64, cached bool) (*ref.Image, error) {
	f, err := n.Open(name)
	if err != nil {
		if drv.Errno(err) == 2 { // ENOENT
			return ref.NewImage(0), nil
		}
		return nil, err
	}
	defer f.Release()
	dbb, err := ReadAll(n, f, owner, cached)
	if err != nil {
		return nil, err
	}
	var wal []byte
	if wf, err := n.Open(name + "-wal"); err == nil {
		wal, err = ReadAll(n, wf, owner, false)
		_ = wf.Release()
		if err != nil {
			return nil, err
		}
	}
	return ref.LogicalImage(dbb, wal), nil
}

// ReadPosFile reads <name>-pos through the mount and parses it.
func ReadPosFile(n *drv.Node, f *drv.File, owner uint64, cached bool) (PosKey, error) {
	b, err := ReadAll(n, f, owner, cached)
	if err != nil {
		return PosKey{}, err
	}
	s := strings.TrimSpace(string(b))
	parts := strings.Split(s, "/")
	if len(parts) != 2 {
		return PosKey{}, fmt.Errorf("bad pos file %q", s)
	}
	t, err1 := strconv.ParseUint(parts[0], 16, 64)
	c, err2 := strconv.ParseUint(parts[1], 16, 64)
	if err1 != nil || err2 != nil {
		return PosKey{}, fmt.Errorf("bad pos file %q", s)
	}
	return PosKey{t, c}, nil
}

// DBDir returns the on-disk directory of a database on a node.
func DBDir(n *drv.Node, name string) string {
	return filepath.Join(n.Cfg.Dir, "dbs", name)
}

// TmpFiles lists leftover temporary files in the ltx directory.
func TmpFiles(n *drv.Node, name string) []string {
	_, others, _ := ListLTXDir(filepath.Join(DBDir(n, name), "ltx"))
	return others
}

// FileExists reports whether a raw file exists in the database directory.
func FileExists(n *drv.Node, name, file string) bool {
	_, err := os.Stat(filepath.Join(DBDir(n, name), file))
	return err == nil
}

// LockStates returns the state of all twelve locks of a database.
func LockStates(db *litefs.DB) map[string]string {
	m := map[string]string{}
	for _, lt := range AllLockTypes {
		m[lt.String()] = db.VerifLockState(lt).String()
	}
	return m
}

var AllLockTypes = []litefs.LockType{
	litefs.LockTypePending, litefs.LockTypeShared, litefs.LockTypeReserved,
	litefs.LockTypeWrite, litefs.LockTypeCkpt, litefs.LockTypeRecover,
	litefs.LockTypeRead0, litefs.LockTypeRead1, litefs.LockTypeRead2, litefs.LockTypeRead3, litefs.LockTypeRead4,
	litefs.LockTypeDMS,
}

// AllUnlocked reports whether every lock of db is free, else names the held ones.
func AllUnlocked(db *litefs.DB) (bool, string) {
	var held []string
	for _, lt := range AllLockTypes {
		if st := db.VerifLockState(lt); st != litefs.RWMutexStateUnlocked {
			held = append(held, lt.String()+"="+st.String())
		}
	}
	return len(held) == 0, strings.Join(held, ",")
}
