// Package fakeconsul is a Consul HTTP endpoint that answers the session and KV
// calls LiteFS's Consul leaser (consul/consul.go, through hashicorp's client)
// makes, and maps them onto the scriptable lease service of package lease. The
// lease service stays the ground truth and the script interface (injection,
// expiry, call record); what is under test in between is the Consul leaser's
// mapping of Leaser/Lease calls onto sessions and keys and its reading of the
// answers (session gone => lease expired, key not acquired => primary exists).
//
// Every node talks to its own listener so that calls can be attributed.
package fakeconsul

import (
	"context"
	"encoding/base64"
	"encoding/json"
	"errors"
	"fmt"
	"io"
	"net"
	"net/http"
	"strings"
	"sync"

	"github.com/superfly/litefs"
	"verif/lease"
)

type session struct {
	node  string // node that owns it now
	lease litefs.Lease
	gone  bool
}

// Server is one fake Consul shared by all nodes of a cluster.
type Server struct {
	svc *lease.Service

	mu       sync.Mutex
	sessions map[string]*session
	nextID   int
	servers  []*http.Server
	// Requests counts handled requests by "METHOD path-class".
	Requests map[string]int
	// value the current holder stored under the primary key (what other nodes read)
	primaryValue []byte
}

// PrimaryValue returns the bytes the current holder put under the primary key.
func (s *Server) PrimaryValue() []byte {
	s.mu.Lock()
	defer s.mu.Unlock()
	return append([]byte(nil), s.primaryValue...)
}

func New(svc *lease.Service) *Server {
	return &Server{svc: svc, sessions: map[string]*session{}, Requests: map[string]int{}}
}

func (s *Server) Close() {
	s.mu.Lock()
	srvs := s.servers
	s.servers = nil
	s.mu.Unlock()
	for _, h := range srvs {
		_ = h.Close()
	}
}

// Counts returns a copy of the request counters.
func (s *Server) Counts() map[string]int {
	s.mu.Lock()
	defer s.mu.Unlock()
	out := map[string]int{}
	for k, v := range s.Requests {
		out[k] = v
	}
	return out
}

// URLFor starts a listener for one node and returns the Consul URL to give to
// that node's leaser (the path becomes the leaser's key prefix).
func (s *Server) URLFor(node, hostname, advertiseURL string) (string, error) {
	ln, err := net.Listen("tcp", "127.0.0.1:0")
	if err != nil {
		return "", err
	}
	nl := s.svc.Leaser(node, hostname, advertiseURL)
	h := &http.Server{Handler: http.HandlerFunc(func(w http.ResponseWriter, r *http.Request) { s.serve(node, nl, w, r) })}
	s.mu.Lock()
	s.servers = append(s.servers, h)
	s.mu.Unlock()
	go func() { _ = h.Serve(ln) }()
	return "http://" + ln.Addr().String() + "/verif", nil
}

func (s *Server) count(k string) {
	s.mu.Lock()
	s.Requests[k]++
	s.mu.Unlock()
}

func writeJSON(w http.ResponseWriter, v any) {
	w.Header().Set("Content-Type", "application/json")
	_ = json.NewEncoder(w).Encode(v)
}

func (s *Server) serve(node string, nl *lease.NodeLeaser, w http.ResponseWriter, r *http.Request) {
	p := r.URL.Path
	ctx := context.Background()
	switch {
	case p == "/v1/catalog/register":
		s.count("PUT catalog/register")
		writeJSON(w, true)
	case p == "/v1/session/create":
		s.count("PUT session/create")
		s.mu.Lock()
		s.nextID++
		id := fmt.Sprintf("fc-session-%04d", s.nextID)
		s.sessions[id] = &session{node: node}
		s.mu.Unlock()
		writeJSON(w, map[string]string{"ID": id})
	case strings.HasPrefix(p, "/v1/session/renew/"):
		s.count("PUT session/renew")
		id := strings.TrimPrefix(p, "/v1/session/renew/")
		s.mu.Lock()
		ss := s.sessions[id]
		s.mu.Unlock()
		if ss == nil || ss.gone {
			if ss != nil && ss.node == node {
				// (the holder asks again about a session it was told is gone)
				s.svc.Note(node, "renew", id, "expired")
			}
			http.Error(w, "session not found", 404)
			return
		}
		if ss.lease != nil && ss.node == node {
			if err := ss.lease.Renew(ctx); errors.Is(err, litefs.ErrLeaseExpired) {
				s.mu.Lock()
				ss.gone = true
				s.mu.Unlock()
				http.Error(w, "session not found", 404)
				return
			} else if err != nil {
				http.Error(w, err.Error(), 500)
				return
			}
		}
		// (a renewal by another node precedes taking an existing session over)
		writeJSON(w, []map[string]any{{"ID": id, "Node": "verif/litefs", "TTL": "10s", "Behavior": "delete"}})
	case strings.HasPrefix(p, "/v1/session/destroy/"):
		s.count("PUT session/destroy")
		id := strings.TrimPrefix(p, "/v1/session/destroy/")
		s.mu.Lock()
		ss := s.sessions[id]
		if ss != nil {
			ss.gone = true
		}
		s.mu.Unlock()
		if ss != nil && ss.lease != nil && ss.node == node {
			if err := ss.lease.Close(); err != nil {
				http.Error(w, err.Error(), 500)
				return
			}
		}
		writeJSON(w, true)
	case strings.HasPrefix(p, "/v1/kv/"):
		key := strings.TrimPrefix(p, "/v1/kv/")
		isCluster := strings.HasSuffix(key, "/clusterid")
		q := r.URL.Query()
		switch {
		case r.Method == http.MethodGet && isCluster:
			s.count("GET kv/clusterid")
			id, err := nl.ClusterID(ctx)
			if err != nil {
				http.Error(w, err.Error(), 500)
				return
			}
			if id == "" {
				http.Error(w, "", 404)
				return
			}
			writeJSON(w, []map[string]any{{"Key": key, "Value": base64.StdEncoding.EncodeToString([]byte(id)), "CreateIndex": 1, "ModifyIndex": 1}})
		case r.Method == http.MethodGet:
			s.count("GET kv/primary")
			info, err := nl.PrimaryInfo(ctx)
			if errors.Is(err, litefs.ErrNoPrimary) {
				http.Error(w, "", 404)
				return
			} else if err != nil {
				http.Error(w, err.Error(), 500)
				return
			}
			b, _ := json.Marshal(info)
			if v := s.PrimaryValue(); len(v) > 0 {
				b = v // what the holder itself stored
			}
			writeJSON(w, []map[string]any{{"Key": key, "Value": base64.StdEncoding.EncodeToString(b), "Session": "held", "CreateIndex": 1, "ModifyIndex": 2}})
		case r.Method == http.MethodPut && isCluster:
			s.count("PUT kv/clusterid")
			body, _ := io.ReadAll(r.Body)
			if err := nl.SetClusterID(ctx, string(body)); err != nil {
				http.Error(w, err.Error(), 500)
				return
			}
			writeJSON(w, true)
		case r.Method == http.MethodPut && q.Get("acquire") != "":
			s.count("PUT kv?acquire")
			id := q.Get("acquire")
			body, _ := io.ReadAll(r.Body)
			s.mu.Lock()
			ss := s.sessions[id]
			s.mu.Unlock()
			if ss == nil || ss.gone {
				http.Error(w, "invalid session", 500)
				return
			}
			switch {
			case ss.lease == nil:
				l, err := nl.Acquire(ctx)
				if errors.Is(err, litefs.ErrPrimaryExists) {
					writeJSON(w, false)
					return
				} else if err != nil {
					http.Error(w, err.Error(), 500)
					return
				}
				s.mu.Lock()
				ss.lease, ss.node = l, node
				s.primaryValue = body
				s.mu.Unlock()
				writeJSON(w, true)
			case ss.node != node:
				// another node presents an existing session: a handed-off lease
				l, err := nl.AcquireExisting(ctx, ss.lease.ID())
				if errors.Is(err, litefs.ErrPrimaryExists) {
					writeJSON(w, false)
					return
				} else if err != nil {
					http.Error(w, err.Error(), 500)
					return
				}
				s.mu.Lock()
				ss.lease, ss.node = l, node
				s.primaryValue = body
				s.mu.Unlock()
				writeJSON(w, true)
			default:
				writeJSON(w, true)
			}
		case r.Method == http.MethodPut && q.Get("release") != "":
			s.count("PUT kv?release")
			writeJSON(w, true)
		case r.Method == http.MethodDelete && !isCluster:
			// Consul deletes a key whoever holds the lock on it (locks are advisory).
			// The lease lapses; if the key was another node's, that node's lease has
			// just been destroyed by this one: noted for the observer.
			s.count("DELETE kv/primary")
			if holder, id := s.svc.Holder(); holder != "" && holder != node {
				s.svc.Note(node, "foreign-key-delete", id, "holder:"+holder)
			}
			s.svc.Expire()
			writeJSON(w, true)
		default:
			s.count("other kv")
			http.Error(w, "unsupported", 400)
		}
	default:
		s.count("other " + p)
		http.Error(w, "unsupported", 404)
	}
}
