package drv

import (
	"sync"

	"github.com/superfly/litefs"
)

// Page-write / truncate hooks (H1) are process-wide in LiteFS; dispatch them to
// the node that owns the store.
var (
	hookMu    sync.RWMutex
	hookNodes = map[*litefs.Store]*Node{}
)

func init() {
	litefs.SetVerifHooks(&litefs.VerifHookSet{
		PageWrite: func(db *litefs.DB, pgno uint32, data []byte, invalidate bool) {
			hookMu.RLock()
			n := hookNodes[db.Store()]
			hookMu.RUnlock()
			if n != nil {
				n.hmu.RLock()
				f := n.onPageWrite
				n.hmu.RUnlock()
				if f != nil {
					f(db, pgno, data, invalidate)
				}
			}
		},
		Truncate: func(db *litefs.DB, pageN uint32) {
			hookMu.RLock()
			n := hookNodes[db.Store()]
			hookMu.RUnlock()
			if n != nil {
				n.hmu.RLock()
				f := n.onTruncate
				n.hmu.RUnlock()
				if f != nil {
					f(db, pageN)
				}
			}
		},
	})
}

func registerNode(n *Node) {
	hookMu.Lock()
	hookNodes[n.Store] = n
	hookMu.Unlock()
}

func unregisterNode(n *Node) {
	hookMu.Lock()
	delete(hookNodes, n.Store)
	hookMu.Unlock()
}

// OnPageWrite installs a callback invoked before every internal database page
// write (writeDatabasePage) of this node.
func (n *Node) OnPageWrite(f func(db *litefs.DB, pgno uint32, data []byte, invalidate bool)) {
	n.hmu.Lock()
	n.onPageWrite = f
	n.hmu.Unlock()
}

// OnTruncate installs a callback invoked before every internal database truncate.
func (n *Node) OnTruncate(f func(db *litefs.DB, pageN uint32)) {
	n.hmu.Lock()
	n.onTruncate = f
	n.hmu.Unlock()
}
