// Package drv is "driver A": it drives LiteFS's FUSE node/handle methods
// in-process (no kernel mount), with a simulated kernel page cache that is
// emptied only by the invalidation callbacks LiteFS issues.
package drv

import (
	"context"
	"errors"
	"fmt"
	"os"
	"runtime/debug"
	"sort"
	"sync"
	"sync/atomic"
	"syscall"
	"time"

	bfuse "bazil.org/fuse"
	"bazil.org/fuse/fs"
	"github.com/superfly/litefs"
	lfuse "github.com/superfly/litefs/fuse"
	lhttp "github.com/superfly/litefs/http"
)

var ErrBusy = errors.New("lock busy (EAGAIN)")

// PanicError is returned when a handler call panicked (bazil's server would
// have recovered it and answered EIO).
type PanicError struct {
	Value any
	Stack string
}

func (e *PanicError) Error() string { return fmt.Sprintf("handler panic: %v", e.Value) }

// ExitEvent records a call to Store.Exit.
type ExitEvent struct {
	Code  int
	Stack string
}

// Config for a node.
type Config struct {
	// RefillCache: see PageCache.RefillAfterInvalidate.
	RefillCache bool
	Dir         string // data directory
	Candidate   bool
	Leaser      litefs.Leaser
	Client      litefs.Client // default: http client
	HTTP        bool          // start the HTTP API server on 127.0.0.1:0
	Tune        func(s *litefs.Store)
	// KernelMount mounts the file system for real (driver B): the kernel's page
	// cache and lock translation are in play and LiteFS's own Invalidator talks
	// to the kernel. The in-process File API must not be used on such a node.
	KernelMount bool
	// PreOpen runs after the store is built but before Store.Open (install hooks).
	PreOpen func(n *Node)
}

// Node is one LiteFS node: Store + FUSE file system (unmounted) + optional
// HTTP server, with recorders.
type Node struct {
	Cfg    Config
	Store  *litefs.Store
	FS     *lfuse.FileSystem
	Root   *lfuse.RootNode
	Server *lhttp.Server
	OS     *OSWrap
	Cache  *PageCache

	hmu         sync.RWMutex
	onPageWrite func(db *litefs.DB, pgno uint32, data []byte, invalidate bool)
	onTruncate  func(db *litefs.DB, pageN uint32)

	dmu      sync.Mutex
	dentries map[string]fs.Node

	mu      sync.Mutex
	exits   []ExitEvent
	panics  []*PanicError
	closed  atomic.Bool
	mounted bool
}

// NewNode builds and opens a node.
func NewNode(cfg Config) (*Node, error) {
	n := &Node{Cfg: cfg, OS: &OSWrap{}}
	st := litefs.NewStore(cfg.Dir, cfg.Candidate)
	st.OS = n.OS
	st.Exit = n.exit
	st.Leaser = cfg.Leaser
	st.StrictVerify = false
	st.RetentionMonitorInterval = 0 // sweeps are triggered explicitly
	st.ReconnectDelay = 20 * time.Millisecond
	st.DemoteDelay = 20 * time.Millisecond
	if cfg.Client != nil {
		st.Client = cfg.Client
	} else {
		st.Client = lhttp.NewClient()
	}
	n.Store = st
	registerNode(n)
	if cfg.PreOpen != nil {
		cfg.PreOpen(n)
	}
	n.FS = lfuse.NewFileSystem(cfg.Dir+"-mnt", st)
	if cfg.KernelMount {
		if err := n.FS.Mount(true); err != nil {
			unregisterNode(n)
			return nil, fmt.Errorf("kernel mount: %w", err)
		}
		n.mounted = true
		st.Invalidator = n.FS
	} else {
		n.FS.VerifAttachNullServer()
		n.Cache = newPageCache(n)
		n.Cache.RefillAfterInvalidate = cfg.RefillCache
		st.Invalidator = n.Cache
	}
	root, _ := n.FS.Root()
	n.Root = root.(*lfuse.RootNode)
	if cfg.Tune != nil {
		cfg.Tune(st)
	}
	if cfg.HTTP {
		n.Server = lhttp.NewServer(st, "127.0.0.1:0")
		n.Server.SnapshotTimeout = 30 * time.Second // default would be Store.Retention
		if err := n.Server.Listen(); err != nil {
			return nil, err
		}
		n.Server.Serve()
	}
	if err := n.call(func() error { return st.Open() }); err != nil {
		if n.Server != nil {
			_ = n.Server.Close()
		}
		st.Close()
		n.unmount()
		unregisterNode(n)
		return nil, err
	}
	return n, nil
}

// MountDir is the mount point of a kernel-mounted node.
func (n *Node) MountDir() string { return n.Cfg.Dir + "-mnt" }

func (n *Node) unmount() {
	if n.mounted {
		n.mounted = false
		if err := n.FS.Unmount(); err != nil {
			_ = syscall.Unmount(n.MountDir(), syscall.MNT_DETACH)
		}
	}
}

// URL returns the node's HTTP base URL ("" without a server).
func (n *Node) URL() string {
	if n.Server == nil {
		return ""
	}
	return fmt.Sprintf("http://127.0.0.1:%d", n.Server.Port())
}

func (n *Node) exit(code int) {
	n.mu.Lock()
	n.exits = append(n.exits, ExitEvent{Code: code, Stack: string(debug.Stack())})
	n.mu.Unlock()
	// Unlike os.Exit we return to the caller: the scenario treats the node as
	// crashed from here on (it checks Exits() after every step).
}

// Exited reports whether Store.Exit was called on this node.
func (n *Node) Exited() bool {
	n.mu.Lock()
	defer n.mu.Unlock()
	return len(n.exits) > 0
}

func (n *Node) Exits() []ExitEvent {
	n.mu.Lock()
	defer n.mu.Unlock()
	return append([]ExitEvent(nil), n.exits...)
}

func (n *Node) Panics() []*PanicError {
	n.mu.Lock()
	defer n.mu.Unlock()
	return append([]*PanicError(nil), n.panics...)
}

// WaitReady waits until the node is primary or connected to one.
func (n *Node) WaitReady(d time.Duration) bool {
	select {
	case <-n.Store.ReadyCh():
		return true
	case <-time.After(d):
		return false
	}
}

// Close shuts the node down (like a clean process exit).
func (n *Node) Close() {
	if n.closed.Swap(true) {
		return
	}
	if n.Server != nil {
		_ = n.Server.Close()
	}
	_ = n.Store.Close()
	n.unmount()
	unregisterNode(n)
}

// call runs a handler call the way bazil's server does: a panic is recovered
// and turned into an error (EIO to the kernel); we also record it.
func (n *Node) call(f func() error) (err error) {
	defer func() {
		if r := recover(); r != nil {
			pe := &PanicError{Value: r, Stack: string(debug.Stack())}
			n.mu.Lock()
			n.panics = append(n.panics, pe)
			n.mu.Unlock()
			err = pe
		}
	}()
	return f()
}

// ---- files -------------------------------------------------------------------

// File is an open handle on a file of the (virtual) mount.
type File struct {
	n    *Node
	Name string
	node fs.Node
	h    fs.Handle
}

var bg = context.Background()

func mapErr(err error) error {
	if err == nil {
		return nil
	}
	var en bfuse.ErrorNumber
	if errors.As(err, &en) {
		if en.Errno() == bfuse.Errno(syscall.EAGAIN) {
			return ErrBusy
		}
	}
	if errors.Is(err, syscall.EAGAIN) {
		return ErrBusy
	}
	return err
}

// Errno extracts the errno a FUSE client would see for err (EIO if none).
func Errno(err error) syscall.Errno {
	if err == nil {
		return 0
	}
	var en bfuse.ErrorNumber
	if errors.As(err, &en) {
		return syscall.Errno(en.Errno())
	}
	var se syscall.Errno
	if errors.As(err, &se) {
		return se
	}
	return syscall.EIO
}

// Lookup resolves name; ENOENT if absent.
func (n *Node) Lookup(name string) (fs.Node, error) {
	var node fs.Node
	err := n.call(func() (e error) {
		if node, e = n.Root.Lookup(bg, name); e != nil {
			return e
		}
		// like the FUSE server, which fills the entry's attributes right after a
		// successful Lookup and fails the whole lookup if that fails (a cached
		// node whose file is gone answers ENOENT there)
		var a bfuse.Attr
		return node.Attr(bg, &a)
	})
	if err != nil {
		return nil, err
	}
	return node, nil
}

// CacheDentry models the kernel's directory-entry cache for name: the node the
// name resolves to now is remembered, and the next open of that name is sent to
// it without a new lookup (as the kernel does for a minute after a lookup; an
// unlink of the database drops the database's own entry only, LiteFS tells the
// kernel about the companion files from a goroutine that runs later).
func (n *Node) CacheDentry(name string) error {
	node, err := n.Lookup(name)
	if err != nil {
		return err
	}
	n.dmu.Lock()
	if n.dentries == nil {
		n.dentries = map[string]fs.Node{}
	}
	n.dentries[name] = node
	n.dmu.Unlock()
	return nil
}

// DropDentries empties the modelled directory-entry cache.
func (n *Node) DropDentries() {
	n.dmu.Lock()
	n.dentries = nil
	n.dmu.Unlock()
}

// openCached sends the open to the node of a cached directory entry. ESTALE
// makes the VFS drop the entry and walk the path again (ok=false); any other
// answer is the application's answer.
func (n *Node) openCached(name string) (f *File, ok bool, err error) {
	n.dmu.Lock()
	node := n.dentries[name]
	n.dmu.Unlock()
	if node == nil {
		return nil, false, nil
	}
	op, isOpener := node.(fs.NodeOpener)
	if !isOpener {
		return nil, false, nil
	}
	var h fs.Handle
	resp := &bfuse.OpenResponse{}
	err = n.call(func() (e error) {
		h, e = op.Open(bg, &bfuse.OpenRequest{Flags: bfuse.OpenReadWrite}, resp)
		return
	})
	if Errno(err) == syscall.ESTALE {
		n.dmu.Lock()
		delete(n.dentries, name)
		n.dmu.Unlock()
		return nil, false, nil
	}
	if err != nil {
		return nil, true, err
	}
	if resp.Flags&bfuse.OpenKeepCache == 0 {
		n.Cache.dropFile(name)
	}
	return &File{n: n, Name: name, node: node, h: h}, true, nil
}

// Open opens an existing file.
func (n *Node) Open(name string) (*File, error) {
	if f, ok, err := n.openCached(name); ok {
		return f, err
	}
	node, err := n.Lookup(name)
	if err != nil {
		return nil, err
	}
	op, ok := node.(fs.NodeOpener)
	if !ok {
		return nil, fmt.Errorf("node %q cannot be opened", name)
	}
	var h fs.Handle
	resp := &bfuse.OpenResponse{}
	err = n.call(func() (e error) {
		h, e = op.Open(bg, &bfuse.OpenRequest{Flags: bfuse.OpenReadWrite}, resp)
		return
	})
	if Errno(err) == syscall.ESTALE {
		// the VFS looks the name up again after ESTALE; the driver keeps no
		// entries of its own, so the lookup above already was that fresh lookup
		return nil, syscall.ENOENT
	}
	if err != nil {
		return nil, err
	}
	if resp.Flags&bfuse.OpenKeepCache == 0 {
		// without keep_cache the kernel invalidates the inode's pages on open
		n.Cache.dropFile(name)
	}
	return &File{n: n, Name: name, node: node, h: h}, nil
}

// Create creates name (database, -journal, -wal, -shm).
func (n *Node) Create(name string) (*File, error) {
	// (a cached positive entry: open(O_CREAT) becomes an OPEN of that node)
	if f, ok, err := n.openCached(name); ok {
		return f, err
	}
	var node fs.Node
	var h fs.Handle
	err := n.call(func() (e error) {
		node, h, e = n.Root.Create(bg, &bfuse.CreateRequest{Name: name, Flags: bfuse.OpenReadWrite | bfuse.OpenCreate, Mode: 0o666}, &bfuse.CreateResponse{})
		return
	})
	if err != nil {
		return nil, err
	}
	return &File{n: n, Name: name, node: node, h: h}, nil
}

// OpenOrCreate opens name, creating it if it does not exist.
func (n *Node) OpenOrCreate(name string) (*File, error) {
	f, err := n.Open(name)
	if err == nil {
		return f, nil
	}
	if Errno(err) == syscall.ENOENT {
		return n.Create(name)
	}
	return nil, err
}

// Remove unlinks name.
func (n *Node) Remove(name string) error {
	err := n.call(func() error { return n.Root.Remove(bg, &bfuse.RemoveRequest{Name: name}) })
	if err == nil {
		// the kernel drops the dentry and inode after a successful unlink
		n.Root.ForgetNodeByName(name)
		n.Cache.dropFile(name)
	}
	return err
}

// Forget drops the cached node for name, as the kernel does on inode eviction.
func (n *Node) Forget(name string) { n.Root.ForgetNodeByName(name) }

// ReadDir lists the root directory.
func (n *Node) ReadDir() ([]string, error) {
	var ents []bfuse.Dirent
	err := n.call(func() (e error) {
		h := lfuse.NewRootHandle(n.Root)
		ents, e = h.ReadDirAll(bg)
		return
	})
	var names []string
	for _, e := range ents {
		names = append(names, e.Name)
	}
	sort.Strings(names)
	return names, err
}

// Stat returns size and mode of name via Lookup+Attr.
func (n *Node) Stat(name string) (size int64, mode os.FileMode, err error) {
	node, err := n.Lookup(name)
	if err != nil {
		return 0, 0, err
	}
	var a bfuse.Attr
	if err = n.call(func() error { return node.Attr(bg, &a) }); err != nil {
		return 0, 0, err
	}
	return int64(a.Size), a.Mode, nil
}

// Size returns the current size via Attr on the open node.
func (f *File) Size() (int64, error) {
	var a bfuse.Attr
	if err := f.n.call(func() error { return f.node.Attr(bg, &a) }); err != nil {
		return 0, err
	}
	return int64(a.Size), nil
}

// ReadAt reads through the handler (bypassing the simulated cache).
func (f *File) ReadAt(owner uint64, p []byte, off int64) (int, error) {
	r, ok := f.h.(fs.HandleReader)
	if !ok {
		return 0, fmt.Errorf("%s: not readable", f.Name)
	}
	resp := &bfuse.ReadResponse{Data: make([]byte, 0, len(p))}
	err := f.n.call(func() error {
		return r.Read(bg, &bfuse.ReadRequest{Offset: off, Size: len(p), LockOwner: bfuse.LockOwner(owner)}, resp)
	})
	if err != nil {
		return 0, err
	}
	return copy(p, resp.Data), nil
}

// WriteAt writes through the handler in one request.
func (f *File) WriteAt(owner uint64, p []byte, off int64) error {
	w, ok := f.h.(fs.HandleWriter)
	if !ok {
		return fmt.Errorf("%s: not writable", f.Name)
	}
	resp := &bfuse.WriteResponse{}
	err := f.n.call(func() error {
		return w.Write(bg, &bfuse.WriteRequest{Offset: off, Data: p, LockOwner: bfuse.LockOwner(owner)}, resp)
	})
	// The kernel updates its cache with written data (write-through): model it
	// by dropping the affected cache blocks so the next read refetches them.
	f.n.Cache.invalidateRange(f.Name, off, int64(len(p)))
	if err == nil && resp.Size != len(p) {
		return fmt.Errorf("%s: short write %d of %d", f.Name, resp.Size, len(p))
	}
	return err
}

// WriteSplit4K writes p as the kernel might: split at 4 KiB file-offset boundaries.
func (f *File) WriteSplit4K(owner uint64, p []byte, off int64) error {
	for len(p) > 0 {
		n := int(4096 - off%4096)
		if n > len(p) {
			n = len(p)
		}
		if err := f.WriteAt(owner, p[:n], off); err != nil {
			return err
		}
		p, off = p[n:], off+int64(n)
	}
	return nil
}

func (f *File) lockReq(owner, start, end uint64, typ bfuse.LockType) *bfuse.LockRequest {
	return &bfuse.LockRequest{LockOwner: bfuse.LockOwner(owner), Lock: bfuse.FileLock{Start: start, End: end, Type: typ, PID: 1}}
}

// Lock takes a POSIX byte-range lock (non-blocking). excl=false → read lock.
func (f *File) Lock(owner, start, end uint64, excl bool) error {
	l, ok := f.h.(fs.HandlePOSIXLocker)
	if !ok {
		return fmt.Errorf("%s: no locking", f.Name)
	}
	typ := bfuse.LockRead
	if excl {
		typ = bfuse.LockWrite
	}
	return mapErr(f.n.call(func() error { return l.Lock(bg, f.lockReq(owner, start, end, typ)) }))
}

// LockWait is the blocking variant (used for the HALT byte on -lock files).
func (f *File) LockWait(ctx context.Context, owner, start, end uint64, excl bool) error {
	l, ok := f.h.(fs.HandlePOSIXLocker)
	if !ok {
		return fmt.Errorf("%s: no locking", f.Name)
	}
	typ := bfuse.LockRead
	if excl {
		typ = bfuse.LockWrite
	}
	return mapErr(f.n.call(func() error {
		return l.LockWait(ctx, (*bfuse.LockWaitRequest)(f.lockReq(owner, start, end, typ)))
	}))
}

// Unlock releases a byte range.
func (f *File) Unlock(owner, start, end uint64) error {
	l, ok := f.h.(fs.HandlePOSIXLocker)
	if !ok {
		return fmt.Errorf("%s: no locking", f.Name)
	}
	return f.n.call(func() error {
		return l.Unlock(bg, (*bfuse.UnlockRequest)(f.lockReq(owner, start, end, bfuse.LockUnlock)))
	})
}

// UnlockCtx is Unlock with the request's context: cancelling it is what a FUSE
// INTERRUPT (the application got a signal inside the system call) does.
func (f *File) UnlockCtx(ctx context.Context, owner, start, end uint64) error {
	l, ok := f.h.(fs.HandlePOSIXLocker)
	if !ok {
		return fmt.Errorf("%s: no locking", f.Name)
	}
	return f.n.call(func() error {
		return l.Unlock(ctx, (*bfuse.UnlockRequest)(f.lockReq(owner, start, end, bfuse.LockUnlock)))
	})
}

// QueryLock asks whether the lock could be taken; returns "" if free, else
// "read" or "write" (type of the conflicting lock).
func (f *File) QueryLock(owner, start, end uint64, excl bool) (string, error) {
	l, ok := f.h.(fs.HandlePOSIXLocker)
	if !ok {
		return "", fmt.Errorf("%s: no locking", f.Name)
	}
	typ := bfuse.LockRead
	if excl {
		typ = bfuse.LockWrite
	}
	resp := &bfuse.QueryLockResponse{Lock: bfuse.FileLock{Type: bfuse.LockUnlock}}
	err := f.n.call(func() error {
		return l.QueryLock(bg, &bfuse.QueryLockRequest{LockOwner: bfuse.LockOwner(owner), Lock: bfuse.FileLock{Start: start, End: end, Type: typ}}, resp)
	})
	switch resp.Lock.Type {
	case bfuse.LockRead:
		return "read", err
	case bfuse.LockWrite:
		return "write", err
	}
	return "", err
}

// Fsync syncs the file.
func (f *File) Fsync() error {
	s, ok := f.node.(fs.NodeFsyncer)
	if !ok {
		return nil
	}
	return f.n.call(func() error { return s.Fsync(bg, &bfuse.FsyncRequest{}) })
}

// Truncate sets the file size (Setattr size).
func (f *File) Truncate(size int64) error {
	s, ok := f.node.(fs.NodeSetattrer)
	if !ok {
		return fmt.Errorf("%s: no setattr", f.Name)
	}
	err := f.n.call(func() error {
		return s.Setattr(bg, &bfuse.SetattrRequest{Valid: bfuse.SetattrSize, Size: uint64(size)}, &bfuse.SetattrResponse{})
	})
	f.n.Cache.truncate(f.Name, size)
	return err
}

// Flush is sent on close(2) of each descriptor; releases the owner's locks.
func (f *File) Flush(owner uint64) error {
	fl, ok := f.h.(fs.HandleFlusher)
	if !ok {
		return nil
	}
	return f.n.call(func() error { return fl.Flush(bg, &bfuse.FlushRequest{LockOwner: bfuse.LockOwner(owner)}) })
}

// Release closes the handle.
func (f *File) Release() error {
	r, ok := f.h.(fs.HandleReleaser)
	if !ok {
		return nil
	}
	return f.n.call(func() error { return r.Release(bg, &bfuse.ReleaseRequest{}) })
}

// Close = Flush(owner) + Release.
func (f *File) Close(owner uint64) {
	_ = f.Flush(owner)
	_ = f.Release()
}
