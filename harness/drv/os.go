package drv

import (
	"os"
	"sync"
	"sync/atomic"
)

// OSHook is called before every mutating (and some reading) OS call LiteFS
// makes. Returning an error makes the call fail with that error.
type OSHook func(op, kind, path string) error

// OSWrap implements litefs.OS on the real file system with an optional hook.
type OSWrap struct {
	mu   sync.RWMutex
	hook OSHook
	dead atomic.Bool // after Store.Exit: every call fails
	Ops  atomic.Int64
}

func (o *OSWrap) SetHook(h OSHook) {
	o.mu.Lock()
	o.hook = h
	o.mu.Unlock()
}

func (o *OSWrap) Kill() { o.dead.Store(true) }

func (o *OSWrap) pre(op, kind, path string) error {
	if o.dead.Load() {
		return os.ErrClosed
	}
	o.Ops.Add(1)
	o.mu.RLock()
	h := o.hook
	o.mu.RUnlock()
	if h != nil {
		return h(op, kind, path)
	}
	return nil
}

func (o *OSWrap) Create(op, name string) (*os.File, error) {
	if err := o.pre(op, "create", name); err != nil {
		return nil, err
	}
	return os.Create(name)
}

func (o *OSWrap) Mkdir(op, path string, perm os.FileMode) error {
	if err := o.pre(op, "mkdir", path); err != nil {
		return err
	}
	return os.Mkdir(path, perm)
}

func (o *OSWrap) MkdirAll(op, path string, perm os.FileMode) error {
	if err := o.pre(op, "mkdirall", path); err != nil {
		return err
	}
	return os.MkdirAll(path, perm)
}

func (o *OSWrap) Open(op, name string) (*os.File, error) {
	if err := o.pre(op, "open", name); err != nil {
		return nil, err
	}
	return os.Open(name)
}

func (o *OSWrap) OpenFile(op, name string, flag int, perm os.FileMode) (*os.File, error) {
	kind := "openfile"
	if flag&os.O_CREATE != 0 {
		kind = "openfile-create"
	}
	if err := o.pre(op, kind, name); err != nil {
		return nil, err
	}
	return os.OpenFile(name, flag, perm)
}

func (o *OSWrap) ReadDir(op, name string) ([]os.DirEntry, error) {
	if err := o.pre(op, "readdir", name); err != nil {
		return nil, err
	}
	return os.ReadDir(name)
}

func (o *OSWrap) ReadFile(op, name string) ([]byte, error) {
	if err := o.pre(op, "readfile", name); err != nil {
		return nil, err
	}
	return os.ReadFile(name)
}

func (o *OSWrap) Remove(op, name string) error {
	if err := o.pre(op, "remove", name); err != nil {
		return err
	}
	return os.Remove(name)
}

func (o *OSWrap) RemoveAll(op, name string) error {
	if err := o.pre(op, "removeall", name); err != nil {
		return err
	}
	return os.RemoveAll(name)
}

func (o *OSWrap) Rename(op, oldpath, newpath string) error {
	if err := o.pre(op, "rename", newpath); err != nil {
		return err
	}
	return os.Rename(oldpath, newpath)
}

func (o *OSWrap) Stat(op, name string) (os.FileInfo, error) {
	if err := o.pre(op, "stat", name); err != nil {
		return nil, err
	}
	return os.Stat(name)
}

func (o *OSWrap) Truncate(op, name string, size int64) error {
	if err := o.pre(op, "truncate", name); err != nil {
		return err
	}
	return os.Truncate(name, size)
}

func (o *OSWrap) WriteFile(op, name string, data []byte, perm os.FileMode) error {
	if err := o.pre(op, "writefile", name); err != nil {
		return err
	}
	return os.WriteFile(name, data, perm)
}
