package drv

import (
	"sync"

	"github.com/superfly/litefs"
)

const blockSize = 4096

// PageCache simulates the kernel page cache of a FUSE mount opened with
// keep_cache + explicit_inval_data: blocks are filled on miss through the
// handler's Read and dropped ONLY by the invalidation callbacks LiteFS issues
// (plus the kernel's own truncate_pagecache when the size reported by Attr
// shrinks, and write-through on local writes). It never drops data on its own,
// so it is at least as unforgiving as the kernel about a missing invalidation.
type PageCache struct {
	n  *Node
	mu sync.Mutex
	// per file name
	files map[string]*cachedFile

	// RefillAfterInvalidate makes the cache behave like a kernel with an eager
	// lock-less reader (readahead, `cp`, a backup agent): right after LiteFS has
	// invalidated a range of the database file the blocks are read again through
	// the handler and cached. That is only harmless if the file already holds the
	// final bytes when the invalidation is issued (write first, invalidate after).
	RefillAfterInvalidate bool
	Refills               int

	// observation counters
	InvDB, InvRange, InvSHM, InvPos, InvEntry int
	Fills, Hits                               int
}

type cachedFile struct {
	blocks   map[int64][]byte
	lastSize int64
	// gen counts invalidations per block, allGen those of the whole file. A fill
	// that was in flight while its block was invalidated is not installed: the
	// kernel keeps the folio locked during the read, the invalidation waits for it
	// and then removes it.
	gen    map[int64]uint64
	allGen uint64
}

func newPageCache(n *Node) *PageCache {
	return &PageCache{n: n, files: map[string]*cachedFile{}}
}

func (c *PageCache) file(name string) *cachedFile {
	f := c.files[name]
	if f == nil {
		f = &cachedFile{blocks: map[int64][]byte{}, lastSize: -1, gen: map[int64]uint64{}}
		c.files[name] = f
	}
	return f
}

func (c *PageCache) dropFile(name string) {
	c.mu.Lock()
	delete(c.files, name)
	c.mu.Unlock()
}

func (c *PageCache) invalidateRange(name string, off, size int64) {
	if size <= 0 {
		return
	}
	c.mu.Lock()
	defer c.mu.Unlock()
	f := c.file(name)
	for b := off / blockSize; b <= (off+size-1)/blockSize; b++ {
		delete(f.blocks, b)
		f.gen[b]++
	}
}

func (c *PageCache) truncate(name string, size int64) {
	c.mu.Lock()
	defer c.mu.Unlock()
	f := c.files[name]
	if f == nil {
		return
	}
	for b := range f.blocks {
		if (b+1)*blockSize > size {
			delete(f.blocks, b)
		}
	}
	f.allGen++
	f.lastSize = size
}

// Read reads [off, off+len(p)) of an open file through the cache. The size is
// always taken fresh from Attr (attr_valid=0).
func (c *PageCache) Read(f *File, owner uint64, p []byte, off int64) (int, error) {
	size, err := f.Size()
	if err != nil {
		return 0, err
	}
	c.mu.Lock()
	cf := c.file(f.Name)
	if cf.lastSize >= 0 && size < cf.lastSize {
		// kernel: truncate_pagecache(inode, newsize)
		for b := range cf.blocks {
			if (b+1)*blockSize > size {
				delete(cf.blocks, b)
			}
		}
		cf.allGen++
	}
	cf.lastSize = size
	c.mu.Unlock()

	if off >= size {
		return 0, nil
	}
	end := off + int64(len(p))
	if end > size {
		end = size
	}
	n := 0
	for pos := off; pos < end; {
		b := pos / blockSize
		c.mu.Lock()
		blk, ok := cf.blocks[b]
		gen, allGen := cf.gen[b], cf.allGen
		c.mu.Unlock()
		if !ok {
			want := int64(blockSize)
			if b*blockSize+want > size {
				want = size - b*blockSize
			}
			buf := make([]byte, blockSize)
			got, err := f.ReadAt(owner, buf[:want], b*blockSize)
			if err != nil {
				return n, err
			}
			_ = got
			blk = buf
			c.mu.Lock()
			if c.files[f.Name] == cf && cf.gen[b] == gen && cf.allGen == allGen {
				cf.blocks[b] = blk
			}
			c.Fills++
			c.mu.Unlock()
		} else {
			c.mu.Lock()
			c.Hits++
			c.mu.Unlock()
		}
		inOff := pos - b*blockSize
		m := copy(p[pos-off:end-off], blk[inOff:])
		pos += int64(m)
		n += m
	}
	return n, nil
}

// ---- litefs.Invalidator ------------------------------------------------------

func (c *PageCache) InvalidateDB(db *litefs.DB) error {
	c.mu.Lock()
	c.InvDB++
	delete(c.files, db.Name())
	c.mu.Unlock()
	return c.n.FS.InvalidateDB(db)
}

func (c *PageCache) InvalidateDBRange(db *litefs.DB, offset, size int64) error {
	c.mu.Lock()
	c.InvRange++
	c.mu.Unlock()
	c.invalidateRange(db.Name(), offset, size)
	err := c.n.FS.InvalidateDBRange(db, offset, size)
	if c.RefillAfterInvalidate && size > 0 {
		c.refill(db.Name(), offset, size)
	}
	return err
}

// refill reads the blocks of [off, off+size) through the handler, without any
// lock, and caches them (see RefillAfterInvalidate).
func (c *PageCache) refill(name string, off, size int64) {
	f, err := c.n.Open(name)
	if err != nil {
		return
	}
	defer func() { _ = f.Release() }()
	buf := make([]byte, blockSize)
	for b := off / blockSize; b <= (off+size-1)/blockSize; b++ {
		if _, err := c.Read(f, 990001, buf, b*blockSize); err != nil {
			return
		}
		c.mu.Lock()
		c.Refills++
		c.mu.Unlock()
	}
}

func (c *PageCache) InvalidateSHM(db *litefs.DB) error {
	c.mu.Lock()
	c.InvSHM++
	delete(c.files, db.Name()+"-shm")
	c.mu.Unlock()
	return c.n.FS.InvalidateSHM(db)
}

func (c *PageCache) InvalidatePos(db *litefs.DB) error {
	c.mu.Lock()
	c.InvPos++
	delete(c.files, db.Name()+"-pos")
	c.mu.Unlock()
	return c.n.FS.InvalidatePos(db)
}

func (c *PageCache) InvalidateEntry(name string) error {
	c.mu.Lock()
	c.InvEntry++
	delete(c.files, name)
	c.mu.Unlock()
	return c.n.FS.InvalidateEntry(name)
}

func (c *PageCache) InvalidateLag() error { return c.n.FS.InvalidateLag() }

// Stats returns a snapshot of the invalidation counters.
func (c *PageCache) Stats() map[string]int {
	c.mu.Lock()
	defer c.mu.Unlock()
	return map[string]int{"inv_db": c.InvDB, "inv_range": c.InvRange, "inv_shm": c.InvSHM, "inv_pos": c.InvPos, "inv_entry": c.InvEntry, "fills": c.Fills, "hits": c.Hits, "refills": c.Refills}
}
