// Package core is the check runner: case model, parent/worker process model,
// evidence, replay files and known findings.
package core

import (
	"encoding/json"
	"fmt"
	"hash/fnv"
	"math/rand/v2"
	"os"
	"path/filepath"
	"sort"
	"strings"
	"sync"
	"time"
)

// Check describes one property's checking procedure as a list of cases.
type Check struct {
	ID          string
	Level       string // evidence level
	Rule        string // how cases are generated and what makes one distinct/non-trivial
	Assumptions []string
	Explanation string
	// NumCases returns the number of cases for a tier ("quick", "thorough").
	NumCases func(tier string) int
	// Run executes one case. It must be deterministic in (Seed, Index) apart
	// from goroutine scheduling.
	Run func(c *Case)
	// Floors returns minimum counter values the merged run must reach.
	Floors func(tier string) map[string]int
	// MountFloors are floors on counters of the kernel-mount drivers (B, C). They
	// apply only when those drivers ran (counter kmount_unavailable == 0): a
	// sandbox without /dev/fuse still decides the property with driver A, and the
	// evidence says that the mount drivers were unavailable.
	MountFloors func(tier string) map[string]int
	// EvalCounter names the counter reported as coverage.evaluations
	// (default: number of completed cases).
	EvalCounter string
	// Race requests the -race build of the worker.
	Race bool
	// RaceIsViolation, if set, decides whether a race report (reduced to
	// "siteA <-> siteB") is a verdict for this property.
	RaceIsViolation func(pair string) bool
	// MaxWorkers bounds parallel worker processes (default 16).
	MaxWorkers int
	// CaseTimeout is the per-case watchdog (default 120s). Firing = inconclusive
	// unless HangIsViolation.
	CaseTimeout     time.Duration
	HangIsViolation bool
	// Exhaustive marks evidence as having enumerated a finite space completely.
	Exhaustive bool
}

// Violation is a refuted property instance with its witness.
type Violation struct {
	Property    string `json:"property"`
	Fingerprint string `json:"fingerprint"`
	What        string `json:"what"`
	Tier        string `json:"tier"`
	Seed        int64  `json:"seed"`
	Case        int    `json:"case"`
	Detail      any    `json:"detail,omitempty"`
}

// Case is the context handed to Check.Run.
type Case struct {
	Prop    string
	Tier    string
	Seed    int64
	Index   int
	Rng     *rand.Rand
	Dir     string // scratch directory, removed after the case
	Verbose bool

	mu           sync.Mutex
	counters     map[string]int
	distinct     map[string]bool
	samples      []any
	violations   []Violation
	inconclusive []string
}

func NewCase(prop, tier string, seed int64, index int, dir string) *Case {
	h := fnv.New64a()
	fmt.Fprintf(h, "%s/%d", prop, index)
	return &Case{
		Prop: prop, Tier: tier, Seed: seed, Index: index, Dir: dir,
		Rng:      rand.New(rand.NewPCG(uint64(seed), h.Sum64())),
		counters: map[string]int{}, distinct: map[string]bool{},
	}
}

// SubRng derives an independent deterministic stream (for goroutines).
func (c *Case) SubRng(tag string) *rand.Rand {
	h := fnv.New64a()
	fmt.Fprintf(h, "%s/%d/%s", c.Prop, c.Index, tag)
	return rand.New(rand.NewPCG(uint64(c.Seed), h.Sum64()))
}

func (c *Case) Count(key string, n int) {
	c.mu.Lock()
	c.counters[key] += n
	c.mu.Unlock()
}

func (c *Case) Counter(key string) int {
	c.mu.Lock()
	defer c.mu.Unlock()
	return c.counters[key]
}

// Distinct records a distinct non-trivial case key.
func (c *Case) Distinct(key string) {
	if len(key) > 200 {
		h := fnv.New64a()
		h.Write([]byte(key))
		key = fmt.Sprintf("%s#%x", key[:80], h.Sum64())
	}
	c.mu.Lock()
	c.distinct[key] = true
	c.mu.Unlock()
}

// Sample records an example case for the evidence file (first few kept).
func (c *Case) Sample(v any) {
	c.mu.Lock()
	if len(c.samples) < 2 {
		c.samples = append(c.samples, v)
	}
	c.mu.Unlock()
}

// Violate records a violation. fingerprint names input class + call site.
func (c *Case) Violate(fingerprint, what string, detail any) {
	// A helper process that was given up on after its wall-clock watchdog is not
	// a verdict (the case-level watchdog, which re-runs a case before it reports
	// a hang, is the hang detector): inconclusive, and counted.
	if strings.Contains(what, ChildWatchdogText) {
		c.Inconclusive(fingerprint + ": " + what)
		c.Count("child_watchdog_fired", 1)
		return
	}
	if strings.Contains(what, "SQL child is gone") && c.Counter("child_watchdog_fired") > 0 {
		c.Inconclusive(fingerprint + ": " + what + " (after its watchdog)")
		return
	}
	c.mu.Lock()
	defer c.mu.Unlock()
	for _, v := range c.violations {
		if v.Fingerprint == fingerprint {
			return // one per fingerprint per case
		}
	}
	c.violations = append(c.violations, Violation{
		Property: c.Prop, Fingerprint: fingerprint, What: what,
		Tier: c.Tier, Seed: c.Seed, Case: c.Index, Detail: detail,
	})
	if c.Verbose {
		fmt.Printf("  violation %s: %s\n", fingerprint, what)
	}
}

// ChildWatchdogText is what a helper process's wall-clock watchdog reports.
const ChildWatchdogText = "did not answer in time (killed)"

func (c *Case) Violated() bool {
	c.mu.Lock()
	defer c.mu.Unlock()
	return len(c.violations) > 0
}

func (c *Case) Inconclusive(why string) {
	c.mu.Lock()
	c.inconclusive = append(c.inconclusive, why)
	c.mu.Unlock()
}

func (c *Case) Logf(format string, a ...any) {
	if c.Verbose {
		fmt.Printf("  "+format+"\n", a...)
	}
}

// caseRecord is one line of a worker's result file.
type caseRecord struct {
	Case         int            `json:"case"`
	Begin        bool           `json:"begin,omitempty"`
	End          bool           `json:"end,omitempty"`
	Counters     map[string]int `json:"counters,omitempty"`
	Distinct     []string       `json:"distinct,omitempty"`
	Samples      []any          `json:"samples,omitempty"`
	Violations   []Violation    `json:"violations,omitempty"`
	Inconclusive []string       `json:"inconclusive,omitempty"`
	WallMs       int64          `json:"wall_ms,omitempty"`
}

func (c *Case) record(wall time.Duration) caseRecord {
	c.mu.Lock()
	defer c.mu.Unlock()
	r := caseRecord{Case: c.Index, End: true, Counters: c.counters, Samples: c.samples,
		Violations: c.violations, Inconclusive: c.inconclusive, WallMs: wall.Milliseconds()}
	for k := range c.distinct {
		r.Distinct = append(r.Distinct, k)
	}
	sort.Strings(r.Distinct)
	return r
}

// ---- known findings ----------------------------------------------------------

type Finding struct {
	Property    string `json:"property"`
	Fingerprint string `json:"fingerprint"`
	Status      string `json:"status"` // known | fixed
	Commit      string `json:"commit,omitempty"`
	What        string `json:"what"`
}

func LoadFindings(root string) []Finding {
	b, err := os.ReadFile(filepath.Join(root, "known_findings.json"))
	if err != nil {
		return nil
	}
	var f struct {
		Findings []Finding `json:"findings"`
	}
	if err := json.Unmarshal(b, &f); err != nil {
		fmt.Fprintf(os.Stderr, "known_findings.json: %v\n", err)
		return nil
	}
	return f.Findings
}

// VerifRoot returns the /verif directory (VERIF_ROOT overrides, for snapshots).
func VerifRoot() string {
	if v := os.Getenv("VERIF_ROOT"); v != "" {
		return v
	}
	return "/verif"
}

// ScratchBase returns the directory under which scratch dirs are created.
func ScratchBase() string {
	if v := os.Getenv("VERIF_SCRATCH"); v != "" {
		return v
	}
	if st, err := os.Stat("/dev/shm"); err == nil && st.IsDir() {
		return "/dev/shm"
	}
	return os.TempDir()
}
