package core

import (
	"bufio"
	"bytes"
	"encoding/json"
	"fmt"
	"os"
	"os/exec"
	"path/filepath"
	"runtime"
	"runtime/debug"
	"sort"
	"strconv"
	"strings"
	"sync"
	"syscall"
	"time"
)

// Options for a parent run.
type Options struct {
	Tier     string
	Seed     int64
	Workers  int
	Verbose  bool
	SelfExe  string // path of the vcheck binary to use for workers
	RaceExe  string // path of the -race build (may be empty)
	OnlyCase int    // >=0: run a single case in-process (replay)
}

// RunWorker executes cases i = from, from+stride, ... < n and appends records
// to outPath. It is run in a child process.
func RunWorker(chk *Check, tier string, seed int64, from, stride, n int, outPath, scratch string) int {
	f, err := os.OpenFile(outPath, os.O_CREATE|os.O_WRONLY|os.O_APPEND, 0o644)
	if err != nil {
		fmt.Fprintln(os.Stderr, "worker: open out:", err)
		return 2
	}
	defer f.Close()
	enc := json.NewEncoder(f)
	timeout := chk.CaseTimeout
	if timeout == 0 {
		timeout = 120 * time.Second
	}
	if tier == "thorough" {
		timeout *= 3
	}
	for i := from; i < n; i += stride {
		_ = enc.Encode(caseRecord{Case: i, Begin: true})
		dir := filepath.Join(scratch, fmt.Sprintf("c%d", i))
		_ = os.MkdirAll(dir, 0o755)
		c := NewCase(chk.ID, tier, seed, i, dir)
		t0 := time.Now()
		done := make(chan any, 1)
		go func() {
			defer func() {
				if r := recover(); r != nil {
					done <- fmt.Sprintf("panic in harness goroutine: %v\n%s", r, debug.Stack())
					return
				}
				done <- nil
			}()
			chk.Run(c)
		}()
		select {
		case r := <-done:
			if r != nil {
				// A panic on the case goroutine itself (the harness calls into LiteFS
				// synchronously, so this may be a LiteFS panic): let the process die so
				// the parent attributes it; print the stack first.
				fmt.Fprintln(os.Stderr, r)
				return 4
			}
		case <-time.After(timeout):
			fmt.Fprintf(os.Stderr, "WATCHDOG case %d exceeded %s; goroutine dump follows\n", i, timeout)
			buf := make([]byte, 4<<20)
			buf = buf[:runtime.Stack(buf, true)]
			os.Stderr.Write(buf)
			CleanFuseMounts(dir)
			return 3
		}
		_ = enc.Encode(c.record(time.Since(t0)))
		_ = os.RemoveAll(dir)
	}
	return 0
}

// RunSingle runs one case in-process with verbose output (replay).
func RunSingle(chk *Check, tier string, seed int64, index int) int {
	scratch, err := os.MkdirTemp(ScratchBase(), "verif-replay-")
	if err != nil {
		fmt.Fprintln(os.Stderr, err)
		return 2
	}
	defer os.RemoveAll(scratch)
	defer CleanFuseMounts(scratch)
	c := NewCase(chk.ID, tier, seed, index, scratch)
	c.Verbose = true
	chk.Run(c)
	rec := c.record(0)
	findings := LoadFindings(VerifRoot())
	code := 0
	for _, v := range rec.Violations {
		if isKnown(findings, v) {
			fmt.Printf("KNOWN-FINDING: property=%s %s: %s\n", v.Property, v.Fingerprint, v.What)
			continue
		}
		fmt.Printf("VIOLATION property=%s replay=(this) fingerprint=%s what=%s\n", v.Property, v.Fingerprint, v.What)
		if os.Getenv("VERIF_REPLAY_DETAIL") != "" {
			if b, err := json.MarshalIndent(v.Detail, "", " "); err == nil {
				fmt.Printf("detail: %s\n", b)
			}
		}
		code = 1
	}
	b, _ := json.MarshalIndent(rec.Counters, "", " ")
	fmt.Printf("counters: %s\n", b)
	return code
}

func isKnown(findings []Finding, v Violation) bool {
	for _, f := range findings {
		if f.Status == "known" && f.Property == v.Property && f.Fingerprint == v.Fingerprint {
			return true
		}
	}
	return false
}

type workerState struct {
	id     int
	next   int // next case index to start from on (re)launch
	stderr bytes.Buffer
}

// RunParent runs the whole check: spawns workers, merges results, writes the
// evidence file, prints verdict lines and returns the exit code.
func RunParent(chk *Check, opt Options) int {
	t0 := time.Now()
	root := VerifRoot()
	n := chk.NumCases(opt.Tier)
	workers := opt.Workers
	if workers <= 0 {
		workers = runtime.NumCPU()
	}
	if chk.MaxWorkers > 0 && workers > chk.MaxWorkers {
		workers = chk.MaxWorkers
	}
	if workers > n {
		workers = n
	}
	if workers < 1 {
		workers = 1
	}
	exe := opt.SelfExe
	if chk.Race && opt.RaceExe != "" {
		exe = opt.RaceExe
	}
	scratch, err := os.MkdirTemp(ScratchBase(), "verif-"+chk.ID+"-")
	if err != nil {
		fmt.Fprintln(os.Stderr, "scratch:", err)
		return 2
	}
	defer os.RemoveAll(scratch)

	var (
		mu           sync.Mutex
		counters     = map[string]int{}
		distinct     = map[string]bool{}
		samples      []any
		violations   []Violation
		inconclusive []string
		completed    int
		crashes      int
		raceBlocks   int
		racePairs    = map[string]int{}
	)
	var wg sync.WaitGroup
	for w := 0; w < workers; w++ {
		wg.Add(1)
		go func(w int) {
			defer wg.Done()
			next := w
			relaunch := 0
			for next < n {
				out := filepath.Join(scratch, fmt.Sprintf("w%d-%d.jsonl", w, relaunch))
				wscratch := filepath.Join(scratch, fmt.Sprintf("w%d", w))
				_ = os.MkdirAll(wscratch, 0o755)
				errPath := filepath.Join(scratch, fmt.Sprintf("w%d-%d.stderr", w, relaunch))
				ef, _ := os.Create(errPath)
				cmd := exec.Command(exe, "worker", chk.ID,
					"--tier", opt.Tier, "--seed", strconv.FormatInt(opt.Seed, 10),
					"--from", strconv.Itoa(next), "--stride", strconv.Itoa(workers), "--n", strconv.Itoa(n),
					"--out", out, "--scratch", wscratch)
				cmd.Stdout = ef
				cmd.Stderr = ef
				cmd.SysProcAttr = &syscall.SysProcAttr{Setpgid: true}
				racelog := filepath.Join(scratch, fmt.Sprintf("race-w%d-%d", w, relaunch))
				cmd.Env = append(os.Environ(), "GORACE=halt_on_error=0 log_path="+racelog, "GOTRACEBACK=all")
				runErr := cmd.Start()
				if runErr == nil {
					// hard watchdog: a worker that stops writing to its record file for
					// far longer than the per-case watchdog allows is wedged (it cannot
					// even run its own watchdog, e.g. threads stuck in the kernel on a
					// FUSE mount): abort its mounts and kill it
					waited := make(chan struct{})
					go func() {
						limit := chk.CaseTimeout
						if limit == 0 {
							limit = 120 * time.Second
						}
						if opt.Tier == "thorough" {
							limit *= 3
						}
						limit += 90 * time.Second
						last, lastSize := time.Now(), int64(-1)
						for {
							select {
							case <-waited:
								return
							case <-time.After(5 * time.Second):
							}
							if st, err := os.Stat(out); err == nil && st.Size() != lastSize {
								last, lastSize = time.Now(), st.Size()
							}
							if time.Since(last) > limit {
								CleanFuseMounts(wscratch)
								_ = syscall.Kill(-cmd.Process.Pid, syscall.SIGKILL)
								last = time.Now()
							}
						}
					}()
					runErr = cmd.Wait()
					close(waited)
				}
				ef.Close()
				// kill stragglers in the process group and drop mounts they left
				if cmd.Process != nil {
					_ = syscall.Kill(-cmd.Process.Pid, syscall.SIGKILL)
				}
				CleanFuseMounts(wscratch)
				lastBegun, ended := -1, map[int]bool{}
				if rf, err := os.Open(out); err == nil {
					sc := bufio.NewScanner(rf)
					sc.Buffer(make([]byte, 1<<20), 64<<20)
					for sc.Scan() {
						var r caseRecord
						if json.Unmarshal(sc.Bytes(), &r) != nil {
							continue
						}
						if r.Begin {
							lastBegun = r.Case
							continue
						}
						if !r.End {
							continue
						}
						ended[r.Case] = true
						mu.Lock()
						completed++
						for k, v := range r.Counters {
							counters[k] += v
						}
						for _, k := range r.Distinct {
							distinct[k] = true
						}
						if len(samples) < 4 {
							samples = append(samples, r.Samples...)
						}
						violations = append(violations, r.Violations...)
						for _, s := range r.Inconclusive {
							inconclusive = append(inconclusive, fmt.Sprintf("case %d: %s", r.Case, s))
						}
						mu.Unlock()
					}
					rf.Close()
				}
				// race reports
				if matches, _ := filepath.Glob(racelog + "*"); len(matches) > 0 {
					for _, m := range matches {
						b, _ := os.ReadFile(m)
						if keep := os.Getenv("VERIF_RACELOG_DIR"); keep != "" {
							_ = os.MkdirAll(keep, 0o755)
							_ = os.WriteFile(filepath.Join(keep, chk.ID+"-"+filepath.Base(m)), b, 0o644)
						}
						blocks, pairs := ParseRaceLog(string(b))
						mu.Lock()
						raceBlocks += blocks
						for k, v := range pairs {
							racePairs[k] += v
						}
						mu.Unlock()
					}
				}
				if runErr == nil {
					break
				}
				// Worker died. Attribute to the last begun, unfinished case.
				stderrTail := tailFile(errPath, 6000)
				code := -1
				if ee, ok := runErr.(*exec.ExitError); ok {
					code = ee.ExitCode()
				}
				mu.Lock()
				crashes++
				if lastBegun >= 0 && !ended[lastBegun] {
					if code == 3 { // watchdog
						if chk.HangIsViolation {
							violations = append(violations, Violation{Property: chk.ID, Fingerprint: "hang/" + hangSite(stderrTail),
								What: "case did not finish within the watchdog", Tier: opt.Tier, Seed: opt.Seed, Case: lastBegun, Detail: stderrTail})
						} else {
							inconclusive = append(inconclusive, fmt.Sprintf("case %d: watchdog fired", lastBegun))
						}
					} else {
						site := CrashSite(readFile(errPath))
						violations = append(violations, Violation{Property: chk.ID, Fingerprint: "crash/" + site,
							What: fmt.Sprintf("worker process died (exit %d) while running this case: %s", code, firstFatalLine(readFile(errPath))),
							Tier: opt.Tier, Seed: opt.Seed, Case: lastBegun, Detail: stderrTail})
					}
					next = lastBegun + workers
				} else {
					// died outside a case: infrastructure problem
					inconclusive = append(inconclusive, fmt.Sprintf("worker %d died outside a case (exit %d): %s", w, code, lastLines(stderrTail, 3)))
					if lastBegun >= 0 {
						next = lastBegun + workers
					} else {
						next = n
					}
				}
				mu.Unlock()
				relaunch++
				if relaunch > 50 {
					mu.Lock()
					inconclusive = append(inconclusive, fmt.Sprintf("worker %d relaunched too often; remaining cases skipped", w))
					mu.Unlock()
					break
				}
			}
		}(w)
	}
	wg.Wait()

	// Race reports that are verdicts for this property.
	if chk.Race && chk.RaceIsViolation != nil {
		for pair, cnt := range racePairs {
			if chk.RaceIsViolation(pair) {
				violations = append(violations, Violation{Property: chk.ID, Fingerprint: chk.ID + "/data-race/" + pair,
					What: fmt.Sprintf("the race detector reported %d data race(s) between %s", cnt, pair), Tier: opt.Tier, Seed: opt.Seed, Case: -1})
			}
		}
	}

	// Verdicts.
	findings := LoadFindings(root)
	sort.Slice(violations, func(i, j int) bool {
		if violations[i].Case != violations[j].Case {
			return violations[i].Case < violations[j].Case
		}
		return violations[i].Fingerprint < violations[j].Fingerprint
	})
	exit := 0
	knownSeen := map[string]int{}
	newSeen := map[string]string{}
	for _, v := range violations {
		if isKnown(findings, v) {
			knownSeen[v.Fingerprint]++
			continue
		}
		if _, dup := newSeen[v.Fingerprint]; dup {
			continue
		}
		_ = os.MkdirAll(filepath.Join(root, "replays"), 0o755)
		p := filepath.Join(root, "replays", fmt.Sprintf("%s-%d-%d.json", chk.ID, opt.Seed, v.Case))
		b, _ := json.MarshalIndent(v, "", " ")
		_ = os.WriteFile(p, b, 0o644)
		newSeen[v.Fingerprint] = p
		exit = 1
	}
	for _, f := range findings {
		if f.Status == "known" && f.Property == chk.ID && knownSeen[f.Fingerprint] > 0 {
			fmt.Printf("KNOWN-FINDING: property=%s %s (%s) seen %d times\n", chk.ID, f.Fingerprint, f.What, knownSeen[f.Fingerprint])
		}
	}
	fps := make([]string, 0, len(newSeen))
	for k := range newSeen {
		fps = append(fps, k)
	}
	sort.Strings(fps)
	for _, fp := range fps {
		var what string
		for _, v := range violations {
			if v.Fingerprint == fp {
				what = v.What
				break
			}
		}
		fmt.Printf("VIOLATION property=%s replay=%s fingerprint=%s what=%q\n", chk.ID, newSeen[fp], fp, trunc(what, 300))
	}

	// Floors (only meaningful when no violation masked the workload).
	var floorMisses []string
	if chk.Floors != nil {
		fl := chk.Floors(opt.Tier)
		keys := make([]string, 0, len(fl))
		for k := range fl {
			keys = append(keys, k)
		}
		sort.Strings(keys)
		for _, k := range keys {
			if counters[k] < fl[k] {
				floorMisses = append(floorMisses, fmt.Sprintf("%s=%d<%d", k, counters[k], fl[k]))
			}
		}
	}
	if chk.MountFloors != nil && counters["kmount_unavailable"] == 0 && counters["drvc_unavailable"] == 0 {
		fl := chk.MountFloors(opt.Tier)
		keys := make([]string, 0, len(fl))
		for k := range fl {
			keys = append(keys, k)
		}
		sort.Strings(keys)
		for _, k := range keys {
			if counters[k] < fl[k] {
				floorMisses = append(floorMisses, fmt.Sprintf("%s=%d<%d", k, counters[k], fl[k]))
			}
		}
	}
	if completed == 0 {
		floorMisses = append(floorMisses, "no case completed")
	}

	// Evidence.
	evals := completed
	if chk.EvalCounter != "" && counters[chk.EvalCounter] > 0 {
		evals = counters[chk.EvalCounter]
	}
	if len(samples) == 0 {
		samples = append(samples, map[string]any{"note": "no sample recorded"})
	}
	cov := map[string]any{
		"evaluations":         evals,
		"distinct_nontrivial": len(distinct),
		"rule":                chk.Rule,
		"samples":             samples,
		"cases_total":         n,
		"cases_completed":     completed,
		"observed":            counters,
		"worker_crashes":      crashes,
		"inconclusive":        inconclusive,
		"floor_misses":        floorMisses,
		"known_findings_seen": knownSeen,
	}
	if chk.Explanation != "" {
		cov["explanation"] = chk.Explanation
	}
	if chk.Exhaustive {
		cov["exhaustive"] = true
	}
	if chk.Race {
		cov["race_report_blocks"] = raceBlocks
		cov["race_report_pairs"] = racePairs
	}
	if chk.Floors != nil {
		cov["floors"] = chk.Floors(opt.Tier)
	}
	if chk.MountFloors != nil {
		cov["mount_driver_floors"] = chk.MountFloors(opt.Tier)
		cov["mount_drivers_available"] = counters["kmount_unavailable"] == 0 && counters["drvc_unavailable"] == 0
	}
	ev := map[string]any{
		"property_id": chk.ID,
		"tier":        opt.Tier,
		"seed":        opt.Seed,
		"level":       chk.Level,
		"coverage":    cov,
		"assumptions": chk.Assumptions,
		"wall_s":      time.Since(t0).Seconds(),
		"violations":  len(newSeen),
	}
	_ = os.MkdirAll(filepath.Join(root, "evidence"), 0o755)
	eb, _ := json.MarshalIndent(ev, "", " ")
	if err := os.WriteFile(filepath.Join(root, "evidence", chk.ID+".json"), eb, 0o644); err != nil {
		fmt.Fprintln(os.Stderr, "evidence:", err)
		return 2
	}

	fmt.Printf("%s tier=%s seed=%d cases=%d/%d evaluations=%d distinct=%d crashes=%d inconclusive=%d wall=%.1fs\n",
		chk.ID, opt.Tier, opt.Seed, completed, n, evals, len(distinct), crashes, len(inconclusive), time.Since(t0).Seconds())
	if opt.Verbose || exit != 0 || len(floorMisses) > 0 {
		keys := make([]string, 0, len(counters))
		for k := range counters {
			keys = append(keys, k)
		}
		sort.Strings(keys)
		for _, k := range keys {
			fmt.Printf("  %-40s %d\n", k, counters[k])
		}
		for _, s := range inconclusive {
			fmt.Printf("  inconclusive: %s\n", trunc(s, 300))
		}
	}
	if exit != 0 {
		return exit
	}
	if len(floorMisses) > 0 {
		fmt.Printf("BROKEN-CHECK: property=%s evidence floor not met: %s\n", chk.ID, strings.Join(floorMisses, " "))
		return 2
	}
	return 0
}

func trunc(s string, n int) string {
	s = strings.ReplaceAll(s, "\n", " | ")
	if len(s) > n {
		return s[:n] + "…"
	}
	return s
}

func readFile(p string) string {
	b, _ := os.ReadFile(p)
	return string(b)
}

func tailFile(p string, n int) string {
	s := readFile(p)
	if len(s) > n {
		return s[len(s)-n:]
	}
	return s
}

func lastLines(s string, n int) string {
	ls := strings.Split(strings.TrimSpace(s), "\n")
	if len(ls) > n {
		ls = ls[len(ls)-n:]
	}
	return strings.Join(ls, " | ")
}

func firstFatalLine(s string) string {
	for _, l := range strings.Split(s, "\n") {
		if strings.HasPrefix(l, "panic:") || strings.HasPrefix(l, "fatal error:") {
			return trunc(l, 200)
		}
	}
	return lastLines(s, 2)
}

// CrashSite extracts "<kind>@<first litefs frame>" from a Go crash dump.
func CrashSite(s string) string {
	kind := "exit"
	lines := strings.Split(s, "\n")
	start := 0
	for i, l := range lines {
		if strings.HasPrefix(l, "panic:") {
			kind, start = "panic", i
			break
		}
		if strings.HasPrefix(l, "fatal error:") {
			kind, start = "fatal:"+strings.ReplaceAll(strings.TrimSpace(strings.TrimPrefix(l, "fatal error:")), " ", "-"), i
			break
		}
	}
	for _, l := range lines[start:] {
		l = strings.TrimSpace(l)
		if strings.HasPrefix(l, "github.com/superfly/litefs") {
			fn := l
			if i := strings.Index(fn, "("); i > 0 {
				// keep receiver types like (*DB) — cut at the args paren, which is the last "("
				if j := strings.LastIndex(fn, "("); j > 0 {
					fn = fn[:j]
				}
			}
			fn = strings.TrimPrefix(fn, "github.com/superfly/litefs")
			fn = strings.TrimPrefix(fn, "/")
			fn = strings.TrimPrefix(fn, ".")
			return kind + "@" + fn
		}
	}
	return kind + "@unknown"
}

func hangSite(s string) string {
	for _, l := range strings.Split(s, "\n") {
		l = strings.TrimSpace(l)
		if strings.HasPrefix(l, "github.com/superfly/litefs") {
			if j := strings.LastIndex(l, "("); j > 0 {
				l = l[:j]
			}
			return strings.TrimPrefix(l, "github.com/superfly/litefs")
		}
	}
	return "unknown"
}

// ParseRaceLog counts "WARNING: DATA RACE" blocks and reduces each to the pair
// of innermost litefs frames of its two stacks.
func ParseRaceLog(s string) (int, map[string]int) {
	pairs := map[string]int{}
	blocks := strings.Split(s, "WARNING: DATA RACE")
	n := 0
	for _, b := range blocks[1:] {
		n++
		var sites []string
		sections := strings.Split(b, "\n\n")
		for _, sec := range sections {
			if !(strings.Contains(sec, " by goroutine") || strings.Contains(sec, "by main goroutine")) {
				continue
			}
			if strings.HasPrefix(strings.TrimSpace(sec), "Goroutine") {
				continue
			}
			site := "?"
			for _, l := range strings.Split(sec, "\n") {
				l = strings.TrimSpace(l)
				if strings.HasPrefix(l, "github.com/superfly/litefs") {
					if j := strings.LastIndex(l, "("); j > 0 {
						l = l[:j]
					}
					site = strings.TrimPrefix(l, "github.com/superfly/litefs")
					break
				}
			}
			sites = append(sites, site)
			if len(sites) == 2 {
				break
			}
		}
		sort.Strings(sites)
		pairs[strings.Join(sites, " <-> ")]++
	}
	return n, pairs
}
