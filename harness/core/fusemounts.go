package core

import (
	"bufio"
	"os"
	"path/filepath"
	"strings"
	"syscall"
)

// CleanFuseMounts aborts and lazily unmounts every FUSE mount below dir. A
// worker that died (or hangs) with a kernel mount would otherwise leave the
// mount point answering ENOTCONN or, worse, keep processes in uninterruptible
// sleep. The connection id of a FUSE mount is the minor number of its device,
// which /proc/self/mountinfo gives; writing to its abort file in the fusectl
// file system fails every pending and future request.
func CleanFuseMounts(dir string) (n int) {
	f, err := os.Open("/proc/self/mountinfo")
	if err != nil {
		return 0
	}
	defer f.Close()
	type m struct{ dev, point string }
	var found []m
	sc := bufio.NewScanner(f)
	for sc.Scan() {
		fs := strings.Fields(sc.Text())
		// id parent major:minor root mountpoint opts ... - fstype source superopts
		if len(fs) < 10 {
			continue
		}
		sep := -1
		for i, x := range fs {
			if x == "-" {
				sep = i
				break
			}
		}
		if sep < 0 || sep+1 >= len(fs) || !strings.HasPrefix(fs[sep+1], "fuse") || fs[sep+1] == "fusectl" {
			continue
		}
		point := strings.ReplaceAll(fs[4], `\040`, " ")
		if point == dir || strings.HasPrefix(point, strings.TrimSuffix(dir, "/")+"/") {
			found = append(found, m{fs[2], point})
		}
	}
	if len(found) == 0 {
		return 0
	}
	ctl := "/sys/fs/fuse/connections"
	if ents, _ := os.ReadDir(ctl); len(ents) == 0 {
		_ = syscall.Mount("fusectl", ctl, "fusectl", 0, "")
	}
	for _, x := range found {
		if i := strings.IndexByte(x.dev, ':'); i >= 0 {
			_ = os.WriteFile(filepath.Join(ctl, x.dev[i+1:], "abort"), []byte("1"), 0o200)
		}
		_ = syscall.Unmount(x.point, syscall.MNT_DETACH)
		n++
	}
	return n
}
