package cluster

import (
	"context"
	"encoding/binary"
	"io"
	"sync"
	"sync/atomic"

	"github.com/superfly/litefs"
	"github.com/superfly/ltx"
)

// FrameEvent is one frame observed on a replica's stream.
type FrameEvent struct {
	Session int
	Type    uint32 // stream frame type
	Name    string
	// LTX frames:
	Min, Max   uint64
	Pre        uint64
	Snapshot   bool
	NodeID     uint64
	PosBefore  map[string][2]uint64 // replica position of that database when the frame began
	HeaderOK   bool
	BodyBytes  int
	HWM        uint64
	Incomplete bool
}

// Session summarises one stream session.
type Session struct {
	ID         int
	URL        string
	OpenErr    string
	EndErr     string
	Frames     int
	Heartbeats int
	LTX        int
	Ended      bool
}

// RecClient wraps a litefs.Client, records what passes and can inject faults.
type RecClient struct {
	Inner litefs.Client

	mu       sync.Mutex
	sessions []*Session
	frames   []FrameEvent
	calls    []string

	// PosSampler returns the replica's current position for a database name;
	// set by the cluster so LTX frames can record the position before apply.
	PosSampler func(name string) [2]uint64
	posMu      sync.RWMutex // guards PosSampler (set after the node has started streaming)

	// Before is consulted before each outgoing call (op = stream|halt|unhalt|commit);
	// a non-nil error fails the call without sending it.
	Before func(op string) error
	// After may turn a completed call into an error (lost response).
	After func(op string, err error) error

	Heartbeats atomic.Int64
	LTXFrames  atomic.Int64
}

var _ litefs.Client = (*RecClient)(nil)

func (c *RecClient) note(s string) {
	c.mu.Lock()
	c.calls = append(c.calls, s)
	c.mu.Unlock()
}

func (c *RecClient) Calls() []string {
	c.mu.Lock()
	defer c.mu.Unlock()
	return append([]string(nil), c.calls...)
}

func (c *RecClient) Frames() []FrameEvent {
	c.mu.Lock()
	defer c.mu.Unlock()
	return append([]FrameEvent(nil), c.frames...)
}

func (c *RecClient) Sessions() []Session {
	c.mu.Lock()
	defer c.mu.Unlock()
	out := make([]Session, len(c.sessions))
	for i, s := range c.sessions {
		out[i] = *s
	}
	return out
}

func (c *RecClient) AcquireHaltLock(ctx context.Context, primaryURL string, nodeID uint64, name string, lockID int64) (*litefs.HaltLock, error) {
	if f := c.Before; f != nil {
		if err := f("halt"); err != nil {
			c.note("halt:blocked")
			return nil, err
		}
	}
	hl, err := c.Inner.AcquireHaltLock(ctx, primaryURL, nodeID, name, lockID)
	if f := c.After; f != nil {
		if e2 := f("halt", err); e2 != nil && err == nil {
			c.note("halt:response-lost")
			return nil, e2
		}
	}
	if err != nil {
		c.note("halt:err")
	} else {
		c.note("halt:ok")
	}
	return hl, err
}

func (c *RecClient) ReleaseHaltLock(ctx context.Context, primaryURL string, nodeID uint64, name string, lockID int64) error {
	if f := c.Before; f != nil {
		if err := f("unhalt"); err != nil {
			c.note("unhalt:blocked")
			return err
		}
	}
	err := c.Inner.ReleaseHaltLock(ctx, primaryURL, nodeID, name, lockID)
	if f := c.After; f != nil {
		if e2 := f("unhalt", err); e2 != nil && err == nil {
			c.note("unhalt:response-lost")
			return e2
		}
	}
	if err != nil {
		c.note("unhalt:err")
	} else {
		c.note("unhalt:ok")
	}
	return err
}

func (c *RecClient) Commit(ctx context.Context, primaryURL string, nodeID uint64, name string, lockID int64, r io.Reader) error {
	if f := c.Before; f != nil {
		if err := f("commit"); err != nil {
			c.note("commit:blocked")
			return err
		}
	}
	err := c.Inner.Commit(ctx, primaryURL, nodeID, name, lockID, r)
	if f := c.After; f != nil {
		if e2 := f("commit", err); e2 != nil && err == nil {
			c.note("commit:response-lost")
			return e2
		}
	}
	if err != nil {
		c.note("commit:err")
	} else {
		c.note("commit:ok")
	}
	return err
}

func (c *RecClient) Stream(ctx context.Context, primaryURL string, nodeID uint64, posMap map[string]ltx.Pos, filter []string) (litefs.Stream, error) {
	c.mu.Lock()
	sess := &Session{ID: len(c.sessions), URL: primaryURL}
	c.sessions = append(c.sessions, sess)
	c.mu.Unlock()
	if f := c.Before; f != nil {
		if err := f("stream"); err != nil {
			c.mu.Lock()
			sess.OpenErr, sess.Ended = err.Error(), true
			c.mu.Unlock()
			return nil, err
		}
	}
	st, err := c.Inner.Stream(ctx, primaryURL, nodeID, posMap, filter)
	if err != nil {
		c.mu.Lock()
		sess.OpenErr, sess.Ended = err.Error(), true
		c.mu.Unlock()
		return nil, err
	}
	return &recStream{Stream: st, c: c, sess: sess}, nil
}

// recStream parses the byte stream it passes on, synchronously.
type recStream struct {
	litefs.Stream
	c    *RecClient
	sess *Session

	buf   []byte
	state int // 0 = want frame type, 1 = want fixed payload, 2 = in chunked body
	cur   FrameEvent
	body  []byte // first bytes of the LTX body (for the header)
	skip  int    // bytes of the current chunk still to consume
	inLTX bool
}

func (s *recStream) Read(p []byte) (int, error) {
	n, err := s.Stream.Read(p)
	if n > 0 {
		s.buf = append(s.buf, p[:n]...)
		s.parse()
	}
	if err != nil {
		s.c.mu.Lock()
		s.sess.EndErr, s.sess.Ended = err.Error(), true
		s.c.mu.Unlock()
	}
	return n, err
}

func (s *recStream) Close() error {
	s.c.mu.Lock()
	s.sess.Ended = true
	s.c.mu.Unlock()
	return s.Stream.Close()
}

func (s *recStream) emit(ev FrameEvent) {
	ev.Session = s.sess.ID
	s.c.mu.Lock()
	s.c.frames = append(s.c.frames, ev)
	s.sess.Frames++
	switch ev.Type {
	case 7:
		s.sess.Heartbeats++
	case 1:
		s.sess.LTX++
	}
	s.c.mu.Unlock()
	switch ev.Type {
	case 7:
		s.c.Heartbeats.Add(1)
	case 1:
		s.c.LTXFrames.Add(1)
	}
}

func (s *recStream) parse() {
	for {
		if s.inLTX {
			// chunked body
			if s.skip > 0 {
				k := s.skip
				if k > len(s.buf) {
					k = len(s.buf)
				}
				if len(s.body) < ltx.HeaderSize {
					need := ltx.HeaderSize - len(s.body)
					if need > k {
						need = k
					}
					s.body = append(s.body, s.buf[:need]...)
					if len(s.body) == ltx.HeaderSize && !s.cur.HeaderOK {
						var h ltx.Header
						if h.UnmarshalBinary(s.body) == nil {
							s.cur.HeaderOK = true
							s.cur.Min, s.cur.Max = uint64(h.MinTXID), uint64(h.MaxTXID)
							s.cur.Pre = uint64(h.PreApplyChecksum)
							s.cur.Snapshot = h.IsSnapshot()
							s.cur.NodeID = h.NodeID
						}
					}
				}
				s.cur.BodyBytes += k
				s.buf = s.buf[k:]
				s.skip -= k
				if s.skip > 0 {
					return
				}
				continue
			}
			if len(s.buf) < 2 {
				return
			}
			sz := int(binary.BigEndian.Uint16(s.buf))
			s.buf = s.buf[2:]
			if sz == 0 {
				s.inLTX = false
				s.emit(s.cur)
				s.cur = FrameEvent{}
				s.body = nil
				continue
			}
			s.skip = sz
			continue
		}
		if len(s.buf) < 4 {
			return
		}
		typ := binary.BigEndian.Uint32(s.buf)
		switch typ {
		case 1: // LTX: size(8) nameN(4) name
			if len(s.buf) < 16 {
				return
			}
			nameN := int(binary.BigEndian.Uint32(s.buf[12:]))
			if nameN > 1<<20 || len(s.buf) < 16+nameN {
				if nameN > 1<<20 {
					s.buf = nil
				}
				return
			}
			name := string(s.buf[16 : 16+nameN])
			s.buf = s.buf[16+nameN:]
			s.cur = FrameEvent{Type: 1, Name: name}
			s.c.posMu.RLock()
			f := s.c.PosSampler
			s.c.posMu.RUnlock()
			if f != nil {
				s.cur.PosBefore = map[string][2]uint64{name: f(name)}
			}
			s.inLTX = true
			s.body = nil
		case 2, 3:
			s.buf = s.buf[4:]
			s.emit(FrameEvent{Type: typ})
		case 4, 5: // nameN(4) name
			if len(s.buf) < 8 {
				return
			}
			nameN := int(binary.BigEndian.Uint32(s.buf[4:]))
			if nameN > 1<<20 {
				s.buf = nil
				return
			}
			if len(s.buf) < 8+nameN {
				return
			}
			ev := FrameEvent{Type: typ, Name: string(s.buf[8 : 8+nameN])}
			s.buf = s.buf[8+nameN:]
			s.emit(ev)
		case 6: // txid(8) nameN(4) name
			if len(s.buf) < 16 {
				return
			}
			nameN := int(binary.BigEndian.Uint32(s.buf[12:]))
			if nameN > 1<<20 {
				s.buf = nil
				return
			}
			if len(s.buf) < 16+nameN {
				return
			}
			ev := FrameEvent{Type: 6, HWM: binary.BigEndian.Uint64(s.buf[4:]), Name: string(s.buf[16 : 16+nameN])}
			s.buf = s.buf[16+nameN:]
			s.emit(ev)
		case 7:
			if len(s.buf) < 12 {
				return
			}
			s.buf = s.buf[12:]
			s.emit(FrameEvent{Type: 7})
		default:
			// unknown: stop parsing this session
			s.buf = nil
			return
		}
	}
}

// SetPosSampler installs the position sampler (safe while streams are running).
func (c *RecClient) SetPosSampler(f func(name string) [2]uint64) {
	c.posMu.Lock()
	c.PosSampler = f
	c.posMu.Unlock()
}
